#!/bin/bash
# Run once after a fresh restore (offline): warms the Go build cache with the
# race-instrumented standard library, the repository packages (tag verif) and
# every check binary, so that the per-check rebuilds are incremental.
cd "$(dirname "$0")" || exit 1
. ./env.sh
set -e
python3 - <<'PY'
import importlib.machinery, importlib.util, os, sys
loader = importlib.machinery.SourceFileLoader("check", os.path.join(os.getcwd(), "check"))
spec = importlib.util.spec_from_loader("check", loader)
m = importlib.util.module_from_spec(spec); loader.exec_module(m)
work = os.path.join(m.VERIF, ".work", "setup")
import subprocess
mod, ov = m.prepare_build_files(work)
cmds = sorted(d for d in os.listdir(os.path.join(m.VERIF, "harness", "cmd")))
os.makedirs(os.path.join(work, "bin"), exist_ok=True)
import json
claimed = [c["property_id"].lower() for c in json.load(open(os.path.join(m.VERIF, "MANIFEST.json")))["checks"]]
rc = 0
for c in cmds:
    mod, ov = m.prepare_build_files(work, c.upper())  # each check is built with its own accessors only
    r = subprocess.call(["go", "build", "-race", "-tags", "verif", "-modfile=" + mod, "-overlay=" + ov,
                         "-o", os.path.join(work, "bin") + "/", "./cmd/" + c],
                        cwd=os.path.join(m.VERIF, "harness"), env=m.env_go())
    if r != 0 and c in claimed:
        rc = r
# the real relay binary (C14, C20) with the race detector
for c in ("C14", "C20"):
  mod, ov = m.prepare_build_files(work, c)
  subprocess.call(["go", "build", "-race", "-tags", "verif", "-modfile=" + mod, "-overlay=" + ov,
                 "-o", os.path.join(work, "bin") + "/", "github.com/grafana/carbon-relay-ng/cmd/carbon-relay-ng"],
                cwd=os.path.join(m.VERIF, "harness"), env=m.env_go())
import shutil
shutil.rmtree(os.path.join(work, "bin"), ignore_errors=True)
sys.exit(rc)
PY
echo "setup ok"
