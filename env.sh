# sourced by every script: offline Go settings
export GOFLAGS=-mod=mod GOPROXY=off GOSUMDB=off GOTOOLCHAIN=local
export CGO_ENABLED=1
