#!/bin/bash
# usage: verify_seeded.sh <mutant dir with patch.diff demo_test.go meta.json> <pkgdir> <TestName> [ID ...]
# 1. patch applies, tree builds (with and without tag), pinned tests pass with the patch
# 2. demo fails with the patch, passes without
# 3. run the given checks against the patched tree
set -u
. /verif/env.sh
d=$(readlink -f "$1"); pkg=$2; tname=$3; shift 3
wt=/tmp/vs-$$-$RANDOM
git -C /repo worktree add --detach "$wt" HEAD >/dev/null 2>&1 || exit 2
trap 'git -C /repo worktree remove --force "$wt" >/dev/null 2>&1' EXIT
cd "$wt"
git apply "$d/patch.diff" || { echo "RESULT $d: PATCH-DOES-NOT-APPLY"; exit 1; }
go build ./... && go build -tags verif ./... || { echo "RESULT $d: DOES-NOT-BUILD"; exit 1; }
suite_ok=0
for try in 1 2 3; do
  if go test -vet=off -count=1 ./... >/tmp/vs-suite-$$.log 2>&1; then suite_ok=1; break; fi
  echo "suite attempt $try failed in: $(grep -E '^(--- FAIL|FAIL)' /tmp/vs-suite-$$.log | tr '\n' ' ')"
done
if [ $suite_ok = 1 ]; then echo "suite: pass with patch"; else echo "RESULT $d: SUITE-FAILS-WITH-PATCH"; grep -E '^(--- FAIL|FAIL|panic)' /tmp/vs-suite-$$.log | head; exit 1; fi
cp "$d"/demo_test.go "$pkg"/zz_demo_test.go
if go test -tags verif -vet=off -count=1 -run "$tname" ./"$pkg"/ >/tmp/vs-demo1-$$.log 2>&1; then echo "RESULT $d: DEMO-PASSES-WITH-PATCH (bad)"; exit 1; else echo "demo: fails with patch (good)"; fi
git checkout -- . ; 
if go test -tags verif -vet=off -count=1 -run "$tname" ./"$pkg"/ >/tmp/vs-demo2-$$.log 2>&1; then echo "demo: passes without patch (good)"; else echo "RESULT $d: DEMO-FAILS-WITHOUT-PATCH (bad)"; tail -5 /tmp/vs-demo2-$$.log; exit 1; fi
rm -f "$pkg"/zz_demo_test.go
git apply "$d/patch.diff"
cd /verif
for id in "$@"; do
  out=$(VERIF_REPO=$wt VERIF_WATCHDOG=${VERIF_WATCHDOG:-900} ./check "$id" 2>&1); rc=$?
  echo "CHECK $id rc=$rc"
  echo "$out" | grep -E "VIOLATION" | cut -c1-300 | head -6; echo "$out" | grep -E "HARNESS-ERROR|OK property|INCONCLUSIVE" | cut -c1-300 | head -3
done
rm -rf /verif/.work/*-$(echo -n "$wt" | sha1sum | cut -c1-8)-* /tmp/vs-*-$$.log
echo "RESULT $d: CONFIRMED"
