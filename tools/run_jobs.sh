#!/bin/bash
# usage: run_jobs.sh <jobs file> <log>: runs tools/verify_seeded.sh for every line of the jobs file (lines appended
# while it runs are picked up), one at a time; stops when the file "<jobs file>.stop" exists and the queue is empty.
jobs=$1; log=$2; n=0
while :; do
  total=$(wc -l < "$jobs" 2>/dev/null || echo 0)
  if [ "$n" -lt "$total" ]; then
    n=$((n+1)); line=$(sed -n "${n}p" "$jobs")
    [ -z "$line" ] && continue
    echo "JOB $line" >> "$log"
    /verif/tools/verify_seeded.sh $line >> "$log" 2>&1
  else
    [ -e "$jobs.stop" ] && break
    sleep 10
  fi
done
