#!/bin/bash
# usage: try_mutant.sh <patch> <ID> [<ID>...]   — applies the patch to a scratch worktree of /repo HEAD,
# runs the given checks against it (VERIF_REPO), prints their verdict lines, removes the worktree.
set -u
patch=$(readlink -f "$1"); shift
wt=/tmp/mt-$$-$RANDOM
git -C /repo worktree add --detach "$wt" HEAD >/dev/null 2>&1 || { echo "worktree failed"; exit 2; }
if ! git -C "$wt" apply "$patch"; then echo "PATCH DOES NOT APPLY: $patch"; git -C /repo worktree remove --force "$wt"; exit 2; fi
cd /verif
for id in "$@"; do
  out=$(VERIF_REPO=$wt VERIF_WATCHDOG=${VERIF_WATCHDOG:-600} ./check "$id" 2>&1); rc=$?
  echo "== $id rc=$rc on $(basename $patch)"
  echo "$out" | grep -E "VIOLATION|KNOWN-FINDING|HARNESS-ERROR|OK property|INCONCLUSIVE" | cut -c1-400 | head -6
done
rm -rf /verif/.work/*-$(echo -n "$wt" | sha1sum | cut -c1-8)-*
git -C /repo worktree remove --force "$wt"
