#!/usr/bin/env python3
"""prints the prompt for a blind mutant-writing sub-agent: property text + worktree only"""
import json, sys
pid = sys.argv[1]; n = sys.argv[2] if len(sys.argv) > 2 else "3"
wave = sys.argv[3] if len(sys.argv) > 3 else ""
import glob, os
avoid = ""
if wave:
    ideas = []
    for m in sorted(glob.glob('/verif/seeded/%s-*/meta.json' % pid)):
        ideas.append("  - " + json.load(open(m)).get("summary", "")[:300])
    if ideas:
        avoid = "\nAn earlier round already produced the following changes for this property; do NOT repeat these ideas or close variants of them (choose other code sites and other mechanisms):\n" + "\n".join(ideas) + "\n"
for l in open('/verif/properties.jsonl'):
    p = json.loads(l)
    if p['id'] == pid:
        break
print(f"""You are helping to evaluate a verification tool for the Go project graphite-ng/carbon-relay-ng (a Graphite carbon metrics relay). You have your own scratch git worktree of the project at /tmp/mut{wave}-{pid} . Work ONLY inside /tmp/mut{wave}-{pid} and your output directory /tmp/mutout{wave}-{pid}/ ; do not read or touch /repo, /verif or any other directory (apart from the Go toolchain / module cache for reading dependency sources).

The property (this is all you are given):

  Title: {p['title']}
  Statement: {p['statement']}
  Quantified over: {p['quantifier']['text']}

Task: produce {n} independent, realistic changes to the project's source, each of which BREAKS this property while the project still compiles and its existing test suite still passes unchanged. Think of plausible regressions a maintainer could introduce in a refactoring, optimisation or bug-fix gone slightly wrong. Prefer changes that need something specific to manifest — a particular interleaving, a crash or fault at a particular point, a multi-step sequence of operations, an unusual input or configuration value, or two cooperating sites that each look fine alone — NOT ones that ordinary use would expose at once (not "always drop everything"). Make the {n} changes different in kind from one another (different mechanism / different code site).

{avoid}
Rules
* Every shell call: export GOFLAGS=-mod=mod GOPROXY=off GOSUMDB=off GOTOOLCHAIN=local  (offline sandbox; nothing can be downloaded).
* The change must compile (`go build ./...` and `go build -tags verif ./...`) and `go test -vet=off -count=1 ./...` in the worktree must still pass with the change applied (the existing tests, unedited).
* Do not edit *_test.go files, files named verif_hook_*.go, or lines calling verifPoint(...) / verifCrashPoint(...) (test instrumentation; leave as is). Do not change exported function signatures or struct field names.
* For each change k = 1..{n} write into /tmp/mutout{wave}-{pid}/<k>/ :
    - patch.diff   : `git diff` of the change against the worktree HEAD (must apply with `git apply` on a clean tree)
    - a demonstration: a Go test file (say demo_test.go, with a comment at the top saying into which package directory it has to be copied and the exact `go test -run ... ` command) or a small program, that FAILS (or shows the violation) with the change applied and PASSES on the unchanged tree. Actually run both and record the outputs in demo_output.txt.
    - meta.json    : {{"property": "{pid}", "summary": "...one line...", "needs_to_manifest": "...what specific condition triggers it...", "files_touched": [...], "demo_cmd": "..."}}
* Never use `git stash` (the stash is shared by all worktrees of the repository and other agents work in sibling worktrees); save a change with `git diff > file` and restore with `git apply file`.
* Between changes reset the worktree: git -C /tmp/mut{wave}-{pid} checkout -- . && git -C /tmp/mut{wave}-{pid} clean -fdq . Leave the worktree clean at the end.
* Final message: for each change, one paragraph: what it is, why it breaks the property, what it needs to manifest, and confirmation that build + existing tests pass and the demo fails-with / passes-without.""")
