#!/usr/bin/env python3
"""prints the markdown table of seeded changes (DESIGN.md §10.4) from seeded/*/meta.json"""
import json, glob, os
rows = []
for m in sorted(glob.glob(os.path.join(os.path.dirname(os.path.dirname(os.path.abspath(__file__))), "seeded", "*", "meta.json"))):
    d = os.path.basename(os.path.dirname(m))
    j = json.load(open(m))
    needs = (j.get("needs_to_manifest") or "").replace("\n", " ").replace("|", "/")
    if len(needs) > 230:
        needs = needs[:227] + "..."
    summ = (j.get("summary") or "").replace("\n", " ").replace("|", "/")
    if len(summ) > 160:
        summ = summ[:157] + "..."
    res = "; ".join("%s %s" % (k, v.replace("|", "/")) for k, v in sorted(j.get("checks_run", {}).items()))
    if len(res) > 330:
        res = res[:327] + "..."
    rows.append("| %s | %s | %s | %s |" % (d, summ, needs, res))
print("| seeded change | what it is | what it needs to manifest | checks run against it |")
print("|---|---|---|---|")
print("\n".join(rows))
