#!/usr/bin/env python3
"""Imports verified seeded changes into /verif/seeded/ from the logs written by tools/verify_seeded.sh.

usage: import_seeded.py <log> [<log> ...]
A change is imported only when its log block ends in "RESULT <dir>: CONFIRMED" (patch applies to /repo HEAD,
builds with and without the tag, pinned suite passes with it, demo fails with it and passes without it).
For every check that was run against it the verdict (caught / silent / inconclusive) and the first
signatures are recorded in meta.json."""
import json, os, re, shutil, sys

VERIF = os.path.dirname(os.path.dirname(os.path.abspath(__file__)))


def blocks(text):
    cur = []
    for line in text.splitlines():
        cur.append(line)
        m = re.match(r"RESULT (\S+): (.*)$", line)
        if m:
            yield m.group(1), m.group(2), cur
            cur = []


def main():
    seen = {}
    for log in sys.argv[1:]:
        for d, verdict, lines in blocks(open(log, errors="replace").read()):
            checks = {}
            cid = None
            for l in lines:
                m = re.match(r"CHECK (C\d+) rc=(\d+)", l)
                if m:
                    cid = m.group(1)
                    checks[cid] = {"rc": int(m.group(2)), "sigs": []}
                    continue
                m = re.search(r"VIOLATION property=(C\d+) .*? sig=(\S+)", l)
                if m and cid:
                    if m.group(2) not in checks[cid]["sigs"]:
                        checks[cid]["sigs"].append(m.group(2))
            if d in seen and seen[d][0] == "CONFIRMED":
                # the same change verified again (e.g. after a check was strengthened): later results win per check,
                # the first result is kept for the record
                old = seen[d][1]
                for c, v in checks.items():
                    if c in old and old[c]["rc"] != v["rc"]:
                        v["first_rc"] = old[c].get("first_rc", old[c]["rc"])
                    old[c] = v
                if verdict == "CONFIRMED":
                    seen[d] = (verdict, old)
            else:
                seen[d] = (verdict, checks)
    os.makedirs(os.path.join(VERIF, "seeded"), exist_ok=True)
    for d, (verdict, checks) in sorted(seen.items()):
        if verdict != "CONFIRMED":
            print("NOT IMPORTED", d, verdict)
            continue
        if not os.path.isdir(d):
            print("source gone", d)
            continue
        meta = json.load(open(os.path.join(d, "meta.json")))
        prop = meta.get("property", "C??")
        k = os.path.basename(d.rstrip("/"))
        slug = re.sub(r"[^a-z0-9]+", "-", meta.get("summary", "")[:48].lower()).strip("-")
        if d.startswith(os.path.join(VERIF, "seeded")):
            dst = d
        else:
            mw = re.search(r"/mutout(\d+)-", d)
            wave = "w%s-" % mw.group(1) if mw else ""
            dst = os.path.join(VERIF, "seeded", "%s-%s%s-%s" % (prop, wave, k, slug))
            os.makedirs(dst, exist_ok=True)
            for f in os.listdir(d):
                if f in ("patch.diff", "demo_test.go", "demo_output.txt") or (f.endswith(".sh") and os.path.getsize(os.path.join(d, f)) < 20000):
                    shutil.copy(os.path.join(d, f), dst)
        res = {}
        for c, v in checks.items():
            if v["rc"] == 1:
                res[c] = "caught: " + ", ".join(v["sigs"][:6])
            elif v["rc"] == 0:
                res[c] = "silent"
            else:
                res[c] = "inconclusive (exit %d)" % v["rc"]
            if "first_rc" in v and v["first_rc"] != v["rc"]:
                res[c] += " (after the check was strengthened; first run: %s)" % {0: "silent", 1: "caught", 2: "harness did not build (exit 2)"}.get(v["first_rc"], "exit %d" % v["first_rc"])
        meta["origin"] = "blind sub-agent: given only the property text and a scratch worktree"
        meta["verified_by_me"] = "tools/verify_seeded.sh: patch applies to /repo HEAD, builds with and without the verif tag, pinned suite passes with the patch, demo fails with the patch and passes without"
        prev = meta.get("checks_run", {}) if d.startswith(os.path.join(VERIF, "seeded")) else {}
        merged = dict(prev)
        for c, v in res.items():
            pv = prev.get(c)
            head = lambda x: x.split(":")[0].split(" (")[0]
            if not pv:
                merged[c] = v
            elif head(pv) != head(v):
                first = pv.split("first run: ")[1].rstrip(")") if "first run: " in pv else head(pv)
                base = v.split(" (after the check was strengthened")[0]
                merged[c] = base if head(first) == head(base) and "first run: " not in pv else "%s (after the check was strengthened; first run: %s)" % (base, first)
        res = merged
        meta["checks_run"] = res
        json.dump(meta, open(os.path.join(dst, "meta.json"), "w"), indent=1)
        print("imported", os.path.basename(dst), res)


if __name__ == "__main__":
    main()
