#!/usr/bin/env python3
"""queue_mut.py <mutout dir of one property> [extra check ids...]: appends one verification job per change
(<dir>/<k>) to the shorter of /tmp/x/jobs.txt and /tmp/x/jobs2.txt (see tools/verify_seeded.sh)."""
import glob, json, os, re, sys
root = sys.argv[1].rstrip("/")
extra = sys.argv[2:]
pkgs = ["cmd/carbon-relay-ng", "table", "route", "input", "validate", "aggregator", "destination", "rewriter", "matcher", "cfg", "imperatives", "nsqd", "persister", "badmetrics", "clock", "util", "stats"]
for d in sorted(glob.glob(root + "/[0-9]*")):
    meta = json.load(open(os.path.join(d, "meta.json")))
    prop = meta.get("property")
    demo = os.path.join(d, "demo_test.go")
    if not os.path.exists(demo):
        c = sorted(glob.glob(d + "/*_test.go"))
        if not c:
            print("no demo in", d); continue
        os.system("cp %s %s" % (c[0], demo))
    src = open(demo).read()
    head = "\n".join(src.splitlines()[:25]) + " " + meta.get("demo_cmd", "")
    pkgdir = None
    for p in pkgs:
        if re.search(r"(^|[\s/`'\"])%s/" % re.escape(p), head) or re.search(r"\./%s(/|\b)" % re.escape(p), head):
            pkgdir = p; break
    if not pkgdir:
        m = re.search(r"^package (\w+)", src, re.M)
        name = m.group(1).replace("_test", "") if m else ""
        pkgdir = "cmd/carbon-relay-ng" if name == "main" else name
    tests = re.findall(r"^func (Test\w+)", src, re.M)
    line = "%s %s %s %s" % (d, pkgdir, "|".join(tests) if len(tests) < 4 else tests[0], " ".join([prop] + extra))
    f1, f2 = "/tmp/x/jobs.txt", "/tmp/x/jobs2.txt"
    n1 = len(open(f1).read().splitlines()); n2 = len(open(f2).read().splitlines())
    with open(f1 if n1 <= n2 else f2, "a") as f:
        f.write(line + "\n")
    print("queued", line)
