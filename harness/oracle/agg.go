// Package oracle holds reference models written from the documentation and
// the property texts, never from the code under test.
//
// agg.go — aggregation model (C10, C11).
//
// Sources: docs/aggregation.md ("bucketing", "functions", "configuration") and
// the statement of property C10:
//
//   - a point belongs to the bucket (expanded output name, ts − ts mod interval);
//   - when a tick finds that `wait` seconds have passed since the bucket start
//     (tick − wait ≥ bucket start) the bucket is emitted: one line
//     "<name> <value> <bucket start>", value with six decimals; the percentiles
//     function emits one line per percentile, "<name>.pNN";
//   - buckets are emitted in ascending timestamp order, never twice; points for
//     a closed bucket are counted as too old and produce nothing.
//
// The ten functions (table in docs/aggregation.md):
//
//	avg     mean                     count  number of values
//	delta   highest − lowest         derive (newest − oldest value) / (newest − oldest timestamp),
//	                                        needs two distinct timestamps, otherwise no output
//	last    last value seen (arrival order)
//	max/min highest / lowest         stdev  standard deviation (of the values as a population)
//	sum     sum                      percentiles p25 p50 p75 p90 p95 p99, NIST / Hyndman-Fan R6
//
// This file imports nothing from the repository.
package oracle

import (
	"fmt"
	"math"
	"sort"
	"strconv"
	"strings"
)

// AggFunctions are the ten documented aggregation functions.
var AggFunctions = []string{"avg", "count", "delta", "derive", "last", "max", "min", "stdev", "sum", "percentiles"}

// PercentileNames are the suffixes the percentiles function appends.
var PercentileNames = []string{"p25", "p50", "p75", "p90", "p95", "p99"}

var percentileP = map[string]float64{"p25": 25, "p50": 50, "p75": 75, "p90": 90, "p95": 95, "p99": 99}

// Bucket is the start of the time bucket of ts: ts rounded down to the interval.
func Bucket(ts uint32, interval uint) uint32 {
	return ts - ts%uint32(interval)
}

// Pt is one contributed point; slices of Pt are in arrival order.
type Pt struct {
	Val float64 `json:"v"`
	Ts  uint32  `json:"ts"`
}

// RefLine is one expected output line of a bucket: Suffix is "" for the
// single-valued functions and "pNN" for percentiles. Vals lists the acceptable
// values: more than one only where the documentation leaves a tie open (derive
// with several points on the oldest or newest timestamp).
type RefLine struct {
	Suffix string
	Vals   []float64
}

// AggRef computes what a bucket holding pts (arrival order) must emit.
// ok=false: the bucket emits nothing (no points; derive without two distinct timestamps).
func AggRef(fun string, pts []Pt) (lines []RefLine, ok bool) {
	n := len(pts)
	if n == 0 {
		return nil, false
	}
	one := func(v float64) ([]RefLine, bool) { return []RefLine{{"", []float64{v}}}, true }
	switch fun {
	case "avg":
		s := 0.0
		for _, p := range pts {
			s += p.Val
		}
		return one(s / float64(n))
	case "count":
		return one(float64(n))
	case "sum":
		s := 0.0
		for _, p := range pts {
			s += p.Val
		}
		return one(s)
	case "max", "min", "delta":
		hi, lo := pts[0].Val, pts[0].Val
		for _, p := range pts {
			hi = math.Max(hi, p.Val)
			lo = math.Min(lo, p.Val)
		}
		switch fun {
		case "max":
			return one(hi)
		case "min":
			return one(lo)
		}
		return one(hi - lo)
	case "last":
		return one(pts[n-1].Val)
	case "stdev":
		mean := 0.0
		for _, p := range pts {
			mean += p.Val
		}
		mean /= float64(n)
		acc := 0.0
		for _, p := range pts {
			acc += (p.Val - mean) * (p.Val - mean)
		}
		return one(math.Sqrt(acc / float64(n)))
	case "derive":
		tOld, tNew := pts[0].Ts, pts[0].Ts
		for _, p := range pts {
			if p.Ts < tOld {
				tOld = p.Ts
			}
			if p.Ts > tNew {
				tNew = p.Ts
			}
		}
		if tOld == tNew {
			return nil, false
		}
		var olds, news []float64
		for _, p := range pts {
			if p.Ts == tOld {
				olds = append(olds, p.Val)
			}
			if p.Ts == tNew {
				news = append(news, p.Val)
			}
		}
		var vals []float64
		for _, o := range olds {
			for _, w := range news {
				vals = append(vals, (w-o)/float64(tNew-tOld))
			}
		}
		return []RefLine{{"", vals}}, true
	case "percentiles":
		ys := make([]float64, n)
		for i, p := range pts {
			ys[i] = p.Val
		}
		sort.Float64s(ys)
		for _, name := range PercentileNames {
			lines = append(lines, RefLine{name, []float64{PercentileR6(ys, percentileP[name])}})
		}
		return lines, true
	}
	panic("oracle.AggRef: unknown function " + fun)
}

// PercentileR6 is the NIST handbook definition (Hyndman & Fan type 6): with the
// N values sorted Y(1)..Y(N), rank p(N+1)/100 = k + d, k integer part, d fraction:
// k = 0 → Y(1); k ≥ N → Y(N); otherwise Y(k) + d·(Y(k+1) − Y(k)).
func PercentileR6(sorted []float64, p float64) float64 {
	n := len(sorted)
	rank := p * float64(n+1) / 100
	k := math.Floor(rank)
	d := rank - k
	switch {
	case k < 1:
		return sorted[0]
	case int(k) >= n:
		return sorted[n-1]
	}
	return sorted[int(k)-1] + d*(sorted[int(k)]-sorted[int(k)-1])
}

// ValueClose is the value tolerance of C10: |Δ| ≤ 1e-6·max(1,|ref|).
func ValueClose(got, ref float64) bool {
	return math.Abs(got-ref) <= 1e-6*math.Max(1, math.Abs(ref))
}

// AggLine is a parsed aggregation output line.
type AggLine struct {
	Name string
	Val  float64
	Ts   uint32
	Raw  string
}

// ParseAggLine parses "<name> <value> <ts>" and insists on the documented
// rendering: single blanks, value in plain decimal notation with exactly six decimals.
func ParseAggLine(s string) (AggLine, error) {
	f := strings.Split(s, " ")
	if len(f) != 3 || f[0] == "" {
		return AggLine{}, fmt.Errorf("not of the form \"name value timestamp\"")
	}
	v := f[1]
	body := strings.TrimPrefix(v, "-")
	dot := strings.IndexByte(body, '.')
	if dot < 1 || len(body)-dot-1 != 6 {
		return AggLine{}, fmt.Errorf("value %q is not rendered with six decimals", v)
	}
	for i, c := range body {
		if i != dot && (c < '0' || c > '9') {
			return AggLine{}, fmt.Errorf("value %q is not rendered with six decimals", v)
		}
	}
	val, err := strconv.ParseFloat(v, 64)
	if err != nil {
		return AggLine{}, fmt.Errorf("value %q: %v", v, err)
	}
	ts, err := strconv.ParseUint(f[2], 10, 32)
	if err != nil {
		return AggLine{}, fmt.Errorf("timestamp %q: %v", f[2], err)
	}
	return AggLine{Name: f[0], Val: val, Ts: uint32(ts), Raw: s}, nil
}

// ---------------------------------------------------------------------------
// bucket model over a history

// Class of a point at the moment it is processed.
type Class int

const (
	Open   Class = iota // bucket start > now − wait: must contribute exactly once
	Late                // bucket start ≤ now − wait but no tick has closed it yet: outcome not fixed
	Closed              // a tick with tick − wait ≥ bucket start was already delivered: too old, no output
)

func (c Class) String() string { return [...]string{"open", "late", "closed"}[c] }

// BK identifies a bucket.
type BK struct {
	Name   string
	Bucket uint32
}

type contrib struct {
	Pt
	seq      int
	optional bool // late point that was counted too old: may or may not have contributed
}

// AggClock is the part of the model that decides the class of a point: the
// rule's interval and wait plus the highest (tick − wait) delivered so far.
type AggClock struct {
	Interval uint
	Wait     uint
	HaveTick bool
	LastCut  int64 // highest tick − wait seen so far (seconds)
}

// Classify tells the class of a point with timestamp ts processed when the clock shows nowSec.
func (c *AggClock) Classify(ts uint32, nowSec int64) Class {
	b := int64(Bucket(ts, c.Interval))
	if c.HaveTick && c.LastCut >= b {
		return Closed
	}
	if b > nowSec-int64(c.Wait) {
		return Open
	}
	return Late
}

// SawTick records a tick (value in whole seconds) and returns tick − wait.
func (c *AggClock) SawTick(tickSec int64) int64 {
	cut := tickSec - int64(c.Wait)
	if !c.HaveTick || cut > c.LastCut {
		c.LastCut = cut
		c.HaveTick = true
	}
	return cut
}

// AggModel follows one aggregation rule through a history of points and ticks.
type AggModel struct {
	AggClock
	Fun string

	seq     int
	pending map[BK][]contrib
	emitted map[BK]bool // a line for this bucket was seen
	wasDue  map[BK]bool // the bucket held contributions when a tick closed it
	NOpen   int
	NLate   int
	NClosed int
}

func NewAggModel(fun string, interval, wait uint) *AggModel {
	return &AggModel{AggClock: AggClock{Interval: interval, Wait: wait}, Fun: fun, pending: map[BK][]contrib{}, emitted: map[BK]bool{}, wasDue: map[BK]bool{}}
}

// LateCount is the number of late points recorded so far for the bucket (the
// generator keeps this ≤ 8 so that the subset search stays small).
func (m *AggModel) LateCount(name string, ts uint32) int {
	n := 0
	for _, c := range m.pending[BK{name, Bucket(ts, m.Interval)}] {
		if c.optional {
			n++
		}
	}
	return n
}

// Point records a matching point. countedTooOld is what the too-old counter did
// for this very point. It returns the class and, if the observation already
// refutes the property, a (signature, message).
func (m *AggModel) Point(name string, val float64, ts uint32, nowSec int64, countedTooOld bool) (Class, string, string) {
	cl := m.Classify(ts, nowSec)
	k := BK{name, Bucket(ts, m.Interval)}
	m.seq++
	switch cl {
	case Open:
		m.NOpen++
		m.pending[k] = append(m.pending[k], contrib{Pt{val, ts}, m.seq, false})
	case Late:
		m.NLate++
		// either contributed or counted: a late point that was not counted must contribute
		m.pending[k] = append(m.pending[k], contrib{Pt{val, ts}, m.seq, countedTooOld})
	case Closed:
		m.NClosed++
		if !countedTooOld {
			return cl, "closed-not-counted", fmt.Sprintf("point %s %v %d for bucket %d, closed by an earlier tick (tick−wait=%d), was not counted in what=TooOld", name, val, ts, k.Bucket, m.LastCut)
		}
	}
	return cl, "", ""
}

// Problem is a refuting observation found while checking a flush.
type Problem struct {
	Sig string
	Msg string
}

// Tick checks the lines emitted in response to a tick (in emission order) and
// closes the buckets that are due. tickSec is the tick value in whole seconds.
func (m *AggModel) Tick(tickSec int64, lines []string) (probs []Problem, nEmitted int, nSubsetSearches int) {
	cut := m.SawTick(tickSec)
	add := func(sig, f string, a ...interface{}) { probs = append(probs, Problem{sig, fmt.Sprintf(f, a...)}) }

	// group the observed lines
	type obs struct {
		vals map[string][]float64 // suffix → values seen
		n    int
	}
	got := map[BK]*obs{}
	var prevTs uint32
	for i, s := range lines {
		l, err := ParseAggLine(s)
		if err != nil {
			add("format", "emitted line %q: %v", s, err)
			continue
		}
		if i > 0 && l.Ts < prevTs {
			add("order", "flush emitted bucket %d after bucket %d (line %q)", l.Ts, prevTs, s)
		}
		prevTs = l.Ts
		name, suffix := l.Name, ""
		if m.Fun == "percentiles" {
			dot := strings.LastIndexByte(l.Name, '.')
			if dot < 0 || percentileP[l.Name[dot+1:]] == 0 {
				add("percentile-lines", "percentiles emitted line %q whose name does not end in one of .p25 .p50 .p75 .p90 .p95 .p99", s)
				continue
			}
			name, suffix = l.Name[:dot], l.Name[dot+1:]
		}
		k := BK{name, l.Ts}
		if l.Ts%uint32(m.Interval) != 0 {
			add("timestamp", "line %q carries timestamp %d which is not a bucket start (interval %d)", s, l.Ts, m.Interval)
			continue
		}
		if int64(l.Ts) > cut {
			add("early", "line %q emitted at tick %d although tick−wait=%d < bucket start %d", s, tickSec, cut, l.Ts)
			continue
		}
		if m.emitted[k] {
			add("double-emit", "bucket (%s,%d) emitted again: %q", name, l.Ts, s)
			continue
		}
		if _, ok := m.pending[k]; !ok && m.wasDue[k] {
			add("late-emission", "line %q for bucket (%s,%d) emitted at tick %d, but an earlier tick already had tick−wait ≥ bucket start", s, name, l.Ts, tickSec)
			m.emitted[k] = true
			continue
		}
		if _, ok := m.pending[k]; !ok {
			add("phantom", "line %q for bucket (%s,%d) to which no point contributed", s, name, l.Ts)
			continue
		}
		o := got[k]
		if o == nil {
			o = &obs{vals: map[string][]float64{}}
			got[k] = o
		}
		o.vals[suffix] = append(o.vals[suffix], l.Val)
		o.n++
	}

	// every due bucket: find a subset of the optional contributions that explains what was seen
	var due []BK
	for k := range m.pending {
		if int64(k.Bucket) <= cut {
			due = append(due, k)
		}
	}
	sort.Slice(due, func(i, j int) bool {
		if due[i].Bucket != due[j].Bucket {
			return due[i].Bucket < due[j].Bucket
		}
		return due[i].Name < due[j].Name
	})
	for _, k := range due {
		cs := m.pending[k]
		delete(m.pending, k)
		m.wasDue[k] = true
		o := got[k]
		if o == nil {
			o = &obs{vals: map[string][]float64{}}
		}
		if o.n > 0 {
			m.emitted[k] = true
			nEmitted++
		}
		var opt []int
		for i, c := range cs {
			if c.optional {
				opt = append(opt, i)
			}
		}
		if len(opt) > 16 {
			panic("oracle.AggModel: more than 16 late points in one bucket; the generator must bound them")
		}
		explained := false
		var firstWhy, firstSig string
		for mask := 0; mask < 1<<uint(len(opt)); mask++ {
			nSubsetSearches++
			var pts []Pt
			oi := 0
			for _, c := range cs {
				if c.optional {
					if mask&(1<<uint(oi)) != 0 {
						pts = append(pts, c.Pt)
					}
					oi++
				} else {
					pts = append(pts, c.Pt)
				}
			}
			sig, why := m.explain(k, pts, o.vals, o.n)
			if why == "" {
				explained = true
				break
			}
			if mask == 0 {
				firstSig, firstWhy = sig, why
			}
		}
		if !explained {
			extra := ""
			if len(opt) > 0 {
				extra = fmt.Sprintf(" (nor does any of the %d subsets of the %d late points counted too old explain it)", 1<<uint(len(opt)), len(opt))
			}
			add(firstSig, "%s%s", firstWhy, extra)
		}
	}
	return probs, nEmitted, nSubsetSearches
}

// explain compares the lines seen for bucket k with the reference over pts.
func (m *AggModel) explain(k BK, pts []Pt, vals map[string][]float64, n int) (sig, why string) {
	ref, ok := AggRef(m.Fun, pts)
	if !ok {
		if n == 0 {
			return "", ""
		}
		return "phantom", fmt.Sprintf("bucket (%s,%d): %d line(s) emitted although %s over %s yields no output", k.Name, k.Bucket, n, m.Fun, fmtPts(pts))
	}
	if n == 0 {
		return "missing", fmt.Sprintf("bucket (%s,%d) with contributions %s was due (tick−wait ≥ bucket start) but no line was emitted", k.Name, k.Bucket, fmtPts(pts))
	}
	for _, r := range ref {
		vs := vals[r.Suffix]
		if len(vs) != 1 {
			s := "once-per-bucket"
			if m.Fun == "percentiles" {
				s = "percentile-lines"
			}
			return s, fmt.Sprintf("bucket (%s,%d): %d lines with suffix %q, want exactly 1 (function %s)", k.Name, k.Bucket, len(vs), r.Suffix, m.Fun)
		}
		okv := false
		for _, want := range r.Vals {
			if ValueClose(vs[0], want) {
				okv = true
			}
		}
		if !okv {
			return "value", fmt.Sprintf("bucket (%s,%d) %s%s: emitted %f, reference %s over %s = %v", k.Name, k.Bucket, m.Fun, dotted(r.Suffix), vs[0], m.Fun, fmtPts(pts), r.Vals)
		}
	}
	if n != len(ref) {
		return "percentile-lines", fmt.Sprintf("bucket (%s,%d): %d lines emitted, want %d", k.Name, k.Bucket, n, len(ref))
	}
	return "", ""
}

// Pending lists the buckets that still hold contributions (not yet due).
func (m *AggModel) Pending() []BK {
	var ks []BK
	for k := range m.pending {
		ks = append(ks, k)
	}
	sort.Slice(ks, func(i, j int) bool {
		if ks[i].Bucket != ks[j].Bucket {
			return ks[i].Bucket < ks[j].Bucket
		}
		return ks[i].Name < ks[j].Name
	})
	return ks
}

// Expected returns, for the buckets due at tickSec, the reference lines when all
// recorded contributions are definite (used by C11 where no late points are generated).
// The buckets are closed.
func (m *AggModel) Expected(tickSec int64) []ExpLine {
	cut := m.SawTick(tickSec)
	var out []ExpLine
	for _, k := range m.Pending() {
		if int64(k.Bucket) > cut {
			continue
		}
		var pts []Pt
		for _, c := range m.pending[k] {
			pts = append(pts, c.Pt)
		}
		delete(m.pending, k)
		ref, ok := AggRef(m.Fun, pts)
		if !ok {
			continue
		}
		m.emitted[k] = true
		for _, r := range ref {
			out = append(out, ExpLine{Name: k.Name + dotted(r.Suffix), Ts: k.Bucket, Vals: r.Vals})
		}
	}
	return out
}

// ExpLine is one expected aggregate line.
type ExpLine struct {
	Name string
	Ts   uint32
	Vals []float64 // acceptable values
}

func dotted(s string) string {
	if s == "" {
		return ""
	}
	return "." + s
}

func fmtPts(pts []Pt) string {
	var b strings.Builder
	b.WriteByte('[')
	for i, p := range pts {
		if i > 0 {
			b.WriteByte(' ')
		}
		if i >= 24 {
			fmt.Fprintf(&b, "… %d points", len(pts))
			break
		}
		fmt.Fprintf(&b, "%v@%d", p.Val, p.Ts)
	}
	b.WriteByte(']')
	return b.String()
}
