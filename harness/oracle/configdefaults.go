package oracle

// Documented options and defaults of the routing-table entries, for property C20.
//
// Transcribed by hand from the documentation of the repository under test:
//
//	docs/config.md                 tables "carbon route", "carbon destination", "grafanaNet route",
//	                               sections Blacklist / Aggregators / Rewriters
//	docs/tcp-admin-interface.md    the option lists of addRoute / addAgg / addBlack / addRewriter
//	docs/aggregation.md            section "caching" (the cache default differs by syntax)
//	docs/rewriting.md              the `not` field exists only in the structured syntax
//
// and NOT from imperatives/imperatives.go, cfg/table.go or route/grafananet.go.
// Each entry quotes the documentation text it was taken from.

import "time"

// CfgKind is the value type of an option as the documentation describes it.
type CfgKind int

const (
	CfgString CfgKind = iota
	CfgInt
	CfgBool
	CfgFloat
)

// CfgOption is one documented option.
type CfgOption struct {
	Name    string        // spelling used in the documentation (both syntaxes use the same one)
	Kind    CfgKind       //
	Unit    time.Duration // for durations: the unit of the written integer; 0 = plain number
	Default string        // documented default, normalised to the way a value would be written
	Doc     string        // the documentation text the entry was transcribed from
}

// CfgMatcherOptions are the six filter options every entry kind shares
// (config.md: prefix / notPrefix / sub / notSub / regex / notRegex, default "").
var CfgMatcherOptions = []string{"prefix", "notPrefix", "sub", "notSub", "regex", "notRegex"}

// CfgBlacklistKinds: config.md "Blacklist" table (six matcher types).
// tcp-admin-interface.md abbreviates the command as `addBlack <prefix|sub|regex> <substring>`;
// config.md states that init commands and blacklist entries declare "a matcher type followed by a
// match expression" with the six types below.
var CfgBlacklistKinds = []string{"prefix", "notPrefix", "sub", "notSub", "regex", "notRegex"}

// CfgCarbonRouteTypes: config.md "carbon route", setting `type`.
var CfgCarbonRouteTypes = []string{"sendAllMatch", "sendFirstMatch", "consistentHashing"}

// CfgCarbonDestination: config.md table "carbon destination" (units and defaults) and the
// <dest> option list of addRoute in tcp-admin-interface.md (same defaults, spelled out).
var CfgCarbonDestination = []CfgOption{
	{"flush", CfgInt, time.Millisecond, "1000", "flush | int (ms) | 1000 | flush interval"},
	{"reconn", CfgInt, time.Millisecond, "10000", "reconn | int (ms) | 10k | reconnection interval"},
	{"pickle", CfgBool, 0, "false", "pickle | true/false | false | pickle output format instead of the default text protocol"},
	{"spool", CfgBool, 0, "false", "spool | true/false | false | disk spooling"},
	{"connbuf", CfgInt, 0, "30000", "connbuf | int | 30k | connection buffer (how many metrics can be queued ...)"},
	// "2M" next to "200MiB (200 * 1024 * 1024)" in the same list: M is decimal, MiB binary.
	{"iobuf", CfgInt, 0, "2000000", "iobuf | int (bytes) | 2M | buffered io connection buffer"},
	{"spoolbuf", CfgInt, 0, "10000", "spoolbuf | int | 10k | num of metrics to buffer across disk-write stalls (admin doc: default: 10000)"},
	{"spoolmaxbytesperfile", CfgInt, 0, "209715200", "spoolmaxbytesperfile | int | 200MiB | max filesize for spool files (admin doc: 200 * 1024 * 1024)"},
	{"spoolsyncevery", CfgInt, 0, "10000", "spoolsyncevery | int | 10k | sync spool to disk every this many metrics (admin doc: default: 10000)"},
	{"spoolsyncperiod", CfgInt, time.Millisecond, "1000", "spoolsyncperiod | int (ms) | 1000 | sync spool to disk every this many milliseconds"},
	{"spoolsleep", CfgInt, time.Microsecond, "500", "spoolsleep | int (micros) | 500 | sleep this many microseconds(!) in between ingests ... into spool"},
	{"unspoolsleep", CfgInt, time.Microsecond, "10", "unspoolsleep | int (micros) | 10 | sleep this many microseconds(!) in between reads from the spool"},
}

// CfgGrafanaNet: config.md table "grafanaNet route" (optional settings; the mandatory ones are
// key, addr, apiKey, schemasFile, aggregationFile) and the addRoute grafanaNet line of
// tcp-admin-interface.md, which lists the same option names.
var CfgGrafanaNet = []CfgOption{
	{"sslverify", CfgBool, 0, "true", "sslverify | true/false | true | verify SSL certificate"},
	{"spool", CfgBool, 0, "false", "spool | true/false | false | ** disk spooling. not implemented yet **"},
	{"blocking", CfgBool, 0, "false", "blocking | true/false | false | if false, full buffer drops data. if true, ... backpressure"},
	{"concurrency", CfgInt, 0, "100", "concurrency | int | 100 | number of concurrent connections to ingestion endpoint"},
	{"bufSize", CfgInt, 0, "10000000", "bufSize | int | 10M | buffer size. assume +- 100B per message, so 10M is about 1GB of RAM (example: #bufSize=10000000)"},
	{"flushMaxNum", CfgInt, 0, "5000", "flushMaxNum | int | 5000 | max number of metrics to buffer before triggering flush"},
	{"flushMaxWait", CfgInt, time.Millisecond, "500", "flushMaxWait | int (ms) | 500 | max time to buffer before triggering flush"},
	{"timeout", CfgInt, time.Millisecond, "10000", "timeout | int (ms) | 10000 | abort and retry requests to api gateway if takes longer than this"},
	{"orgId", CfgInt, 0, "1", "orgId | int | 1 | organization ID to claim"},
	{"errBackoffMin", CfgInt, time.Millisecond, "100", "errBackoffMin | int (ms) | 100 | initial retry interval in ms for failed http requests"},
	{"errBackoffFactor", CfgFloat, 0, "1.5", "errBackoffFactor | float | 1.5 | growth factor for the retry interval for failed http requests"},
}

// CfgAggFunctionsCommand: tcp-admin-interface.md addAgg <func> list.
var CfgAggFunctionsCommand = []string{"avg", "count", "delta", "derive", "last", "max", "min", "stdev", "sum"}

// CfgAggFunctionsTOML: docs/aggregation.md "functions" table (the structured syntax also has percentiles).
var CfgAggFunctionsTOML = []string{"avg", "count", "delta", "derive", "last", "max", "min", "stdev", "sum", "percentiles"}

// CfgAggCacheDefault: docs/aggregation.md "caching": "By default, the cache is enabled for aggregators
// set up via commands (init commands in the config) but disabled for aggregators configured via config
// sections (due to a limitation in our config library)."
func CfgAggCacheDefault(syntax string) bool { return syntax == "command" }

// CfgAggDropRawDefault: docs/aggregation.md describes dropRaw=true as something to switch on
// ("`dropRaw=true` will prevent any further processing ..."); every example that spells it out says false.
const CfgAggDropRawDefault = false

// CfgRewriterNotDefault: docs/rewriting.md: the structured syntax "also supports an extra field: not";
// the command has no way to give it, and the examples write an empty string for "no exception".
const CfgRewriterNotDefault = ""

// CfgLookup returns the documented option called name from a table.
func CfgLookup(table []CfgOption, name string) (CfgOption, bool) {
	for _, o := range table {
		if o.Name == name {
			return o, true
		}
	}
	return CfgOption{}, false
}
