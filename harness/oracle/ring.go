// Reference model for C15: carbon 0.9.x ConsistentHashRing (carbon/lib/carbon/hashing.py)
// as used by carbon-relay.py's ConsistentHashingRouter with REPLICATION_FACTOR=1,
// re-implemented from the Python text. Nothing here imports the code under test.
//
// Carbon:
//
//	position(key)   = int(md5(str(key)).hexdigest()[:4], 16)          (16 bit)
//	add_node(node)  : for i in range(100): insort(ring, (position("%s:%d" % (node, i)), node))
//	                  node is the tuple (server, instance); str(node) is "('host', 'inst')" or
//	                  "('host', None)"; the port is not part of the node.
//	get_node(key)   = ring[bisect_left(ring, (position(key), None)) % len(ring)][1]
//
// The ring is a sorted list of Python tuples (position, (server, instance)), so its order is the
// Python 2 tuple order: position, then server (byte-wise string order), then instance, where
// **None sorts before every string** (Python 2 orders None below any other object; Python 3 would
// raise TypeError, carbon 0.9.x is Python 2). The search entry (position, None) is therefore smaller
// than every ring entry with the same position, which makes bisect_left return the first entry
// whose position is >= the key's position, whatever its node. An index past the end wraps to 0.
//
// Because the ring is kept sorted by a total order on (position, node) and nodes are distinct, the
// ring - and so the assignment - is a function of the *set* of nodes only.
package oracle

import (
	"crypto/md5"
	"encoding/hex"
	"fmt"
	"sort"
	"strconv"
)

// RingNode is carbon's (server, instance) tuple. HasInstance=false is Python's None.
type RingNode struct {
	Host        string
	Instance    string
	HasInstance bool
}

// PyRepr is str((server, instance)) for plain ASCII strings without quotes or backslashes.
func (n RingNode) PyRepr() string {
	if n.HasInstance {
		return "('" + n.Host + "', '" + n.Instance + "')"
	}
	return "('" + n.Host + "', None)"
}

func (n RingNode) String() string { return n.PyRepr() }

// nodeLess is the Python 2 order of two (server, instance) tuples.
func nodeLess(a, b RingNode) bool {
	if a.Host != b.Host {
		return a.Host < b.Host
	}
	if a.HasInstance != b.HasInstance {
		return !a.HasInstance // None < any string
	}
	if !a.HasInstance {
		return false
	}
	return a.Instance < b.Instance
}

// RingPosition is compute_ring_position: the first four hex digits of the MD5 digest.
func RingPosition(key []byte) uint16 {
	sum := md5.Sum(key)
	hx := hex.EncodeToString(sum[:2]) // = hexdigest()[:4]
	v, err := strconv.ParseUint(hx, 16, 16)
	if err != nil {
		panic(err)
	}
	return uint16(v)
}

// RingEntry is one (position, node) tuple of the ring; Node indexes Ring.Nodes.
type RingEntry struct {
	Pos  uint16
	Node int
}

// Ring is the sorted list of 100 entries per node.
type Ring struct {
	Nodes   []RingNode
	Entries []RingEntry
}

const RingReplicas = 100

// NewRing builds the ring for a set of distinct nodes (the order given only names them by index).
func NewRing(nodes []RingNode) *Ring {
	r := &Ring{Nodes: append([]RingNode(nil), nodes...)}
	seen := map[RingNode]bool{}
	for i, n := range nodes {
		if seen[n] {
			panic(fmt.Sprintf("oracle.NewRing: node %v listed twice", n))
		}
		seen[n] = true
		for k := 0; k < RingReplicas; k++ {
			key := n.PyRepr() + ":" + strconv.Itoa(k)
			r.Entries = append(r.Entries, RingEntry{RingPosition([]byte(key)), i})
		}
	}
	sort.Slice(r.Entries, func(a, b int) bool {
		ea, eb := r.Entries[a], r.Entries[b]
		if ea.Pos != eb.Pos {
			return ea.Pos < eb.Pos
		}
		return nodeLess(r.Nodes[ea.Node], r.Nodes[eb.Node])
	})
	return r
}

// GetPos returns the index (into Nodes) of the node owning ring position p.
func (r *Ring) GetPos(p uint16) int {
	i := sort.Search(len(r.Entries), func(i int) bool { return r.Entries[i].Pos >= p })
	if i == len(r.Entries) {
		i = 0
	}
	return r.Entries[i].Node
}

// Get returns the index (into Nodes) of the node that owns the metric name.
func (r *Ring) Get(name []byte) int { return r.GetPos(RingPosition(name)) }

// TiedPositions lists ring positions at which entries of at least two different nodes sit
// (where the (server, instance) tie-break decides the owner).
func (r *Ring) TiedPositions() []uint16 {
	var out []uint16
	for i := 0; i+1 < len(r.Entries); i++ {
		if r.Entries[i].Pos == r.Entries[i+1].Pos && r.Entries[i].Node != r.Entries[i+1].Node {
			if len(out) == 0 || out[len(out)-1] != r.Entries[i].Pos {
				out = append(out, r.Entries[i].Pos)
			}
		}
	}
	return out
}

// Boundaries returns interesting key positions for this ring: every entry position p (owned by the
// entry itself: bisect_left), p+1 (owned by the next entry), position 0, 65535 and the position just
// after the last entry (wrap-around).
func (r *Ring) Boundaries() []uint16 {
	set := map[uint16]bool{0: true, 65535: true}
	for _, e := range r.Entries {
		set[e.Pos] = true
		set[e.Pos+1] = true // uint16 wraps 65535 -> 0 on purpose
		set[e.Pos-1] = true
	}
	out := make([]uint16, 0, len(set))
	for p := range set {
		out = append(out, p)
	}
	sort.Slice(out, func(a, b int) bool { return out[a] < out[b] })
	return out
}
