package oracle

// Configuration-file interpolation as documented, for property C20.
//
// Sources: examples/carbon-relay-ng.ini ("supported variables: ${HOST} : hostname"),
// docs/config.md (grafanaNet example: addr = "${GRAFANA_NET_ADDR}",
// apikey = "${GRAFANA_NET_USER_ID}:${GRAFANA_NET_API_KEY}") and the property statement:
// "interpolation substitutes only the documented variables and leaves every other '$'
// sequence, including $1 and ${1} style group references in rewriter and aggregation
// templates, unchanged".
//
// Model: a reference is `$NAME` (NAME = the longest run of ASCII letters, digits and '_'
// that follows the '$', as in a shell) or `${NAME}`. It is replaced by the variable's value
// when NAME is one of the four documented names; every other byte of the input - including a
// '$' that does not start such a reference - is copied unchanged. Values are not re-scanned.

// ExpandDocumentedVars are the only variables the documentation mentions.
var ExpandDocumentedVars = []string{"HOST", "GRAFANA_NET_ADDR", "GRAFANA_NET_API_KEY", "GRAFANA_NET_USER_ID"}

func expandIsNameByte(c byte) bool {
	return c == '_' || (c >= '0' && c <= '9') || (c >= 'a' && c <= 'z') || (c >= 'A' && c <= 'Z')
}

func expandDocumented(name string) bool {
	for _, n := range ExpandDocumentedVars {
		if n == name {
			return true
		}
	}
	return false
}

// ExpandConfig returns the text a configuration file stands for, given the values of the
// four documented variables (a name missing from vals expands to the empty string).
// refsDocumented / refsOther count the references replaced and the '$' bytes left alone.
func ExpandConfig(s string, vals map[string]string) (out string, refsDocumented, refsOther int) {
	b := make([]byte, 0, len(s)+16)
	for i := 0; i < len(s); {
		c := s[i]
		if c != '$' {
			b = append(b, c)
			i++
			continue
		}
		// candidate reference
		j := i + 1
		if j < len(s) && s[j] == '{' {
			k := j + 1
			for k < len(s) && expandIsNameByte(s[k]) {
				k++
			}
			if k < len(s) && s[k] == '}' && expandDocumented(s[j+1:k]) {
				b = append(b, vals[s[j+1:k]]...)
				i = k + 1
				refsDocumented++
				continue
			}
		} else {
			k := j
			for k < len(s) && expandIsNameByte(s[k]) {
				k++
			}
			if expandDocumented(s[j:k]) {
				b = append(b, vals[s[j:k]]...)
				i = k
				refsDocumented++
				continue
			}
		}
		b = append(b, '$')
		i++
		refsOther++
	}
	return string(b), refsDocumented, refsOther
}
