package oracle

import (
	"regexp"
	"strings"
)

// C01Filter is the filter evaluation used by the C01 table pipeline model
// (kept separate from filter.go, which belongs to the C03 check): the six
// documented options are a conjunction on the metric NAME; an empty option
// imposes nothing. Regular expressions are compiled with the standard library
// (unanchored search), independently of the code under test.
type C01Filter struct {
	Prefix    string `json:"prefix,omitempty"`
	NotPrefix string `json:"notPrefix,omitempty"`
	Sub       string `json:"sub,omitempty"`
	NotSub    string `json:"notSub,omitempty"`
	Regex     string `json:"regex,omitempty"`
	NotRegex  string `json:"notRegex,omitempty"`

	c01re, c01notRe *regexp.Regexp
	c01compiled     bool
}

// C01Compile compiles the two regular expressions; it must be called (once)
// before C01Accept. The error is the standard library's.
func (f *C01Filter) C01Compile() error {
	var err error
	f.c01re, f.c01notRe = nil, nil
	if f.Regex != "" {
		if f.c01re, err = regexp.Compile(f.Regex); err != nil {
			return err
		}
	}
	if f.NotRegex != "" {
		if f.c01notRe, err = regexp.Compile(f.NotRegex); err != nil {
			return err
		}
	}
	f.c01compiled = true
	return nil
}

// C01Accept evaluates the documented conjunction on exactly the string given.
func (f *C01Filter) C01Accept(name string) bool {
	if !f.c01compiled {
		if err := f.C01Compile(); err != nil {
			panic("oracle.C01Filter: " + err.Error())
		}
	}
	if f.Prefix != "" && !strings.HasPrefix(name, f.Prefix) {
		return false
	}
	if f.NotPrefix != "" && strings.HasPrefix(name, f.NotPrefix) {
		return false
	}
	if f.Sub != "" && !strings.Contains(name, f.Sub) {
		return false
	}
	if f.NotSub != "" && strings.Contains(name, f.NotSub) {
		return false
	}
	if f.c01re != nil && !f.c01re.MatchString(name) {
		return false
	}
	if f.c01notRe != nil && f.c01notRe.MatchString(name) {
		return false
	}
	return true
}

// C01Empty tells whether no option is set (the filter accepts everything).
func (f *C01Filter) C01Empty() bool {
	return f.Prefix == "" && f.NotPrefix == "" && f.Sub == "" && f.NotSub == "" && f.Regex == "" && f.NotRegex == ""
}

// C01Opts renders the filter as the option words of an admin / init command
// ("prefix=a sub=b ..."), in a fixed order; "" for the empty filter.
func (f *C01Filter) C01Opts() string {
	var p []string
	add := func(k, v string) {
		if v != "" {
			p = append(p, k+"="+v)
		}
	}
	add("prefix", f.Prefix)
	add("notPrefix", f.NotPrefix)
	add("sub", f.Sub)
	add("notSub", f.NotSub)
	add("regex", f.Regex)
	add("notRegex", f.NotRegex)
	return strings.Join(p, " ")
}
