// Package oracle holds reference models written from the documentation and the
// property statements, never from the code under test. No file in this package
// imports a carbon-relay-ng package.
package oracle

// Split is the reference framing of a plain-text carbon stream (property C12):
// the stream is cut at every '\n'; the '\n' is not part of the line; exactly one
// trailing '\r' is removed from every line (also from the last one); a final
// line that is not terminated by '\n' is a line; empty lines are lines; an empty
// stream has no lines.
//
// The returned slices are fresh copies.
func Split(stream []byte) [][]byte {
	var out [][]byte
	start := 0
	for start < len(stream) {
		end := start
		for end < len(stream) && stream[end] != '\n' {
			end++
		}
		line := stream[start:end]
		if n := len(line); n > 0 && line[n-1] == '\r' {
			line = line[:n-1]
		}
		out = append(out, append([]byte{}, line...))
		start = end + 1 // skip the '\n' (or step past the end)
	}
	return out
}

// MaxLineWithTerminator returns the largest "line length including its
// terminator" found in the stream (the final unterminated line counts with its
// own length). Used by generators to stay within a transport's supported limit.
func MaxLineWithTerminator(stream []byte) int {
	max, cur := 0, 0
	for _, b := range stream {
		cur++
		if b == '\n' {
			if cur > max {
				max = cur
			}
			cur = 0
		}
	}
	if cur > max {
		max = cur
	}
	return max
}
