package oracle

import (
	"regexp"
	"strings"
)

// Reference model of the routing-table pipeline (property C01), written from
// the property statement and docs/config.md, docs/rewriting.md,
// docs/aggregation.md — not from table/table.go:
//
//	validate -> blacklist (on the name as received) -> rewriters (in order, on the name)
//	-> aggregations in order (a drop-raw aggregation whose filter accepts the
//	   (rewritten) name consumes the metric: nothing after it sees it)
//	-> every route whose filter accepts the (rewritten) name, each exactly once
//	-> inside a route: sendAllMatch = every destination whose filter accepts the name,
//	   sendFirstMatch = the first such destination in configured order,
//	   consistentHashing = exactly one destination (which one is property C15).
//	accepted by no route -> counted unroutable once; blacklisted -> counted
//	blacklisted once and forwarded nowhere.

// C01Rewriter is one rewriter rule (docs/rewriting.md).
type C01Rewriter struct {
	Old string `json:"old"`
	New string `json:"new"`
	Not string `json:"not,omitempty"`
	Max int    `json:"max"`
}

func c01Slashed(s string) bool { return len(s) > 1 && s[0] == '/' && s[len(s)-1] == '/' }

// C01Apply rewrites a name by the documented meaning of the rule:
// skip if the name matches `not` (substring, or regex when enclosed in
// slashes); `old` enclosed in slashes = regular expression replace-all with
// ${n} expansion; otherwise replace the first Max occurrences (all for -1)
// of the literal text, left to right, non-overlapping.
func (r C01Rewriter) C01Apply(name string) string {
	if r.Not != "" {
		if c01Slashed(r.Not) {
			if regexp.MustCompile(r.Not[1 : len(r.Not)-1]).MatchString(name) {
				return name
			}
		} else if strings.Contains(name, r.Not) {
			return name
		}
	}
	if c01Slashed(r.Old) {
		return regexp.MustCompile(r.Old[1:len(r.Old)-1]).ReplaceAllString(name, r.New)
	}
	if r.Old == "" {
		return name
	}
	var b strings.Builder
	n := 0
	rest := name
	for r.Max < 0 || n < r.Max {
		i := strings.Index(rest, r.Old)
		if i < 0 {
			break
		}
		b.WriteString(rest[:i])
		b.WriteString(r.New)
		rest = rest[i+len(r.Old):]
		n++
	}
	b.WriteString(rest)
	return b.String()
}

// C01Agg is an aggregation as far as routing is concerned.
type C01Agg struct {
	Filter  C01Filter `json:"filter"`
	DropRaw bool      `json:"dropRaw"`
}

// Route types.
const (
	C01Capture           = "capture"
	C01SendAllMatch      = "sendAllMatch"
	C01SendFirstMatch    = "sendFirstMatch"
	C01ConsistentHashing = "consistentHashing"
)

// C01Dest is one destination of a carbon route.
type C01Dest struct {
	Addr   string    `json:"addr"`
	Filter C01Filter `json:"filter"` // always empty for consistentHashing
}

// C01Route is one route of the table.
type C01Route struct {
	Key    string    `json:"key"`
	Type   string    `json:"type"`
	Filter C01Filter `json:"filter"`
	Dests  []C01Dest `json:"dests,omitempty"`
}

// C01Table is the configuration the model evaluates.
type C01Table struct {
	Blacklist []C01Filter   `json:"blacklist"`
	Rewriters []C01Rewriter `json:"rewriters"`
	Aggs      []C01Agg      `json:"aggregations"`
	Routes    []C01Route    `json:"routes"`
}

// C01Compile compiles every filter of the table.
func (t *C01Table) C01Compile() error {
	for i := range t.Blacklist {
		if err := t.Blacklist[i].C01Compile(); err != nil {
			return err
		}
	}
	for i := range t.Aggs {
		if err := t.Aggs[i].Filter.C01Compile(); err != nil {
			return err
		}
	}
	for i := range t.Routes {
		if err := t.Routes[i].Filter.C01Compile(); err != nil {
			return err
		}
		for j := range t.Routes[i].Dests {
			if err := t.Routes[i].Dests[j].Filter.C01Compile(); err != nil {
				return err
			}
		}
	}
	return nil
}

// C01Outcome is what must happen to one line.
type C01Outcome struct {
	Valid       bool     `json:"valid"`
	Blacklisted bool     `json:"blacklisted"`
	Consumed    int      `json:"consumedByAgg"` // index of the drop-raw aggregation that consumed it, -1 if none
	Unroutable  bool     `json:"unroutable"`
	Name        string   `json:"name"`    // name after rewriting ("" if not valid / blacklisted)
	Fields      []string `json:"fields"`  // what every accepting route must be handed: rewritten name, value token, timestamp token
	AggIn       []bool   `json:"aggIn"`   // per aggregation: the metric is counted as input of that aggregation
	Routes      []bool   `json:"routes"`  // per route: handed exactly once
	Dests       [][]int  `json:"dests"`   // per route, per destination: hand-offs (0/1); for consistentHashing every entry is -1 = "exactly one of them"
	NRoutes     int      `json:"nRoutes"` // number of accepting routes
}

// C01Eval runs the model for one line. valid is the validation verdict
// (property C02's business, supplied by the caller).
func (t *C01Table) C01Eval(line string, valid bool) C01Outcome {
	o := C01Outcome{Valid: valid, Consumed: -1}
	o.AggIn = make([]bool, len(t.Aggs))
	o.Routes = make([]bool, len(t.Routes))
	o.Dests = make([][]int, len(t.Routes))
	for i, r := range t.Routes {
		o.Dests[i] = make([]int, len(r.Dests))
	}
	if !valid {
		return o
	}
	f := strings.Fields(line)
	if len(f) != 3 {
		panic("oracle.C01Eval: a valid line has three fields: " + line)
	}
	name := f[0]
	for i := range t.Blacklist {
		if t.Blacklist[i].C01Accept(name) {
			o.Blacklisted = true
			return o
		}
	}
	for _, rw := range t.Rewriters {
		name = rw.C01Apply(name)
	}
	o.Name = name
	o.Fields = []string{name, f[1], f[2]}
	for i := range t.Aggs {
		if t.Aggs[i].Filter.C01Accept(name) {
			o.AggIn[i] = true
			if t.Aggs[i].DropRaw {
				o.Consumed = i
				return o
			}
		}
	}
	for i := range t.Routes {
		r := &t.Routes[i]
		if !r.Filter.C01Accept(name) {
			continue
		}
		o.Routes[i] = true
		o.NRoutes++
		switch r.Type {
		case C01SendAllMatch:
			for j := range r.Dests {
				if r.Dests[j].Filter.C01Accept(name) {
					o.Dests[i][j] = 1
				}
			}
		case C01SendFirstMatch:
			for j := range r.Dests {
				if r.Dests[j].Filter.C01Accept(name) {
					o.Dests[i][j] = 1
					break
				}
			}
		case C01ConsistentHashing:
			for j := range r.Dests {
				o.Dests[i][j] = -1
			}
		}
	}
	o.Unroutable = o.NRoutes == 0
	return o
}
