// Reference model for C19 on tables whose configuration changes while points arrive, written from
// the property text (properties.jsonl C19) and its anchors: per metric name the relay keeps the
// newest timestamp accepted by order validation; a point passes order validation if and only if its
// timestamp is strictly greater than that; passing sets it; a rejected point changes nothing.
// Order validation sits before the blacklist (anchor "Dispatch consults it after validation and
// before the blacklist"): a point that a blacklist entry drops afterwards has still taken part.
//
// Differences from MaxRegStep (maxreg.go):
//   - "nothing accepted yet" is a state of its own (-1), so that timestamp 0 can be spoken about:
//     the property promises "never rejected" only for positive timestamps, and forbids forwarding
//     only when an accepted point with a timestamp >= the new one exists. A first point with
//     timestamp 0 may therefore be forwarded or rejected; a second one must be rejected.
//   - a third outcome, OrderUnobserved, for a call whose line reached no route although a blacklist
//     entry matching its name may have been in force: the line was either rejected or accepted and
//     then dropped by the blacklist. Which of the two follows from the state, so the step stays
//     deterministic.
package oracle

const (
	OrderForwarded  = 0 // the line reached the routes: it passed order validation
	OrderRejected   = 1 // the line reached no route and no blacklist entry can explain that
	OrderUnobserved = 2 // the line reached no route; a blacklist entry for its name may have dropped it
)

// OrderNone is the state of a name without an accepted point.
const OrderNone = int64(-1)

// OrderStep is the sequential specification of one name.
func OrderStep(state int64, ts uint32, outcome int) (ok bool, next int64) {
	newer := int64(ts) > state
	switch outcome {
	case OrderForwarded:
		if !newer {
			return false, state
		}
		return true, int64(ts)
	case OrderRejected:
		if newer && ts > 0 {
			return false, state
		}
		return true, state
	default:
		// accepted-then-blacklisted if newer, rejected otherwise. A first timestamp 0 may have gone
		// either way; keeping "nothing accepted yet" is the reading that permits more afterwards.
		if newer && ts > 0 {
			return true, int64(ts)
		}
		return true, state
	}
}

// OrderWouldReject tells whether the specification requires a point with this timestamp to be
// rejected in this state (used where one dispatcher makes the state exactly known).
func OrderWouldReject(state int64, ts uint32) bool {
	return int64(ts) <= state
}
