// Reference model for C19, written from the property text: per metric name the relay keeps the
// newest accepted timestamp; a point is accepted if and only if its timestamp is strictly greater
// than that; accepting sets it; rejecting changes nothing. A name never seen has no accepted point:
// every positive timestamp is newer.
package oracle

// MaxRegStep is the sequential specification of one name: given the state (newest accepted
// timestamp, 0 = none yet), the timestamp offered and the outcome observed, it tells whether the
// outcome is the specified one and returns the next state.
func MaxRegStep(state uint32, ts uint32, accepted bool) (ok bool, next uint32) {
	want := ts > state
	if accepted != want {
		return false, state
	}
	if accepted {
		return true, ts
	}
	return true, state
}

// CanonicalName is the name order validation keys on: graphite treats a leading dot as absent
// (".foo" is "foo"); the validator the relay uses (carbon20.ValidatePacket) strips exactly one.
func CanonicalName(name string) string {
	if len(name) > 0 && name[0] == '.' {
		return name[1:]
	}
	return name
}
