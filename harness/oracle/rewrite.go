package oracle

import (
	"errors"
	"regexp"
)

// RewriteRule is one rewriter as an operator configures it (docs/rewriting.md):
// old / new / not / max.
type RewriteRule struct {
	Old string `json:"old"`
	New string `json:"new"`
	Not string `json:"not"`
	Max int    `json:"max"`
}

type rwRule struct {
	RewriteRule
	re    *regexp.Regexp // Old was /re/
	notRe *regexp.Regexp // Not was /re/
}

// Rewriter is a compiled list of rules, applied in list order (property C04,
// docs/rewriting.md: "rules ... are processed in series").
type Rewriter struct{ rules []rwRule }

// rwSlashed reports whether s is "wrapped with forward slashes" and returns the inside.
func rwSlashed(s string) (string, bool) {
	if len(s) >= 2 && s[0] == '/' && s[len(s)-1] == '/' {
		return s[1 : len(s)-1], true
	}
	return "", false
}

// CompileRules checks the rules the way the documentation constrains them
// (non-empty old; max >= -1; a /regex/ rule needs max = -1) and compiles the
// regular expressions with the standard library.
func CompileRules(rules []RewriteRule) (*Rewriter, error) {
	rw := &Rewriter{}
	for _, r := range rules {
		if r.Old == "" {
			return nil, errors.New("oracle: empty old")
		}
		if r.Max < -1 {
			return nil, errors.New("oracle: max < -1")
		}
		c := rwRule{RewriteRule: r}
		if in, ok := rwSlashed(r.Old); ok {
			re, err := regexp.Compile(in)
			if err != nil {
				return nil, err
			}
			if r.Max != -1 {
				return nil, errors.New("oracle: regex rule needs max = -1")
			}
			c.re = re
		}
		if in, ok := rwSlashed(r.Not); ok {
			re, err := regexp.Compile(in)
			if err != nil {
				return nil, err
			}
			c.notRe = re
		}
		rw.rules = append(rw.rules, c)
	}
	return rw, nil
}

// rwContains is a plain substring search (own loop, no bytes package).
func rwContains(s []byte, sub string) bool {
	if len(sub) == 0 {
		return true
	}
	for i := 0; i+len(sub) <= len(s); i++ {
		if string(s[i:i+len(sub)]) == sub {
			return true
		}
	}
	return false
}

// rwReplaceLiteral replaces the first max non-overlapping occurrences of old
// (scanning left to right) by new; max = -1 means all, max = 0 none.
func rwReplaceLiteral(s []byte, old, new string, max int) []byte {
	out := make([]byte, 0, len(s)+16)
	done := 0
	i := 0
	for i < len(s) {
		if (max < 0 || done < max) && i+len(old) <= len(s) && string(s[i:i+len(old)]) == old {
			out = append(out, new...)
			i += len(old)
			done++
			continue
		}
		out = append(out, s[i])
		i++
	}
	return out
}

// RewriteStep says what one rule did to one name (for non-triviality accounting).
type RewriteStep struct {
	Skipped bool // the not-clause matched
	Changed bool // the name is different after the rule
	Regex   bool
	Limited bool // literal rule with max >= 0 that left at least one occurrence alone
}

// Apply returns the name after all rules, as a fresh slice.
func (rw *Rewriter) Apply(name []byte) []byte {
	out, _ := rw.ApplyInfo(name)
	return out
}

// ApplyInfo is Apply plus what each rule did.
func (rw *Rewriter) ApplyInfo(name []byte) ([]byte, []RewriteStep) {
	cur := append([]byte{}, name...)
	info := make([]RewriteStep, len(rw.rules))
	for k, r := range rw.rules {
		info[k].Regex = r.re != nil
		// not-clause: the rule is skipped when it matches the name as it is at this point
		if r.notRe != nil {
			if r.notRe.Match(cur) {
				info[k].Skipped = true
				continue
			}
		} else if r.Not != "" {
			if rwContains(cur, r.Not) {
				info[k].Skipped = true
				continue
			}
		}
		var next []byte
		if r.re != nil {
			// every match replaced, ${n} expanded (regexp.Expand syntax)
			next = r.re.ReplaceAll(cur, []byte(r.New))
		} else {
			next = rwReplaceLiteral(cur, r.Old, r.New, r.Max)
			if r.Max >= 0 {
				all := rwReplaceLiteral(cur, r.Old, r.New, -1)
				info[k].Limited = string(all) != string(next)
			}
		}
		info[k].Changed = string(next) != string(cur)
		cur = append([]byte{}, next...)
	}
	return cur, info
}
