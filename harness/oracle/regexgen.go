package oracle

import (
	"strconv"
	"strings"
)

// Rand is the slice of a PRNG the generators need (mon.Rng satisfies it).
type Rand interface{ Intn(n int) int }

func chance(r Rand, num, den int) bool { return r.Intn(den) < num }
func pickByte(r Rand, s string) byte   { return s[r.Intn(len(s))] }

// CuratedRegexes are the shapes the property names plus their neighbours:
// optional / starred / counted atoms and alternatives right after a leading
// '^', escapes, classes, anchors, flags. Each is used as regex and as notRegex.
var CuratedRegexes = []string{
	`^ab?c`, `^foo|bar`, `^a\.*b`, `^a{0,2}b`, `^(ab)?c`, `(?i)^abc`, `^a|^b`,
	`^a*`, `^a*b`, `^ab*c`, `^ab+c`, `^ab??c`, `^ab*?c`, `^a.c`, `^a.?c`, `^[ab]c`, `^[^a]b`, `^[a]b`, `^[aA]b`,
	`^a\.b`, `^a\.?b`, `^a\.+b`, `^a\.{0,1}b`, `^a.*b`, `^abc$`, `abc$`, `c$`, `^$`, `^`, `$`, `a|b`, `^(a|b)c`, `^(?:ab|ac)`,
	`^ab|^ac`, `^ab|ac`, `ab|^ac`, `^ab{0}c`, `^ab{2}`, `^ab{1,2}c`, `^a{2,}b`, `^(?i:a)bc`, `^a(?i)bc`, `^(?i)abc`, `^\Qa.b\E`, `^a\x2eb`, `^\x61b`,
	`^(abc)`, `^(a)(b)?c`, `^(?P<x>ab)c`, `\Aab`, `\Aab?c`, `^ab\z`, `(?m)^ab`, `(?m)^ab?c`, `(?s)^a.b`, `^a[b]?c`, `^ab|`, `|^ab`, `^(|a)b`,
	`^a()b`, `^a(?:)b`, `^a^b`, `^^ab`, `^a$b`, `^a\b.b`, `^\w+\.b`, `^\d?a`, `^a\d*b`, `^[a-c]{3}`, `^abc.+`, `(^a)b`, `(^ab?)c`,
	`^(?:a)?bc`, `^(?:ab)*c`, `^(ab|a)c`, `^foo\.(bar|baz)`, `^foo\.?bar`, `^fo*`, `^fo?o`, `foo|^bar`, `^foo$|^bar$`, `^(foo|bar)`, `(foo|bar)$`,
	`cpu$`, `5$`, `e3`, `^[[:alpha:]]b`, `^a[[:digit:]]?b`, `^(?U)ab*c`, `^a|b|^c`, `^a.|^b`, `^(?:^a)b`, `^ab?`, `^a?`, `^(a?)`, `^(a*)b`,
	`^ABC`, `^aBc`, `(?i)^a\.b`, `(?i)^ab?c`, `(?i)abc$`,
}

// CuratedNames go with CuratedRegexes (the witnesses of the shapes above and near misses).
var CuratedNames = []string{
	"", "a", "b", "c", "ab", "ac", "abc", "abbc", "abcc", "aabc", "aab", "aaab", "a.b", "a..b", "axb", "a.c", "ab.c", "abab", "ababc", "cab",
	"foo", "fo", "f", "fooo", "bar", "xbar", "xfoo", "foobar", "foo.bar", "foo.baz", "foobaz", "foo.ba", "barfoo", "baz",
	"ABC", "Abc", "aBc", "abC", "AB", "Ab", "A.b", "A.B", "a5b", "5a", "a5", "a55b", "a3", "e3", "1e3", "x.e3", "cpu", "agg.cpu", "agg.cpu5", "cpu5",
	"ba", "bc", "bb", "bbc", "ca", "cc", "abcabc", "abd", "abcd", "ab.", ".ab", ".", "..", "a.", "b.b", "a_b", "a-b", "xab", "xabc", "xac",
}

// SmallNames enumerates every string of length 0..maxLen over alpha.
func SmallNames(alpha string, maxLen int) []string {
	out := []string{""}
	prev := []string{""}
	for l := 1; l <= maxLen; l++ {
		var cur []string
		for _, p := range prev {
			for i := 0; i < len(alpha); i++ {
				cur = append(cur, p+string(alpha[i]))
			}
		}
		out = append(out, cur...)
		prev = cur
	}
	return out
}

type rkind int

const (
	kLit    rkind = iota // one literal byte (letter or digit)
	kEscDot              // \.
	kDot                 // .
	kClass               // [..] / [^..]
	kPerl                // \d \w
	kRaw                 // raw snippet with a fixed sample text (\x61, \Qa.b\E, [[:alpha:]])
	kQuant               // sub{min,max}
	kGroup               // ( sub ) / (?: sub ) / (?i: sub )
	kConcat              //
	kAlt                 //
	kBegin               // ^  \A
	kEnd                 // $  \z
	kWordB               // \b
)

type rnode struct {
	kind     rkind
	ch       byte
	set      string // class members / sample text of kRaw / \d or \w
	neg      bool
	subs     []*rnode
	min, max int    // max -1 = unbounded
	text     string // rendered quantifier, group opener, anchor or raw text
}

// GenRegex is a generated regular expression with the tree it was rendered from,
// so that strings meant to match it can be sampled.
type GenRegex struct {
	Src   string
	root  *rnode
	fold  bool
	alpha string
}

// RegexGen generates regular expressions over a small alphabet.
//
//	Letters: bytes used as literals (letters / digits only: they need no escaping)
//	Dot:     also use '.', as \. (escaped), as wildcard and inside names
type RegexGen struct {
	Letters string
	Dot     bool
}

// Gen produces one regular expression: concatenations of literals, \., classes,
// ?, *, +, {m,n} (also lazy), groups, alternations (bare at top level, so that
// shapes like ^foo|bar arise), ^ and $ (mostly at the ends, sometimes elsewhere),
// and flags (?i) (?s) (?m) (?U).
func (g RegexGen) Gen(r Rand) *GenRegex {
	out := &GenRegex{alpha: g.Letters}
	if g.Dot {
		out.alpha += "."
	}
	depth := 2
	root := g.alt(r, depth, true)
	src := render(root)
	switch {
	case chance(r, 7, 100):
		src = "(?i)" + src
		out.fold = true
	case chance(r, 2, 100):
		src = "(?s)" + src
	case chance(r, 2, 100):
		src = "(?m)" + src
	case chance(r, 1, 100):
		src = "(?U)" + src
	}
	out.Src = src
	out.root = root
	return out
}

func (g RegexGen) alt(r Rand, depth int, top bool) *rnode {
	n := 1
	if chance(r, 22, 100) {
		n = 2 + r.Intn(2)
	}
	if n == 1 {
		return g.concat(r, depth, top)
	}
	a := &rnode{kind: kAlt}
	for i := 0; i < n; i++ {
		if chance(r, 4, 100) {
			a.subs = append(a.subs, &rnode{kind: kConcat}) // empty alternative
			continue
		}
		a.subs = append(a.subs, g.concat(r, depth, top))
	}
	return a
}

func (g RegexGen) concat(r Rand, depth int, top bool) *rnode {
	c := &rnode{kind: kConcat}
	pBegin, pEnd := 45, 22
	if !top {
		pBegin, pEnd = 6, 4
	}
	if chance(r, pBegin, 100) {
		t := "^"
		if chance(r, 4, 100) {
			t = `\A`
		}
		c.subs = append(c.subs, &rnode{kind: kBegin, text: t})
		if chance(r, 2, 100) {
			c.subs = append(c.subs, &rnode{kind: kBegin, text: "^"})
		}
	}
	n := 1 + r.Intn(4)
	for i := 0; i < n; i++ {
		c.subs = append(c.subs, g.piece(r, depth))
		if chance(r, 1, 100) {
			c.subs = append(c.subs, &rnode{kind: kWordB, text: `\b`})
		}
		if chance(r, 1, 120) {
			c.subs = append(c.subs, &rnode{kind: kBegin, text: "^"})
		}
	}
	if chance(r, pEnd, 100) {
		t := "$"
		if chance(r, 4, 100) {
			t = `\z`
		}
		c.subs = append(c.subs, &rnode{kind: kEnd, text: t})
	}
	return c
}

func (g RegexGen) piece(r Rand, depth int) *rnode {
	a := g.atom(r, depth)
	if !chance(r, 38, 100) {
		return a
	}
	q := &rnode{kind: kQuant, subs: []*rnode{a}}
	switch r.Intn(9) {
	case 0, 1, 2:
		q.min, q.max, q.text = 0, 1, "?"
	case 3, 4:
		q.min, q.max, q.text = 0, -1, "*"
	case 5:
		q.min, q.max, q.text = 1, -1, "+"
	case 6:
		q.min = r.Intn(3)
		q.max = q.min + r.Intn(3)
		q.text = "{" + strconv.Itoa(q.min) + "," + strconv.Itoa(q.max) + "}"
	case 7:
		q.min = r.Intn(3)
		q.max = q.min
		q.text = "{" + strconv.Itoa(q.min) + "}"
	default:
		q.min, q.max = r.Intn(3), -1
		q.text = "{" + strconv.Itoa(q.min) + ",}"
	}
	if chance(r, 10, 100) {
		q.text += "?" // lazy: same set of matching names
	}
	return q
}

func (g RegexGen) atom(r Rand, depth int) *rnode {
	x := r.Intn(100)
	switch {
	case x < 58:
		return &rnode{kind: kLit, ch: pickByte(r, g.Letters)}
	case x < 66:
		if g.Dot {
			return &rnode{kind: kEscDot}
		}
		return &rnode{kind: kLit, ch: pickByte(r, g.Letters)}
	case x < 72:
		return &rnode{kind: kDot}
	case x < 82:
		c := &rnode{kind: kClass, neg: chance(r, 20, 100)}
		n := 1 + r.Intn(3)
		for i := 0; i < n; i++ {
			b := pickByte(r, g.Letters)
			if !strings.ContainsRune(c.set, rune(b)) {
				c.set += string(b)
			}
		}
		if g.Dot && chance(r, 15, 100) {
			c.set += "."
		}
		return c
	case x < 85:
		if chance(r, 1, 2) {
			return &rnode{kind: kPerl, text: `\d`, set: "0123456789"}
		}
		return &rnode{kind: kPerl, text: `\w`, set: "abcdefghijklmnopqrstuvwxyzABCDEFGHIJKLMNOPQRSTUVWXYZ0123456789_"}
	case x < 88:
		b := pickByte(r, g.Letters)
		switch r.Intn(3) {
		case 0:
			const hex = "0123456789abcdef"
			return &rnode{kind: kRaw, text: `\x` + string(hex[b>>4]) + string(hex[b&15]), set: string(b)}
		case 1:
			s := string(b)
			if g.Dot {
				s += "."
			}
			s += string(pickByte(r, g.Letters))
			return &rnode{kind: kRaw, text: `\Q` + s + `\E`, set: s}
		default:
			return &rnode{kind: kRaw, text: `[[:alnum:]]`, set: string(b)}
		}
	default:
		if depth <= 0 {
			return &rnode{kind: kLit, ch: pickByte(r, g.Letters)}
		}
		grp := &rnode{kind: kGroup, text: "("}
		switch r.Intn(10) {
		case 0, 1, 2:
			grp.text = "(?:"
		case 3:
			grp.text = "(?i:"
		case 4:
			grp.text = "(?P<n" + strconv.Itoa(r.Intn(1000)) + ">"
		}
		if chance(r, 3, 100) {
			grp.subs = []*rnode{{kind: kConcat}} // empty group
		} else {
			grp.subs = []*rnode{g.alt(r, depth-1, false)}
		}
		return grp
	}
}

func render(n *rnode) string {
	switch n.kind {
	case kLit:
		return string(n.ch)
	case kEscDot:
		return `\.`
	case kDot:
		return "."
	case kClass:
		s := "["
		if n.neg {
			s += "^"
		}
		return s + n.set + "]"
	case kPerl, kRaw, kBegin, kEnd, kWordB:
		return n.text
	case kQuant:
		return render(n.subs[0]) + n.text
	case kGroup:
		return n.text + render(n.subs[0]) + ")"
	case kConcat:
		var b strings.Builder
		for _, s := range n.subs {
			b.WriteString(render(s))
		}
		return b.String()
	case kAlt:
		parts := make([]string, len(n.subs))
		for i, s := range n.subs {
			parts[i] = render(s)
		}
		return strings.Join(parts, "|")
	}
	return ""
}

// Sample returns a string built by walking the tree (choosing alternatives and
// repetition counts at random). It usually matches the expression when that is
// possible at all; nothing relies on it matching (the reference decision is
// always the standard library's).
func (g *GenRegex) Sample(r Rand) string {
	if g.root == nil {
		return ""
	}
	var b strings.Builder
	g.sample(r, g.root, &b)
	s := b.String()
	if g.fold && chance(r, 1, 2) {
		bs := []byte(s)
		for i := range bs {
			if chance(r, 1, 2) && bs[i] >= 'a' && bs[i] <= 'z' {
				bs[i] -= 32
			}
		}
		s = string(bs)
	}
	return s
}

func (g *GenRegex) sample(r Rand, n *rnode, b *strings.Builder) {
	switch n.kind {
	case kLit:
		b.WriteByte(n.ch)
	case kEscDot:
		b.WriteByte('.')
	case kDot:
		b.WriteByte(pickByte(r, g.alpha))
	case kClass:
		if !n.neg {
			b.WriteByte(pickByte(r, n.set))
			return
		}
		for try := 0; try < 8; try++ {
			c := pickByte(r, g.alpha)
			if !strings.ContainsRune(n.set, rune(c)) {
				b.WriteByte(c)
				return
			}
		}
		b.WriteByte('z')
	case kPerl:
		// prefer a member that is in the working alphabet
		for try := 0; try < 8; try++ {
			c := pickByte(r, g.alpha)
			if strings.ContainsRune(n.set, rune(c)) {
				b.WriteByte(c)
				return
			}
		}
		b.WriteByte(pickByte(r, n.set))
	case kRaw:
		b.WriteString(n.set)
	case kQuant:
		hi := n.max
		if hi < 0 || hi > n.min+2 {
			hi = n.min + 2
		}
		k := n.min + r.Intn(hi-n.min+1)
		for i := 0; i < k; i++ {
			g.sample(r, n.subs[0], b)
		}
	case kGroup:
		g.sample(r, n.subs[0], b)
	case kConcat:
		for _, s := range n.subs {
			g.sample(r, s, b)
		}
	case kAlt:
		g.sample(r, n.subs[r.Intn(len(n.subs))], b)
	}
}

// Mutate returns a near miss of s: one byte dropped, replaced, doubled, case
// swapped, or a byte added at either end.
func Mutate(r Rand, s, alpha string) string {
	bs := []byte(s)
	if len(bs) == 0 {
		return string(pickByte(r, alpha))
	}
	i := r.Intn(len(bs))
	switch r.Intn(6) {
	case 0:
		return string(bs[:i]) + string(bs[i+1:])
	case 1:
		bs[i] = pickByte(r, alpha)
		return string(bs)
	case 2:
		return string(bs[:i]) + string(bs[i]) + string(bs[i:])
	case 3:
		if bs[i] >= 'a' && bs[i] <= 'z' {
			bs[i] -= 32
		} else if bs[i] >= 'A' && bs[i] <= 'Z' {
			bs[i] += 32
		}
		return string(bs)
	case 4:
		return string(pickByte(r, alpha)) + s
	default:
		return s + string(pickByte(r, alpha))
	}
}

// RandName is a uniformly random string of length lo..hi over alpha.
func RandName(r Rand, alpha string, lo, hi int) string {
	n := lo + r.Intn(hi-lo+1)
	b := make([]byte, n)
	for i := range b {
		b[i] = pickByte(r, alpha)
	}
	return string(b)
}
