// Package oracle holds reference models written from the documentation and the
// property statements, never from the code under test. Files in this package
// must not import any package of the repository being checked.
package oracle

import (
	"regexp"
	"strings"
)

// Filter is the documented meaning of the six filter options
// (docs/config.md, docs/tcp-admin-interface.md, property C03):
//
//	a metric passes when its NAME starts with prefix, does not start with
//	notPrefix, contains sub, does not contain notSub, is matched by regex
//	(unanchored RE2 search) and is not matched by notRegex; an empty option
//	imposes no constraint.
//
// The regular expressions are compiled with the standard library, independently
// of whatever the code under test does with them.
type Filter struct {
	Prefix    string `json:"prefix,omitempty"`
	NotPrefix string `json:"notPrefix,omitempty"`
	Sub       string `json:"sub,omitempty"`
	NotSub    string `json:"notSub,omitempty"`
	Regex     string `json:"regex,omitempty"`
	NotRegex  string `json:"notRegex,omitempty"`

	re, notRe *regexp.Regexp
}

// The six conjuncts, in the order they are reported.
const (
	CPrefix    = "prefix"
	CNotPrefix = "notprefix"
	CSub       = "sub"
	CNotSub    = "notsub"
	CRegex     = "regex"
	CNotRegex  = "notregex"
)

// NewFilter compiles the reference filter; the error is the standard
// library's verdict on the two regular expressions.
func NewFilter(prefix, notPrefix, sub, notSub, regex, notRegex string) (*Filter, error) {
	f := &Filter{Prefix: prefix, NotPrefix: notPrefix, Sub: sub, NotSub: notSub, Regex: regex, NotRegex: notRegex}
	var err error
	if regex != "" {
		if f.re, err = regexp.Compile(regex); err != nil {
			return nil, err
		}
	}
	if notRegex != "" {
		if f.notRe, err = regexp.Compile(notRegex); err != nil {
			return nil, err
		}
	}
	return f, nil
}

// Accept is the documented conjunction, evaluated on exactly the string given.
func (f *Filter) Accept(name string) bool { return len(f.Failing(name)) == 0 }

// Failing lists the conjuncts that reject the name (empty = the filter accepts).
func (f *Filter) Failing(name string) []string {
	var out []string
	if f.Prefix != "" && !strings.HasPrefix(name, f.Prefix) {
		out = append(out, CPrefix)
	}
	if f.NotPrefix != "" && strings.HasPrefix(name, f.NotPrefix) {
		out = append(out, CNotPrefix)
	}
	if f.Sub != "" && !strings.Contains(name, f.Sub) {
		out = append(out, CSub)
	}
	if f.NotSub != "" && strings.Contains(name, f.NotSub) {
		out = append(out, CNotSub)
	}
	if f.re != nil && !f.re.MatchString(name) {
		out = append(out, CRegex)
	}
	if f.notRe != nil && f.notRe.MatchString(name) {
		out = append(out, CNotRegex)
	}
	return out
}

// Options returns the non-empty options as (conjunct name, value) pairs.
func (f *Filter) Options() [][2]string {
	var out [][2]string
	for _, p := range [][2]string{{CPrefix, f.Prefix}, {CNotPrefix, f.NotPrefix}, {CSub, f.Sub}, {CNotSub, f.NotSub}, {CRegex, f.Regex}, {CNotRegex, f.NotRegex}} {
		if p[1] != "" {
			out = append(out, p)
		}
	}
	return out
}

// Single returns the filter that has only the given conjunct of f.
func (f *Filter) Single(conjunct string) *Filter {
	g := &Filter{}
	switch conjunct {
	case CPrefix:
		g.Prefix = f.Prefix
	case CNotPrefix:
		g.NotPrefix = f.NotPrefix
	case CSub:
		g.Sub = f.Sub
	case CNotSub:
		g.NotSub = f.NotSub
	case CRegex:
		g.Regex, g.re = f.Regex, f.re
	case CNotRegex:
		g.NotRegex, g.notRe = f.NotRegex, f.notRe
	}
	return g
}

// Empty tells whether no option is set (such a filter accepts everything).
func (f *Filter) Empty() bool { return len(f.Options()) == 0 }

// String renders the filter as option=value pairs (stable, used in signatures of cases).
func (f *Filter) String() string {
	var b strings.Builder
	for i, p := range f.Options() {
		if i > 0 {
			b.WriteByte(' ')
		}
		b.WriteString(p[0])
		b.WriteByte('=')
		b.WriteString(p[1])
	}
	if b.Len() == 0 {
		return "(empty)"
	}
	return b.String()
}

// NameOf returns the metric name of a line "name value timestamp": everything
// up to the first blank.
func NameOf(line string) string {
	if i := strings.IndexAny(line, " \t"); i >= 0 {
		return line[:i]
	}
	return line
}
