package oracle

import (
	"strings"
	"unicode"
	"unicode/utf8"
)

// Doc-derived message validator for property C02, written from
// docs/validation.md and the property statement only:
//
//   - "the message has 3 fields with a non-empty key" (whitespace separated)
//   - "the value parses to an int or float"
//   - "the timestamp is a unix timestamp"
//   - "if the key contains `=` or `_is_` we validate the key as metric2.0,
//     otherwise as a standard carbon metric"
//   - standard carbon key: none = no validation; medium (default) = characters
//     8-bit clean and not NUL, optional tag appendix; strict = medium + before the
//     appendix only [A-Za-z0-9_-.] and no consecutive dots
//   - tag appendix: `;` separates tags from each other and from the name; each
//     tag is a non-empty key and value separated by `=`; neither contains `;`;
//     the key may not contain `!`; 8-bit clean / not NUL as well
//   - metrics2.0: none = no validation; medium (default) = unit and mtype tag set,
//     no mixing of `=` and `_is_` styles, at least two tags.
//
// The documentation leaves a number of inputs open (what exactly is a float,
// how `foo;a=b` or `a.b=c` is classified, what a leading dot means, ...). The
// verdict therefore carries Confident: it is true only where the text above
// decides the case without interpretation; only those verdicts may be used
// as refuting evidence. Elsewhere Valid is the literal reading, to be reported
// as information when it differs from the dependency's verdict.

// C02Verdict is the doc-derived verdict on one line.
type C02Verdict struct {
	Valid     bool   // the line must be forwarded
	Confident bool   // the documentation decides this case unambiguously
	Class     string // which rule decided (stable, used in evidence and signatures)
	Fields    int    // number of whitespace separated fields (ASCII whitespace)
}

// C02Levels are the level names as written in the configuration; "" = option
// omitted, which the documentation says means medium for both.
func c02Default(level string) string {
	if level == "" {
		return "medium"
	}
	return level
}

func c02IsASCIISpace(b byte) bool {
	return b == ' ' || b == '\t' || b == '\n' || b == '\v' || b == '\f' || b == '\r'
}

// C02Fields splits on ASCII whitespace only.
func C02Fields(line []byte) [][]byte {
	var out [][]byte
	i := 0
	for i < len(line) {
		for i < len(line) && c02IsASCIISpace(line[i]) {
			i++
		}
		j := i
		for j < len(line) && !c02IsASCIISpace(line[j]) {
			j++
		}
		if j > i {
			out = append(out, line[i:j])
		}
		i = j
	}
	return out
}

// c02HasExoticSpace: a non-ASCII code point that Unicode classifies as white
// space (NBSP, NEL, U+2000.., U+3000 ...). "Whitespace separated" does not say
// whether those separate fields.
func c02HasExoticSpace(line []byte) bool {
	for i := 0; i < len(line); {
		if line[i] < utf8.RuneSelf {
			i++
			continue
		}
		r, n := utf8.DecodeRune(line[i:])
		if r != utf8.RuneError && unicode.IsSpace(r) {
			return true
		}
		i += n
	}
	return false
}

func c02AllDigits(s string) bool {
	if s == "" {
		return false
	}
	for i := 0; i < len(s); i++ {
		if s[i] < '0' || s[i] > '9' {
			return false
		}
	}
	return true
}

// c02Number classifies a value token: +1 certainly an int or float in every
// common notation, -1 certainly not a number, 0 open to interpretation
// (sign prefix '+', hex floats, digit separators, Inf/NaN, out-of-range ...).
func c02Number(tok string) int {
	s := tok
	if strings.HasPrefix(s, "-") {
		s = s[1:]
	}
	mant, exp := s, ""
	if i := strings.IndexAny(s, "eE"); i >= 0 {
		mant, exp = s[:i], s[i+1:]
		if strings.HasPrefix(exp, "-") || strings.HasPrefix(exp, "+") {
			exp = exp[1:]
		}
		if !c02AllDigits(exp) || len(exp) > 2 {
			mant = "?" // falls through to the liberal test below
		}
	}
	ip, fp := mant, ""
	hasDot := false
	if i := strings.IndexByte(mant, '.'); i >= 0 {
		ip, fp, hasDot = mant[:i], mant[i+1:], true
	}
	if c02AllDigits(ip) && len(ip) <= 30 && (!hasDot || c02AllDigits(fp)) {
		return +1
	}
	// liberal shapes some number parser might accept (sign prefix, hex floats,
	// digit separators, bare or dangling dots / exponents, inf / nan words):
	// open. Everything else is certainly not a number.
	low := strings.ToLower(tok)
	if low != "" && (low[0] == '+' || low[0] == '-') {
		low = low[1:]
	}
	if low == "inf" || low == "infinity" || low == "nan" {
		return 0
	}
	only := func(s, set string) bool {
		for i := 0; i < len(s); i++ {
			if !strings.ContainsRune(set, rune(s[i])) {
				return false
			}
		}
		return true
	}
	if strings.HasPrefix(low, "0x") {
		if only(low[2:], "0123456789abcdef_.p+-") {
			return 0
		}
		return -1
	}
	if low != "" && (low[0] >= '0' && low[0] <= '9' || low[0] == '.') && only(low, "0123456789_.e+-") {
		return 0
	}
	return -1
}

// c02Timestamp: +1 for a plain non-negative decimal integer of at most 10
// digits below 2^32 (a unix timestamp in seconds), -1 certainly not a number, 0 otherwise.
func c02Timestamp(tok string) int {
	if c02AllDigits(tok) && len(tok) <= 10 {
		var v uint64
		for i := 0; i < len(tok); i++ {
			v = v*10 + uint64(tok[i]-'0')
		}
		if v < 1<<32 {
			return +1
		}
		return 0
	}
	if c02Number(tok) == -1 {
		return -1
	}
	return 0
}

// c02Appendix checks the documented tag-appendix grammar on s, which starts at
// the first ';'. ok = grammatical; sure = the documentation decides it (a
// second '=' inside one tag is the open case: "separated by `=`").
func c02Appendix(s string) (ok, sure bool) {
	sure = true
	if s == "" || s[0] != ';' {
		return false, true
	}
	for _, tag := range strings.Split(s[1:], ";") {
		// an empty piece means ";;", a trailing ';' or a bare ';'
		i := strings.IndexByte(tag, '=')
		if i < 0 {
			return false, true // no separator: not "key=value"
		}
		k, v := tag[:i], tag[i+1:]
		if k == "" {
			return false, true
		}
		if strings.ContainsRune(k, '!') {
			return false, true
		}
		if v == "" {
			return false, true
		}
		if strings.ContainsRune(v, '=') {
			sure = false
			ok = false
			return
		}
	}
	return true, true
}

func c02Clean(s string) bool {
	for i := 0; i < len(s); i++ {
		if s[i] == 0 || s[i]&0x80 != 0 {
			return false
		}
	}
	return true
}

func c02StrictChars(s string) bool {
	for i := 0; i < len(s); i++ {
		c := s[i]
		if !(c >= 'a' && c <= 'z' || c >= 'A' && c <= 'Z' || c >= '0' && c <= '9' || c == '_' || c == '-' || c == '.') {
			return false
		}
	}
	return true
}

// C02DocValidate gives the doc-derived verdict for a line at the levels named
// in the configuration ("" = omitted).
func C02DocValidate(line []byte, legacyLevel, m20Level string) C02Verdict {
	legacyLevel, m20Level = c02Default(legacyLevel), c02Default(m20Level)
	fields := C02Fields(line)
	v := C02Verdict{Fields: len(fields), Confident: true}
	if c02HasExoticSpace(line) {
		v.Confident = false
	}
	if len(fields) != 3 {
		v.Valid, v.Class = false, "field-count"
		return v
	}
	key, val, ts := string(fields[0]), string(fields[1]), string(fields[2])

	// numeric tokens
	nv, nt := c02Number(val), c02Timestamp(ts)
	numValid := nv >= 0 && nt >= 0 // literal reading for the open cases: accept
	numSure := nv != 0 && nt != 0
	numClass := "numeric"
	if nv < 0 {
		numClass = "value-not-number"
	} else if nt < 0 {
		numClass = "timestamp-not-number"
	} else if !numSure {
		numClass = "numeric-open"
	}

	// key
	keyValid, keySure, keyClass := c02Key(key, legacyLevel, m20Level)

	switch {
	case keySure && !keyValid:
		// a certainly bad key rejects the line whatever the numbers are
		v.Valid, v.Class = false, keyClass
	case numSure && !numValid:
		v.Valid, v.Class = false, numClass
	case !keySure:
		v.Valid, v.Confident, v.Class = keyValid && numValid, false, keyClass
	case !numSure:
		v.Valid, v.Confident, v.Class = keyValid && numValid, false, numClass
	default:
		v.Valid, v.Class = true, keyClass
	}
	return v
}

// c02Key validates the name field.
func c02Key(key, legacyLevel, m20Level string) (valid, sure bool, class string) {
	// the documentation does not say what a leading dot means
	if strings.HasPrefix(key, ".") {
		return true, false, "leading-dot"
	}
	name, appendix := key, ""
	if i := strings.IndexByte(key, ';'); i >= 0 {
		name, appendix = key[:i], key[i:]
	}
	hasEq := strings.Contains(key, "=")
	hasIs := strings.Contains(key, "_is_")
	nameEq := strings.Contains(name, "=")
	nameIs := strings.Contains(name, "_is_")

	if !nameEq && !nameIs && !(hasIs) && (appendix == "" || strings.Contains(name, ".")) {
		// a standard carbon key, possibly with a tag appendix (the '=' of the
		// appendix belongs to the appendix grammar, not to metrics2.0) — only
		// unambiguous when the name proper is a dotted path or there is no appendix.
		return c02Legacy(name, appendix, legacyLevel)
	}
	if appendix == "" && (nameEq || nameIs) {
		firstTag := len(key)
		if i := strings.Index(key, "="); i >= 0 && i < firstTag {
			firstTag = i
		}
		if i := strings.Index(key, "_is_"); i >= 0 && i < firstTag {
			firstTag = i
		}
		if !strings.Contains(key[:firstTag], ".") {
			// tag style starts in the very first node: metrics2.0 beyond doubt
			return c02M20(key, hasEq, hasIs, m20Level)
		}
		// "a.b=c": contains '=' (documentation: metrics2.0) but starts like a
		// carbon path; literal reading = metrics2.0, not verdict-bearing
		ok, _, _ := c02M20(key, hasEq, hasIs, m20Level)
		return ok, false, "m20-after-dotted-prefix"
	}
	// "foo;a=b", ";a=b", "foo.bar;a_is_b=c", "unit=B;x=y" ...: the two rules of
	// the documentation collide. Literal reading: contains '=' or '_is_' -> metrics2.0.
	ok, _, _ := c02M20(key, hasEq, hasIs, m20Level)
	return ok, false, "appendix-vs-m20"
}

func c02Legacy(name, appendix, level string) (valid, sure bool, class string) {
	if level == "none" {
		return true, true, "legacy-none"
	}
	if name == "" {
		return false, true, "empty-key"
	}
	if appendix != "" {
		ok, s := c02Appendix(appendix)
		if !s {
			return ok, false, "appendix-open"
		}
		if !ok {
			return false, true, "appendix-grammar"
		}
	}
	if !c02Clean(name) || !c02Clean(appendix) {
		return false, true, "legacy-not-clean"
	}
	if level == "strict" {
		if strings.Contains(name, "..") {
			return false, true, "strict-consecutive-dots"
		}
		if !c02StrictChars(name) {
			return false, true, "strict-charset"
		}
		if appendix != "" {
			return true, true, "legacy-strict-appendix"
		}
		return true, true, "legacy-strict"
	}
	if appendix != "" {
		return true, true, "legacy-medium-appendix"
	}
	return true, true, "legacy-medium"
}

func c02M20(key string, hasEq, hasIs bool, level string) (valid, sure bool, class string) {
	if level == "none" {
		return true, true, "m20-none"
	}
	if hasEq && hasIs {
		return false, true, "m20-mixed-styles"
	}
	sep := "="
	if hasIs {
		sep = "_is_"
	}
	if !strings.Contains(key, "unit"+sep) {
		return false, true, "m20-no-unit"
	}
	if !strings.Contains(key, "mtype"+sep) {
		return false, true, "m20-no-mtype"
	}
	// certainly fine: every node is a tag with non-empty key and value, unit
	// and mtype are among them and there is at least one more tag
	nodes := strings.Split(key, ".")
	unit, mtype, all := false, false, true
	for _, n := range nodes {
		i := strings.Index(n, sep)
		if i <= 0 || i+len(sep) >= len(n) {
			all = false
			continue
		}
		switch n[:i] {
		case "unit":
			unit = true
		case "mtype":
			mtype = true
		}
	}
	if all && unit && mtype && len(nodes) >= 3 {
		return true, true, "m20-medium"
	}
	// "unit=B.mtype=gauge" (exactly two tags), "xunit=B...", untagged nodes ...
	return unit && mtype && len(nodes) >= 2, false, "m20-open"
}
