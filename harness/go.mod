module verifharness

go 1.21

require (
	github.com/BurntSushi/toml v0.0.0-00010101000000-000000000000
	github.com/Dieterbe/go-metrics v0.0.0-20181015090856-87383909479d
	github.com/Shopify/sarama v1.23.0
	github.com/anishathalye/porcupine v1.3.0
	github.com/golang/snappy v0.0.1
	github.com/grafana/carbon-relay-ng v0.0.0
	github.com/grafana/metrictank v1.0.1-0.20210114150051-52835b9a8775
	github.com/kisielk/og-rek v0.0.0-20170405223746-ec792bc6e6aa
	github.com/metrics20/go-metrics20 v0.0.0-20180821133656-717ed3a27bf9
	github.com/sirupsen/logrus v1.1.2-0.20181020050904-08e90462da34
	github.com/streadway/amqp v0.0.0-20170521212453-dfe15e360485
)

require (
	cloud.google.com/go v0.18.1-0.20180119164648-b1067c1d21b5 // indirect
	github.com/DataDog/zstd v1.3.6-0.20190409195224-796139022798 // indirect
	github.com/Dieterbe/artisanalhistogram v0.0.0-20170619072513-f61b7225d304 // indirect
	github.com/aws/aws-sdk-go v1.15.54 // indirect
	github.com/cespare/xxhash v0.0.0-00010101000000-000000000000 // indirect
	github.com/davecgh/go-spew v1.1.1 // indirect
	github.com/dgryski/go-jump v0.0.0-20170409065014-e1f439676b57 // indirect
	github.com/dgryski/go-linlog v0.0.0-20180207191225-edcf2dfd90ff // indirect
	github.com/eapache/go-resiliency v1.1.0 // indirect
	github.com/eapache/go-xerial-snappy v0.0.0-20180814174437-776d5712da21 // indirect
	github.com/eapache/queue v1.1.0 // indirect
	github.com/go-ini/ini v1.38.3 // indirect
	github.com/golang/protobuf v0.0.0-20171113180720-1e59b77b52bf // indirect
	github.com/googleapis/gax-go v2.0.0+incompatible // indirect
	github.com/grafana/configparser v0.0.0-20210707122942-2593eb86a3ee // indirect
	github.com/hashicorp/go-uuid v1.0.1 // indirect
	github.com/jcmturner/gofork v0.0.0-20190328161633-dc7c13fece03 // indirect
	github.com/jmespath/go-jmespath v0.0.0-20160202185014-0b12d6b521d8 // indirect
	github.com/jpillora/backoff v0.0.0-20160414055204-0496a6c14df0 // indirect
	github.com/pelletier/go-toml v1.9.1 // indirect
	github.com/philhofer/fwd v0.0.0-20151120024002-92647f2bd94a // indirect
	github.com/pierrec/lz4 v0.0.0-20190327172049-315a67e90e41 // indirect
	github.com/prometheus/procfs v0.0.0-20190425082905-87a4384529e0 // indirect
	github.com/rcrowley/go-metrics v0.0.0-20181016184325-3113b8401b8a // indirect
	github.com/taylorchu/toki v0.0.0-20141019163204-20e86122596c // indirect
	github.com/tinylib/msgp v1.1.0 // indirect
	github.com/xdg/scram v0.0.0-20180814205039-7eeb5667e42c // indirect
	github.com/xdg/stringprep v1.0.0 // indirect
	golang.org/x/crypto v0.0.0-20190404164418-38d8ce5564a5 // indirect
	golang.org/x/net v0.0.0-20190404232315-eb5bcb51f2a3 // indirect
	golang.org/x/oauth2 v0.0.0-20180118004544-b28fcf2b08a1 // indirect
	golang.org/x/sync v0.0.0-20181221193216-37e7f081c4d4 // indirect
	golang.org/x/sys v0.0.0-20190403152447-81d4e9dc473e // indirect
	golang.org/x/text v0.3.1-0.20171227012246-e19ae1496984 // indirect
	google.golang.org/api v0.0.0-20180122000316-bc96e9251952 // indirect
	google.golang.org/genproto v0.0.0-20171212231943-a8101f21cf98 // indirect
	google.golang.org/grpc v1.2.1-0.20180119173759-b71aced4a2a1 // indirect
	gopkg.in/jcmturner/aescts.v1 v1.0.1 // indirect
	gopkg.in/jcmturner/dnsutils.v1 v1.0.1 // indirect
	gopkg.in/jcmturner/gokrb5.v7 v7.2.3 // indirect
	gopkg.in/jcmturner/rpc.v1 v1.1.0 // indirect
)

replace github.com/grafana/carbon-relay-ng => /repo

replace github.com/cespare/xxhash => github.com/cespare/xxhash/v2 v2.1.1

replace github.com/BurntSushi/toml v0.0.0-00010101000000-000000000000 => github.com/Dieterbe/toml v0.2.1-0.20181015092100-96f3d827bb6c
