// Package dq drives the real nsqd.DiskQueue one operation at a time, using the
// tag-guarded crash-point hook to know when the queue's I/O loop is at rest.
package dq

import (
	"fmt"
	"io"
	"log"
	"sync"
	"time"

	"github.com/grafana/carbon-relay-ng/nsqd"
)

func init() {
	// the disk queue logs through the std logger; keep child logs small
	log.SetOutput(io.Discard)
}

// Hook multiplexes the single global hook variable.
type Hook struct {
	mu      sync.Mutex
	cond    *sync.Cond
	idleSeq int
	last    string // last idle label
	// OnPoint is called (outside the lock) for every non-idle point.
	OnPoint func(label string)
	// OnAny is called for every point including idle ones.
	OnAny func(label string)
}

var H = &Hook{}

func init() {
	H.cond = sync.NewCond(&H.mu)
	nsqd.VerifCrashPoint = H.fire
}

func (h *Hook) fire(label string) {
	if f := h.OnAny; f != nil {
		f(label)
	}
	if label == "idle-ready" || label == "idle-empty" {
		h.mu.Lock()
		h.idleSeq++
		h.last = label
		h.cond.Broadcast()
		h.mu.Unlock()
		return
	}
	if f := h.OnPoint; f != nil {
		f(label)
	}
}

// Seq returns the number of idle events seen so far.
func (h *Hook) Seq() int {
	h.mu.Lock()
	defer h.mu.Unlock()
	return h.idleSeq
}

// WaitIdle blocks until an idle event with sequence number > after has been
// seen and returns its label; ok=false when the watchdog fires.
func (h *Hook) WaitIdle(after int, watchdog time.Duration) (label string, seq int, ok bool) {
	done := make(chan struct{})
	timedOut := false
	go func() {
		select {
		case <-done:
		case <-time.After(watchdog):
			h.mu.Lock()
			timedOut = true
			h.cond.Broadcast()
			h.mu.Unlock()
		}
	}()
	h.mu.Lock()
	for h.idleSeq <= after && !timedOut {
		h.cond.Wait()
	}
	label, seq = h.last, h.idleSeq
	ok = h.idleSeq > after
	h.mu.Unlock()
	close(done)
	return
}

// Q is a disk queue under step-by-step control.
type Q struct {
	Name, Dir string
	MaxBytes  int64
	SyncEvery int64
	D         *nsqd.DiskQueue
	Watchdog  time.Duration
	Label     string // label of the last idle point
}

// OpenWatchdog bounds the wait for the first idle point after opening.
var OpenWatchdog = 60 * time.Second

// Open (re)opens the queue and waits until its loop is at rest.
func Open(name, dir string, maxBytes, syncEvery int64) (*Q, error) {
	q := &Q{Name: name, Dir: dir, MaxBytes: maxBytes, SyncEvery: syncEvery, Watchdog: OpenWatchdog}
	s := H.Seq()
	q.D = nsqd.NewDiskQueue(name, dir, maxBytes, syncEvery, time.Hour).(*nsqd.DiskQueue)
	l, _, ok := H.WaitIdle(s, q.Watchdog)
	if !ok {
		return q, fmt.Errorf("queue did not reach its idle point after open")
	}
	q.Label = l
	return q, nil
}

func (q *Q) Put(b []byte) error {
	s := H.Seq()
	if err := q.D.Put(b); err != nil {
		return err
	}
	l, _, ok := H.WaitIdle(s, q.Watchdog)
	if !ok {
		return fmt.Errorf("queue did not reach its idle point after Put")
	}
	q.Label = l
	return nil
}

// Get receives one message; ok=false if nothing is delivered before the watchdog.
func (q *Q) Get() (msg []byte, ok bool, err error) {
	s := H.Seq()
	select {
	case msg = <-q.D.ReadChan():
	case <-time.After(q.Watchdog):
		return nil, false, nil
	}
	l, _, ok2 := H.WaitIdle(s, q.Watchdog)
	if !ok2 {
		return msg, true, fmt.Errorf("queue did not reach its idle point after a read")
	}
	q.Label = l
	return msg, true, nil
}

func (q *Q) Close() error { return q.D.Close() }
