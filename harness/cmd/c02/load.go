// C02, rejections under load.
//
// Several "connections" (goroutines calling Table.Dispatch, as the input handlers do) push rejected lines - each
// goroutine its own names, a handful of different rejection reasons, now and then a second rejection of one of its
// earlier names with another text, now and then a valid line - as fast as they can, while a viewer keeps asking
// for the bad-metrics report. The report is filed by a single goroutine behind a queue; a case has two phases:
//
//	fill   a first wave, small enough to be queued whole, gives the report its size (a viewer's request is
//	       answered by the filing goroutine, which walks the whole report for it)
//	burst  a second wave, larger than the queue, while the viewer asks again and again for "the bad metrics of
//	       the last millisecond": the connections outrun the filing goroutine by more than the queue holds
//
// When everything has been dispatched and the report has settled
//
//	direction=in delta  == lines dispatched
//	type=invalid delta  == lines that must be rejected
//	capture route       == exactly the valid lines, once each
//	Table.Bad().Get(1h) == for every name with a rejection, the text of the last rejected line of that name and
//	                       a non-empty reason; no name that only ever carried valid lines
//
// "Settled" is not a deadline: after a wave, probe lines (rejected lines themselves) are dispatched one per look;
// the report is read once a probe is visible, or once its size has not moved over many consecutive looks (every
// look is answered by the filing goroutine itself). A finding must then persist, unchanged, over further looks
// before it is a verdict; a report that is still moving at the cap is inconclusive.
package main

import (
	"fmt"
	"strconv"
	"strings"
	"sync"
	"sync/atomic"
	"time"

	"github.com/grafana/carbon-relay-ng/badmetrics"
	"github.com/grafana/carbon-relay-ng/matcher"
	"github.com/grafana/carbon-relay-ng/table"
	"github.com/metrics20/go-metrics20/carbon20"

	"verifharness/mon"
)

// loadComboIdx is the "combo_index" a witness of the load scenario carries (VERIF_REPLAY re-runs that case only).
const loadComboIdx = 100

// loadSlots are the case indexes (for mon.Mine) of the load cases: with the driver's shard counts (3 / 9) they
// fall on the shards that carry the fewest lines of the level combinations.
var loadSlots = []int{16, 17, 15}

type loadCase struct {
	Idx         int
	Dispatchers int
	Fill        int // lines of the first wave, all dispatchers together
	Burst       int // lines of the second wave
	HammerGets  int // at most this many back-to-back requests by the viewer during the burst
}

func loadCases() []loadCase {
	var out []loadCase
	n := mon.N(1, 3)
	for k := 0; k < n; k++ {
		r := mon.NewRng(mon.Seed(), 900, uint64(k))
		d := r.Range(8, 16)
		// quick: both waves fit the queue of the filing goroutine (the concurrent path only, cheap); thorough: the
		// second wave is larger than that queue (measured under -race, 16 cores, load average 20-45: about 40-70 s
		// a case on the unchanged tree, most of it the filing goroutine working through the backlog)
		out = append(out, loadCase{k, d, mon.N(10000, 40000), mon.N(30000, 125000), 150})
	}
	return out
}

type loadLine struct {
	text  string
	key   string // name the dependency's parser gives the line ("" = none)
	valid bool
}

type loadWitness struct {
	ComboIdx    int    `json:"combo_index"`
	Batch       int    `json:"batch"`
	Scenario    string `json:"scenario"`
	Levels      combo  `json:"levels_in_config"`
	Dispatchers int    `json:"dispatchers"`
	Fill        int    `json:"lines_first_wave"`
	Burst       int    `json:"lines_second_wave"`
	Name        string `json:"name_go_quoted,omitempty"`
	Rejected    string `json:"last_rejected_line_go_quoted,omitempty"`
	Reported    string `json:"reported_text_go_quoted,omitempty"`
	Records     int    `json:"records_in_report"`
	Expected    int    `json:"names_with_a_rejection"`
	Affected    int    `json:"names_affected"`
	Looks       int    `json:"looks"`
	ViewerGets  int64  `json:"viewer_requests_during_burst"`
	SettledBy   string `json:"settled_by"`
}

// loadPlan is what one dispatcher sends, and what must come of it.
type loadPlan struct {
	lines    []loadLine
	expected map[string]string // name -> text of its last rejected line
	valid    map[string]int    // valid line -> times sent
	okNames  map[string]bool   // names that only ever carry valid lines
	rejected int
}

// genLoadPlan prepares what dispatcher d of a case sends. Names are owned by the dispatcher (so "the last rejected
// line of a name" is decided by the program order of one goroutine).
func genLoadPlan(r *mon.Rng, tag string, d, n int, lvlL carbon20.ValidationLevelLegacy, lvlM carbon20.ValidationLevelM20) *loadPlan {
	p := &loadPlan{lines: make([]loadLine, 0, n), expected: make(map[string]string, n), valid: map[string]int{}, okNames: map[string]bool{}}
	var names []string
	for i := 0; i < n; i++ {
		name := tag + ".d" + strconv.Itoa(d) + ".n" + strconv.Itoa(i)
		var text string
		switch k := r.Intn(50); {
		case k == 0:
			text = name + " " + strconv.Itoa(i) + " 1600000000" // valid
		case k <= 3 && len(names) > 0:
			// an earlier name of this dispatcher is rejected again, with another text
			text = names[r.Intn(len(names))] + " again" + strconv.Itoa(i) + " 1600000000"
		case k == 4 && d == 0:
			text = name + " " + strconv.Itoa(i) // two fields: no name can be parsed (only dispatcher 0 sends these)
		case k < 20:
			text = name + " v" + strconv.Itoa(i) + " 1600000000" // value is not a number
		case k < 30:
			text = name + " 1 t" + strconv.Itoa(i) // timestamp is not a number
		case k < 38:
			text = name + ";k 1 1600000000" // broken tag appendix
		case k < 44:
			text = name + ".\x80x 1 1600000000" // 8-bit byte
		default:
			text = "host=" + name + ".mtype=gauge.dc=x 1 1600000000" // metrics2.0 without unit
		}
		key, _, _, err := carbon20.ValidatePacket([]byte(text), lvlL, lvlM)
		l := loadLine{text: text, valid: err == nil}
		if strings.HasPrefix(text, string(key)) {
			l.key = text[:len(key)]
		} else {
			l.key = string(key)
		}
		if l.valid {
			p.valid[l.text]++
			p.okNames[l.key] = true
		} else {
			p.rejected++
			p.expected[l.key] = l.text
			if l.key != "" && len(names) < 4096 {
				names = append(names, l.key)
			}
		}
		p.lines = append(p.lines, l)
	}
	for k := range p.expected {
		delete(p.okNames, k)
	}
	return p
}

type loadStats struct {
	lines, rejected, valid, names, probes, looks int
}

// loadSettle dispatches one probe per look until a probe of this wave is visible in the report (or the size of the
// report has stopped moving). A look asks for the bad metrics since shortly before the first probe (a short list);
// every fifth look, and the last one, read the whole report. It returns how it settled ("" = it did not within
// maxLooks) and the whole report as last read.
func loadSettle(t *table.Table, prefix string, probes map[string]string, st *loadStats, maxLooks int) (string, []badmetrics.Record) {
	var recs []badmetrics.Record
	prevSize, same := -1, 0
	var lastLook time.Duration
	since := time.Now().Add(-50 * time.Millisecond)
	for n := 0; st.looks < maxLooks; n++ {
		pn := prefix + strconv.Itoa(n)
		pt := pn + " probe 1600000000"
		t.Dispatch([]byte(pt))
		probes[pn] = pt
		st.probes++
		st.lines++
		st.rejected++
		// a look keeps the filing goroutine from filing: leave it twice the time the last look took
		time.Sleep(100*time.Millisecond + 2*lastLook)
		t0 := time.Now()
		full := n%5 == 4
		var got []badmetrics.Record
		if full {
			got = t.Bad().Get(time.Hour)
			recs = got
		} else {
			got = t.Bad().Get(time.Since(since))
		}
		lastLook = time.Since(t0)
		st.looks++
		for i := range got {
			if strings.HasPrefix(got[i].Metric, prefix) {
				if !full {
					recs = t.Bad().Get(time.Hour)
					st.looks++
				}
				return "probe visible", recs
			}
		}
		if full {
			if len(recs) == prevSize {
				same++
				if same >= 8 {
					return "size unchanged over 40 looks", recs
				}
			} else {
				same = 0
			}
			prevSize = len(recs)
		}
	}
	return "", recs
}

func runLoadCase(res *mon.Result, lc loadCase) loadStats {
	var st loadStats
	r := mon.NewRng(mon.Seed(), 901, uint64(lc.Idx))
	// levels at which every generated reason rejects; written in the configuration or left to the default
	cb := []combo{{"medium", "medium", 0}, {"strict", "medium", 0}, {"", "", 0}, {"strict", "", 0}}[r.Intn(4)]
	lvlL, lvlM := legacyLevel(cb.Legacy), m20Level(cb.M20)
	tag := fmt.Sprintf("c02load.s%d.k%d", mon.Seed(), lc.Idx)
	res.LogCase("rejections under load: case %d, levels %s, %d dispatchers, waves of %d and %d lines (streams 900/901/910+)", lc.Idx, cb, lc.Dispatchers, lc.Fill, lc.Burst)

	t := mon.NewTable(cb.Legacy, cb.M20, false, mon.Scratch())
	all, err := matcher.New("", "", "", "", "", "")
	if err != nil {
		panic(err)
	}
	capr := mon.NewCaptureRoute(fmt.Sprintf("c02loadcap%d", lc.Idx), all, nil)
	t.AddRoute(capr)
	defer close(t.In)

	// what every dispatcher will send, prepared in parallel beforehand
	share := func(total, d int) int {
		n := total / lc.Dispatchers
		if d < total%lc.Dispatchers {
			n++
		}
		return n
	}
	plans := make([]*loadPlan, lc.Dispatchers)
	var prep sync.WaitGroup
	for d := 0; d < lc.Dispatchers; d++ {
		prep.Add(1)
		go func(d int) {
			defer prep.Done()
			plans[d] = genLoadPlan(mon.NewRng(mon.Seed(), 910+uint64(lc.Idx), uint64(d)), tag, d, share(lc.Fill, d)+share(lc.Burst, d), lvlL, lvlM)
		}(d)
	}
	prep.Wait()
	nExpected := 0
	for _, p := range plans {
		st.lines += len(p.lines)
		st.rejected += p.rejected
		st.valid += len(p.lines) - p.rejected
		nExpected += len(p.expected)
	}
	probes := map[string]string{}

	in0, inv0 := mon.Counter(mon.KeyIn), mon.Counter(mon.KeyInvalid)

	// somebody keeps the bad-metrics page open: a look at everything now and then; during the burst, the bad
	// metrics of the last millisecond again and again (at most HammerGets times, or until the burst is through)
	// (a request keeps the filing goroutine busy for a time that grows with the report: the viewer leaves it twice
	// that time between two looks; during the burst it does not, until the dispatchers stop getting ahead)
	var returned, hammerGets, slowGets int64
	var viewer sync.WaitGroup
	look := func(stop chan struct{}) {
		defer viewer.Done()
		for {
			t0 := time.Now()
			t.Bad().Get(time.Hour)
			atomic.AddInt64(&slowGets, 1)
			select {
			case <-stop:
				return
			case <-time.After(100*time.Millisecond + 2*time.Since(t0)):
			}
		}
	}
	hammer := func(want int64) {
		defer viewer.Done()
		idle := 0
		last := atomic.LoadInt64(&returned)
		for atomic.AddInt64(&hammerGets, 1) <= int64(lc.HammerGets) && last < want && idle < 2 {
			t.Bad().Get(time.Millisecond)
			cur := atomic.LoadInt64(&returned)
			if cur-last < 64 {
				idle++
			} else {
				idle = 0
			}
			last = cur
		}
	}

	wave := func(part func(d int) []loadLine) time.Duration {
		start := make(chan struct{})
		var wg sync.WaitGroup
		for d := range plans {
			wg.Add(1)
			go func(lines []loadLine) {
				defer wg.Done()
				<-start
				for i := range lines {
					t.Dispatch([]byte(lines[i].text))
					if i&31 == 31 {
						atomic.AddInt64(&returned, 32)
					}
				}
				atomic.AddInt64(&returned, int64(len(lines)&31))
			}(part(d))
		}
		t0 := time.Now()
		close(start)
		wg.Wait()
		return time.Since(t0)
	}

	const maxLooks = 1500
	mkW := func(name, rejected, reported string, nrec, affected int, by string) loadWitness {
		w := loadWitness{ComboIdx: loadComboIdx, Batch: lc.Idx, Scenario: "rejections under load", Levels: cb, Dispatchers: lc.Dispatchers, Fill: lc.Fill, Burst: lc.Burst,
			Records: nrec, Expected: nExpected + len(probes), Affected: affected, Looks: st.looks, ViewerGets: atomic.LoadInt64(&hammerGets), SettledBy: by}
		if by != "" {
			w.Name, w.Rejected, w.Reported = strconv.Quote(name), strconv.Quote(rejected), strconv.Quote(reported)
		}
		return w
	}

	// first wave, then wait until it is on file
	stop := make(chan struct{})
	viewer.Add(1)
	go look(stop)
	tFill := wave(func(d int) []loadLine { return plans[d].lines[:share(lc.Fill, d)] })
	close(stop)
	viewer.Wait()
	settledBy, recs := loadSettle(t, tag+".probeA", probes, &st, maxLooks)
	filled := len(recs)
	var tBurst time.Duration
	if settledBy != "" {
		// second wave, the viewer asking back to back
		atomic.StoreInt64(&returned, 0)
		for v := 0; v < 3; v++ {
			viewer.Add(1)
			go hammer(int64(lc.Burst))
		}
		tBurst = wave(func(d int) []loadLine { return plans[d].lines[share(lc.Fill, d):] })
		viewer.Wait()
	}
	if settledBy != "" {
		settledBy, recs = loadSettle(t, tag+".probeB", probes, &st, maxLooks)
	}
	st.names = nExpected + len(probes)

	if settledBy == "" {
		res.Inconclusive(fmt.Sprintf("rejections under load case %d: the bad-metrics report was still changing after %d looks (%d records, %d names expected); no verdict", lc.Idx, st.looks, len(recs), st.names))
		return st
	}

	// forwarding is synchronous: exactly the valid lines, once each
	got := map[string]int{}
	for _, l := range capr.Lines() {
		got[l]++
	}
	badFwd, nSentValid := 0, 0
	var fwdEx string
	var fwdExSent int
	for _, p := range plans {
		for l, n := range p.valid {
			nSentValid++
			if got[l] != n {
				badFwd++
				fwdEx, fwdExSent = l, n
			}
		}
	}
	if badFwd == 0 && len(got) != nSentValid {
		// something else was handed over
		for l := range got {
			found := false
			for _, p := range plans {
				if p.valid[l] > 0 {
					found = true
				}
			}
			if !found {
				badFwd++
				fwdEx, fwdExSent = l, 0
			}
		}
	}
	if badFwd > 0 {
		sig := "load-valid-not-forwarded-once"
		if fwdExSent == 0 {
			sig = "load-invalid-forwarded"
		}
		res.Violate(sig, fmt.Sprintf("rejections under load, levels %s: %d dispatchers sent %d lines of which %d valid; the route was handed %d lines, %d texts not handed over exactly as often as sent valid (e.g. %q: sent valid %d times, handed over %d times)", cb, lc.Dispatchers, st.lines, st.valid, capr.Len(), badFwd, fwdEx, fwdExSent, got[fwdEx]), mkW(fwdEx, "", "", 0, badFwd, "forwarding"))
	}

	dIn, dInv := mon.Counter(mon.KeyIn)-in0, mon.Counter(mon.KeyInvalid)-inv0
	if dIn != int64(st.lines) {
		res.Violate("load-in-count", fmt.Sprintf("rejections under load, levels %s: %d lines dispatched by %d goroutines (+%d probes), direction=in moved by %d", cb, st.lines-st.probes, lc.Dispatchers, st.probes, dIn), mkW("", "", "", len(recs), 0, ""))
	}
	if dInv != int64(st.rejected) {
		res.Violate("load-invalid-count", fmt.Sprintf("rejections under load, levels %s: %d of the %d lines dispatched must be rejected, type=invalid moved by %d", cb, st.rejected, st.lines, dInv), mkW("", "", "", len(recs), 0, ""))
	}

	// read the report; a finding must persist unchanged over further looks
	type finding struct {
		sig      string
		n        int
		w        loadWitness
		nrecords int
	}
	read := func(recs []badmetrics.Record) []finding {
		byName := make(map[string]int, len(recs))
		for i := range recs {
			byName[recs[i].Metric] = i
		}
		var miss, missNone, text, reason, vbad finding
		miss.sig, missNone.sig, text.sig, reason.sig, vbad.sig = "load-bad-missing", "load-bad-missing-unparsed", "load-bad-wrong-text", "load-bad-empty-reason", "load-valid-reported-bad"
		check := func(expected map[string]string) {
			for name, want := range expected {
				i, ok := byName[name]
				var f *finding
				rep := ""
				switch {
				case !ok && name == "":
					f = &missNone
				case !ok:
					f = &miss
				case recs[i].LastMsg != want:
					f, rep = &text, recs[i].LastMsg
				case recs[i].LastErr == "":
					f, rep = &reason, recs[i].LastMsg
				}
				if f != nil {
					if f.n == 0 || name < f.w.Name {
						f.w = loadWitness{Name: name, Rejected: want, Reported: rep}
					}
					f.n++
				}
			}
		}
		check(probes)
		for _, p := range plans {
			check(p.expected)
			for name := range p.okNames {
				if i, ok := byName[name]; ok {
					if vbad.n == 0 || name < vbad.w.Name {
						vbad.w = loadWitness{Name: name, Reported: recs[i].LastMsg}
					}
					vbad.n++
				}
			}
		}
		var out []finding
		for _, f := range []finding{miss, missNone, text, reason, vbad} {
			if f.n > 0 {
				f.nrecords = len(recs)
				out = append(out, f)
			}
		}
		return out
	}
	sameFindings := func(a, b []finding) bool {
		if len(a) != len(b) {
			return false
		}
		for i := range a {
			if a[i].sig != b[i].sig || a[i].n != b[i].n || a[i].nrecords != b[i].nrecords {
				return false
			}
		}
		return true
	}
	fs := read(recs)
	const persist = 8
	persisted := 0
	for len(fs) > 0 && persisted < persist && st.looks < maxLooks {
		time.Sleep(250 * time.Millisecond)
		recs = t.Bad().Get(time.Hour)
		st.looks++
		nf := read(recs)
		if sameFindings(fs, nf) {
			persisted++
		} else {
			persisted = 0
		}
		fs = nf
	}
	if len(fs) > 0 && persisted < persist {
		res.Inconclusive(fmt.Sprintf("rejections under load case %d: the bad-metrics report was still changing after %d looks (%d records, %d names expected, %s: %d names); no verdict on the report", lc.Idx, st.looks, len(recs), st.names, fs[0].sig, fs[0].n))
		return st
	}
	for _, f := range fs {
		w := mkW(f.w.Name, f.w.Rejected, f.w.Reported, len(recs), f.n, settledBy)
		ctx := fmt.Sprintf("rejections under load, levels %s: %d dispatchers had %d lines rejected (type=invalid %+d) under %d names, %d of them in a burst while a viewer asked for the report %d times; the settled report (%s, %d records, the same over %d more looks)", cb, lc.Dispatchers, st.rejected, dInv, st.names, lc.Burst, atomic.LoadInt64(&hammerGets), settledBy, len(recs), persist)
		var msg string
		switch f.sig {
		case "load-valid-reported-bad":
			msg = fmt.Sprintf("%s lists %d names that only ever carried valid (forwarded) lines, e.g. %q with text %q", ctx, f.n, f.w.Name, f.w.Reported)
		case "load-bad-wrong-text":
			msg = fmt.Sprintf("%s lists %d names with a text that is not their last rejected line, e.g. %q: last rejected %q, listed %q", ctx, f.n, f.w.Name, f.w.Rejected, f.w.Reported)
		case "load-bad-empty-reason":
			msg = fmt.Sprintf("%s lists %d names without a reason, e.g. %q", ctx, f.n, f.w.Name)
		default:
			msg = fmt.Sprintf("%s does not list %d of the names, e.g. %q (rejected line %q)", ctx, f.n, f.w.Name, f.w.Rejected)
		}
		res.Violate(f.sig, msg, w)
	}
	res.NonTrivial(fmt.Sprintf("load|%s|d%d|%d+%d", cb, lc.Dispatchers, lc.Fill, lc.Burst))
	res.Eval(st.lines)
	res.Count("load_ms_burst", int(tBurst/time.Millisecond))
	res.Count("load_viewer_requests_during_burst", int(atomic.LoadInt64(&hammerGets)))
	res.Set(fmt.Sprintf("load_case_%d", lc.Idx), map[string]interface{}{"levels": cb.String(), "dispatchers": lc.Dispatchers, "lines": st.lines, "rejected": st.rejected, "valid": st.valid, "names_with_a_rejection": st.names, "probes": st.probes, "looks": st.looks, "settled_by": settledBy, "records_after_first_wave": filled, "records_in_report": len(recs), "viewer_requests_during_burst": atomic.LoadInt64(&hammerGets), "viewer_full_reads": atomic.LoadInt64(&slowGets), "first_wave_ms": int(tFill / time.Millisecond), "burst_ms": int(tBurst / time.Millisecond)})
	return st
}
