// C02 — only valid metrics are forwarded; every rejection is counted and reported.
//
// A real table is built for every combination of validation levels *as written
// in the configuration text* (TOML -> cfg.Config -> TableConfig, like main()),
// including the combinations where an option is omitted (documented default:
// medium / medium). A capture route that accepts everything and an aggregation
// that matches everything are attached. Generated and mutated lines are
// dispatched one at a time; after each Dispatch the monitors read
//
//	direction=in delta (must be 1), type=invalid delta, lines handed to the capture route
//
// and compare with two oracles:
//
//	(1) carbon20.ValidatePacket (the dependency, outside the repository) called with
//	    levels the harness derives itself from the configuration words;
//	(2) a validator written from docs/validation.md (oracle/validate.go), verdict-bearing
//	    only where the documentation decides the case without interpretation.
//
// After each batch the aggregation's input counter must have moved by the number
// of valid lines (FIFO sentinel barrier), and Table.Bad().Get(1h) must hold, for
// every name that had a rejection, the text of the LAST rejected line with that
// name and a non-empty reason (bounded retries: the report is asynchronous).
//
// A last scenario (load.go) has 8-16 goroutines reject lines of their own names concurrently while a viewer reads
// the report; in the thorough tier the second wave is larger than the queue in front of the report.
package main

import (
	"bytes"
	"encoding/hex"
	"encoding/json"
	"fmt"
	"os"
	"regexp"
	"runtime"
	"sort"
	"strconv"
	"strings"
	"time"

	"github.com/grafana/carbon-relay-ng/aggregator"
	"github.com/grafana/carbon-relay-ng/matcher"
	"github.com/grafana/carbon-relay-ng/rewriter"
	"github.com/grafana/carbon-relay-ng/table"
	"github.com/metrics20/go-metrics20/carbon20"

	"verifharness/mon"
	"verifharness/oracle"
)

// ---- levels: configuration word -> level, derived here (not by the repo's validate package)

func legacyLevel(word string) carbon20.ValidationLevelLegacy {
	switch word {
	case "strict":
		return carbon20.StrictLegacy
	case "none":
		return carbon20.NoneLegacy
	case "medium", "": // docs/validation.md: medium (default)
		return carbon20.MediumLegacy
	}
	panic("unknown legacy level " + word)
}

func m20Level(word string) carbon20.ValidationLevelM20 {
	switch word {
	case "none":
		return carbon20.NoneM20
	case "medium", "": // docs/validation.md: medium (default)
		return carbon20.MediumM20
	}
	panic("unknown m20 level " + word)
}

type combo struct {
	Legacy string `json:"validation_level_legacy"` // "" = option omitted from the configuration
	M20    string `json:"validation_level_m20"`
	Share  int    `json:"-"` // lines = N * Share / 4
}

func (c combo) String() string {
	l, m := c.Legacy, c.M20
	if l == "" {
		l = "(omitted)"
	}
	if m == "" {
		m = "(omitted)"
	}
	return l + "/" + m
}

var combos = []combo{
	{"strict", "medium", 4}, {"strict", "none", 4},
	{"medium", "medium", 4}, {"medium", "none", 4},
	{"none", "medium", 4}, {"none", "none", 4},
	{"", "", 2}, {"", "none", 1}, {"strict", "", 1},
}

// ---- line generator

type gline struct {
	Line    []byte
	Kinds   string // name/value/timestamp/layout/mutation kinds: the non-triviality signature
	Mutated bool
}

var strictBad = []string{"@", "#", "$", "%", "!", "~", "*", "(", ")", "[", "]", "{", "}", "/", "\\", ":", ",", "<", ">", "?", "'", "\"", "|", "^", "&", "+"}

var badAppendix = []string{";", ";k", ";k=", ";=v", ";k=v;", ";k=v;;k2=v2", ";k!=v", ";k=v=w", ";k=v;k2", ";k;=v", ";;", ";k=v;=w", ";k=v;k2=", ";!=v", ";k==v", ";k=v;k!2=v"}
var goodAppendix = []string{";k=v", ";k=v;k2=v2", ";a=b;c=d;e=f", ";k=v!", ";k=~v", ";k=v.w", ";some-key=some_value", ";k=v-w"}

func seg(r *mon.Rng) string {
	const al = "abcdefghijklmnopqrstuvwxyzABCXYZ0123456789_-"
	n := r.Range(1, 6)
	b := make([]byte, n)
	for i := range b {
		b[i] = al[r.Intn(len(al))]
	}
	return string(b)
}

func genName(r *mon.Rng, id string) (string, string) {
	base := "c02." + id + "." + seg(r)
	switch k := r.Intn(26); k {
	case 0, 1, 2, 3:
		return base + "." + seg(r), "dotted"
	case 4:
		return "c02" + id, "single"
	case 5:
		return "c02." + id + "." + seg(r) + r.Pick(strictBad) + seg(r), "strictbad"
	case 6:
		return r.Pick([]string{"c02." + id + ".." + seg(r), "c02." + id + ".", "c02.." + id, "c02." + id + "..."}), "dots"
	case 7:
		return r.Pick([]string{".", ".."}) + base, "leadingdot"
	case 8:
		return "c02." + id + ".a\x00b", "nul"
	case 9:
		return "c02." + id + "." + r.Pick([]string{string([]byte{byte(0x80 + r.Intn(128))}), "caf\xc3\xa9", "a\xc2\xa0b", "a\xc2\x85b", "\xff\xfe", "a\xe2\x80\x83b", "\xa0", "\x85"}), "8bit"
	case 10, 11:
		return base + r.Pick(goodAppendix), "appendix-ok"
	case 12, 13:
		return base + r.Pick(badAppendix), "appendix-bad"
	case 14:
		return "c02" + id + r.Pick(append(append([]string{}, goodAppendix...), badAppendix...)), "dotless-appendix"
	case 15:
		tags := []string{"unit=B", "mtype=gauge", "host=" + id}
		if r.Bool() {
			tags = append(tags, "dc="+seg(r))
		}
		var t []string
		for _, i := range r.Perm(len(tags)) {
			t = append(t, tags[i])
		}
		return strings.Join(t, "."), "m20-eq"
	case 16:
		return r.Pick([]string{"mtype=gauge.host=" + id + ".dc=x", "unit=B.host=" + id + ".dc=x", "unit=B.mtype=gauge", "host=" + id, "xunit=B.mtype=gauge.host=" + id, "unit=B.xmtype=gauge.host=" + id, "host=" + id + ".unit=B.mtype=gauge", "unit=.mtype=gauge.host=" + id, "unit=B.mtype=gauge.host=" + id + ".plain"}), "m20-eq-odd"
	case 17:
		return r.Pick([]string{"unit_is_B.mtype_is_gauge.host_is_" + id, "mtype_is_gauge.host_is_" + id + ".dc_is_x", "unit_is_B.mtype_is_gauge", "host_is_" + id, "a_is_" + id + ".unit_is_B.mtype_is_count"}), "m20-is"
	case 18:
		return r.Pick([]string{"unit=B.mtype_is_gauge.host=" + id, "unit_is_B.mtype_is_gauge.host=" + id, "unit=B.mtype=gauge.host_is_" + id}), "m20-mixed"
	case 19:
		return r.Pick([]string{"a.b=" + id, "c02." + id + ".unit=B.mtype=gauge.x=y", "c02." + id + ".k_is_v", "c02." + id + "=x"}), "dotted-then-tag"
	case 20:
		return "unit=B.mtype=gauge.host=" + id + r.Pick([]string{";k=v", ";k", ";"}), "m20-appendix"
	case 21:
		return r.Pick([]string{"c02." + id + ";a_is_b=c", "c02." + id + ".x;a=b_is_c", ";a=" + id, ".;a=" + id, "c02" + id + ";k"}), "appendix-odd"
	case 22:
		return r.Pick([]string{".", "..", "...", "=", ";", "_is_", "-", "\x00"}), "degenerate"
	case 23:
		return "c02." + id + "." + strings.Repeat(seg(r)+".", r.Range(5, 40)) + "end", "long"
	default:
		return base, "dotted"
	}
}

var oddVals = []string{"1e3", "0x1p-2", "+5", "Inf", "-Inf", "+Inf", "NaN", "nan", "1_0", "0x1_0", "abc", "1,5", "1.2.3", "--1", "1e999", "-1e999", ".5", "5.", "1e", "0x", "infinity", "Infinity", "-nan", "1e+5", "1E5", "0b1", "\xd9\xa1", "1\x002", "1e-400", "0x.p1", "1__0", "١٢", "-", "+", "e", "0e0", "00012", "-0", "1f", "1d", "NaN1", "inf.", "1;2", "1=2", "12345678901234567890123456789012345"}
var oddTs = []string{"1e9", "1600000000.5", "-1", "NaN", "Inf", "abc", "0x10", "1_0", "4294967295", "4294967296", "99999999999999999999", "+5", "1600000000s", "1e999", "0", "00", "1600000000.", ".5", "1,6", "16e8", "-Inf", "now", "1600000000;", "1=1"}

func genVal(r *mon.Rng) (string, string) {
	if r.Chance(3, 5) {
		return r.Pick([]string{"1", "42", "-1", "3.25", "0", "1.5e3", "-0.001", "123456789"}), "v"
	}
	v := r.Pick(oddVals)
	return v, "v:" + v
}

func genTs(r *mon.Rng) (string, string) {
	if r.Chance(3, 5) {
		return r.Pick([]string{"1600000000", "1234567890", "1600000060", "1"}), "t"
	}
	v := r.Pick(oddTs)
	return v, "t:" + v
}

func layout(r *mon.Rng, n, v, t string) (string, string) {
	switch k := r.Intn(30); k {
	case 0:
		return n + "\t" + v + "\t" + t, "tabs"
	case 1:
		return n + strings.Repeat(" ", r.Range(2, 5)) + v + strings.Repeat(" ", r.Range(2, 4)) + t, "runs"
	case 2:
		return strings.Repeat(" ", r.Range(1, 3)) + n + " " + v + " " + t, "leading"
	case 3:
		return n + " " + v + " " + t + strings.Repeat(" ", r.Range(1, 3)), "trailing"
	case 4:
		return " \t" + n + " \t " + v + "\t\t" + t + "\t ", "mixed"
	case 5:
		return n + " " + v + " " + t + r.Pick([]string{"\r", "\n", "\r\n", "\v", "\f"}), "trail-ctl"
	case 6:
		return n + r.Pick([]string{"\v", "\f", "\n", "\r"}) + v + " " + t, "ctl-sep"
	case 7:
		return n + " " + v, "2fields"
	case 8:
		return n + " " + v + " " + t + " " + r.Pick([]string{"x", "1", t, "#comment"}), "4fields"
	case 9:
		return n, "1field"
	case 10:
		return r.Pick([]string{"", " ", "   ", "\t", " \t "}), "blank"
	case 11:
		return n + " " + v + r.Pick([]string{"\xc2\xa0", "\xc2\x85", "\xe2\x80\x83", "\xe3\x80\x80"}) + t, "exotic-sep"
	case 12:
		return n + "  " + t, "2fields-runs"
	case 13:
		return n + " " + v + " " + t + " ", "trailing1"
	default:
		return n + " " + v + " " + t, "plain"
	}
}

func mutate(r *mon.Rng, b []byte) ([]byte, string) {
	ins := [][]byte{{0}, {byte(0x80 + r.Intn(128))}, {';'}, {'='}, {' '}, {'\t'}, {'.'}, []byte("_is_"), {'!'}, []byte(".."), []byte(";k=v"), {0xc2, 0xa0}, {'e'}, {'-'}, {'_'}, {'x'}}
	pos := r.Intn(len(b) + 1)
	switch r.Intn(4) {
	case 0, 1:
		x := ins[r.Intn(len(ins))]
		out := append(append(append([]byte{}, b[:pos]...), x...), b[pos:]...)
		return out, "ins"
	case 2:
		if len(b) == 0 {
			return b, "none"
		}
		if pos == len(b) {
			pos--
		}
		x := ins[r.Intn(len(ins))]
		out := append(append(append([]byte{}, b[:pos]...), x...), b[pos+1:]...)
		return out, "repl"
	default:
		if len(b) == 0 {
			return b, "none"
		}
		if pos == len(b) {
			pos--
		}
		out := append(append([]byte{}, b[:pos]...), b[pos+1:]...)
		return out, "del"
	}
}

func genLine(r *mon.Rng, id string) gline {
	n, nk := genName(r, id)
	v, vk := genVal(r)
	t, tk := genTs(r)
	// keep at least a third of the lines with sane numbers so that the key rules decide
	s, lk := layout(r, n, v, t)
	g := gline{Line: []byte(s)}
	mk := ""
	if r.Chance(1, 4) {
		g.Line, mk = mutate(r, g.Line)
		g.Mutated = true
	}
	g.Kinds = nk + "|" + vk + "|" + tk + "|" + lk + "|" + mk
	return g
}

// ---- witness

type witness struct {
	ComboIdx  int    `json:"combo_index"`
	Combo     combo  `json:"levels_in_config"`
	Batch     int    `json:"batch"`
	Index     int    `json:"index_in_batch"`
	Line      string `json:"line_go_quoted"`
	Hex       string `json:"line_hex"`
	LibValid  bool   `json:"carbon20_valid"`
	LibErr    string `json:"carbon20_error,omitempty"`
	DocValid  bool   `json:"doc_valid"`
	DocSure   bool   `json:"doc_confident"`
	DocClass  string `json:"doc_class"`
	Forwarded int    `json:"handed_to_capture_route"`
	DIn       int64  `json:"delta_direction_in"`
	DInvalid  int64  `json:"delta_type_invalid"`
	Note      string `json:"note,omitempty"`
}

func main() {
	replayCombo, replayBatch := -1, -1
	if p := os.Getenv("VERIF_REPLAY"); p != "" {
		// a replay file names seed, tier, level combination and batch; the lines are
		// regenerated (the table is driven from its first batch: the bad-metrics report is cumulative)
		var rp struct {
			Seed   int64  `json:"seed"`
			Tier   string `json:"tier"`
			Replay struct {
				Combo *int `json:"combo_index"`
				Batch *int `json:"batch"`
			} `json:"replay"`
		}
		b, err := os.ReadFile(p)
		if err != nil || json.Unmarshal(b, &rp) != nil || rp.Replay.Combo == nil || rp.Replay.Batch == nil {
			fmt.Println("C02: cannot use replay file", p)
			os.Exit(2)
		}
		os.Setenv("VERIF_SEED", fmt.Sprint(rp.Seed))
		os.Setenv("VERIF_TIER", rp.Tier)
		replayCombo, replayBatch = *rp.Replay.Combo, *rp.Replay.Batch
	}
	res := mon.NewResult("C02")
	res.Rule = "lines = grammar-generated name kind x value kind x timestamp kind x whitespace layout, a quarter of them mutated by one byte-level edit (NUL, 0x80-0xff, ';', '=', '_is_', blank, tab, dot, delete), dispatched into real tables for all 3x2 level combinations written in the configuration plus three combinations with an option omitted; non-trivial = the line is not the plain 'dotted-name number timestamp' form; distinct = (level combination, name kind, value kind, timestamp kind, layout, mutation kind, verdict)"
	res.Assume("carbon20.ValidatePacket (go-metrics20, a dependency outside the repository) is the reference for validity once it is given the right levels; the harness maps the configuration words to levels itself")
	res.Assume("the documentation-derived validator is verdict-bearing only on classes it marks confident; its other verdicts are listed as information (oracle_disagreements)")
	res.Assume("counters are process-global: tables are driven one after the other, one line at a time")

	perCombo := mon.N(2000, 100000)
	batchSize := mon.N(500, 2000)
	inKey, invKey := mon.KeyIn, mon.KeyInvalid

	var tLoop, tAgg, tBad time.Duration
	var nLines, nValid, nRejected, nBadChecked, nDocSure, nDisagree, nSentinel, nBlacklisted int
	classCount := map[string]int{}
	disagree := map[string]int{}
	var disagreeSamples []map[string]interface{}
	seenDis := map[string]bool{}

	for ci, cb := range combos {
		if replayCombo >= 0 && ci != replayCombo {
			continue
		}
		if replayCombo < 0 && !mon.Mine(ci) {
			continue
		}
		lvlL, lvlM := legacyLevel(cb.Legacy), m20Level(cb.M20)
		t := mon.NewTable(cb.Legacy, cb.M20, false, mon.Scratch())
		all, err := matcher.New("", "", "", "", "", "")
		if err != nil {
			panic(err)
		}
		capr := mon.NewCaptureRoute(fmt.Sprintf("c02cap%d", ci), all, nil)
		t.AddRoute(capr)
		am, err := matcher.New("", "", "", "", ".*", "")
		if err != nil {
			panic(err)
		}
		tick := make(chan time.Time) // never fires
		agg, err := aggregator.NewMocked("sum", am, fmt.Sprintf("c02agg.s%d.c%d", mon.Seed(), ci), false, 10, 20, false, t.In, 4096, time.Now, tick)
		if err != nil {
			panic(err)
		}
		t.AddAggregator(agg)
		aggKey := mon.KeyAggIn(agg.Key)
		// every other table also carries a blacklist entry (about one generated name in eight matches it): a
		// blacklist only ever applies to lines that passed validation, a rejected line that happens to match it
		// is still counted invalid and reported
		var black *regexp.Regexp
		if ci%2 == 1 {
			black = regexp.MustCompile(`z\.[a-f]`)
			bm, err := matcher.New("", "", "", "", `z\.[a-f]`, "")
			if err != nil {
				panic(err)
			}
			t.AddBlacklist(&bm)
		}

		lastRejected := map[string]string{} // bad-metrics key -> text of the last rejected line (table lifetime)
		total := perCombo * cb.Share / 4
		for b := 0; b*batchSize < total && (replayBatch < 0 || b <= replayBatch); b++ {
			n := batchSize
			if (b+1)*batchSize > total {
				n = total - b*batchSize
			}
			r := mon.NewRng(mon.Seed(), 200+uint64(ci), uint64(b))
			res.LogCase("levels %s batch %d (%d lines, stream %d)", cb, b, n, 200+ci)
			if b > 0 && ci%3 != 2 {
				// entries that match nothing are added to the running table and removed again: the configured
				// validation levels (and everything else) are what they were
				churn(t, fmt.Sprintf("c02churn%dx%d", ci, b), r)
				nChurn++
			}
			aggBase := mon.Counter(aggKey)
			touched := map[string]bool{}
			validKeys := map[string]string{}
			validInBatch := 0
			tPhase := time.Now()
			for i := 0; i < n; i++ {
				id := "i" + strconv.FormatInt(int64(ci), 36) + "b" + strconv.FormatInt(int64(b), 36) + "n" + strconv.FormatInt(int64(i), 36) + "z" // unique per table, stable under replay
				g := genLine(r, id)
				line := g.Line
				// oracles (on private copies)
				libKey, _, _, libErr := carbon20.ValidatePacket(append([]byte(nil), line...), lvlL, lvlM)
				libValid := libErr == nil
				doc := oracle.C02DocValidate(append([]byte(nil), line...), cb.Legacy, cb.M20)

				in0, inv0, bl0, cap0 := mon.Counter(inKey), mon.Counter(invKey), mon.Counter(mon.KeyBlacklist), capr.Len()
				t.Dispatch(append([]byte(nil), line...))
				dIn, dInv, dBl, fwd := mon.Counter(inKey)-in0, mon.Counter(invKey)-inv0, mon.Counter(mon.KeyBlacklist)-bl0, capr.Len()-cap0
				blacklisted := false
				if f := bytes.Fields(line); black != nil && libValid && len(f) > 0 && black.Match(f[0]) {
					blacklisted = true
				}

				w := func(note string) witness {
					we := ""
					if libErr != nil {
						we = libErr.Error()
					}
					return witness{ci, cb, b, i, strconv.Quote(string(line)), hex.EncodeToString(line), libValid, we, doc.Valid, doc.Confident, doc.Class, int(fwd), dIn, dInv, note}
				}
				nLines++
				if dIn != 1 {
					res.Violate("in-count", fmt.Sprintf("levels %s: one line dispatched, direction=in moved by %d", cb, dIn), w(""))
				}
				if blacklisted {
					nValid++
					nBlacklisted++
					if fwd != 0 || dInv != 0 || dBl != 1 {
						res.Violate("blacklisted-valid-line", fmt.Sprintf("levels %s: valid line %q matches the blacklist entry regex z\\.[a-f]: expected not forwarded, invalid +0, blacklist +1; observed forwarded %d, invalid %+d, blacklist %+d", cb, line, fwd, dInv, dBl), w("blacklist regex z\\.[a-f]"))
					}
				} else if dBl != 0 {
					res.Violate("blacklist-counted", fmt.Sprintf("levels %s: line %q (valid=%v) is not a valid line matching the blacklist, yet direction=blacklist moved by %d (invalid %+d)", cb, line, libValid, dBl, dInv), w(""))
				}
				if blacklisted {
					// nothing else to expect of it
				} else if libValid {
					nValid++
					validInBatch++
					if fwd == 0 {
						res.Violate("valid-not-forwarded", fmt.Sprintf("levels %s: line %q is valid at these levels but was not handed to the route", cb, line), w(""))
					} else if fwd > 1 {
						res.Violate("forwarded-twice", fmt.Sprintf("levels %s: line %q handed to the route %d times", cb, line, fwd), w(""))
					}
					if dInv != 0 {
						res.Violate("valid-counted-invalid", fmt.Sprintf("levels %s: valid line %q moved type=invalid by %d", cb, line, dInv), w(""))
					}
					validKeys[string(libKey)] = string(line)
				} else {
					nRejected++
					if fwd != 0 {
						res.Violate("invalid-forwarded", fmt.Sprintf("levels %s: line %q must be rejected (%v) but was handed to the route %d time(s)", cb, line, libErr, fwd), w(""))
					}
					if dInv != 1 {
						res.Violate("rejected-not-counted-once", fmt.Sprintf("levels %s: rejected line %q (%v) moved type=invalid by %d, expected 1", cb, line, libErr, dInv), w(""))
					}
					k := string(libKey)
					lastRejected[k] = string(line)
					touched[k] = true
					// what "its name" is must not depend on the dependency: cross-check
					if doc.Confident && doc.Fields == 3 {
						name := string(oracle.C02Fields(line)[0])
						if k != name && k != strings.TrimPrefix(name, ".") {
							res.Inconclusive(fmt.Sprintf("harness: name of %q is %q by the documentation, %q by carbon20", line, name, k))
						}
					}
				}
				// documentation-derived oracle
				classCount[doc.Class]++
				observedForwarded := fwd > 0
				if doc.Confident {
					nDocSure++
					if blacklisted {
						// validity is not observable through forwarding for these
					} else if doc.Valid && !observedForwarded {
						res.Violate("doc:"+doc.Class+":not-forwarded", fmt.Sprintf("levels %s: docs/validation.md makes %q valid (%s) but it was not forwarded", cb, line, doc.Class), w("carbon20 says: "+fmt.Sprint(libErr)))
					} else if !doc.Valid && observedForwarded {
						res.Violate("doc:"+doc.Class+":forwarded", fmt.Sprintf("levels %s: docs/validation.md makes %q invalid (%s) but it was forwarded", cb, line, doc.Class), w(""))
					}
				} else if doc.Valid != libValid {
					nDisagree++
					dk := doc.Class + " doc=" + verdictWord(doc.Valid) + " carbon20=" + verdictWord(libValid)
					disagree[dk]++
					if !seenDis[dk] && len(disagreeSamples) < 40 {
						seenDis[dk] = true
						disagreeSamples = append(disagreeSamples, map[string]interface{}{"class": dk, "levels": cb.String(), "line": strconv.Quote(string(line)), "carbon20_error": fmt.Sprint(libErr)})
					}
				}
				plain := strings.HasSuffix(g.Kinds, "|v|t|plain|") && strings.HasPrefix(g.Kinds, "dotted|")
				if !plain {
					res.NonTrivial(cb.String() + "|" + g.Kinds + "|" + verdictWord(libValid))
				}
				if nLines <= 3 || (nLines%977 == 0 && !plain) {
					res.Sample(map[string]interface{}{"levels": cb.String(), "line": strconv.Quote(string(line)), "kinds": g.Kinds, "carbon20_valid": libValid, "doc_valid": doc.Valid, "doc_confident": doc.Confident, "doc_class": doc.Class, "forwarded": fwd, "d_in": dIn, "d_invalid": dInv})
				}
			}
			res.Eval(n)
			tLoop += time.Since(tPhase)
			tPhase = time.Now()

			// aggregation: FIFO sentinel barrier, then exact count
			sent := [][]byte{[]byte("c02.sentinel"), []byte("1"), []byte("1600000000")}
			agg.AddMaybe(sent, 1, 1600000000)
			nSentinel++
			want := aggBase + int64(validInBatch) + 1
			// bounded steps: 2000 yields, then 4000 half-millisecond sleeps (> 10^4 x the normal latency)
			for step := 0; step < 6000 && mon.Counter(aggKey) < want; step++ {
				if step < 2000 {
					runtime.Gosched()
				} else {
					time.Sleep(500 * time.Microsecond)
				}
			}
			if got := mon.Counter(aggKey); got != want {
				res.Violate("agg-count", fmt.Sprintf("levels %s batch %d: %d valid lines dispatched, the match-all aggregation counted %d inputs", cb, b, validInBatch, got-aggBase-1), map[string]interface{}{"combo_index": ci, "levels": cb, "batch": b, "stream": 200 + ci})
			}

			tAgg += time.Since(tPhase)
			tPhase = time.Now()
			// bad-metrics report (asynchronous: bounded retries)
			var problems []string
			var probW map[string]interface{}
			for step := 0; step < 400; step++ {
				problems = problems[:0]
				recs := t.Bad().Get(time.Hour)
				byKey := map[string]int{}
				for i, rc := range recs {
					byKey[rc.Metric] = i
				}
				for k := range touched {
					wantLine := lastRejected[k]
					i, found := byKey[k]
					switch {
					case !found && k == "":
						problems = append(problems, "bad-missing-unparsed")
						probW = map[string]interface{}{"combo_index": ci, "levels": cb, "batch": b, "name": "(none: the line could not be parsed)", "rejected_line": strconv.Quote(wantLine), "records": len(recs)}
					case !found:
						problems = append(problems, "bad-missing")
						probW = map[string]interface{}{"combo_index": ci, "levels": cb, "batch": b, "name": strconv.Quote(k), "rejected_line": strconv.Quote(wantLine), "records": len(recs)}
					case recs[i].LastMsg != wantLine:
						problems = append(problems, "bad-wrong-text")
						probW = map[string]interface{}{"combo_index": ci, "levels": cb, "batch": b, "name": strconv.Quote(k), "rejected_line": strconv.Quote(wantLine), "reported_text": strconv.Quote(recs[i].LastMsg)}
					case recs[i].LastErr == "":
						problems = append(problems, "bad-empty-reason")
						probW = map[string]interface{}{"combo_index": ci, "levels": cb, "batch": b, "name": strconv.Quote(k), "rejected_line": strconv.Quote(wantLine)}
					}
				}
				if len(problems) == 0 {
					// a line that was accepted must not be reported as bad
					for k, vl := range validKeys {
						if i, found := byKey[k]; found && recs[i].LastMsg == vl && lastRejected[k] != vl {
							problems = append(problems, "valid-reported-bad")
							probW = map[string]interface{}{"combo_index": ci, "levels": cb, "batch": b, "name": strconv.Quote(k), "line": strconv.Quote(vl), "reason": recs[i].LastErr}
						}
					}
					break
				}
				time.Sleep(5 * time.Millisecond)
			}
			tBad += time.Since(tPhase)
			nBadChecked += len(touched)
			if len(problems) > 0 {
				sort.Strings(problems)
				res.Violate(problems[0], fmt.Sprintf("levels %s batch %d: %d of %d names with a rejection are not reported correctly by Table.Bad().Get(1h) after 400 retries (last: %v)", cb, b, len(problems), len(touched), probW), probW)
			}
		}
		agg.Shutdown()
		close(t.In)
		res.Count("tables", 1)
	}

	// rejections under load (load.go): after the tables above - the counters are process-global
	var ld loadStats
	loadRan := 0
	for _, lc := range loadCases() {
		if replayCombo >= 0 && (replayCombo != loadComboIdx || lc.Idx != replayBatch) {
			continue
		}
		if replayCombo < 0 && !mon.Mine(loadSlots[lc.Idx%len(loadSlots)]) {
			continue
		}
		tPhase := time.Now()
		st := runLoadCase(res, lc)
		res.Count("ms_load_cases", int(time.Since(tPhase)/time.Millisecond))
		ld.lines += st.lines
		ld.rejected += st.rejected
		ld.valid += st.valid
		ld.names += st.names
		ld.probes += st.probes
		ld.looks += st.looks
		loadRan++
	}
	res.Count("load_cases", loadRan)
	res.Count("load_lines_dispatched", ld.lines)
	res.Count("load_lines_rejected", ld.rejected)
	res.Count("load_lines_valid", ld.valid)
	res.Count("load_names_with_a_rejection", ld.names)
	res.Count("load_probes", ld.probes)
	res.Count("load_report_looks", ld.looks)

	res.Count("ms_dispatch_and_oracles", int(tLoop/time.Millisecond))
	res.Count("ms_aggregation_barriers", int(tAgg/time.Millisecond))
	res.Count("ms_bad_report_checks", int(tBad/time.Millisecond))
	res.Count("lines_dispatched", nLines)
	res.Count("lines_valid", nValid)
	res.Count("lines_rejected", nRejected)
	res.Count("valid_lines_blacklisted", nBlacklisted)
	res.Count("runtime_add_delete_rounds", nChurn)
	res.Count("bad_report_names_checked", nBadChecked)
	res.Count("doc_oracle_confident_verdicts", nDocSure)
	res.Count("oracle_disagreements_informational", nDisagree)
	res.Count("aggregation_barriers", nSentinel)
	res.Set("doc_class_counts", classCount)
	res.Set("oracle_disagreements", disagree)
	res.Set("oracle_disagreement_samples", disagreeSamples)
	if replayCombo >= 0 {
		res.Write()
		return
	}
	wantLines := 0
	for _, cb := range combos {
		wantLines += perCombo * cb.Share / 4
	}
	res.Floor("lines_dispatched", nLines, wantLines)
	res.Floor("lines_rejected", nRejected, wantLines/10)
	res.Floor("lines_valid", nValid, wantLines/10)
	res.Floor("bad_report_names_checked", nBadChecked, wantLines/20)
	res.Floor("doc_oracle_confident_verdicts", nDocSure, wantLines/4)
	wantLoad := 0
	for _, lc := range loadCases() {
		wantLoad += lc.Fill + lc.Burst
	}
	res.Floor("load_lines_dispatched", ld.lines, wantLoad)
	res.Floor("load_lines_rejected", ld.rejected, wantLoad/2)
	res.Write()
}

var nChurn int

// churn adds a rewriter, a blacklist entry and a route that match none of the generated names, then deletes them.
func churn(t *table.Table, key string, r *mon.Rng) {
	none := "never-" + key
	switch r.Intn(3) {
	case 0:
		rw, err := rewriter.New(none, "x", "", -1)
		if err != nil {
			panic(err)
		}
		t.AddRewriter(rw)
		if err := t.DelRewriter(0); err != nil {
			panic(err)
		}
	case 1:
		m, err := matcher.New(none, "", "", "", "", "")
		if err != nil {
			panic(err)
		}
		t.AddBlacklist(&m)
		idx := len(t.Snapshot().Blacklist) - 1
		if err := t.DelBlacklist(idx); err != nil {
			panic(err)
		}
	default:
		m, err := matcher.New(none, "", "", "", "", "")
		if err != nil {
			panic(err)
		}
		t.AddRoute(mon.NewCaptureRoute(key, m, nil))
		if err := t.DelRoute(key); err != nil {
			panic(err)
		}
	}
}

func verdictWord(v bool) string {
	if v {
		return "valid"
	}
	return "invalid"
}
