// C16, Kafka side: the real kafkaMdm route (route.NewKafkaMdm) producing to sarama's in-process MockBroker.
//
// The lines of a schemas case are dispatched to the route, which batches them (flushMaxNum > 1) and hands every
// batch to a sarama SyncProducer. The broker keeps every produce request it decoded; the harness takes the message
// values out of that history, decodes each with MetricData.UnmarshalMsg and requires: every record is the record of
// exactly one dispatched representable line (name, sorted tags, value, time, orgId, interval of the first matching
// storage-schemas rule), every representable line has its record, nothing else arrived.
package main

import (
	"fmt"
	"os"
	"reflect"
	"sort"
	"strconv"
	"strings"
	"sync"
	"time"
	"unsafe"

	"github.com/Shopify/sarama"
	"github.com/grafana/carbon-relay-ng/matcher"
	"github.com/grafana/carbon-relay-ng/route"
	"github.com/grafana/carbon-relay-ng/util"
	"github.com/grafana/metrictank/schema"

	"verifharness/mon"
)

// brokerReporter is the TestReporter the mock broker wants. What it reports are transport hiccups of the mock
// (e.g. a connection closed under it); they are counted, they decide nothing.
type brokerReporter struct {
	mu   sync.Mutex
	errs []string
}

func (t *brokerReporter) add(s string) {
	t.mu.Lock()
	t.errs = append(t.errs, s)
	t.mu.Unlock()
}
func (t *brokerReporter) Error(a ...interface{})            { t.add(fmt.Sprint(a...)) }
func (t *brokerReporter) Errorf(f string, a ...interface{}) { t.add(fmt.Sprintf(f, a...)) }
func (t *brokerReporter) Fatal(a ...interface{})            { panic("sarama mock broker: " + fmt.Sprint(a...)) }
func (t *brokerReporter) Fatalf(f string, a ...interface{}) {
	panic("sarama mock broker: " + fmt.Sprintf(f, a...))
}
func (t *brokerReporter) count() int {
	t.mu.Lock()
	defer t.mu.Unlock()
	return len(t.errs)
}

type kafkaMsg struct {
	partition int32
	value     []byte
}

func msgSetValues(set *sarama.MessageSet, part int32, out []kafkaMsg) []kafkaMsg {
	if set == nil {
		return out
	}
	for _, mb := range set.Messages {
		if mb == nil || mb.Msg == nil {
			continue
		}
		if mb.Msg.Set != nil { // a compressed wrapper message: the real ones are inside
			out = msgSetValues(mb.Msg.Set, part, out)
			continue
		}
		out = append(out, kafkaMsg{part, append([]byte(nil), mb.Msg.Value...)})
	}
	return out
}

// producedSince returns the message values of the produce requests in hist[from:] for topic.
func producedSince(hist []sarama.RequestResponse, from int, topic string) []kafkaMsg {
	var out []kafkaMsg
	for _, rr := range hist[from:] {
		req, ok := rr.Request.(*sarama.ProduceRequest)
		if !ok {
			continue
		}
		// the decoded records sit in an unexported field of the request; the broker is done with this request
		f := reflect.ValueOf(req).Elem().FieldByName("records")
		recs := reflect.NewAt(f.Type(), unsafe.Pointer(f.UnsafeAddr())).Elem().Interface().(map[string]map[int32]sarama.Records)
		parts := make([]int, 0, len(recs[topic]))
		for p := range recs[topic] {
			parts = append(parts, int(p))
		}
		sort.Ints(parts)
		for _, p := range parts {
			rs := recs[topic][int32(p)]
			out = msgSetValues(rs.MsgSet, int32(p), out)
			if rs.RecordBatch != nil {
				for _, rec := range rs.RecordBatch.Records {
					out = append(out, kafkaMsg{int32(p), append([]byte(nil), rec.Value...)})
				}
			}
		}
	}
	return out
}

const kafkaMarkT0 = int64(1300000000)

// kafkaBatchRun drives one kafkaMdm route with the lines of a schemas case.
func kafkaBatchRun(res *mon.Result, c *schemaCase, file string, idx int, exps []mdExp, r *mon.Rng, wit func(map[string]interface{}) map[string]interface{}, loc map[string]int) {
	seed := mon.Seed()
	const topic = "mdm"
	nPart := r.PickInt([]int{1, 1, 2, 4, 8})
	partitionBy := r.Pick([]string{"byOrg", "bySeries", "bySeriesWithTags", "bySeriesWithTagsFnv"})
	flushMaxNum := r.PickInt([]int{2, 2, 3, 4, 5, 8, 10, 25, 50})
	// (gzip is left out: a deflate writer per produce request costs seconds under the race detector and the codec
	// has no bearing on what a record carries)
	codec := r.Pick([]string{"none", "none", "snappy"})
	// flushes are triggered by the count alone (the period is an hour), except on some single-partition routes,
	// where arrival order is dispatch order whatever the batch boundaries are
	flushMaxWait := 3600 * 1000
	if nPart == 1 && r.Chance(1, 4) {
		flushMaxWait = r.PickInt([]int{20, 50})
	}
	bufSize := r.PickInt([]int{0, 10, 1000, 5000})
	key := fmt.Sprintf("c16kf%ds%d", idx, seed)
	desc := fmt.Sprintf("NewKafkaMdm(%s, topic=%s codec=%s partitionBy=%s partitions=%d bufSize=%d orgId=%d flushMaxNum=%d flushMaxWait=%d blocking=true)", key, topic, codec, partitionBy, nPart, bufSize, c.OrgID, flushMaxNum, flushMaxWait)
	res.LogCase("schemas case %d: kafkaMdm %s, %d lines + %d marker lines", idx, desc, len(exps), 2*flushMaxNum)
	w := func(extra map[string]interface{}) map[string]interface{} {
		m := wit(extra)
		m["kafka_route"] = desc
		return m
	}

	tk0 := time.Now()
	tk := func(what string) {
		if os.Getenv("C16_TIMING") != "" {
			fmt.Fprintf(os.Stderr, "kafka case %d F=%d parts=%d wait=%d codec=%s: %s at %.3fs\n", idx, flushMaxNum, nPart, flushMaxWait, codec, what, time.Since(tk0).Seconds())
		}
	}
	rep := &brokerReporter{}
	broker := sarama.NewMockBroker(rep, 1)
	meta := sarama.NewMockMetadataResponse(rep).SetBroker(broker.Addr(), broker.BrokerID())
	for p := 0; p < nPart; p++ {
		meta.SetLeader(topic, int32(p), broker.BrokerID())
	}
	broker.SetHandlerByMap(map[string]sarama.MockResponse{
		"MetadataRequest": meta,
		"ProduceRequest":  sarama.NewMockProduceResponse(rep),
	})
	m, err := matcher.New("", "", "", "", "", "")
	if err != nil {
		panic(err)
	}
	rt, err := route.NewKafkaMdm(key, m, topic, codec, file, partitionBy, []string{broker.Addr()}, bufSize, c.OrgID, flushMaxNum, flushMaxWait, 30000, true,
		false, false, "", "", false, "", "", "")
	if err != nil {
		res.Violate("kafkamdm-route-rejected", "NewKafkaMdm failed on a well-formed schemas file: "+err.Error(), w(nil))
		broker.Close()
		return
	}

	tk("route built")
	kErr := "dest=" + util.AddrToPath(broker.Addr()) + ".unit=Err.type=flush"
	d := mon.NewDeltas(kErr)
	want := 0
	byTime := map[int64]int{}
	for k, e := range exps {
		rt.Dispatch([]byte(e.Line))
		if e.valid {
			want++
			byTime[e.ts] = k
		}
	}
	// Quiescence by steps. The route handles lines in dispatch order and a flush returns only when the broker has
	// acknowledged all of its messages. 2*flushMaxNum marker lines follow the real ones: the flush that carries the
	// last real line carries at most the first flushMaxNum markers, so once a marker of the second half has reached
	// the broker, every flush with a real line in it is complete.
	nMark := 2 * flushMaxNum
	for mk := 0; mk < nMark; mk++ {
		rt.Dispatch([]byte(fmt.Sprintf("verifend.c%d.k%d 1 %d", idx, mk, kafkaMarkT0+int64(mk))))
	}
	tk("dispatched")
	isMark := func(t int64) bool { return t >= kafkaMarkT0 && t < kafkaMarkT0+int64(nMark) }

	type rec struct {
		md  schema.MetricData
		raw []byte
		err string
	}
	var got []rec
	marks := map[int64]bool{}
	lateMark := false
	histAt := 0
	nMsgs := 0
	poll := func() {
		hist := broker.History()
		for _, km := range producedSince(hist, histAt, topic) {
			nMsgs++
			var rc rec
			rc.raw = km.value
			rest, err := rc.md.UnmarshalMsg(km.value)
			switch {
			case err != nil:
				rc.err = "UnmarshalMsg: " + err.Error()
			case len(rest) != 0:
				rc.err = fmt.Sprintf("%d bytes left behind the record", len(rest))
			}
			if rc.err == "" && isMark(rc.md.Time) && strings.HasPrefix(rc.md.Name, "verifend.") {
				marks[rc.md.Time] = true
				if rc.md.Time >= kafkaMarkT0+int64(flushMaxNum) {
					lateMark = true
				}
				continue
			}
			got = append(got, rc)
		}
		histAt = len(hist)
	}
	// the same argument by message count: flushes go out in order, so once as many messages as representable
	// lines plus flushMaxNum have arrived - whatever they contain - every flush with a real line in it is complete
	for s := 0; s < 60000 && !lateMark; s++ { // watchdog (about 1000x the usual time), not a verdict
		poll()
		if nMsgs >= want+flushMaxNum {
			lateMark = true
		}
		if !lateMark {
			time.Sleep(5 * time.Millisecond)
		}
	}
	tk("late marker seen")
	if !lateMark {
		res.Inconclusive(fmt.Sprintf("schemas case %d: no marker of the second half reached the kafka mock broker (%d records, %d markers arrived)", idx, len(got), len(marks)))
	} else {
		count := map[int64]int{}
		for _, rc := range got {
			if rc.err != "" {
				// name the dispatched line(s) whose name or timestamp can be read in the bytes
				var in []string
				for _, e := range exps {
					if e.valid && len(in) < 3 && (strings.Contains(string(rc.raw), "\xa4Name"+msgpStr(e.name)+"\xa8Interval") || rc.md.Time == e.ts) {
						in = append(in, strconv.Quote(e.Line))
					}
				}
				raw := rc.raw
				if len(raw) > 300 {
					raw = raw[:300]
				}
				res.Violate("kafka-msgp-undecodable:kafkaMdm", fmt.Sprintf("a message the broker received is not exactly one msgp MetricData record (%s); dispatched lines recognisable in it: [%s]; bytes: %q", rc.err, strings.Join(in, ", "), raw),
					w(map[string]interface{}{"message_hex": fmt.Sprintf("%x", rc.raw), "lines_recognised": in}))
				continue
			}
			md := rc.md
			k, ok := byTime[md.Time]
			if !ok {
				why := "unknown"
				for _, e := range exps {
					if !e.valid && strings.Contains(e.Line, strconv.FormatInt(md.Time, 10)) {
						why = e.Why
					}
				}
				res.Violate("unrepresentable-line-emitted:"+why+":kafkaMdm", fmt.Sprintf("a record %+v reached the broker that corresponds to no representable line", md), w(nil))
				continue
			}
			count[md.Time]++
			if count[md.Time] > 1 {
				continue
			}
			compareMD(res, "kafkaMdm", c, exps[k], &md, w)
			loc["md_compared_kafka"]++
		}
		var dups []string
		for ts, n := range count {
			if n > 1 {
				dups = append(dups, fmt.Sprintf("%q x%d", exps[byTime[ts]].Line, n))
				loc["kafka_duplicate_records"] += n - 1
			}
		}
		sort.Strings(dups)
		if len(dups) > 5 {
			dups = append(dups[:5], "...")
		}
		missing := 0
		first := -1
		for k, e := range exps {
			if e.valid && count[e.ts] == 0 {
				missing++
				if first < 0 {
					first = k
				}
			}
		}
		if missing > 0 {
			msg := fmt.Sprintf("line %q was dispatched to the kafkaMdm route but no record of it reached the broker (%d of %d representable lines missing, every flush that could carry them is acknowledged)", exps[first].Line, missing, want)
			if len(dups) > 0 {
				msg += "; records that arrived more than once instead: " + strings.Join(dups, ", ")
			}
			res.Violate("valid-line-missing:kafkaMdm", msg, w(map[string]interface{}{"line": exps[first].Line, "duplicated": dups}))
		} else if len(dups) > 0 {
			// The broker acknowledges everything, so neither the route nor sarama has a reason to send a message
			// again; if the route nevertheless counted a failed flush, a repeated batch is its documented behaviour.
			if d.Get(kErr) > 0 {
				loc["kafka_routes_with_flush_retries"]++
			} else {
				res.Violate("kafka-record-duplicated:kafkaMdm", fmt.Sprintf("records reached the broker more often than their line was dispatched (no flush failed): %s", strings.Join(dups, ", ")), w(map[string]interface{}{"duplicated": dups}))
			}
		}
		loc["kafka_routes"]++
		if flushMaxWait >= 3600*1000 {
			// every real line sat in a flush of exactly flushMaxNum (>= 2) records
			loc["kafka_records_from_count_triggered_flushes"] += len(count)
		}
		loc["kafka_partitions_"+strconv.Itoa(nPart)]++
	}

	// tidy up: after Shutdown the route flushes what it still holds (the remaining markers); only then may the
	// broker go away, or the route's flush would retry against a dead address for ever
	rt.Shutdown()
	for s := 0; s < 20000 && nMsgs < want+nMark; s++ {
		poll()
		if nMsgs < want+nMark {
			time.Sleep(5 * time.Millisecond)
		}
	}
	if nMsgs < want+nMark {
		res.Count("kafka_brokers_left_open", 1)
	} else {
		broker.Close()
	}
	tk("shut down")
	if n := rep.count(); n > 0 {
		loc["kafka_mock_broker_complaints"] += n
	}
}

// msgpStr: a msgp fixstr / str8 as it appears on the wire (enough to recognise a name in a damaged message)
func msgpStr(s string) string {
	if len(s) < 32 {
		return string([]byte{0xa0 | byte(len(s))}) + s
	}
	return string([]byte{0xd9, byte(len(s))}) + s
}
