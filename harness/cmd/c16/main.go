// C16 — re-encoding a line for pickle, grafana.net or Kafka preserves the datapoint.
//
// (1) pickle. Lines are handed to a real pickle-mode destination (route built by the admin command
// "addRoute sendAllMatch <key>  <addr> pickle=true flush=10 reconn=50", destination pointed at a recording
// loopback endpoint) and, for volume, to destination.ParseDataPoint + destination.Pickle directly. The bytes are
// decoded by CPython 3.11 (/verif/py/pickle_verify.py, one subprocess per run): the stream must be a sequence
// of '>I'-prefixed frames, each of which pickle.loads turns into [(name, (int, float))] with the name bytes, the
// integer timestamp and the float64 value (compared by bit pattern = float.hex) of the line's tokens; lines whose
// timestamp is not an integer in [0, 2^32-1] (or that have no three tokens / no numeric value) must emit nothing
// and be counted in dest=<key>...reason=bad_pickle.
//
// (2) MetricData. The harness keeps a list of storage-schemas rules, writes the file from it (old and new
// retention syntax, priorities, comments, key spelling) and therefore knows the interval a series must get: first
// retention of the first rule - highest priority, then file order - whose pattern matches the series as Graphite
// presents it ("name" or "name;tag1;tag2" with sorted tags). White-box: route.parseMetric through an overlay
// accessor, then MetricData.MarshalMsg / UnmarshalMsg one record at a time. Black-box: a real grafanaNet route posting
// to an httptest server that undoes snappy framing + the metrictank message header + msgp, and a real kafkaMdm route
// (NewKafkaMdm, flushMaxNum 2..50) producing to sarama's in-process MockBroker, whose received messages are decoded
// one by one (kafka.go).
//
// Rules of a schemas file come from two generators: patterns derived from the series of the case (genPattern), and
// patterns from a regular-expression grammar (schemagrammar.go: anchored / unanchored, optional atoms, counted
// repeats, classes, groups, alternation, escaped dots) from which series names are derived in turn - with and
// without the optional parts, random repetition counts, near misses. Which rule a name must get is decided by Go's
// regexp, rule by rule in matching order.
package main

import (
	"bufio"
	"bytes"
	"encoding/hex"
	"encoding/json"
	"fmt"
	"io"
	"math"
	"net/http"
	"net/http/httptest"
	"os"
	"os/exec"
	"path/filepath"
	"regexp"
	"runtime/pprof"
	"sort"
	"strconv"
	"strings"
	"sync"
	"time"

	"github.com/golang/snappy"
	"github.com/grafana/carbon-relay-ng/destination"
	"github.com/grafana/carbon-relay-ng/route"
	"github.com/grafana/carbon-relay-ng/table"
	"github.com/grafana/metrictank/schema"
	"github.com/grafana/metrictank/schema/msg"

	"verifharness/mon"
)

// ------------------------------------------------------------------ python verifier client

type pyVerify struct {
	mu  sync.Mutex
	cmd *exec.Cmd
	in  *bufio.Writer
	inC io.WriteCloser
	out *bufio.Reader
	id  int
}

type pyFrame struct {
	E  string `json:"e"`
	S  string `json:"s"`
	R  string `json:"r"`
	N  string `json:"n"`
	NT string `json:"nt"`
	T  string `json:"t"`
	V  string `json:"v"`
	H  string `json:"h"`
	U  *bool  `json:"u"`
}

type pyStreamAns struct {
	ID      int       `json:"id"`
	Frames  []pyFrame `json:"frames"`
	Rest    int       `json:"rest"`
	RestHex string    `json:"rest_hex"`
}

func startVerifier() *pyVerify {
	dir := os.Getenv("VERIF_DIR")
	if dir == "" {
		dir = "/verif"
	}
	cmd := exec.Command("python3", filepath.Join(dir, "py", "pickle_verify.py"))
	cmd.Stderr = os.Stderr
	in, err := cmd.StdinPipe()
	if err != nil {
		panic(err)
	}
	out, err := cmd.StdoutPipe()
	if err != nil {
		panic(err)
	}
	if err := cmd.Start(); err != nil {
		panic("cannot start python3: " + err.Error())
	}
	return &pyVerify{cmd: cmd, in: bufio.NewWriterSize(in, 1<<20), inC: in, out: bufio.NewReaderSize(out, 1<<20)}
}

func (p *pyVerify) readLine() []byte {
	var line []byte
	for {
		part, isPrefix, err := p.out.ReadLine()
		if err != nil {
			panic("python verifier ended early (see its stderr above): " + err.Error())
		}
		line = append(line, part...)
		if !isPrefix {
			return line
		}
	}
}

func (p *pyVerify) stream(data []byte) pyStreamAns {
	p.mu.Lock()
	defer p.mu.Unlock()
	p.id++
	fmt.Fprintf(p.in, "{\"cmd\":\"stream\",\"id\":%d,\"len\":%d}\n", p.id, len(data))
	p.in.Write(data)
	p.in.Flush()
	var a pyStreamAns
	if err := json.Unmarshal(p.readLine(), &a); err != nil || a.ID != p.id {
		panic(fmt.Sprintf("python verifier: bad answer (%v)", err))
	}
	return a
}

// floats returns python's float(token) as bits, nil where python cannot parse the token
func (p *pyVerify) floats(tokens []string) []*uint64 {
	p.mu.Lock()
	defer p.mu.Unlock()
	p.id++
	b, _ := json.Marshal(map[string]interface{}{"cmd": "floats", "id": p.id, "tokens": tokens})
	p.in.Write(b)
	p.in.WriteByte('\n')
	p.in.Flush()
	var a struct {
		ID   int       `json:"id"`
		Bits []*string `json:"bits"`
	}
	if err := json.Unmarshal(p.readLine(), &a); err != nil || a.ID != p.id || len(a.Bits) != len(tokens) {
		panic(fmt.Sprintf("python verifier: bad floats answer (%v)", err))
	}
	out := make([]*uint64, len(tokens))
	for i, s := range a.Bits {
		if s != nil {
			u, err := strconv.ParseUint(*s, 16, 64)
			if err != nil {
				panic(err)
			}
			out[i] = &u
		}
	}
	return out
}

func (p *pyVerify) close() {
	p.in.WriteString("{\"cmd\":\"quit\"}\n")
	p.in.Flush()
	p.inC.Close()
	p.cmd.Wait()
}

// ------------------------------------------------------------------ token oracle (from the property text)

const (
	clsEmit   = iota // representable: must be emitted with exactly these fields
	clsSkip          // not representable: must emit nothing and be counted / reported
	clsEither        // spelling the statement does not settle (+5, 1e3, 5.0 as timestamp): emitted with the numerically equal timestamp, or skipped and counted
)

type lineExp struct {
	Line   string `json:"line"`
	cls    int
	Class  string `json:"class"`
	Why    string `json:"why"` // stable label for signatures
	name   []byte
	valTok string
	tsTok  string
	ts     uint64
	bits   uint64
	nan    bool
	valLab string
	tsLab  string
}

var reDigits = regexp.MustCompile(`^[0-9]+$`)

// classify derives what must happen to a line from its text alone.
func classify(line []byte, valLabel, tsLabel string) lineExp {
	e := lineExp{Line: string(line), valLab: valLabel, tsLab: tsLabel}
	f := strings.Fields(string(line))
	if len(f) != 3 {
		e.cls, e.Why = clsSkip, "fields"
		return e
	}
	e.name, e.valTok, e.tsTok = []byte(f[0]), f[1], f[2]
	v, err := strconv.ParseFloat(f[1], 64)
	if err != nil {
		e.cls, e.Why = clsSkip, "value-not-a-number"
		return e
	}
	e.bits, e.nan = math.Float64bits(v), math.IsNaN(v)
	if reDigits.MatchString(f[2]) {
		n, err := strconv.ParseUint(f[2], 10, 64)
		if err != nil || n > 4294967295 {
			e.cls, e.Why = clsSkip, "ts-beyond-2^32-1"
			return e
		}
		e.cls, e.ts, e.Why = clsEmit, n, "value="+valLabel+",ts="+tsLabel
		return e
	}
	// numerically integral spellings that are not plain digit strings
	if tf, err := strconv.ParseFloat(f[2], 64); err == nil && tf == math.Floor(tf) && tf >= 0 && tf <= 4294967295 && !strings.HasPrefix(f[2], "-") {
		e.cls, e.ts, e.Why = clsEither, uint64(tf), "ts-spelling:"+tsLabel
		return e
	}
	e.cls = clsSkip
	switch {
	case strings.HasPrefix(f[2], "-"):
		e.Why = "ts-negative"
	case func() bool { _, err := strconv.ParseFloat(f[2], 64); return err == nil }():
		e.Why = "ts-not-integer"
	default:
		e.Why = "ts-not-a-number"
	}
	return e
}

func (e *lineExp) label() {
	e.Class = []string{"emit", "skip", "either"}[e.cls]
}

// ------------------------------------------------------------------ line generators

var nodes = []string{"foo", "bar", "baz", "qux", "cpu", "mem", "x", "servers", "web01", "load"}

func genValueToken(r *mon.Rng) (string, string) {
	switch r.Intn(16) {
	case 0:
		return strconv.Itoa(r.Intn(100000)), "int"
	case 1:
		return "-" + strconv.Itoa(r.Intn(100000)), "negint"
	case 2:
		return strconv.FormatFloat(float64(r.Intn(1000000))/1000, 'f', -1, 64), "decimal"
	case 3:
		return strconv.FormatFloat(r.Float()*math.Pow(10, float64(r.Range(-12, 15))), 'g', -1, 64), "shortest"
	case 4:
		return fmt.Sprintf("%de%d", r.Range(1, 999), r.Range(-30, 30)), "exp"
	case 5:
		return fmt.Sprintf("%d.%dE%s%d", r.Intn(10), r.Intn(1000), r.Pick([]string{"", "+", "-"}), r.Intn(40)), "Exp"
	case 6:
		return "." + strconv.Itoa(r.Range(1, 99999)), "leading-dot"
	case 7:
		return strconv.Itoa(r.Intn(1000)) + ".", "trailing-dot"
	case 8:
		return "+" + strconv.FormatFloat(r.Float()*1000, 'f', 3, 64), "plus"
	case 9:
		return r.Pick([]string{"inf", "-inf", "+Inf", "Infinity", "-Infinity", "INF"}), "inf"
	case 10:
		return r.Pick([]string{"nan", "NaN", "NAN"}), "nan"
	case 11: // more digits than a float64 holds: correct rounding matters
		s := strconv.Itoa(r.Range(1, 9))
		for i := r.Range(17, 40); i > 0; i-- {
			s += strconv.Itoa(r.Intn(10))
		}
		if r.Bool() {
			k := r.Range(1, len(s)-1)
			s = s[:k] + "." + s[k:]
		}
		return s, "long-digits"
	case 12:
		return r.Pick([]string{"4.9e-324", "2.2250738585072014e-308", "2.2250738585072011e-308", "1e-320", "-0", "-0.0", "0.0", "1.7976931348623157e308", "9007199254740993", "0.1", "1e23", "8.41e21"}), "edge"
	case 13:
		return r.Pick([]string{"0x1p-2", "0x1.8p+1", "0X1P3", "-0x1.fffffffffffffp+1023"}), "hexfloat"
	case 14:
		return strconv.FormatFloat(math.Float64frombits(r.U64()&^(0x7ff<<52)|uint64(r.Range(900, 1150))<<52), 'g', -1, 64), "random-bits"
	default:
		return strconv.FormatFloat(float64(r.Intn(2000000)-1000000)/100, 'f', 2, 64), "decimal"
	}
}

func genBadValueToken(r *mon.Rng) string {
	return r.Pick([]string{"abc", "1_0", "1,5", "1.2.3", "--1", "1e", "e5", "0x", "1f", "١٢"})
}

func genTSToken(r *mon.Rng) (string, string) {
	switch r.Intn(20) {
	case 0, 1, 2, 3, 4, 5, 6, 7:
		return strconv.Itoa(1500000000 + r.Intn(300000000)), "epoch"
	case 8:
		return strconv.Itoa(r.PickInt([]int{0, 1, 254, 255, 256, 65534, 65535, 65536})), "small"
	case 9:
		return r.Pick([]string{"2147483647", "2147483648", "4294967295", "4294967294", "3000000000"}), "beyond-2^31"
	case 10:
		return "00" + strconv.Itoa(r.Intn(100000)), "leading-zeros"
	case 11:
		return r.Pick([]string{"4294967296", "4294967301", "9999999999", "9223372036854775807", "9223372036854775808", "18446744073709551616", "100000000000000000000"}), "too-big"
	case 12:
		return "-" + strconv.Itoa(1+r.Intn(100000)), "negative"
	case 13:
		return strconv.Itoa(1500000000+r.Intn(1000)) + "." + strconv.Itoa(1+r.Intn(9)), "fraction"
	case 14:
		return r.Pick([]string{"+5", "1e9", "1500000000.0", "1.5e9", "0x10", "5."}), "odd-integral"
	case 15:
		return r.Pick([]string{"abc", "now", "12a", "1_000", "1e", "NaN", "inf"}), "text"
	default:
		return strconv.Itoa(r.Intn(1 << 31)), "any31"
	}
}

func genTags(r *mon.Rng, n int) []string {
	keys := []string{"a", "b", "c", "dc", "host", "env", "zz", "A"}
	vals := []string{"1", "2", "x", "web01", "us-east", "10", "9", "b=c"}
	perm := r.Perm(len(keys))
	var tags []string
	for i := 0; i < n && i < len(perm); i++ {
		tags = append(tags, keys[perm[i]]+"="+vals[r.Intn(len(vals))])
	}
	return tags
}

func genPath(r *mon.Rng) string {
	n := r.Range(1, 4)
	parts := make([]string, n)
	for i := range parts {
		parts[i] = nodes[r.Intn(len(nodes))]
	}
	s := strings.Join(parts, ".")
	if r.Chance(1, 10) {
		s = r.Pick([]string{"x", "my"}) + s // e.g. xfoo.bar: unanchored patterns still match, ^foo does not
	}
	return s
}

// genPickleLine: a line for part (1), its name starts with a unique id
func genPickleLine(r *mon.Rng, id string) lineExp {
	name := id + "." + genPath(r)
	switch r.Intn(12) {
	case 0:
		name += ";" + strings.Join(genTags(r, r.Range(1, 3)), ";")
	case 1: // utf-8 name
		name += "." + r.Pick([]string{"café", "größe", "メトリック", "température", "😀"})
	case 2: // beyond the 255-byte short string opcode
		for len(name) < r.Range(250, 300) {
			name += "." + nodes[r.Intn(len(nodes))]
		}
	case 3:
		name += r.Pick([]string{"'", "\\", "\"", "'x'", "\\n", "%s", "(", "\x7f"})
	}
	vt, vl := genValueToken(r)
	tt, tl := genTSToken(r)
	sep1, sep2 := " ", " "
	pre, post := "", ""
	switch r.Intn(14) {
	case 0:
		sep1 = "  "
	case 1:
		sep2 = "\t"
	case 2:
		pre = " "
	case 3:
		post = " "
	case 4:
		post = "\r"
	}
	line := pre + name + sep1 + vt + sep2 + tt + post
	switch r.Intn(40) {
	case 0:
		line = name + " " + vt // two fields
	case 1:
		line = name + " " + vt + " " + tt + " extra"
	case 2:
		line = name + " " + genBadValueToken(r) + " " + tt
		vl = "bad"
	case 3:
		line = name
	}
	e := classify([]byte(line), vl, tl)
	e.label()
	return e
}

// ------------------------------------------------------------------ comparing decoded frames with expectations

type pickleStats struct {
	frames, emitted, skipped, either, eitherEmitted, utf8ok, nonASCII int
}

// checkFrames: frames decoded by CPython vs. the lines handed over (in order). Returns the number of
// expected-emit lines that did not show up.
func checkFrames(res *mon.Result, where string, exps []lineExp, ans pyStreamAns, allowMissing bool, st *pickleStats, wit func(extra map[string]interface{}) map[string]interface{}) (missing int, eitherSkipped int) {
	if ans.Rest != 0 {
		res.Violate("pickle-stream-trailing-bytes:"+where, fmt.Sprintf("after the last complete '>I'-prefixed frame %d bytes are left over (first: %s)", ans.Rest, ans.RestHex), wit(nil))
	}
	idx := map[string]int{}
	for i, e := range exps {
		if e.name != nil {
			idx[string(e.name)] = i
		}
	}
	seen := make([]bool, len(exps))
	last := -1
	for fi, f := range ans.Frames {
		st.frames++
		if f.E != "" {
			res.Violate("pickle-frame-undecodable:"+where, fmt.Sprintf("frame %d: pickle.loads raised %s", fi, f.E), wit(map[string]interface{}{"frame_index": fi}))
			continue
		}
		if f.S != "" {
			res.Violate("pickle-frame-shape:"+where, fmt.Sprintf("frame %d decodes to %s (%s), not [(name, (int, float))]", fi, f.R, f.S), wit(map[string]interface{}{"frame_index": fi}))
			continue
		}
		nb, _ := hex.DecodeString(f.N)
		i, ok := idx[string(nb)]
		if !ok && (bytes.HasPrefix(nb, []byte("verifprobe.")) || bytes.HasPrefix(nb, []byte("verifend2."))) {
			continue // harness probe / marker lines
		}
		if !ok {
			res.Violate("pickle-frame-unknown-name:"+where, fmt.Sprintf("frame %d carries name %q which no line handed over has", fi, nb), wit(map[string]interface{}{"frame_index": fi}))
			continue
		}
		e := exps[i]
		w := func() map[string]interface{} {
			return wit(map[string]interface{}{"line": e.Line, "decoded_name": string(nb), "decoded_ts": f.T, "decoded_value_hex": f.H, "frame_index": fi, "class": e.Class})
		}
		if seen[i] {
			res.Violate("pickle-frame-duplicate:"+where, fmt.Sprintf("line %q was emitted twice", e.Line), w())
		}
		seen[i] = true
		if i < last {
			res.Violate("pickle-frame-order:"+where, fmt.Sprintf("frame for line %q arrived after a frame of a later line", e.Line), w())
		}
		last = i
		if e.cls == clsSkip {
			res.Violate("unrepresentable-line-emitted:"+e.Why+":"+where, fmt.Sprintf("line %q (%s) must be skipped, but a frame (%q, (%s, %s)) was emitted", e.Line, e.Why, nb, f.T, f.H), w())
			continue
		}
		if e.cls == clsEither {
			st.eitherEmitted++
		} else {
			st.emitted++
		}
		if f.T != strconv.FormatUint(e.ts, 10) {
			res.Violate("pickle-frame-ts-differs:ts="+e.tsLab+":"+where, fmt.Sprintf("line %q: decoded timestamp %s, token %s", e.Line, f.T, e.tsTok), w())
		}
		vb, _ := strconv.ParseUint(f.V, 16, 64)
		if !(vb == e.bits || (e.nan && math.IsNaN(math.Float64frombits(vb)))) {
			res.Violate("pickle-frame-value-differs:value="+e.valLab+":"+where, fmt.Sprintf("line %q: decoded value %s (bits %016x), token %s is %s (bits %016x)", e.Line, f.H, vb, e.valTok, pyHex(math.Float64frombits(e.bits)), e.bits), w())
		}
		ascii := true
		for _, c := range nb {
			if c >= 0x80 {
				ascii = false
			}
		}
		if !ascii {
			st.nonASCII++
		}
		if f.U != nil {
			if *f.U {
				st.utf8ok++
			} else {
				res.Violate("pickle-frame-utf8-load:"+where, fmt.Sprintf("line %q: pickle.loads(frame, encoding='utf-8') does not give the same datapoint", e.Line), w())
			}
		}
	}
	for i, e := range exps {
		if seen[i] {
			continue
		}
		switch e.cls {
		case clsEmit:
			missing++
			if !allowMissing {
				res.Violate("pickle-frame-missing:"+where, fmt.Sprintf("line %q (%s) is representable but no frame was emitted for it", e.Line, e.Why), wit(map[string]interface{}{"line": e.Line}))
			}
		case clsEither:
			eitherSkipped++
		}
	}
	return
}

// pyHex renders a float the way python's float.hex() does (for messages only; comparisons use the bit pattern).
func pyHex(f float64) string {
	switch {
	case math.IsNaN(f):
		return "nan"
	case math.IsInf(f, 1):
		return "inf"
	case math.IsInf(f, -1):
		return "-inf"
	}
	b := math.Float64bits(f)
	sign := ""
	if b>>63 == 1 {
		sign = "-"
	}
	exp := int((b >> 52) & 0x7ff)
	man := b & (1<<52 - 1)
	if exp == 0 && man == 0 {
		return sign + "0x0.0p+0"
	}
	lead := 1
	e := exp - 1023
	if exp == 0 {
		lead, e = 0, -1022
	}
	ms := strings.TrimRight(fmt.Sprintf("%013x", man), "0")
	if ms == "" {
		ms = "0"
	}
	return fmt.Sprintf("%s0x%d.%sp%+d", sign, lead, ms, e)
}

// ------------------------------------------------------------------ part 1a: real pickle-mode destination

// containsSeq looks for needle in what the endpoint received; seenLen remembers how much of each connection was
// already searched so that polling does not copy the whole stream again and again.
func containsSeq(ep *mon.Endpoint, needle string, seenLen map[int]int) bool {
	for ci, c := range ep.Conns() {
		n := c.Len()
		if n == seenLen[ci] {
			continue
		}
		from := seenLen[ci] - len(needle)
		if from < 0 {
			from = 0
		}
		seenLen[ci] = n
		if bytes.Contains(c.Data()[from:], []byte(needle)) {
			return true
		}
	}
	return false
}

func pickleDestination(res *mon.Result, tbl *table.Table, py *pyVerify, ri int, nBatches, perBatch int, st *pickleStats) {
	seed := mon.Seed()
	ep := mon.NewEndpoint(mon.Mode{})
	defer ep.Close()
	key := fmt.Sprintf("c16pk%ds%d", ri, seed)
	r0 := mon.NewRng(seed, 1600, uint64(ri))
	opts := "pickle=true flush=10 reconn=50"
	if ri%3 == 1 {
		opts += " iobuf=" + strconv.Itoa(r0.PickInt([]int{64, 300, 4096}))
	}
	cmd := fmt.Sprintf("addRoute sendAllMatch %s  %s %s", key, ep.Addr, opts)
	res.LogCase("pickle destination %d: %s", ri, cmd)
	if err := mon.Apply(tbl, cmd); err != nil {
		panic("cannot build pickle route: " + err.Error())
	}
	rt := tbl.GetRoute(key)
	if rt == nil {
		panic("route not in table")
	}
	if !mon.ProbeOnline(rt.Dispatch, ep, key, 2000) {
		res.Inconclusive(fmt.Sprintf("pickle destination %d never carried a probe line", ri))
		return
	}
	destKey := mon.DestKey(key, ep.Addr)
	kBad, kSlow, kOut := mon.KeyDestBadPickle(destKey), mon.KeyDestDropSlowConn(destKey), mon.KeyDestOut(destKey)
	cursor := map[int]int{} // per connection: offset of the last frame boundary CPython reached
	for bi := 0; bi < nBatches; bi++ {
		r := mon.NewRng(seed, 1601, uint64(ri*100000+bi))
		d := mon.NewDeltas(kBad, kSlow, kOut)
		exps := make([]lineExp, perBatch)
		res.LogCase("pickle destination %d batch %d: %d lines", ri, bi, perBatch)
		for i := range exps {
			exps[i] = genPickleLine(r, fmt.Sprintf("%sb%dn%d", key, bi, i))
			buf := []byte(exps[i].Line)
			rt.Dispatch(buf)
		}
		// two markers: when the name of the second one has reached the endpoint, the frame of the first one and
		// everything handed over before it has been written completely (one connection carries frames in order)
		end := fmt.Sprintf("verifend.%s.%d", key, bi)
		end2 := fmt.Sprintf("verifend2.%s.%d", key, bi)
		rt.Dispatch([]byte(end + " 1 1"))
		rt.Dispatch([]byte(end2 + " 1 1"))
		ok := false
		seenLen := map[int]int{}
		for ci := range ep.Conns() {
			seenLen[ci] = cursor[ci]
		}
		for s := 0; s < 20000 && !ok; s++ {
			ok = containsSeq(ep, end2, seenLen)
			if !ok {
				time.Sleep(2 * time.Millisecond)
			}
		}
		if !ok {
			res.Inconclusive(fmt.Sprintf("pickle destination %d batch %d: end marker never arrived (%d bytes received)", ri, bi, ep.TotalBytes()))
			return
		}
		wit := func(extra map[string]interface{}) map[string]interface{} {
			w := map[string]interface{}{"where": "destination", "route_command": cmd, "route": ri, "batch": bi, "seed": seed, "regenerate": fmt.Sprintf("lines are genPickleLine(NewRng(seed,1601,%d), ...)", ri*100000+bi)}
			for k, v := range extra {
				w[k] = v
			}
			return w
		}
		// per connection, CPython splits the bytes received since the last frame boundary it reached
		var ans pyStreamAns
		conns := ep.Conns()
		for ci, c := range conns {
			data := c.Data()
			if len(data) <= cursor[ci] {
				continue
			}
			a := py.stream(data[cursor[ci]:])
			ans.Frames = append(ans.Frames, a.Frames...)
			cursor[ci] = len(data) - a.Rest
			if a.Rest > 0 {
				tail := data[len(data)-a.Rest:]
				switch {
				case ci == len(conns)-1 && bytes.Contains(tail, []byte(end2)):
					// the second marker's frame is still in flight; it is completed and judged with the next batch
				case ci < len(conns)-1:
					res.Count("pickle_dest_partial_frame_on_closed_connection", 1)
				default:
					res.Violate("pickle-stream-trailing-bytes:destination", fmt.Sprintf("after the last complete '>I'-prefixed frame %d bytes are left over that are not the marker in flight (first: %s)", a.Rest, a.RestHex), wit(nil))
				}
			}
		}
		if len(conns) > 1 {
			res.Count("pickle_dest_reconnects", len(conns)-1)
		}
		exps = append(exps, lineExp{Line: end + " 1 1", cls: clsEmit, Class: "emit", Why: "marker", valLab: "marker", tsLab: "marker", name: []byte(end), valTok: "1", tsTok: "1", ts: 1, bits: math.Float64bits(1)})
		nSkip := 0
		for _, e := range exps {
			switch e.cls {
			case clsSkip:
				nSkip++
				st.skipped++
			case clsEither:
				st.either++
			}
		}
		slow := int(d.Get(kSlow))
		missing, eitherSkipped := checkFrames(res, "destination", exps, ans, slow > 0, st, wit)
		if slow > 0 {
			res.Count("pickle_dest_slow_conn_drops", slow)
			if missing != slow {
				res.Violate("pickle-frame-missing:destination", fmt.Sprintf("%d representable lines produced no frame, slow_conn counted %d", missing, slow), wit(nil))
			}
		}
		if bad := int(d.Get(kBad)); bad != nSkip+eitherSkipped {
			res.Violate("bad-pickle-count", fmt.Sprintf("%s moved by %d; %d lines cannot be represented and %d odd-spelled ones were skipped", kBad, bad, nSkip, eitherSkipped), wit(map[string]interface{}{"unrepresentable": nSkip, "either_skipped": eitherSkipped}))
		}
		res.Count("bad_pickle_counted", int(d.Get(kBad)))
		res.Count("pickle_dest_lines_handed", perBatch)
		res.Eval(1)
		res.NonTrivial(fmt.Sprintf("pickle-dest/%d/%d", ri, bi))
		if ri == 0 && bi == 0 {
			for i := 0; i < len(exps) && i < 3; i++ {
				res.Sample(map[string]interface{}{"part": "pickle destination", "line": exps[i].Line, "class": exps[i].Class, "why": exps[i].Why})
			}
		}
	}
	rt.Shutdown()
}

// ------------------------------------------------------------------ part 1b: ParseDataPoint + Pickle directly

func pickleDirect(res *mon.Result, py *pyVerify, idx int, n int, st *pickleStats) {
	seed := mon.Seed()
	r := mon.NewRng(seed, 1602, uint64(idx))
	res.LogCase("direct Pickle batch %d: %d lines", idx, n)
	exps := make([]lineExp, n)
	var stream []byte
	var toks []string
	for i := range exps {
		e := genPickleLine(r, fmt.Sprintf("d%dn%d", idx, i))
		exps[i] = e
		if e.valTok != "" {
			toks = append(toks, e.valTok)
		}
		dp, err := destination.ParseDataPoint([]byte(e.Line))
		if err != nil {
			continue
		}
		stream = append(stream, destination.Pickle(dp)...)
	}
	// the value oracle itself: Go's strconv.ParseFloat against python's float() wherever python parses the token
	pb := py.floats(toks)
	k := 0
	for _, e := range exps {
		if e.valTok == "" {
			continue
		}
		if f, err := strconv.ParseFloat(e.valTok, 64); err == nil && pb[k] != nil {
			if math.Float64bits(f) != *pb[k] && !(math.IsNaN(f) && math.IsNaN(math.Float64frombits(*pb[k]))) {
				res.Inconclusive(fmt.Sprintf("oracle disagreement on value token %q: strconv.ParseFloat %016x, python float() %016x", e.valTok, math.Float64bits(f), *pb[k]))
			}
			res.Count("value_tokens_cross_checked_with_python_float", 1)
		}
		k++
	}
	for _, e := range exps {
		switch e.cls {
		case clsSkip:
			st.skipped++
		case clsEither:
			st.either++
		}
	}
	ans := py.stream(stream)
	wit := func(extra map[string]interface{}) map[string]interface{} {
		w := map[string]interface{}{"where": "direct", "batch": idx, "seed": seed, "regenerate": fmt.Sprintf("lines are genPickleLine(NewRng(seed,1602,%d), ...)", idx)}
		for k, v := range extra {
			w[k] = v
		}
		return w
	}
	checkFrames(res, "direct", exps, ans, false, st, wit)
	res.Count("pickle_direct_lines", n)
	res.Eval(1)
	res.NonTrivial(fmt.Sprintf("pickle-direct/%d", idx))
}

// ------------------------------------------------------------------ part 2: storage-schemas model

type retD struct {
	Secs   int  `json:"secs"`
	Points int  `json:"points"`
	New    bool `json:"new_syntax"`
}

type ruleD struct {
	Name    string `json:"name"`
	Pattern string `json:"pattern"`
	Kind    string `json:"kind"`
	Shape   string `json:"shape,omitempty"` // grammar rules: the constructs the pattern is made of
	Rets    []retD `json:"retentions"`
	Prio    *int   `json:"priority,omitempty"`
	re      *regexp.Regexp
	text    string
	gram    *gramPattern
}

type schemaCase struct {
	Index int     `json:"index"`
	Rules []ruleD `json:"rules"`
	OrgID int     `json:"orgId"`
	File  string  `json:"file_text"`
	order []int   // rule indices in matching order
	memo  map[string][2]int
}

func fmtSecs(s int) string {
	switch {
	case s%86400 == 0:
		return strconv.Itoa(s/86400) + "d"
	case s%3600 == 0:
		return strconv.Itoa(s/3600) + "h"
	case s%60 == 0:
		return strconv.Itoa(s/60) + "m"
	}
	return strconv.Itoa(s) + "s"
}

func (rt retD) String(r *mon.Rng) string {
	if !rt.New {
		return fmt.Sprintf("%d:%d", rt.Secs, rt.Points)
	}
	prec := fmtSecs(rt.Secs)
	if r.Chance(1, 4) {
		prec = strconv.Itoa(rt.Secs) + "s"
	}
	if r.Chance(1, 6) {
		prec = strconv.Itoa(rt.Secs) // a bare number is seconds in the new syntax too
	}
	return prec + ":" + fmtSecs(rt.Secs*rt.Points)
}

var intervals = []int{1, 5, 10, 15, 20, 30, 60, 120, 300, 600, 900, 1800, 3600, 7200, 21600, 86400, 2, 3, 45, 90}

// presentation: the series as Graphite presents it
func presentation(name string, tags []string) string {
	if len(tags) == 0 {
		return name
	}
	t := append([]string(nil), tags...)
	sort.Strings(t)
	return name + ";" + strings.Join(t, ";")
}

func genPattern(r *mon.Rng, name string, tags []string) (string, string) {
	pres := presentation(name, tags)
	q := regexp.QuoteMeta
	parts := strings.Split(name, ".")
	sorted := append([]string(nil), tags...)
	sort.Strings(sorted)
	for tries := 0; tries < 20; tries++ {
		switch r.Intn(14) {
		case 0:
			return "^" + q(pres) + "$", "exact-presentation"
		case 1:
			return "^" + q(name) + "$", "exact-name"
		case 2:
			return "^" + q(parts[0]) + `\.`, "prefix"
		case 3:
			if len(parts) > 1 {
				return `\.` + q(parts[len(parts)-1]) + "$", "name-suffix$"
			}
		case 4:
			if len(sorted) > 0 {
				return ";" + q(sorted[len(sorted)-1]) + "$", "tag-suffix$"
			}
		case 5:
			return q(parts[r.Intn(len(parts))]), "unanchored"
		case 6:
			if len(sorted) > 1 {
				i := r.Intn(len(sorted) - 1)
				return ";" + q(sorted[i]) + ";" + q(sorted[i+1]), "sorted-tag-pair"
			}
		case 7:
			return "^" + q(name) + ";", "name-then-tags"
		case 8:
			if len(parts) > 1 {
				return `^[a-z]+\.` + q(parts[1]), "class"
			}
		case 9:
			return q(parts[0]) + "|" + q(nodes[r.Intn(len(nodes))]), "alternation"
		case 10:
			return `.*\.` + q(parts[len(parts)-1]), "dotstar"
		case 11:
			return "^" + q(parts[0]), "prefix-nodot"
		case 12:
			return q(parts[len(parts)-1]) + "$", "suffix$"
		case 13:
			if len(sorted) > 0 {
				return "^[^;]+;" + q(sorted[0]), "first-sorted-tag"
			}
		}
	}
	return q(parts[0]), "unanchored"
}

type seriesD struct {
	name string
	tags []string
	// series derived from a grammar rule: the rule's name, how it was derived (min | max | rand | near) and whether
	// an optional part of the pattern really was left out
	origin  string
	mode    string
	omitted bool
}

func genSchemaCase(seed uint64, idx int) (schemaCase, []seriesD) {
	r := mon.NewRng(seed, 1610, uint64(idx))
	c := schemaCase{Index: idx, OrgID: r.Range(1, 9999)}
	// the series of this case
	ns := r.Range(5, 12)
	pool := make([]seriesD, ns)
	for i := range pool {
		pool[i] = seriesD{name: genPath(r)}
		if r.Chance(2, 5) {
			pool[i].tags = genTags(r, r.Range(1, 3))
		}
	}
	nr := r.Range(1, 8)
	perm := r.Perm(len(intervals))
	for k := 0; k < nr; k++ {
		rule := ruleD{Name: fmt.Sprintf("r%d", k)}
		if r.Chance(1, 2) {
			// a pattern from the grammar; the pool gets names derived from it
			gp := genGramPattern(r)
			rule.Pattern, rule.Kind, rule.Shape, rule.gram = gp.Src, "grammar", gp.Shape, gp
			for _, gn := range gp.names(r) {
				sd := seriesD{name: gn.name, origin: rule.Name, mode: gn.mode, omitted: gn.omitted}
				if r.Chance(1, 4) {
					sd.tags = genTags(r, r.Range(1, 3))
				}
				pool = append(pool, sd)
			}
		} else {
			s := pool[r.Intn(len(pool))]
			rule.Pattern, rule.Kind = genPattern(r, s.name, s.tags)
		}
		secs := intervals[perm[k]]
		nret := r.PickInt([]int{1, 1, 2, 3})
		mult := 1
		for j := 0; j < nret; j++ {
			rt := retD{Secs: secs * mult, Points: r.PickInt([]int{60, 1440, 10080, 525600, 100}), New: r.Bool()}
			rule.Rets = append(rule.Rets, rt)
			mult *= r.PickInt([]int{2, 5, 6, 10, 60})
		}
		if r.Chance(2, 5) {
			p := r.PickInt([]int{-1, 0, 1, 2, 5, 10, 100})
			rule.Prio = &p
		}
		c.Rules = append(c.Rules, rule)
	}
	def := ruleD{Name: "default", Pattern: ".*", Kind: "default", Rets: []retD{{Secs: intervals[perm[nr]], Points: 1440, New: r.Bool()}}}
	if r.Chance(1, 8) { // a second catch-all in the middle: everything behind it at the same priority is dead
		mid := ruleD{Name: "mid", Pattern: ".*", Kind: "default", Rets: []retD{{Secs: intervals[perm[nr+1]], Points: 60}}}
		at := r.Intn(len(c.Rules) + 1)
		c.Rules = append(c.Rules[:at], append([]ruleD{mid}, c.Rules[at:]...)...)
	}
	c.Rules = append(c.Rules, def)
	// render the file
	var b strings.Builder
	if r.Bool() {
		b.WriteString("# storage-schemas.conf generated by the C16 check\n\n")
	}
	for i := range c.Rules {
		ru := &c.Rules[i]
		ru.re = regexp.MustCompile(ru.Pattern)
		var t strings.Builder
		fmt.Fprintf(&t, "[%s]\n", ru.Name)
		eq := r.Pick([]string{" = ", "=", " =", "= "})
		pk := r.Pick([]string{"pattern", "pattern", "PATTERN", "Pattern"})
		pv := ru.Pattern
		if r.Chance(1, 6) {
			pv = `"` + pv + `"`
		}
		var rs []string
		for _, rt := range ru.Rets {
			rs = append(rs, rt.String(r))
		}
		lines := []string{pk + eq + pv, r.Pick([]string{"retentions", "retentions", "Retentions"}) + eq + strings.Join(rs, r.Pick([]string{",", ", "}))}
		if ru.Prio != nil {
			lines = append(lines, "priority"+eq+strconv.Itoa(*ru.Prio))
		}
		if r.Chance(1, 3) && ru.Name != "default" { // key order is free
			p := r.Perm(len(lines))
			l2 := make([]string, len(lines))
			for x, y := range p {
				l2[x] = lines[y]
			}
			lines = l2
		}
		for _, l := range lines {
			if r.Chance(1, 10) {
				t.WriteString(r.Pick([]string{"# a comment\n", "; another comment\n", "\n", "   \n"}))
			}
			if r.Chance(1, 8) {
				t.WriteString("  ")
			}
			t.WriteString(l + "\n")
		}
		if r.Bool() {
			t.WriteString("\n")
		}
		ru.text = t.String()
		b.WriteString(ru.text)
	}
	c.File = b.String()
	// matching order: highest priority first, then file order
	c.order = make([]int, len(c.Rules))
	for i := range c.order {
		c.order[i] = i
	}
	prio := func(i int) int {
		if c.Rules[i].Prio == nil {
			return 0
		}
		return *c.Rules[i].Prio
	}
	sort.SliceStable(c.order, func(a, b int) bool { return prio(c.order[a]) > prio(c.order[b]) })
	return c, pool
}

// expectRule returns the index of the rule that decides the interval and how many non-default rules match.
func (c *schemaCase) expectRule(pres string) (rule int, matching int) {
	if c.memo == nil {
		c.memo = map[string][2]int{}
	}
	if m, ok := c.memo[pres]; ok {
		return m[0], m[1]
	}
	defer func() { c.memo[pres] = [2]int{rule, matching} }()
	rule = -1
	for _, i := range c.order {
		if c.Rules[i].re.MatchString(pres) {
			if rule < 0 {
				rule = i
			}
			if c.Rules[i].Kind != "default" {
				matching++
			}
		}
	}
	return
}

type mdExp struct {
	Line     string `json:"line"`
	valid    bool
	Why      string `json:"why"`
	name     string
	tags     []string // sorted
	pres     string
	bits     uint64
	nan      bool
	ts       int64
	interval int
	rule     int
	matching int
	tagged   bool
	origin   string
	mode     string
	omitted  bool
}

// validTag: Graphite's rules for a tag (key=value, both non-empty, key without ;!^= , value without ; and not starting with ~)
func validTag(t string) bool {
	i := strings.Index(t, "=")
	if i <= 0 || i == len(t)-1 {
		return false
	}
	k, v := t[:i], t[i+1:]
	if strings.ContainsAny(k, ";!^=") {
		return false
	}
	if v[0] == '~' || strings.Contains(v, ";") {
		return false
	}
	return true
}

func genMDLine(r *mon.Rng, c *schemaCase, pool []seriesD, k int) mdExp {
	var s seriesD
	if r.Chance(4, 5) {
		s = pool[r.Intn(len(pool))]
		if r.Chance(1, 4) { // same name, other tags
			s.tags = nil
			if r.Bool() {
				s.tags = genTags(r, r.Range(1, 3))
			}
		}
	} else {
		s = seriesD{name: genPath(r)}
		if r.Chance(1, 3) {
			s.tags = genTags(r, r.Range(1, 3))
		}
	}
	tags := append([]string(nil), s.tags...)
	why := ""
	switch r.Intn(40) {
	case 0:
		tags = append(tags, r.Pick([]string{"novalue", "a=", "=b", "k=~x", "a!b=1", "c^=2", "="}))
		why = "invalid-tag"
	case 1:
		tags = append(tags, "")
		why = "empty-tag"
	}
	// shuffle the tags: the line carries them in any order
	p := r.Perm(len(tags))
	sh := make([]string, len(tags))
	for i, j := range p {
		sh[i] = tags[j]
	}
	full := s.name
	if len(sh) > 0 {
		full += ";" + strings.Join(sh, ";")
	}
	vt, _ := genValueToken(r)
	// unique per line of the case (identifies the record in a POST body); the bases are more than 1000 apart
	ts := int64(r.PickInt([]int{1500000000, 1500000000, 1500000000, 1000, 2147483000, 2147483648, 3000000000, 4294966000})) + int64(k)
	tt := strconv.FormatInt(ts, 10)
	switch r.Intn(40) {
	case 0:
		tt = tt + ".5"
		why = "ts-not-integer"
	case 1:
		tt = "4294967296"
		why = "ts-beyond-2^32-1"
	case 2:
		tt = "-" + tt
		why = "ts-negative"
	case 3:
		vt = genBadValueToken(r)
		if _, err := strconv.ParseFloat(vt, 64); err != nil {
			why = "value-not-a-number"
		}
	case 4:
		if why == "" {
			full = ";" + strings.Join(genTags(r, 1), ";")
			why = "empty-name"
		}
	}
	line := full + " " + vt + " " + tt
	e := mdExp{Line: line, Why: why, valid: why == ""}
	if !e.valid {
		return e
	}
	e.name = s.name
	e.tags = append([]string(nil), tags...)
	sort.Strings(e.tags)
	for _, t := range e.tags {
		if !validTag(t) {
			panic("generator produced an invalid tag in a line meant to be valid: " + t)
		}
	}
	e.tagged = len(e.tags) > 0
	e.origin, e.mode, e.omitted = s.origin, s.mode, s.omitted
	e.pres = presentation(e.name, e.tags)
	v, err := strconv.ParseFloat(vt, 64)
	if err != nil {
		panic("generator: value token " + vt)
	}
	e.bits, e.nan = math.Float64bits(v), math.IsNaN(v)
	e.ts = ts
	e.rule, e.matching = c.expectRule(e.pres)
	e.interval = c.Rules[e.rule].Rets[0].Secs
	return e
}

func kindOf(ru ruleD) string {
	if ru.Shape != "" {
		return ru.Shape
	}
	return ru.Kind
}

func taggedness(b bool) string {
	if b {
		return "tagged"
	}
	return "untagged"
}

// compareMD checks one record against the expectation; via = "parseMetric" | "kafka-msgp" | "grafanaNet"
func compareMD(res *mon.Result, via string, c *schemaCase, e mdExp, md *schema.MetricData, wit func(map[string]interface{}) map[string]interface{}) {
	w := func() map[string]interface{} {
		return wit(map[string]interface{}{"line": e.Line, "via": via, "presented_as": e.pres, "expected_rule": c.Rules[e.rule].Name, "expected_rule_pattern": c.Rules[e.rule].Pattern,
			"expected_interval": e.interval, "got": fmt.Sprintf("%+v", *md)})
	}
	if md.Name != e.name {
		res.Violate("metricdata-name:"+via, fmt.Sprintf("line %q: Name %q, expected %q", e.Line, md.Name, e.name), w())
	}
	if len(md.Tags) != len(e.tags) {
		res.Violate("metricdata-tags:"+via, fmt.Sprintf("line %q: Tags %q, expected %q", e.Line, md.Tags, e.tags), w())
	} else {
		for i := range e.tags {
			if md.Tags[i] != e.tags[i] {
				res.Violate("metricdata-tags:"+via, fmt.Sprintf("line %q: Tags %q, expected sorted %q", e.Line, md.Tags, e.tags), w())
				break
			}
		}
	}
	if b := math.Float64bits(md.Value); !(b == e.bits || e.nan && math.IsNaN(md.Value)) {
		res.Violate("metricdata-value:"+via, fmt.Sprintf("line %q: Value %v (%016x), expected bits %016x", e.Line, md.Value, b, e.bits), w())
	}
	if md.Time != e.ts {
		res.Violate("metricdata-time:"+via, fmt.Sprintf("line %q: Time %d, expected %d", e.Line, md.Time, e.ts), w())
	}
	if md.OrgId != c.OrgID {
		res.Violate("metricdata-orgid:"+via, fmt.Sprintf("line %q: OrgId %d, configured %d", e.Line, md.OrgId, c.OrgID), w())
	}
	if md.Interval != e.interval {
		got := "no rule's first retention"
		for _, ru := range c.Rules {
			if ru.Rets[0].Secs == md.Interval {
				got = "rule [" + ru.Name + "] " + ru.Pattern
			}
		}
		res.Violate("metricdata-interval:"+taggedness(e.tagged)+":"+via,
			fmt.Sprintf("line %q presented as %q: Interval %d (%s), expected %d from rule [%s] %s (%s)", e.Line, e.pres, md.Interval, got, e.interval, c.Rules[e.rule].Name, c.Rules[e.rule].Pattern, kindOf(c.Rules[e.rule])), w())
	}
}

// grafanaNet capture server ---------------------------------------------------

type gnServer struct {
	srv *httptest.Server
	mu  sync.Mutex
	got map[string][]*schema.MetricData // bucket -> records in arrival order
	bad map[string][]string
	cfg map[string]int
}

func newGNServer() *gnServer {
	g := &gnServer{got: map[string][]*schema.MetricData{}, bad: map[string][]string{}, cfg: map[string]int{}}
	g.srv = httptest.NewServer(http.HandlerFunc(func(w http.ResponseWriter, req *http.Request) {
		parts := strings.SplitN(strings.TrimPrefix(req.URL.Path, "/"), "/", 2)
		bucket := parts[0]
		body, _ := io.ReadAll(req.Body)
		if !strings.HasSuffix(req.URL.Path, "/metrics") {
			g.mu.Lock()
			g.cfg[bucket]++
			g.mu.Unlock()
			w.WriteHeader(200)
			return
		}
		fail := func(s string) {
			g.mu.Lock()
			g.bad[bucket] = append(g.bad[bucket], s)
			g.mu.Unlock()
		}
		if ct := req.Header.Get("Content-Type"); ct != "rt-metric-binary-snappy" {
			fail("content-type " + ct)
		}
		raw, err := io.ReadAll(snappy.NewReader(bytes.NewReader(body)))
		if err != nil {
			fail("snappy: " + err.Error())
		} else {
			var m msg.MetricData
			if err := m.InitFromMsg(raw); err != nil {
				fail("message header: " + err.Error())
			} else if m.Format != msg.FormatMetricDataArrayMsgp {
				fail(fmt.Sprintf("message format %d", m.Format))
			} else {
				var arr schema.MetricDataArray
				rest, err := arr.UnmarshalMsg(raw[9:])
				if err != nil {
					fail("msgp: " + err.Error())
				} else {
					if len(rest) != 0 {
						fail(fmt.Sprintf("%d bytes after the msgp array", len(rest)))
					}
					g.mu.Lock()
					g.got[bucket] = append(g.got[bucket], arr...)
					g.mu.Unlock()
				}
			}
		}
		w.Header().Set("Content-Type", "application/json")
		w.WriteHeader(200)
		w.Write([]byte(`{"Invalid":0,"Published":1}`))
	}))
	return g
}

func (g *gnServer) count(bucket string) int {
	g.mu.Lock()
	defer g.mu.Unlock()
	return len(g.got[bucket])
}

func (g *gnServer) take(bucket string) ([]*schema.MetricData, []string) {
	g.mu.Lock()
	defer g.mu.Unlock()
	a, b := g.got[bucket], g.bad[bucket]
	delete(g.got, bucket)
	delete(g.bad, bucket)
	return a, b
}

type mdStats struct {
	mu sync.Mutex
	m  map[string]int
}

func (s *mdStats) add(k string, n int) {
	s.mu.Lock()
	s.m[k] += n
	s.mu.Unlock()
}

func schemaCaseRun(res *mon.Result, tbl *table.Table, g *gnServer, aggFile string, idx int, nLines int, blackBox, kafka bool, st *mdStats) {
	seed := mon.Seed()
	c, pool := genSchemaCase(seed, idx)
	dir := filepath.Join(mon.Scratch(), "schemas")
	os.MkdirAll(dir, 0755)
	file := filepath.Join(dir, fmt.Sprintf("storage-schemas-%d.conf", idx))
	if err := os.WriteFile(file, []byte(c.File), 0644); err != nil {
		panic(err)
	}
	defer os.Remove(file)
	res.LogCase("schemas case %d: %d rules, orgId %d, %d lines, grafanaNet=%v kafkaMdm=%v", idx, len(c.Rules), c.OrgID, nLines, blackBox, kafka)
	wit := func(extra map[string]interface{}) map[string]interface{} {
		w := map[string]interface{}{"case": idx, "seed": seed, "schemas_file": c.File, "orgId": c.OrgID, "regenerate": fmt.Sprintf("genSchemaCase(seed, %d); lines genMDLine(NewRng(seed,1611,%d), ...)", idx, idx)}
		for k, v := range extra {
			w[k] = v
		}
		return w
	}
	schemas, err := route.VerifGetSchemas(file)
	if err != nil {
		res.Violate("schemas-file-rejected", "getSchemas rejected a well-formed storage-schemas file: "+err.Error(), wit(nil))
		return
	}
	r := mon.NewRng(seed, 1611, uint64(idx))
	exps := make([]mdExp, nLines)
	nonTrivial := false
	sawTagged := false
	loc := map[string]int{}
	for k := range exps {
		e := genMDLine(r, &c, pool, k)
		exps[k] = e
		md, err := route.VerifParseMetric([]byte(e.Line), schemas, c.OrgID)
		if !e.valid {
			loc["md_unrepresentable_lines"]++
			if err == nil {
				res.Violate("unrepresentable-line-accepted:"+e.Why+":parseMetric", fmt.Sprintf("line %q (%s) cannot be represented, parseMetric returned %+v", e.Line, e.Why, *md), wit(map[string]interface{}{"line": e.Line}))
			}
			continue
		}
		if err != nil {
			res.Violate("valid-line-rejected:parseMetric", fmt.Sprintf("line %q: parseMetric failed: %v", e.Line, err), wit(map[string]interface{}{"line": e.Line}))
			continue
		}
		compareMD(res, "parseMetric", &c, e, md, wit)
		loc["md_compared_whitebox"]++
		loc["rule_kind_"+c.Rules[e.rule].Kind]++
		if e.matching >= 2 {
			nonTrivial = true
			loc["md_lines_with_2+_matching_rules"]++
		}
		if e.tagged {
			sawTagged = true
			loc["md_tagged_lines"]++
		}
		if e.rule != len(c.Rules)-1 && c.Rules[e.rule].Kind != "default" {
			loc["md_lines_deciding_non_default_rule"]++
		}
		if ru := c.Rules[e.rule]; ru.gram != nil {
			loc["md_lines_deciding_grammar_rule"]++
			if ru.gram.optional {
				loc["md_lines_deciding_grammar_rule_with_optional_atom"]++
			}
			if e.mode == "min" && e.omitted && ru.Name == e.origin {
				// the class of name a textual shortcut in front of the regex gets wrong
				loc["md_lines_optional_part_omitted_deciding_own_rule"]++
			}
		}
		if e.mode != "" {
			loc["md_lines_grammar_name_"+e.mode]++
		}
		// the Kafka route: SetId, then MarshalMsg is what goes to sarama
		md.SetId()
		data, err := md.MarshalMsg(nil)
		if err != nil {
			res.Violate("kafka-marshal-error", err.Error(), wit(map[string]interface{}{"line": e.Line}))
			continue
		}
		var back schema.MetricData
		if rest, err := back.UnmarshalMsg(data); err != nil || len(rest) != 0 {
			res.Violate("kafka-msgp-undecodable", fmt.Sprintf("line %q: UnmarshalMsg: %v, %d bytes left", e.Line, err, len(rest)), wit(map[string]interface{}{"line": e.Line}))
			continue
		}
		compareMD(res, "kafka-msgp", &c, e, &back, wit)
		loc["kafka_msgs_decoded"]++
	}
	if idx < 2 {
		res.Sample(map[string]interface{}{"part": "metricdata", "schemas_file": c.File, "line": exps[0].Line, "valid": exps[0].valid, "presented_as": exps[0].pres, "expected_interval": exps[0].interval})
	}
	if blackBox {
		bucket := fmt.Sprintf("r%d", idx)
		key := fmt.Sprintf("c16gn%ds%d", idx, seed)
		conc := r.Range(1, 3)
		cmd := fmt.Sprintf("addRoute grafanaNet %s  %s/%s/metrics apikey%d %s %s blocking=true concurrency=%d bufSize=%d flushMaxNum=%d flushMaxWait=%d orgId=%d errBackoffMin=5",
			key, g.srv.URL, bucket, idx, file, aggFile, conc, 3000, r.PickInt([]int{10, 25, 100, 1000}), r.PickInt([]int{50, 100, 200}), c.OrgID)
		if err := mon.Apply(tbl, cmd); err != nil {
			res.Violate("grafananet-route-rejected", "addRoute grafanaNet failed on a well-formed schemas file: "+err.Error(), wit(map[string]interface{}{"command": cmd}))
		} else {
			rt := tbl.GetRoute(key)
			want := 0
			byTime := map[int64]int{}
			for k, e := range exps {
				rt.Dispatch([]byte(e.Line))
				if e.valid {
					want++
					byTime[e.ts] = k
				}
			}
			// quiescence by steps: every worker handles its lines in order and posts synchronously, so once a
			// marker line of a worker has been posted, everything handed to that worker before it has been posted
			// or skipped. 64 marker series cover all (<= 3) workers; they are not part of the comparison.
			const nMark = 64
			markT0 := int64(1400000000)
			for m := 0; m < nMark; m++ {
				rt.Dispatch([]byte(fmt.Sprintf("verifend.c%d.m%d 1 %d", idx, m, markT0+int64(m))))
			}
			marks := func() int {
				g.mu.Lock()
				defer g.mu.Unlock()
				n := 0
				for _, md := range g.got[bucket] {
					if md.Time >= markT0 && md.Time < markT0+nMark {
						n++
					}
				}
				return n
			}
			arrived := false
			for s := 0; s < 8000 && !arrived; s++ {
				arrived = marks() >= nMark
				if !arrived {
					time.Sleep(5 * time.Millisecond)
				}
			}
			if !arrived {
				res.Inconclusive(fmt.Sprintf("schemas case %d: only %d of %d marker series reached the grafanaNet endpoint", idx, marks(), nMark))
			}
			got, bad := g.take(bucket)
			for _, b := range bad {
				res.Violate("grafananet-body-undecodable", "POST body is not snappy(msg header + msgp MetricDataArray): "+b, wit(map[string]interface{}{"command": cmd}))
			}
			seen := map[int64]bool{}
			for _, md := range got {
				if md.Time >= markT0 && md.Time < markT0+nMark {
					continue
				}
				k, ok := byTime[md.Time]
				if !ok {
					why := "unknown"
					for _, e := range exps {
						if !e.valid && strings.Contains(e.Line, strconv.FormatInt(md.Time, 10)) {
							why = e.Why
						}
					}
					res.Violate("unrepresentable-line-emitted:"+why+":grafanaNet", fmt.Sprintf("a record %+v was posted that corresponds to no representable line", *md), wit(map[string]interface{}{"command": cmd}))
					continue
				}
				if seen[md.Time] {
					res.Count("grafananet_duplicate_records", 1)
					continue
				}
				seen[md.Time] = true
				compareMD(res, "grafanaNet", &c, exps[k], md, wit)
				loc["md_compared_blackbox"]++
			}
			if len(seen) < want {
				for ts, k := range byTime {
					if !seen[ts] {
						res.Violate("valid-line-missing:grafanaNet", fmt.Sprintf("line %q never appeared in a POST body (%d of %d arrived)", exps[k].Line, len(seen), want), wit(map[string]interface{}{"command": cmd}))
						break
					}
				}
			}
			loc["grafananet_routes"]++
			go rt.Shutdown() // GrafanaNet.Shutdown may never return (C17's subject); do not wait for it
		}
	}
	if kafka {
		kafkaBatchRun(res, &c, file, idx, exps, r, wit, loc)
	}
	for _, ru := range c.Rules {
		if ru.gram != nil {
			loc["grammar_rules"]++
			if ru.gram.optional {
				loc["grammar_rules_with_optional_atom"]++
			}
			if ru.gram.anchored {
				loc["grammar_rules_anchored"]++
			}
		}
	}
	for k, v := range loc {
		st.add(k, v)
	}
	st.add("schema_files", 1)
	st.add("schema_rules", len(c.Rules))
	res.Eval(1)
	if nonTrivial && sawTagged {
		res.NonTrivial(fmt.Sprintf("schemas/%d", idx))
	}
}

// ------------------------------------------------------------------ main

var t0 = time.Now()

func phase(s string) {
	if os.Getenv("C16_TIMING") != "" {
		fmt.Fprintf(os.Stderr, "[%6.1fs] %s\n", time.Since(t0).Seconds(), s)
	}
}

func main() {
	if pf := os.Getenv("C16_PROF"); pf != "" {
		f, _ := os.Create(pf)
		pprof.StartCPUProfile(f)
		defer pprof.StopCPUProfile()
	}
	// --replay FILE: re-run the batch / schemas case a violation was witnessed on (same seed and tier)
	replayWhere, replayN := "", -1
	if rp := os.Getenv("VERIF_REPLAY"); rp != "" {
		var rf struct {
			Seed   uint64 `json:"seed"`
			Tier   string `json:"tier"`
			Replay struct {
				Where string `json:"where"`
				Route *int   `json:"route"`
				Batch *int   `json:"batch"`
				Case  *int   `json:"case"`
			} `json:"replay"`
		}
		b, err := os.ReadFile(rp)
		if err != nil || json.Unmarshal(b, &rf) != nil {
			fmt.Fprintln(os.Stderr, "C16: cannot use replay file", rp)
			os.Exit(2)
		}
		os.Setenv("VERIF_SEED", strconv.FormatUint(rf.Seed, 10))
		os.Setenv("VERIF_TIER", rf.Tier)
		switch {
		case rf.Replay.Case != nil:
			replayWhere, replayN = "case", *rf.Replay.Case
		case rf.Replay.Where == "destination" && rf.Replay.Route != nil:
			replayWhere, replayN = "destination", *rf.Replay.Route
		case rf.Replay.Where == "direct" && rf.Replay.Batch != nil:
			replayWhere, replayN = "direct", *rf.Replay.Batch
		default:
			fmt.Fprintln(os.Stderr, "C16: replay file names no case / route / batch", rp)
			os.Exit(2)
		}
	}
	skip := func(where string, n int) bool { return replayWhere != "" && (replayWhere != where || replayN != n) }
	res := mon.NewResult("C16")
	mon.InitRepo()
	res.Rule = "(1) lines '<unique id>.<path>[;tags] <value> <timestamp>' generated from (seed, index): every float spelling (ints, decimals, exponents, leading/trailing dot, +, inf, nan, 17-40 digit numbers, subnormals, hex floats), timestamps 0..2^32-1 incl. boundaries and leading zeros, plus lines that cannot be represented (timestamp with fraction / negative / > 2^32-1 / text, non-numeric value, 2 or 4 fields), through a real pickle-mode destination and through ParseDataPoint+Pickle; (2) storage-schemas cases: 1-8 rules, each either derived from a series of the case (exact, ^prefix, suffix$, unanchored, tag-suffix$, sorted-tag-pair, alternation, class) or generated from a regex grammar (anchored/unanchored, optional atoms ? * {0,n}, counted repeats, classes, groups, alternation, escaped and optional dots) with series names derived from the pattern tree (optional parts present / left out, random counts, near misses) + catch-all, priorities, 1-3 retentions in old and new syntax, 150-300 lines per case (tags shuffled, tagged series, invalid tags / timestamps mixed in), through parseMetric, every 4th-8th case also through a real grafanaNet route and through a real kafkaMdm route (flushMaxNum 2-50, 1-8 partitions, codecs none/snappy) whose messages are read back from sarama's MockBroker. non-trivial = a pickle batch whose frames were decoded by CPython, or a schemas case in which a line was matched by >= 2 non-default rules and tagged lines occurred; distinct = batches + cases"
	res.Assume("CPython 3.11 pickle.loads(frame, encoding='bytes') is the reference decoder; name bytes are compared as bytes, and loading with encoding='utf-8' (what a python-3 carbon does) must give the same datapoint whenever the name is valid utf-8")
	res.Assume("expected float64 value = Go strconv.ParseFloat of the token, cross-checked against python float() for every token python parses; floats are compared by bit pattern (equivalent to float.hex), NaN equals NaN")
	res.Assume("timestamp spellings such as +5, 1e9, 1500000000.0 are not settled by the statement: emitted with the numerically equal timestamp or skipped and counted are both accepted")
	res.Assume("pattern matching of the generated storage-schemas rules uses Go's regexp in the harness (the patterns are in the common subset of RE2 and Python re)")
	res.Assume("series names have no empty nodes (MetricData.Validate collapses dots; out of scope of the statement)")
	res.Assume("the Kafka side is sarama's in-process MockBroker (one topic, 1-8 partitions, always acknowledging); what Kafka receives = the message values of the produce requests the broker decoded, read from its request history")

	py := startVerifier()
	pst := &pickleStats{}
	// one table for every route of the run (a table costs ~5 MB that are never released)
	tbl := mon.NewTable("none", "none", false, filepath.Join(mon.Scratch(), "spool"))

	// part 1a: real destination
	nRoutes := mon.N(3, 12)
	nBatches := mon.N(2, 8)
	perBatch := mon.N(600, 1000)
	for ri := 0; ri < nRoutes; ri++ {
		if !mon.Mine(ri) || skip("destination", ri) {
			continue
		}
		pickleDestination(res, tbl, py, ri, nBatches, perBatch, pst)
	}
	phase("pickle destinations done")
	// part 1b: direct
	nDirect := mon.N(6, 200)
	perDirect := mon.N(2000, 2000)
	for i := 0; i < nDirect; i++ {
		if !mon.Mine(i) || skip("direct", i) {
			continue
		}
		pickleDirect(res, py, i, perDirect, pst)
	}
	phase("pickle direct done")
	py.close()
	res.Count("pickle_frames_decoded_by_cpython", pst.frames)
	res.Count("pickle_lines_emitted_and_compared", pst.emitted)
	res.Count("pickle_lines_unrepresentable", pst.skipped)
	res.Count("pickle_lines_odd_ts_spelling", pst.either)
	res.Count("pickle_lines_odd_ts_spelling_emitted", pst.eitherEmitted)
	res.Count("pickle_frames_nonascii_name", pst.nonASCII)
	res.Count("pickle_frames_loaded_with_utf8_encoding", pst.utf8ok)

	// part 2
	g := newGNServer()
	defer g.srv.Close()
	aggFile := filepath.Join(mon.Scratch(), "storage-aggregation.conf")
	os.MkdirAll(mon.Scratch(), 0755)
	if err := os.WriteFile(aggFile, []byte("[default]\npattern = .*\nxFilesFactor = 0.5\naggregationMethod = average\n"), 0644); err != nil {
		panic(err)
	}
	nCases := mon.N(200, 4000)
	nLines := mon.N(150, 300)
	bbEvery := mon.N(4, 8) // every n-th case also runs through a real grafanaNet route
	kfEvery := mon.N(4, 8) // ... and every n-th through a real kafkaMdm route
	mst := &mdStats{m: map[string]int{}}
	jobs := make(chan int, 16)
	var wg sync.WaitGroup
	for w := 0; w < 6; w++ {
		wg.Add(1)
		go func() {
			defer wg.Done()
			for idx := range jobs {
				schemaCaseRun(res, tbl, g, aggFile, idx, nLines, idx%bbEvery == 0 || replayWhere == "case", idx%kfEvery == 1 || replayWhere == "case", mst)
			}
		}()
	}
	nMine := 0
	for i := 0; i < nCases; i++ {
		if mon.Mine(i) && !skip("case", i) {
			jobs <- i
			nMine++
		}
	}
	close(jobs)
	wg.Wait()
	phase("schemas done")
	if hf := os.Getenv("C16_HEAP"); hf != "" {
		f, _ := os.Create(hf)
		pprof.WriteHeapProfile(f)
		f.Close()
	}
	kinds := map[string]int{}
	for k, v := range mst.m {
		if strings.HasPrefix(k, "rule_kind_") {
			kinds[strings.TrimPrefix(k, "rule_kind_")] = v
		} else {
			res.Count(k, v)
		}
	}
	res.Set("deciding_rule_kinds", kinds)
	if replayWhere != "" {
		res.Write()
		return
	}
	res.Floor("pickle_frames_decoded_by_cpython", pst.frames, mon.N(8000, 300000))
	res.Floor("pickle_lines_unrepresentable", pst.skipped, mon.N(1500, 30000))
	res.Floor("md_compared_whitebox", mst.m["md_compared_whitebox"], mon.N(20000, 800000))
	res.Floor("md_compared_blackbox", mst.m["md_compared_blackbox"], mon.N(5000, 100000))
	res.Floor("md_lines_deciding_non_default_rule", mst.m["md_lines_deciding_non_default_rule"], mon.N(5000, 300000))
	res.Floor("md_lines_deciding_grammar_rule", mst.m["md_lines_deciding_grammar_rule"], mon.N(2000, 60000))
	res.Floor("md_lines_optional_part_omitted_deciding_own_rule", mst.m["md_lines_optional_part_omitted_deciding_own_rule"], mon.N(150, 4000))
	res.Floor("md_compared_kafka", mst.m["md_compared_kafka"], mon.N(4000, 80000))
	res.Floor("kafka_records_from_count_triggered_flushes", mst.m["kafka_records_from_count_triggered_flushes"], mon.N(2500, 50000))
	res.Write()
}
