// Regular-expression grammar for generated storage-schemas patterns (C16 part 2).
//
// A pattern is rendered from a tree; the same tree is walked to derive series names that match it with the
// optional parts present, with the optional parts left out, with random repetition counts, and near misses of
// those. Nothing relies on a derived name matching: which rule a name must get is always decided by the standard
// library's regexp on the finished name, rule by rule in matching order.
//
// The grammar stays inside the common subset of RE2 and Python's re (what Graphite itself would run): literals,
// escaped punctuation, '.', classes and negated classes, \d \w, ? * + {n} {n,} {n,m} (also lazy), capturing and
// (?:) groups, alternation inside groups and bare at top level, ^ and $ at the ends of a top-level alternative,
// an optional leading (?i).
package main

import (
	"strconv"
	"strings"

	"verifharness/mon"
)

type gkind int

const (
	gLit    gkind = iota // one literal byte
	gAny                 // .
	gClass               // [..] [^..] \d \w
	gQuant               // sub{min,max}
	gGroup               // ( alt ) or (?: alt )
	gConcat              //
	gAlt                 //
	gBegin               // ^
	gEnd                 // $
)

type gnode struct {
	kind     gkind
	ch       byte
	text     string // class as rendered / quantifier suffix / group opener
	set      string // class: members (negated: the bytes to stay away from)
	neg      bool
	sub      []*gnode
	min, max int // max < 0: unbounded
}

// gramPattern is one generated pattern.
type gramPattern struct {
	Src      string
	Shape    string // label for the evidence: which constructs it is made of
	root     *gnode
	fold     bool
	anchored bool // every top-level alternative starts with ^
	ended    bool // every top-level alternative ends with $
	optional bool // some quantifier allows zero repetitions
}

var gramWords = []string{"foo", "bar", "baz", "qux", "cpu", "mem", "x", "servers", "web01", "load",
	"server", "apps", "db", "dc-east", "eu_west1", "collectd", "stats", "a", "io"}

const gramLower = "abcdefghijklmnopqrstuvwxyz"
const gramDigits = "0123456789"
const gramNameAlpha = gramLower + gramDigits

func gramEscape(c byte) string {
	if strings.IndexByte(`\.+*?()[]{}^$|`, c) >= 0 {
		return `\` + string(c)
	}
	return string(c)
}

func gramRender(n *gnode) string {
	switch n.kind {
	case gLit:
		return gramEscape(n.ch)
	case gAny:
		return "."
	case gClass:
		return n.text
	case gQuant:
		return gramRender(n.sub[0]) + n.text
	case gGroup:
		return n.text + gramRender(n.sub[0]) + ")"
	case gConcat:
		var b strings.Builder
		for _, s := range n.sub {
			b.WriteString(gramRender(s))
		}
		return b.String()
	case gAlt:
		parts := make([]string, len(n.sub))
		for i, s := range n.sub {
			parts[i] = gramRender(s)
		}
		return strings.Join(parts, "|")
	case gBegin:
		return "^"
	case gEnd:
		return "$"
	}
	return ""
}

func gramHasOptional(n *gnode) bool {
	if n.kind == gQuant && n.min == 0 {
		return true
	}
	if n.kind == gAlt {
		for _, s := range n.sub {
			if s.kind == gConcat && len(s.sub) == 0 {
				return true
			}
		}
	}
	for _, s := range n.sub {
		if gramHasOptional(s) {
			return true
		}
	}
	return false
}

// gramQuantify wraps n in a quantifier.
func gramQuantify(r *mon.Rng, n *gnode) *gnode {
	q := &gnode{kind: gQuant, sub: []*gnode{n}}
	switch x := r.Intn(100); {
	case x < 36:
		q.min, q.max, q.text = 0, 1, "?"
	case x < 55:
		q.min, q.max, q.text = 0, -1, "*"
	case x < 67:
		q.min, q.max, q.text = 1, -1, "+"
	case x < 78:
		q.min, q.max = 0, r.Range(1, 3)
		q.text = "{0," + strconv.Itoa(q.max) + "}"
	case x < 84:
		q.min = r.Range(1, 3)
		q.max = q.min
		q.text = "{" + strconv.Itoa(q.min) + "}"
	case x < 94:
		q.min = r.Range(1, 2)
		q.max = q.min + r.Range(1, 2)
		q.text = "{" + strconv.Itoa(q.min) + "," + strconv.Itoa(q.max) + "}"
	default:
		q.min, q.max = r.Range(0, 2), -1
		q.text = "{" + strconv.Itoa(q.min) + ",}"
	}
	if r.Chance(8, 100) {
		q.text += "?" // lazy: the set of matching names is the same
	}
	return q
}

func gramLits(s string) []*gnode {
	out := make([]*gnode, len(s))
	for i := 0; i < len(s); i++ {
		out[i] = &gnode{kind: gLit, ch: s[i]}
	}
	return out
}

// gramWord: a literal word; sometimes one of its characters (mostly the last one) carries a quantifier: servers?, web0*1, fo{0,2}
func gramWord(r *mon.Rng) []*gnode {
	w := gramWords[r.Intn(len(gramWords))]
	ls := gramLits(w)
	if r.Chance(38, 100) {
		i := len(ls) - 1
		if r.Chance(35, 100) {
			i = r.Intn(len(ls))
		}
		ls[i] = gramQuantify(r, ls[i])
	}
	return ls
}

func gramClass(r *mon.Rng) *gnode {
	c := &gnode{kind: gClass}
	switch r.Intn(14) {
	case 0, 1:
		c.text, c.set = "[a-z]", gramLower
	case 2:
		c.text, c.set = "[0-9]", gramDigits
	case 3:
		c.text, c.set = "[a-z0-9]", gramNameAlpha
	case 4:
		c.text, c.set = "[a-zA-Z0-9_-]", gramNameAlpha+"_-ABCXYZ"
	case 5:
		c.text, c.set = `\d`, gramDigits
	case 6:
		c.text, c.set = `\w`, gramNameAlpha+"_"
	case 7, 8:
		c.text, c.set, c.neg = "[^.]", ".", true
	case 9:
		c.text, c.set, c.neg = "[^;]", ";", true
	case 10:
		c.text, c.set, c.neg = "[^.;]", ".;", true
	case 11:
		c.text, c.set = "[0-9a-f]", gramDigits+"abcdef"
	case 12: // a few members taken from a word
		w := gramWords[r.Intn(len(gramWords))]
		set := ""
		for i := r.Range(1, 3); i > 0; i-- {
			b := w[r.Intn(len(w))]
			if b != '-' && strings.IndexByte(set, b) < 0 {
				set += string(b)
			}
		}
		if set == "" {
			set = "s"
		}
		c.text, c.set = "["+set+"]", set
		if r.Chance(1, 4) {
			c.text, c.neg = "[^"+set+"]", true
		}
	default:
		c.text, c.set = "[a-z_]", gramLower+"_"
	}
	return c
}

// gramSep: what stands between two nodes of a name
func gramSep(r *mon.Rng) *gnode {
	dot := &gnode{kind: gLit, ch: '.'}
	switch x := r.Intn(100); {
	case x < 66:
		return dot
	case x < 76:
		return &gnode{kind: gQuant, sub: []*gnode{dot}, min: 0, max: 1, text: "?"}
	case x < 79:
		return &gnode{kind: gQuant, sub: []*gnode{dot}, min: 0, max: -1, text: "*"}
	case x < 81:
		return &gnode{kind: gQuant, sub: []*gnode{dot}, min: 1, max: -1, text: "+"}
	case x < 84:
		return &gnode{kind: gQuant, sub: []*gnode{dot}, min: 0, max: 1, text: "{0,1}"}
	case x < 90:
		return &gnode{kind: gAny}
	case x < 93:
		return &gnode{kind: gClass, text: "[.]", set: "."}
	case x < 97:
		return &gnode{kind: gClass, text: "[._-]", set: "._-"}
	default:
		return &gnode{kind: gConcat} // nothing: the two segments are glued together
	}
}

// gramSegment: what stands for (part of) one node of a name
func gramSegment(r *mon.Rng, depth int) []*gnode {
	x := r.Intn(100)
	switch {
	case x < 52:
		return gramWord(r)
	case x < 70: // a run of a class
		c := gramClass(r)
		if r.Chance(85, 100) {
			return []*gnode{gramQuantify(r, c)}
		}
		return []*gnode{c}
	case x < 76: // word followed by a class run: web[0-9]+
		return append(gramWord(r), gramQuantify(r, gramClass(r)))
	case x < 82: // .* .+ .? .{0,3}
		return []*gnode{gramQuantify(r, &gnode{kind: gAny})}
	default:
		if depth <= 0 {
			return gramWord(r)
		}
		g := &gnode{kind: gGroup, text: "("}
		if r.Chance(1, 2) {
			g.text = "(?:"
		}
		a := &gnode{kind: gAlt}
		for i := r.PickInt([]int{1, 2, 2, 3}); i > 0; i-- {
			if r.Chance(4, 100) {
				a.sub = append(a.sub, &gnode{kind: gConcat}) // empty alternative
				continue
			}
			a.sub = append(a.sub, gramSeq(r, depth-1, r.PickInt([]int{1, 1, 1, 2}), r.Chance(1, 4)))
		}
		g.sub = []*gnode{a}
		if r.Chance(45, 100) {
			return []*gnode{gramQuantify(r, g)}
		}
		return []*gnode{g}
	}
}

// gramSeq: nSeg segments with separators between them, optionally a separator behind the last one (^servers\.)
func gramSeq(r *mon.Rng, depth, nSeg int, trailingSep bool) *gnode {
	c := &gnode{kind: gConcat}
	for i := 0; i < nSeg; i++ {
		if i > 0 {
			c.sub = append(c.sub, gramSep(r))
		}
		c.sub = append(c.sub, gramSegment(r, depth)...)
	}
	if trailingSep {
		c.sub = append(c.sub, gramSep(r))
	}
	return c
}

// genGramPattern generates one pattern.
func genGramPattern(r *mon.Rng) *gramPattern {
	for {
		p := &gramPattern{anchored: true, ended: true}
		nAlt := 1
		if r.Chance(20, 100) {
			nAlt = r.Range(2, 3)
		}
		top := &gnode{kind: gAlt}
		for i := 0; i < nAlt; i++ {
			begin, end := r.Chance(58, 100), r.Chance(25, 100)
			seq := gramSeq(r, 2, r.PickInt([]int{1, 1, 2, 2, 3}), !end && r.Chance(1, 2))
			if begin {
				seq.sub = append([]*gnode{{kind: gBegin}}, seq.sub...)
			} else {
				p.anchored = false
			}
			if end {
				seq.sub = append(seq.sub, &gnode{kind: gEnd})
			} else {
				p.ended = false
			}
			top.sub = append(top.sub, seq)
		}
		p.root = top
		p.Src = gramRender(top)
		if r.Chance(4, 100) {
			p.Src = "(?i)" + p.Src
			p.fold = true
		}
		p.optional = gramHasOptional(top)
		if p.Src == ".*" || p.Src == "" || len(p.Src) > 120 {
			continue // ".*" is the catch-all, which the case adds itself
		}
		var sh []string
		if p.fold {
			sh = append(sh, "(?i)")
		}
		switch {
		case p.anchored:
			sh = append(sh, "^")
		case strings.Contains(p.Src, "^"):
			sh = append(sh, "partly^")
		default:
			sh = append(sh, "unanchored")
		}
		if nAlt > 1 {
			sh = append(sh, "alt")
		}
		if strings.Contains(p.Src, "(") {
			sh = append(sh, "group")
		}
		if p.optional {
			sh = append(sh, "optional")
		}
		if strings.Contains(p.Src, "{") {
			sh = append(sh, "counted")
		}
		if strings.Contains(p.Src, "[") || strings.Contains(p.Src, `\d`) || strings.Contains(p.Src, `\w`) {
			sh = append(sh, "class")
		}
		if strings.Contains(p.Src, "$") {
			sh = append(sh, "$")
		}
		p.Shape = "grammar:" + strings.Join(sh, ",")
		return p
	}
}

// sampling ------------------------------------------------------------------

const (
	gsMin  = iota // every quantifier at its minimum: optional parts left out
	gsMax         // every quantifier at max(min,1): optional parts present
	gsRand        // random repetition counts
)

// gramSampler walks a pattern tree. With memo set, the choice of alternative and of class member is remembered per
// tree node, so that two walks differ only in the repetition counts.
type gramSampler struct {
	r    *mon.Rng
	mode int
	alt  map[*gnode]int
	chr  map[*gnode]byte
}

func (p *gramPattern) sample(r *mon.Rng, mode int) string {
	var b strings.Builder
	(&gramSampler{r: r, mode: mode}).walk(p.root, &b)
	return b.String()
}

func (g *gramSampler) pickChar(n *gnode) byte {
	if g.chr != nil {
		if c, ok := g.chr[n]; ok {
			return c
		}
	}
	r := g.r
	var c byte = '_'
	switch {
	case n.kind == gAny:
		switch x := r.Intn(20); {
		case x == 0:
			c = '.'
		case x == 1:
			c = '-'
		default:
			c = gramNameAlpha[r.Intn(len(gramNameAlpha))]
		}
	case !n.neg:
		c = n.set[r.Intn(len(n.set))]
	default:
		for try := 0; try < 20; try++ {
			x := gramNameAlpha[r.Intn(len(gramNameAlpha))]
			if strings.IndexByte(n.set, x) < 0 {
				c = x
				break
			}
		}
	}
	if g.chr != nil {
		g.chr[n] = c
	}
	return c
}

func (g *gramSampler) walk(n *gnode, b *strings.Builder) {
	switch n.kind {
	case gLit:
		b.WriteByte(n.ch)
	case gAny, gClass:
		b.WriteByte(g.pickChar(n))
	case gQuant:
		k := n.min
		switch g.mode {
		case gsMax:
			if k < 1 {
				k = 1
			}
		case gsRand:
			hi := n.max
			if hi < 0 || hi > n.min+2 {
				hi = n.min + 2
			}
			k = g.r.Range(n.min, hi)
		}
		for i := 0; i < k; i++ {
			g.walk(n.sub[0], b)
		}
	case gGroup:
		g.walk(n.sub[0], b)
	case gConcat:
		for _, s := range n.sub {
			g.walk(s, b)
		}
	case gAlt:
		var i int
		if g.alt != nil {
			var ok bool
			if i, ok = g.alt[n]; !ok {
				i = g.r.Intn(len(n.sub))
				g.alt[n] = i
			}
		} else {
			i = g.r.Intn(len(n.sub))
		}
		g.walk(n.sub[i], b)
	}
}

// gramNearMiss: one small edit of s
func gramNearMiss(r *mon.Rng, s string) string {
	if s == "" {
		return string(gramNameAlpha[r.Intn(len(gramNameAlpha))])
	}
	bs := []byte(s)
	i := r.Intn(len(bs))
	switch r.Intn(9) {
	case 0: // drop one
		return string(bs[:i]) + string(bs[i+1:])
	case 1: // drop the last / the first
		if r.Bool() {
			return s[:len(s)-1]
		}
		return s[1:]
	case 2:
		bs[i] = gramNameAlpha[r.Intn(len(gramNameAlpha))]
		return string(bs)
	case 3: // doubled
		return string(bs[:i+1]) + string(bs[i:])
	case 4:
		return string(gramNameAlpha[r.Intn(len(gramNameAlpha))]) + s
	case 5:
		return s + string(gramNameAlpha[r.Intn(len(gramNameAlpha))])
	case 6: // case
		if bs[i] >= 'a' && bs[i] <= 'z' {
			bs[i] -= 32
		}
		return string(bs)
	case 7: // another separator
		if j := strings.IndexByte(s, '.'); j >= 0 {
			return s[:j] + r.Pick([]string{"-", "_", "", ".x."}) + s[j+1:]
		}
		return s + "." + gramWords[r.Intn(len(gramWords))]
	default: // one more node in front
		return gramWords[r.Intn(len(gramWords))] + "." + s
	}
}

// gramCleanName makes s usable as a series name of the statement's domain: no empty nodes, no ';', no blanks.
func gramCleanName(s string) string {
	var b strings.Builder
	lastDot := true
	for i := 0; i < len(s); i++ {
		c := s[i]
		if c == ';' || c == ' ' || c == '\t' || c < 0x20 || c >= 0x7f {
			continue
		}
		if c == '.' {
			if lastDot {
				continue
			}
			lastDot = true
		} else {
			lastDot = false
		}
		b.WriteByte(c)
	}
	return strings.TrimRight(b.String(), ".")
}

type gramName struct {
	name string
	mode string // min | max | rand | near
	// omitted: a "min" name that differs from the "max" name of the same walk, i.e. an optional part really was left out
	omitted bool
}

// names derives series names from the pattern.
func (p *gramPattern) names(r *mon.Rng) []gramName {
	var out []gramName
	add := func(s, mode string, omitted bool) {
		// unanchored patterns match inside a longer name; patterns without $ match names that go on
		if !p.anchored && r.Chance(1, 2) {
			if r.Chance(1, 5) {
				s = r.Pick([]string{"x", "my", "0"}) + s
			} else {
				s = gramWords[r.Intn(len(gramWords))] + "." + s
			}
		}
		if !p.ended && r.Chance(3, 5) {
			if strings.HasSuffix(s, ".") || r.Chance(4, 5) {
				s = strings.TrimRight(s, ".") + "." + genPath(r)
			} else {
				s += r.Pick([]string{"s", "2", "_total"})
			}
		}
		if p.fold && r.Chance(1, 2) {
			bs := []byte(s)
			for i := range bs {
				if bs[i] >= 'a' && bs[i] <= 'z' && r.Chance(1, 3) {
					bs[i] -= 32
				}
			}
			s = string(bs)
		}
		if s = gramCleanName(s); s != "" {
			out = append(out, gramName{name: s, mode: mode, omitted: omitted})
		}
	}
	// the same alternatives and class members, once with and once without the optional parts
	for i := r.Range(1, 2); i > 0; i-- {
		memo := &gramSampler{r: r, mode: gsMax, alt: map[*gnode]int{}, chr: map[*gnode]byte{}}
		var bx, bn strings.Builder
		memo.walk(p.root, &bx)
		memo.mode = gsMin
		memo.walk(p.root, &bn)
		mn, mx := bn.String(), bx.String()
		add(mn, "min", mn != mx)
		add(mx, "max", false)
	}
	for i := r.Range(1, 2); i > 0; i-- {
		add(p.sample(r, gsRand), "rand", false)
	}
	for i := r.Range(1, 3); i > 0; i-- {
		base := p.sample(r, r.Intn(3))
		add(gramNearMiss(r, base), "near", false)
	}
	return out
}
