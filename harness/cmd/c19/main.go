// C19 — order validation accepts a point only if it is newer than all accepted before.
//
// A real table with validate_order=true and one catch-all capture route is driven by 1..8
// dispatcher goroutines calling Table.Dispatch. Every line carries a unique id in its value token;
// Dispatch to a capture route is synchronous, so "the line was forwarded" is decided when the call
// returns: accepted = the id is in the capture route. Each call is recorded as
// {client, name, ts, call stamp, return stamp, accepted}, the stamps coming from one atomic counter.
//
// Verdict-bearing observations, per history:
//   - each canonical name's sub-history must be linearizable (porcupine v1.3.0) with respect to the
//     max-register specification oracle.MaxRegStep (accept <=> ts > newest accepted; accept sets it).
//     Canonical name = one leading dot stripped: carbon20.ValidatePacket (go-metrics20 validate.go,
//     "graphite graciously allows a leading dot by pretending it's not there") returns the name
//     without it and that is the key Table.Dispatch hands to validate.Ordered.
//     A checker time-out (60 s per name) is inconclusive, never a violation.
//   - three consequences of the specification that need no search (clearer witnesses, and still
//     decided when the search times out): two accepted points of a name with the same timestamp;
//     a point accepted although a point of the name with a timestamp >= its own had been accepted
//     by a call that returned before this one began; a point rejected although its timestamp is
//     greater than that of every other point of the name whose call began before this one returned.
//   - single-dispatcher histories: exact agreement with the sequential oracle, and accepted
//     timestamps of a name strictly increasing in capture-route arrival order (with several
//     dispatchers arrival order says nothing: accept and forward are not one atomic step and the
//     property does not ask for that).
//   - unit=Err.type=out_of_order delta == number of rejected calls; direction=in delta == calls;
//     invalid/unroutable/blacklist deltas == 0.
//   - every rejected line is reported by Table.Bad(): the record of the name (BadMetrics keeps the
//     last record per name) exists, carries the not-newer error and one of the name's rejected lines
//     (single dispatcher: looked up after every reject, must be exactly that line); names without a
//     reject have no record. Lookups retry by bounded steps (the report is filled through a channel).
//   - a rejected line is in no capture route at the end; no id is captured twice.
//   - the Go race detector, scoped by the driver to reports with validate.Ordered on both sides.
package main

import (
	"bytes"
	"fmt"
	"os"
	"runtime"
	"sort"
	"strconv"
	"strings"
	"sync"
	"sync/atomic"
	"time"

	"github.com/anishathalye/porcupine"
	"github.com/grafana/carbon-relay-ng/matcher"
	"github.com/grafana/carbon-relay-ng/table"

	"verifharness/mon"
	"verifharness/oracle"
)

type opSpec struct {
	Name int  // index into history names
	Dot  bool // written with a leading dot
	TS   uint32
}

type history struct {
	Index   int
	Names   []string
	Clients [][]opSpec
	Range   int
	Base    uint32
}

type opRec struct {
	Client   int    `json:"client"`
	Name     string `json:"name"` // as written
	canon    string
	TS       uint32 `json:"ts"`
	ID       int    `json:"id"`
	Call     int64  `json:"call"`
	Ret      int64  `json:"return"`
	Accepted bool   `json:"accepted"`
	arrival  int64
	line     string
}

func gen(seed uint64, idx int) history {
	r := mon.NewRng(seed, 19, uint64(idx))
	h := history{Index: idx}
	nn := r.Range(2, 5)
	for k := 0; k < nn; k++ {
		// same length on purpose; the index and seed make the names fresh in this process
		h.Names = append(h.Names, fmt.Sprintf("c19.s%d.h%d.n%d", seed%1000, idx, k))
	}
	nd := r.Range(2, 8)
	if r.Chance(1, 5) {
		nd = 1
	}
	h.Range = r.PickInt([]int{3, 6, 12, 30, 30})
	if r.Chance(1, 10) {
		h.Base = 4294967295 - 30 // timestamps up to 2^32-1
	}
	dotty := make([]bool, nn)
	for k := range dotty {
		dotty[k] = r.Chance(1, 2)
	}
	hot := r.Intn(nn)       // one name takes about half of the traffic
	trend := r.Intn(3)      // 0 uniform, 1 and 2: rising with stragglers
	mixed := r.Chance(1, 2) // shifted histories: a quarter of the points stay low (2^32-1 next to 1)
	for c := 0; c < nd; c++ {
		n := r.Range(10, 40)
		var ops []opSpec
		for i := 0; i < n; i++ {
			k := r.Intn(nn)
			if r.Chance(1, 2) {
				k = hot
			}
			x := r.Range(1, h.Range)
			if trend >= 1 {
				x = 1 + (i*h.Range)/n + r.Range(-1, 1)
				if x < 1 {
					x = 1
				}
				if x > h.Range {
					x = h.Range
				}
			}
			b := h.Base
			if b != 0 && mixed && r.Chance(1, 4) {
				b = 0
			}
			ops = append(ops, opSpec{Name: k, Dot: dotty[k] && r.Chance(1, 3), TS: b + uint32(x)})
		}
		h.Clients = append(h.Clients, ops)
	}
	return h
}

// world is one real table with its capture route, reused for a block of histories.
type world struct {
	tab     *table.Table
	cap     *mon.CaptureRoute
	arrived []int64 // per id: arrival sequence number at the capture route (0 = never)
	arrSeq  int64
	dup     int64
}

func newWorld() *world {
	w := &world{}
	w.tab = mon.NewTable("", "", true, mon.Scratch())
	m, err := matcher.New("", "", "", "", "", "")
	if err != nil {
		panic(err)
	}
	w.cap = mon.NewCaptureRoute("c19capture", m, nil)
	w.cap.Hook = func(buf []byte) {
		f := bytes.Fields(buf)
		if len(f) != 3 {
			return
		}
		id, err := strconv.Atoi(string(f[1]))
		if err != nil || id < 0 || id >= len(w.arrived) {
			return
		}
		s := atomic.AddInt64(&w.arrSeq, 1)
		if !atomic.CompareAndSwapInt64(&w.arrived[id], 0, s) {
			atomic.AddInt64(&w.dup, 1)
		}
	}
	w.tab.AddRoute(w.cap)
	return w
}

var model = porcupine.Model{
	Init: func() interface{} { return uint32(0) },
	Step: func(state, input, output interface{}) (bool, interface{}) {
		ok, next := oracle.MaxRegStep(state.(uint32), input.(uint32), output.(bool))
		return ok, next
	},
	DescribeOperation: func(input, output interface{}) string {
		return fmt.Sprintf("ts=%d -> accepted=%v", input.(uint32), output.(bool))
	},
}

const notNewer = "point is not newer than previous" // what the bad-metrics report shows for an out-of-order point

// findBad looks the name up in the bad-metrics report. The table is reused for many histories, so
// the first attempts ask only for records newer than the history (plus a generous margin); before
// anything is concluded from "not there" the caller asks for the full hour (wide=true).
func findBad(tab *table.Table, canon string, since time.Time, wide bool) (msg, errText string, found bool) {
	window := time.Since(since) + 30*time.Second
	if wide {
		window = time.Hour
	}
	for _, rec := range tab.Bad().Get(window) {
		if rec.Metric == canon {
			return rec.LastMsg, rec.LastErr, true
		}
	}
	return "", "", false
}

func witness(h history, ops []opRec) map[string]interface{} {
	sorted := append([]opRec(nil), ops...)
	sort.Slice(sorted, func(a, b int) bool { return sorted[a].Call < sorted[b].Call })
	return map[string]interface{}{"history": h.Index, "dispatchers": len(h.Clients), "names": h.Names, "calls": sorted}
}

// ran is what the dispatch phase of one history leaves for the checks.
type ran struct {
	h          history
	all        []opRec
	byName     map[string][]opRec
	accepts    int
	rejects    int
	t0         time.Time
	sequential bool
}

// runPhase dispatches the history against the lane's table.
func runPhase(res *mon.Result, w *world, h history) *ran {
	total := 0
	for _, c := range h.Clients {
		total += len(c)
	}
	w.arrived = make([]int64, total)
	w.arrSeq, w.dup = 0, 0
	w.cap.Take()
	sequential := len(h.Clients) == 1
	t0 := time.Now()

	var stamp int64
	recs := make([][]opRec, len(h.Clients))
	start := make(chan struct{})
	var wg sync.WaitGroup
	base := 0
	seqState := map[string]uint32{}
	diverged := map[string]bool{}
	for c, ops := range h.Clients {
		wg.Add(1)
		go func(c int, ops []opSpec, base int) {
			defer wg.Done()
			out := make([]opRec, 0, len(ops))
			<-start
			for i, o := range ops {
				id := base + i
				name := h.Names[o.Name]
				if o.Dot {
					name = "." + name
				}
				line := name + " " + strconv.Itoa(id) + " " + strconv.FormatUint(uint64(o.TS), 10)
				buf := []byte(line)
				call := atomic.AddInt64(&stamp, 1)
				w.tab.Dispatch(buf)
				arr := atomic.LoadInt64(&w.arrived[id])
				ret := atomic.AddInt64(&stamp, 1)
				rec := opRec{Client: c, Name: name, canon: oracle.CanonicalName(name), TS: o.TS, ID: id, Call: call, Ret: ret, Accepted: arr != 0, arrival: arr, line: line}
				out = append(out, rec)
				if sequential {
					// exact oracle and exact bad-metrics lookup after every call
					if !diverged[rec.canon] {
						ok, next := oracle.MaxRegStep(seqState[rec.canon], rec.TS, rec.Accepted)
						if !ok {
							diverged[rec.canon] = true // one deviation per name: what follows it proves nothing
							if rec.Accepted {
								res.Violate("seq-accepted-not-newer", fmt.Sprintf("single dispatcher: %q accepted although the newest accepted timestamp of %q was already %d", line, rec.canon, seqState[rec.canon]), witness(h, out))
							} else {
								res.Violate("seq-rejected-newer", fmt.Sprintf("single dispatcher: %q rejected although it is newer than everything accepted for %q before (newest accepted: %d)", line, rec.canon, seqState[rec.canon]), witness(h, out))
							}
						}
						seqState[rec.canon] = next
					}
					if !rec.Accepted {
						okRec := false
						var msg, et string
						for step := 0; step < 2000 && !okRec; step++ {
							var found bool
							msg, et, found = findBad(w.tab, rec.canon, t0, step > 1000)
							okRec = found && msg == line && et == notNewer
							if !okRec {
								runtime.Gosched()
							}
						}
						res.Count("bad_metric_lookups_after_reject", 1)
						if !okRec {
							res.Violate("reject-not-reported", fmt.Sprintf("rejected line %q is not what Table.Bad() reports for %q (it has msg=%q err=%q)", line, rec.canon, msg, et), witness(h, out))
						}
					}
				}
			}
			recs[c] = out
		}(c, ops, base)
		base += len(ops)
	}
	close(start)
	wg.Wait()

	var all []opRec
	for _, rs := range recs {
		all = append(all, rs...)
	}
	byName := map[string][]opRec{}
	rejects, accepts := 0, 0
	for _, o := range all {
		byName[o.canon] = append(byName[o.canon], o)
		if o.Accepted {
			accepts++
		} else {
			rejects++
		}
	}
	res.Count("calls", len(all))
	res.Count("accepted", accepts)
	res.Count("rejected", rejects)
	return &ran{h: h, all: all, byName: byName, accepts: accepts, rejects: rejects, t0: t0, sequential: sequential}
}

// checkPhase judges one dispatched history (everything except the process-wide counters).
func checkPhase(res *mon.Result, w *world, rn *ran) {
	h, all, byName, accepts, t0, sequential := rn.h, rn.all, rn.byName, rn.accepts, rn.t0, rn.sequential

	// forwarded nowhere / once
	got := w.cap.Take()
	if len(got) != accepts || atomic.LoadInt64(&w.dup) != 0 {
		res.Violate("forwarded-after-return", fmt.Sprintf("%d lines were in the capture route when their call returned, %d are there at the end (%d ids captured twice)", accepts, len(got), w.dup), witness(h, all))
	}
	res.Count("lines_captured", len(got))

	// bad-metrics report: last record per name
	for canon, ops := range byName {
		rejected := map[string]bool{}
		lastRejected := ""
		for _, o := range ops {
			if !o.Accepted {
				rejected[o.line] = true
				lastRejected = o.line
			}
		}
		var msg, et string
		var found, ok bool
		for step := 0; step < 2000; step++ {
			msg, et, found = findBad(w.tab, canon, t0, step > 1000)
			if len(rejected) == 0 {
				ok = !found
			} else {
				ok = found && et == notNewer && rejected[msg] && (!sequential || msg == lastRejected)
			}
			if (ok && len(rejected) > 0) || (len(rejected) == 0 && (!ok || step >= 2)) {
				// presence: as soon as it is there; absence: looked three times
				break
			}
			runtime.Gosched()
		}
		res.Count("bad_metric_lookups_at_end", 1)
		if !ok && len(rejected) > 0 {
			res.Violate("reject-not-reported", fmt.Sprintf("%d points of %q were rejected; Table.Bad() has found=%v msg=%q err=%q for it", len(rejected), canon, found, msg, et), witness(h, ops))
		}
		if !ok && len(rejected) == 0 {
			res.Violate("accepted-reported-bad", fmt.Sprintf("every point of %q was forwarded, yet Table.Bad() reports msg=%q err=%q for it", canon, msg, et), witness(h, ops))
		}
	}

	// per canonical name: the specification
	overlaps := 0
	nontrivial := false
	for canon, ops := range byName {
		sort.Slice(ops, func(a, b int) bool { return ops[a].Call < ops[b].Call })
		hasAcc, hasRej := false, false
		seenTS := map[uint32]int{}
		for i, o := range ops {
			if o.Accepted {
				hasAcc = true
				if j, dupTS := seenTS[o.TS]; dupTS {
					res.Violate("accepted-same-timestamp-twice", fmt.Sprintf("%q: two points with timestamp %d were both forwarded (%q and %q)", canon, o.TS, ops[j].line, o.line), witness(h, ops))
				}
				seenTS[o.TS] = i
			} else {
				hasRej = true
			}
			maxDoneAcc, maxOther := uint32(0), uint32(0)
			for j, p := range ops {
				if j == i {
					continue
				}
				if p.Accepted && p.Ret < o.Call && p.TS > maxDoneAcc {
					maxDoneAcc = p.TS
				}
				if p.Call < o.Ret && p.TS > maxOther {
					maxOther = p.TS
				}
				if j > i && p.Call < o.Ret {
					overlaps++
				}
			}
			if o.Accepted && o.TS <= maxDoneAcc {
				res.Violate("accepted-not-newer", fmt.Sprintf("%q was forwarded although a point of %q with timestamp %d had been accepted by a call that returned before this one began", o.line, canon, maxDoneAcc), witness(h, ops))
			}
			if !o.Accepted && o.TS > maxOther {
				res.Violate("rejected-newest", fmt.Sprintf("%q was rejected although no other point of %q that could have preceded it has a timestamp >= %d (largest: %d)", o.line, canon, o.TS, maxOther), witness(h, ops))
			}
		}
		if hasAcc && hasRej {
			nontrivial = true
		}
		if sequential {
			// arrival order at the capture route
			acc := []opRec{}
			for _, o := range ops {
				if o.Accepted {
					acc = append(acc, o)
				}
			}
			sort.Slice(acc, func(a, b int) bool { return acc[a].arrival < acc[b].arrival })
			for i := 1; i < len(acc); i++ {
				if acc[i].TS <= acc[i-1].TS {
					res.Violate("arrival-order", fmt.Sprintf("single dispatcher: %q reached the route after %q", acc[i].line, acc[i-1].line), witness(h, ops))
				}
			}
			continue // already compared call by call with the sequential oracle
		}
		pops := make([]porcupine.Operation, len(ops))
		for i, o := range ops {
			pops[i] = porcupine.Operation{ClientId: o.Client, Input: o.TS, Call: o.Call, Output: o.Accepted, Return: o.Ret}
		}
		r, _ := porcupine.CheckOperationsVerbose(model, pops, 60*time.Second)
		res.Count("name_histories_checked_for_linearizability", 1)
		switch r {
		case porcupine.Illegal:
			res.Violate("not-linearizable", fmt.Sprintf("the %d calls for %q (%d dispatchers) cannot be explained by any order of atomic accept-iff-newer steps consistent with their call/return times", len(ops), canon, len(h.Clients)), witness(h, ops))
		case porcupine.Unknown:
			res.Inconclusive(fmt.Sprintf("history %d name %q: linearizability search timed out after 60s (%d calls)", h.Index, canon, len(ops)))
		}
	}
	res.Count("same_name_call_pairs_overlapping_in_time", overlaps)
	if nontrivial && (sequential || overlaps > 0) {
		var b strings.Builder
		for _, o := range all {
			fmt.Fprintf(&b, "%s/%d/%v;", o.canon[strings.LastIndex(o.canon, ".")+1:], o.TS, o.Accepted)
		}
		res.NonTrivial(fmt.Sprintf("%d:%s", len(h.Clients), b.String()))
	}
	if sequential {
		res.Count("single_dispatcher_histories", 1)
	}
}

func main() {
	res := mon.NewResult("C19")
	res.Rule = "one history = 2..5 fresh names of equal length (half of them also written with a leading dot, one name taking ~half the traffic), 1 (every fifth history) or 2..8 dispatcher goroutines released together, 10..40 Table.Dispatch calls each, timestamps from 1..R with R in {3,6,12,30} (uniform, or rising with stragglers), every tenth history shifted up to 2^32-1 (half of those keeping a quarter of the points low); non-trivial = some name had both a forwarded and a rejected point AND (single dispatcher OR at least two calls for one name overlapped in time); distinct = different sequence of (name, timestamp, outcome)"
	res.Assume("Dispatch to a capture route is synchronous: a forwarded line is in the capture route before Table.Dispatch returns (read in table.Dispatch / mon.CaptureRoute)")
	res.Assume("the state map of validate.Ordered is process-wide: names are fresh per history and every run is a fresh process")
	res.Assume("carbon20.ValidatePacket strips one leading dot from the name it returns (read in go-metrics20 validate.go); '.foo' and 'foo' are one name")
	res.Assume("timestamps are integral and in [1, 2^32-1]; timestamp 0 is not generated (the property only speaks about positive timestamps)")
	n := mon.N(300, 12000)
	if _, k := mon.Shard(); k >= 4 && mon.Thorough() {
		n = 30000 // the design's count needs the driver to spread the histories over >= 4 processes
	}
	if v := os.Getenv("C19_HISTORIES"); v != "" { // diagnostics only
		n, _ = strconv.Atoi(v)
	}
	// Histories run in rounds of `lanes` at a time, each lane on its own table and capture route
	// (names are disjoint, so the lanes only meet in validate.Ordered's lock and map - which is the
	// "interleaved across names" part of the quantifier). The table counters are process-wide, so
	// their identities are stated per round.
	lanes := mon.N(4, 6)
	if runtime.NumCPU() < 8 {
		lanes = 2
	}
	var mine []int
	for i := 0; i < n; i++ {
		if mon.Mine(i) {
			mine = append(mine, i)
		}
	}
	worlds := make([]*world, lanes)
	ranCount := 0
	for lo := 0; lo < len(mine); lo += lanes {
		hi := lo + lanes
		if hi > len(mine) {
			hi = len(mine)
		}
		round := mine[lo:hi]
		if (lo/lanes)%300 == 0 {
			for l := range worlds {
				worlds[l] = newWorld() // fresh tables (and bad-metrics reports) every 300 rounds
			}
		}
		hs := make([]history, len(round))
		for k, i := range round {
			hs[k] = gen(mon.Seed(), i)
			calls := 0
			for _, c := range hs[k].Clients {
				calls += len(c)
			}
			res.LogCase("history %d names=%d dispatchers=%d calls=%d range=%d base=%d", i, len(hs[k].Names), len(hs[k].Clients), calls, hs[k].Range, hs[k].Base)
			if ranCount+k < 2 {
				res.Sample(map[string]interface{}{"history": i, "names": hs[k].Names, "dispatchers": len(hs[k].Clients), "calls": calls, "timestamp_range": hs[k].Range, "timestamp_base": hs[k].Base})
			}
		}
		deltas := mon.NewDeltas(mon.KeyIn, mon.KeyInvalid, mon.KeyOutOfOrder, mon.KeyUnroutable, mon.KeyBlacklist)
		outs := make([]*ran, len(round))
		var wg sync.WaitGroup
		for k := range round {
			wg.Add(1)
			go func(k int) {
				defer wg.Done()
				outs[k] = runPhase(res, worlds[k], hs[k])
			}(k)
		}
		wg.Wait()
		// counters are incremented inside Dispatch, before it returns
		calls, rejects := 0, 0
		var everything []opRec
		for _, o := range outs {
			calls += len(o.all)
			rejects += o.rejects
			everything = append(everything, o.all...)
		}
		roundWitness := func() map[string]interface{} {
			return map[string]interface{}{"histories_of_the_round": round, "calls": everything}
		}
		if d := deltas.Get(mon.KeyOutOfOrder); d != int64(rejects) {
			res.Violate("out-of-order-count", fmt.Sprintf("%d calls were not forwarded, unit=Err.type=out_of_order moved by %d", rejects, d), roundWitness())
		}
		if d := deltas.Get(mon.KeyIn); d != int64(calls) {
			res.Violate("in-count", fmt.Sprintf("%d calls, unit=Metric.direction=in moved by %d", calls, d), roundWitness())
		}
		if a, b, c := deltas.Get(mon.KeyInvalid), deltas.Get(mon.KeyUnroutable), deltas.Get(mon.KeyBlacklist); a != 0 || b != 0 || c != 0 {
			res.Violate("other-count", fmt.Sprintf("generated lines are valid and routable, yet invalid/unroutable/blacklist counters moved by %d/%d/%d", a, b, c), roundWitness())
		}
		res.Count("counter_identities_checked_rounds", 1)
		for k := range round {
			wg.Add(1)
			go func(k int) {
				defer wg.Done()
				checkPhase(res, worlds[k], outs[k])
			}(k)
		}
		wg.Wait()
		res.Eval(len(round))
		ranCount += len(round)
	}
	ran := ranCount
	res.Floor("histories", ran, n)
	ov, _ := res.Extra["same_name_call_pairs_overlapping_in_time"].(int)
	res.Floor("same_name_call_pairs_overlapping_in_time", ov, n/2)
	rj, _ := res.Extra["rejected"].(int)
	res.Floor("rejected", rj, n)
	res.Write()
}
