// C19 — order validation accepts a point only if it is newer than all accepted before.
//
// Real tables with validate_order=true and one catch-all capture route are driven by 1..8
// dispatcher goroutines calling Table.Dispatch. Every line carries a unique id in its value token;
// Dispatch to a capture route is synchronous, so "the line was forwarded" is decided when the call
// returns: forwarded = the id is in the capture route. Each call is recorded as
// {client, name, ts, call stamp, return stamp, outcome}, the stamps coming from one atomic counter.
//
// The tables are built in four ways (minimal TOML; TOML with blacklist / [[aggregation]] /
// [[rewriter]] / [[route]] sections; table.New on a TableConfig plus Add* calls; TOML whose
// [init] cmds build the entries) and, in half of the histories, their configuration is changed
// while the points arrive: routes, blacklist entries, rewriters and aggregators are added,
// deleted and (routes) modified, through the Table methods the admin interfaces call and, for a
// few, through the admin command itself (see admin.go). The catch-all capture route is never
// touched, so the observation stays what it was. Order validation sits before the blacklist
// (properties.jsonl, anchors): every valid line takes part, whatever the table holds. The only
// thing that changes for the oracle is that a line whose name a blacklist entry installed by the
// history matches reaches no route whether it was rejected or accepted: such a call is
// "unobserved" (oracle.OrderUnobserved) when a matching entry may have been in force during it.
//
// Timestamps: 1..R as before, and in half of the histories every sixth point takes a boundary
// value: 0, a fraction that truncates to 0, 1, the timestamp last generated for the name, that
// minus 1, that plus a fraction (10.2 / 10.9 are the same second), 2^31-1, 2^31, 2^32-2, 2^32-1,
// 4294967295.5. The model speaks about the whole second the field truncates to.
//
// Verdict-bearing observations, per history:
//   - each canonical name's sub-history must be linearizable (porcupine v1.3.0) with respect to the
//     specification oracle.OrderStep (pass <=> ts > newest accepted; passing sets it).
//     Canonical name = one leading dot stripped: carbon20.ValidatePacket (go-metrics20 validate.go,
//     "graphite graciously allows a leading dot by pretending it's not there") returns the name
//     without it and that is the key Table.Dispatch hands to validate.Ordered.
//     A checker time-out (60 s per name) is inconclusive, never a violation.
//   - three consequences of the specification that need no search (clearer witnesses, and still
//     decided when the search times out): two forwarded points of a name with the same timestamp;
//     a point forwarded although a point of the name with a timestamp >= its own had been forwarded
//     by a call that returned before this one began; a point rejected although its timestamp is
//     greater than that of every other point of the name whose call began before this one returned.
//   - single-dispatcher histories (configuration changes happen between two calls there): exact
//     agreement with the sequential oracle, and forwarded timestamps of a name strictly increasing
//     in capture-route arrival order (with several dispatchers arrival order says nothing: accept
//     and forward are not one atomic step and the property does not ask for that).
//   - per round: direction=in delta == calls; out_of_order + blacklist deltas == calls that were not
//     forwarded; rejected calls <= out_of_order delta <= rejected + unobserved calls;
//     invalid/unroutable deltas == 0.
//   - every rejected line is reported by Table.Bad(): the record of the name (BadMetrics keeps the
//     last record per name) exists, carries the not-newer error and one of the name's rejected lines
//     (single dispatcher: looked up after every reject, must be exactly that line); names without a
//     reject have no record. Lookups retry by bounded steps (the report is filled through a channel).
//   - a rejected line is in no route at the end (the catch-all one and every capture route the
//     configuration changes added); no id is captured twice.
//   - the Go race detector, scoped by the driver to reports with validate.Ordered on both sides.
package main

import (
	"bytes"
	"fmt"
	"math"
	"os"
	"runtime"
	"sort"
	"strconv"
	"strings"
	"sync"
	"sync/atomic"
	"time"

	"github.com/anishathalye/porcupine"
	"github.com/grafana/carbon-relay-ng/table"

	"verifharness/mon"
	"verifharness/oracle"
)

type opSpec struct {
	Name int    // index into history names
	Dot  bool   // written with a leading dot
	TS   uint32 // the whole second the timestamp field truncates to
	Text string // the timestamp field as written
}

type history struct {
	Index   int
	Names   []string
	Clients [][]opSpec
	Range   int
	Base    uint32
	Edgy    bool        // boundary timestamps mixed in
	Admin   []adminSpec // configuration changes applied while the points arrive
}

type opRec struct {
	Client   int    `json:"client"`
	Name     string `json:"name"` // as written
	canon    string
	TS       uint32 `json:"ts"`
	Text     string `json:"timestamp_field"`
	ID       int    `json:"id"`
	Call     int64  `json:"call"`
	Ret      int64  `json:"return"`
	Accepted bool   `json:"forwarded"`
	Outcome  string `json:"outcome"` // forwarded | rejected | unobserved (a blacklist entry for the name may have dropped it)
	class    int    // oracle.OrderForwarded / OrderRejected / OrderUnobserved
	arrival  int64
	line     string
}

var outcomeName = map[int]string{oracle.OrderForwarded: "forwarded", oracle.OrderRejected: "rejected", oracle.OrderUnobserved: "unobserved"}

func utoa(v uint32) string { return strconv.FormatUint(uint64(v), 10) }

// edge returns a boundary timestamp; last is the timestamp generated last for the name.
func edge(r *mon.Rng, last uint32, wide bool) (uint32, string) {
	switch r.Intn(20) {
	case 0, 1, 2:
		return 0, "0"
	case 3:
		return 0, "0.5"
	case 4:
		return 0, r.Pick([]string{"0.9", "0.0", "0.001"})
	case 5, 6:
		return 1, r.Pick([]string{"1", "1", "1.0", "1.5"})
	case 7, 8, 9:
		return last, utoa(last) // equal to the last one
	case 10, 11:
		if last > 0 {
			return last - 1, utoa(last - 1)
		}
		return 0, "0"
	case 12, 13, 14:
		return last, utoa(last) + r.Pick([]string{".2", ".9", ".0", ".5"}) // the same second
	case 15, 16:
		if last < math.MaxUint32 {
			return last + 1, utoa(last+1) + r.Pick([]string{"", ".5"})
		}
		return last, utoa(last)
	case 17:
		return last, utoa(last) + ".999"
	}
	if !wide {
		// the largest timestamps end a name's history (nothing is newer afterwards): a quarter of the draws only
		return last, utoa(last)
	}
	switch r.Intn(6) {
	case 0:
		return 2147483647, "2147483647"
	case 1:
		return 2147483648, "2147483648"
	case 2:
		return 4294967294, "4294967294"
	case 3:
		return 4294967295, "4294967295.5"
	}
	return 4294967295, "4294967295"
}

func gen(seed uint64, idx int) history {
	r := mon.NewRng(seed, 19, uint64(idx))
	h := history{Index: idx}
	nn := r.Range(2, 5)
	for k := 0; k < nn; k++ {
		// same length on purpose; the index and seed make the names fresh in this process
		h.Names = append(h.Names, fmt.Sprintf("c19.s%d.h%d.n%d", seed%1000, idx, k))
	}
	nd := r.Range(2, 8)
	if r.Chance(1, 5) {
		nd = 1
	}
	h.Range = r.PickInt([]int{3, 6, 12, 30, 30})
	if r.Chance(1, 10) {
		h.Base = 4294967295 - 30 // timestamps up to 2^32-1
	}
	h.Edgy = r.Chance(1, 2)
	dotty := make([]bool, nn)
	for k := range dotty {
		dotty[k] = r.Chance(1, 2)
	}
	hot := r.Intn(nn)       // one name takes about half of the traffic
	trend := r.Intn(3)      // 0 uniform, 1 and 2: rising with stragglers
	mixed := r.Chance(1, 2) // shifted histories: a quarter of the points stay low (2^32-1 next to 1)
	edgeOneIn := 6
	if nd == 1 {
		edgeOneIn = 4 // a single dispatcher makes few calls
	}
	last := make([]uint32, nn)
	for k := range last {
		last[k] = uint32(r.Range(1, h.Range))
	}
	total := 0
	for c := 0; c < nd; c++ {
		n := r.Range(10, 40)
		var ops []opSpec
		for i := 0; i < n; i++ {
			k := r.Intn(nn)
			if r.Chance(1, 2) {
				k = hot
			}
			x := r.Range(1, h.Range)
			if trend >= 1 {
				x = 1 + (i*h.Range)/n + r.Range(-1, 1)
				if x < 1 {
					x = 1
				}
				if x > h.Range {
					x = h.Range
				}
			}
			b := h.Base
			if b != 0 && mixed && r.Chance(1, 4) {
				b = 0
			}
			ts := b + uint32(x)
			text := utoa(ts)
			if h.Edgy && r.Chance(1, edgeOneIn) {
				ts, text = edge(r, last[k], r.Chance(1, 4))
			}
			last[k] = ts
			ops = append(ops, opSpec{Name: k, Dot: dotty[k] && r.Chance(1, 3), TS: ts, Text: text})
		}
		h.Clients = append(h.Clients, ops)
		total += n
	}
	if r.Chance(1, 2) {
		h.Admin = genAdmin(r, nn, nd, total, len(h.Clients[0]))
	}
	return h
}

// recent holds the lines of the Dispatch calls begun last, over all tables (validate.Ordered is
// shared by all of them): a witness should show what went into it just before.
var recent [64]atomic.Pointer[string]
var recentPos uint64

func noteRecent(line *string) { recent[atomic.AddUint64(&recentPos, 1)%64].Store(line) }

func recentCalls(n int) string {
	pos := atomic.LoadUint64(&recentPos)
	var out []string
	for i := uint64(0); i < uint64(n) && i < pos; i++ {
		if p := recent[(pos-i)%64].Load(); p != nil {
			out = append([]string{strconv.Quote(*p)}, out...)
		}
	}
	return strings.Join(out, ", ")
}

var model = porcupine.Model{
	Init: func() interface{} { return oracle.OrderNone },
	Step: func(state, input, output interface{}) (bool, interface{}) {
		ok, next := oracle.OrderStep(state.(int64), input.(uint32), output.(int))
		return ok, next
	},
	DescribeOperation: func(input, output interface{}) string {
		return fmt.Sprintf("ts=%d -> %s", input.(uint32), outcomeName[output.(int)])
	},
}

const notNewer = "point is not newer than previous" // what the bad-metrics report shows for an out-of-order point

// findBad looks the name up in the bad-metrics report. The table is reused for many histories, so
// the first attempts ask only for records newer than the history (plus a generous margin); before
// anything is concluded from "not there" the caller asks for the full hour (wide=true).
func findBad(tab *table.Table, canon string, since time.Time, wide bool) (msg, errText string, found bool) {
	window := time.Since(since) + 30*time.Second
	if wide {
		window = time.Hour
	}
	for _, rec := range tab.Bad().Get(window) {
		if rec.Metric == canon {
			return rec.LastMsg, rec.LastErr, true
		}
	}
	return "", "", false
}

func witness(w *world, h history, ops []opRec) map[string]interface{} {
	sorted := append([]opRec(nil), ops...)
	sort.Slice(sorted, func(a, b int) bool { return sorted[a].Call < sorted[b].Call })
	return map[string]interface{}{"history": h.Index, "dispatchers": len(h.Clients), "names": h.Names, "calls": sorted, "calls_begun_last_on_all_tables": recentCalls(12),
		"table_built": w.built, "configuration_changes_on_this_table_latest_last": w.logTail(), "runtime_deletes_on_this_table": atomic.LoadInt64(&w.deletes)}
}

// ran is what the dispatch phase of one history leaves for the checks.
type ran struct {
	h          history
	all        []opRec
	byName     map[string][]opRec
	accepts    int
	rejects    int // definitely rejected
	unobserved int
	t0         time.Time
	sequential bool
	gone       []*extraRoute // capture routes the history deleted (their content is still judged)
}

// runPhase dispatches the history against the lane's table.
func runPhase(res *mon.Result, w *world, h history) *ran {
	total := 0
	for _, c := range h.Clients {
		total += len(c)
	}
	w.arrived = make([]int64, total)
	w.arrSeq, w.dup = 0, 0
	w.cap.Take()
	w.beginHistory(h)
	sequential := len(h.Clients) == 1
	t0 := time.Now()

	var stamp int64
	var finished int32
	recs := make([][]opRec, len(h.Clients))
	start := make(chan struct{})
	var wg, adminWG sync.WaitGroup
	base := 0
	seqState := map[string]int64{}
	diverged := map[string]bool{}
	if !sequential && len(h.Admin) > 0 {
		// the configuration changes of a concurrent history: one more goroutine, each change held back
		// until the stamp counter reached its position (bounded steps; the dispatchers do not wait for it)
		adminWG.Add(1)
		go func() {
			defer adminWG.Done()
			<-start
			for _, a := range h.Admin {
				for step := 0; step < 200000 && atomic.LoadInt64(&stamp) < int64(a.At) && atomic.LoadInt32(&finished) == 0; step++ {
					runtime.Gosched()
				}
				w.admin(res, a, &stamp)
			}
		}()
	}
	for c, ops := range h.Clients {
		wg.Add(1)
		go func(c int, ops []opSpec, base int) {
			defer wg.Done()
			out := make([]opRec, 0, len(ops))
			<-start
			nextAdmin := 0
			prevZero := false
			for i, o := range ops {
				if sequential {
					for nextAdmin < len(h.Admin) && h.Admin[nextAdmin].At <= i {
						w.admin(res, h.Admin[nextAdmin], &stamp)
						nextAdmin++
					}
				}
				id := base + i
				name := h.Names[o.Name]
				if o.Dot {
					name = "." + name
				}
				line := name + " " + strconv.Itoa(id) + " " + o.Text
				buf := []byte(line)
				noteRecent(&line)
				call := atomic.AddInt64(&stamp, 1)
				w.tab.Dispatch(buf)
				arr := atomic.LoadInt64(&w.arrived[id])
				ret := atomic.AddInt64(&stamp, 1)
				rec := opRec{Client: c, Name: name, canon: oracle.CanonicalName(name), TS: o.TS, Text: o.Text, ID: id, Call: call, Ret: ret, Accepted: arr != 0, arrival: arr, line: line}
				if atomic.LoadInt64(&w.deletes) > 0 {
					res.Count("calls_on_a_table_after_a_runtime_delete", 1)
					if !rec.Accepted {
						res.Count("calls_not_forwarded_on_a_table_after_a_runtime_delete", 1)
					}
				}
				if sequential {
					// exact oracle and exact bad-metrics lookup after every call
					st, seen := seqState[rec.canon]
					if !seen {
						st = oracle.OrderNone
					}
					rec.class = oracle.OrderRejected
					if rec.Accepted {
						rec.class = oracle.OrderForwarded
					} else if w.swallowedNow(rec.canon) {
						rec.class = oracle.OrderUnobserved
					}
					rec.Outcome = outcomeName[rec.class]
					expectReject := oracle.OrderWouldReject(st, rec.TS)
					if prevZero && expectReject {
						res.Count("single_dispatcher_not_newer_point_directly_after_a_zero_timestamp_point", 1)
					}
					prevZero = rec.TS == 0
					out = append(out, rec)
					if !diverged[rec.canon] {
						ok, next := oracle.OrderStep(st, rec.TS, rec.class)
						if !ok {
							diverged[rec.canon] = true // one deviation per name: what follows it proves nothing
							if rec.Accepted {
								res.Violate("seq-accepted-not-newer", fmt.Sprintf("single dispatcher: %q forwarded although the newest accepted timestamp of %q was already %d (%s; calls begun last on all tables, this one last: %s)", line, rec.canon, st, w.state(), recentCalls(6)), witness(w, h, out))
							} else {
								res.Violate("seq-rejected-newer", fmt.Sprintf("single dispatcher: %q rejected although it is newer than everything accepted for %q before (newest accepted: %d; %s; calls begun last on all tables, this one last: %s)", line, rec.canon, st, w.state(), recentCalls(6)), witness(w, h, out))
							}
						}
						seqState[rec.canon] = next
					}
					// a line that reached no route without a blacklist entry to explain it was rejected; under a
					// blacklist entry for the name it was rejected if the (exactly known) state says so
					if !rec.Accepted && (rec.class == oracle.OrderRejected || (expectReject && !diverged[rec.canon])) {
						okRec := false
						var msg, et string
						for step := 0; step < 2000 && !okRec; step++ {
							var found bool
							msg, et, found = findBad(w.tab, rec.canon, t0, step > 1000)
							okRec = found && msg == line && et == notNewer
							if !okRec {
								runtime.Gosched()
							}
						}
						res.Count("bad_metric_lookups_after_reject", 1)
						if !okRec {
							res.Violate("reject-not-reported", fmt.Sprintf("rejected line %q is not what Table.Bad() reports for %q (it has msg=%q err=%q)", line, rec.canon, msg, et), witness(w, h, out))
						}
					}
				} else {
					out = append(out, rec)
				}
			}
			if sequential {
				for ; nextAdmin < len(h.Admin); nextAdmin++ {
					w.admin(res, h.Admin[nextAdmin], &stamp)
				}
			}
			recs[c] = out
		}(c, ops, base)
		base += len(ops)
	}
	close(start)
	wg.Wait()
	atomic.StoreInt32(&finished, 1)
	adminWG.Wait()

	var all []opRec
	for _, rs := range recs {
		all = append(all, rs...)
	}
	byName := map[string][]opRec{}
	rejects, accepts, unobserved := 0, 0, 0
	for i := range all {
		o := &all[i]
		if !sequential {
			o.class = oracle.OrderRejected
			if o.Accepted {
				o.class = oracle.OrderForwarded
			} else if w.maybeSwallowed(o.canon, o.Call, o.Ret) {
				o.class = oracle.OrderUnobserved
			}
			o.Outcome = outcomeName[o.class]
		}
		switch o.class {
		case oracle.OrderForwarded:
			accepts++
		case oracle.OrderRejected:
			rejects++
		default:
			unobserved++
		}
		if o.TS == 0 {
			res.Count("zero_timestamp_points", 1)
		}
		if strings.Contains(o.Text, ".") {
			res.Count("fractional_timestamp_points", 1)
		}
		byName[o.canon] = append(byName[o.canon], *o)
	}
	res.Count("calls", len(all))
	res.Count("accepted", accepts)
	res.Count("rejected", rejects)
	res.Count("unobserved_calls_under_a_matching_blacklist_entry", unobserved)
	return &ran{h: h, all: all, byName: byName, accepts: accepts, rejects: rejects, unobserved: unobserved, t0: t0, sequential: sequential, gone: w.endHistory()}
}

// checkPhase judges one dispatched history (everything except the process-wide counters).
func checkPhase(res *mon.Result, w *world, rn *ran) {
	h, all, byName, accepts, t0, sequential := rn.h, rn.all, rn.byName, rn.accepts, rn.t0, rn.sequential

	// forwarded nowhere / once
	got := 0
	for _, g := range w.cap.Take() {
		if !isAggregate(g.Copy) {
			got++
		}
	}
	if got != accepts || atomic.LoadInt64(&w.dup) != 0 {
		res.Violate("forwarded-after-return", fmt.Sprintf("%d lines were in the capture route when their call returned, %d are there at the end (%d ids captured twice)", accepts, got, w.dup), witness(w, h, all))
	}
	res.Count("lines_captured", got)
	// the capture routes added by configuration changes: whatever they hold was also forwarded to the catch-all route
	byID := map[int]*opRec{}
	for i := range all {
		byID[all[i].ID] = &all[i]
	}
	for _, x := range append(w.liveExtras(), rn.gone...) {
		for _, g := range x.cap.Take() {
			if isAggregate(g.Copy) {
				continue
			}
			res.Count("lines_in_capture_routes_added_at_run_time", 1)
			f := bytes.Fields(g.Copy)
			id := -1
			if len(f) == 3 {
				id, _ = strconv.Atoi(string(f[1]))
			}
			if o := byID[id]; o == nil || !o.Accepted {
				res.Violate("not-forwarded-line-in-a-route", fmt.Sprintf("route %s holds %q, a line that had not reached the catch-all route when its Dispatch call returned", x.key, g.Copy), witness(w, h, all))
			}
		}
	}

	// bad-metrics report: last record per name
	for canon, ops := range byName {
		rejected := map[string]bool{}
		possible := map[string]bool{}
		lastRejected := ""
		for _, o := range ops {
			if o.class == oracle.OrderRejected {
				rejected[o.line] = true
				lastRejected = o.line
			}
			if o.class == oracle.OrderUnobserved {
				possible[o.line] = true
			}
		}
		if sequential && len(possible) > 0 {
			continue // looked up call by call, where the state told which unobserved calls were rejects
		}
		var msg, et string
		var found, ok bool
		for step := 0; step < 2000; step++ {
			msg, et, found = findBad(w.tab, canon, t0, step > 1000)
			switch {
			case len(rejected) > 0:
				ok = found && et == notNewer && (rejected[msg] || possible[msg]) && (!sequential || msg == lastRejected)
			case len(possible) > 0:
				ok = !found || (et == notNewer && possible[msg])
			default:
				ok = !found
			}
			if (ok && len(rejected) > 0) || (len(rejected) == 0 && (!ok || step >= 2)) {
				// presence: as soon as it is there; absence: looked three times
				break
			}
			runtime.Gosched()
		}
		res.Count("bad_metric_lookups_at_end", 1)
		if !ok && len(rejected) > 0 {
			res.Violate("reject-not-reported", fmt.Sprintf("%d points of %q were rejected; Table.Bad() has found=%v msg=%q err=%q for it", len(rejected), canon, found, msg, et), witness(w, h, ops))
		}
		if !ok && len(rejected) == 0 {
			res.Violate("accepted-reported-bad", fmt.Sprintf("no point of %q was rejected, yet Table.Bad() reports msg=%q err=%q for it", canon, msg, et), witness(w, h, ops))
		}
	}

	// per canonical name: the specification
	overlaps := 0
	nontrivial := false
	for canon, ops := range byName {
		sort.Slice(ops, func(a, b int) bool { return ops[a].Call < ops[b].Call })
		hasAcc, hasRej := false, false
		seenTS := map[uint32]int{}
		for i, o := range ops {
			if o.Accepted {
				hasAcc = true
				if j, dupTS := seenTS[o.TS]; dupTS {
					res.Violate("accepted-same-timestamp-twice", fmt.Sprintf("%q: two points with timestamp %d were both forwarded (%q and %q)", canon, o.TS, ops[j].line, o.line), witness(w, h, ops))
				}
				seenTS[o.TS] = i
			} else if o.class == oracle.OrderRejected {
				hasRej = true
			}
			maxDoneAcc, maxOther := int64(-1), int64(-1)
			doneLine := ""
			for j, p := range ops {
				if j == i {
					continue
				}
				if p.Accepted && p.Ret < o.Call && int64(p.TS) > maxDoneAcc {
					maxDoneAcc = int64(p.TS)
					doneLine = p.line
				}
				if p.Call < o.Ret && int64(p.TS) > maxOther {
					maxOther = int64(p.TS)
				}
				if j > i && p.Call < o.Ret {
					overlaps++
				}
			}
			if o.Accepted && int64(o.TS) <= maxDoneAcc {
				res.Violate("accepted-not-newer", fmt.Sprintf("%q was forwarded although %q (timestamp %d) had been forwarded by a call that returned before this one began (%s)", o.line, doneLine, maxDoneAcc, w.state()), witness(w, h, ops))
			}
			if o.class == oracle.OrderRejected && o.TS > 0 && int64(o.TS) > maxOther {
				res.Violate("rejected-newest", fmt.Sprintf("%q was rejected although no other point of %q that could have preceded it has a timestamp >= %d (largest: %d)", o.line, canon, o.TS, maxOther), witness(w, h, ops))
			}
		}
		if hasAcc && hasRej {
			nontrivial = true
		}
		if sequential {
			// arrival order at the capture route
			acc := []opRec{}
			for _, o := range ops {
				if o.Accepted {
					acc = append(acc, o)
				}
			}
			sort.Slice(acc, func(a, b int) bool { return acc[a].arrival < acc[b].arrival })
			for i := 1; i < len(acc); i++ {
				if acc[i].TS <= acc[i-1].TS {
					res.Violate("arrival-order", fmt.Sprintf("single dispatcher: %q reached the route after %q", acc[i].line, acc[i-1].line), witness(w, h, ops))
				}
			}
			continue // already compared call by call with the sequential oracle
		}
		pops := make([]porcupine.Operation, len(ops))
		for i, o := range ops {
			pops[i] = porcupine.Operation{ClientId: o.Client, Input: o.TS, Call: o.Call, Output: o.class, Return: o.Ret}
		}
		r, _ := porcupine.CheckOperationsVerbose(model, pops, 60*time.Second)
		res.Count("name_histories_checked_for_linearizability", 1)
		switch r {
		case porcupine.Illegal:
			res.Violate("not-linearizable", fmt.Sprintf("the %d calls for %q (%d dispatchers) cannot be explained by any order of atomic accept-iff-newer steps consistent with their call/return times (%s):%s", len(ops), canon, len(h.Clients), w.state(), brief(ops)), witness(w, h, ops))
		case porcupine.Unknown:
			res.Inconclusive(fmt.Sprintf("history %d name %q: linearizability search timed out after 60s (%d calls)", h.Index, canon, len(ops)))
		}
	}
	res.Count("same_name_call_pairs_overlapping_in_time", overlaps)
	if nontrivial && (sequential || overlaps > 0) {
		var b strings.Builder
		for _, o := range all {
			fmt.Fprintf(&b, "%s/%s/%d;", o.canon[strings.LastIndex(o.canon, ".")+1:], o.Text, o.class)
		}
		res.NonTrivial(fmt.Sprintf("%d:%s", len(h.Clients), b.String()))
	}
	if sequential {
		res.Count("single_dispatcher_histories", 1)
	}
}

// brief renders a name's calls in call order, at most 24 of them, for a violation message.
func brief(ops []opRec) string {
	var b strings.Builder
	for i, o := range ops {
		if i == 24 {
			fmt.Fprintf(&b, " ... (%d more)", len(ops)-i)
			break
		}
		fmt.Fprintf(&b, " [%d-%d %s %s]", o.Call, o.Ret, o.Text, o.Outcome)
	}
	return b.String()
}

func main() {
	res := mon.NewResult("C19")
	res.Rule = "one history = 2..5 fresh names of equal length (half of them also written with a leading dot, one name taking ~half the traffic), 1 (every fifth history) or 2..8 dispatcher goroutines released together, 10..40 Table.Dispatch calls each, timestamps from 1..R with R in {3,6,12,30} (uniform, or rising with stragglers), every tenth history shifted up to 2^32-1 (half of those keeping a quarter of the points low); in half of the histories every sixth point (every fourth with a single dispatcher) takes a boundary timestamp (0, 0.5, 1, the name's last one, last-1, last plus a fraction, last+1, 2^31-1, 2^31, 2^32-2, 2^32-1, 4294967295.5); in half of the histories 1..4 configuration changes (add/delete/modify route, add/delete blacklist entry, rewriter, aggregator; half of the blacklist entries match one of the history's names) are applied between (single dispatcher) or during the calls; tables built in four ways (TOML, TOML sections, table.New + Add*, init commands) and kept for many histories; non-trivial = some name had both a forwarded and a rejected point AND (single dispatcher OR at least two calls for one name overlapped in time); distinct = different sequence of (name, timestamp field, outcome)"
	res.Assume("Dispatch to a capture route is synchronous: a forwarded line is in the capture route before Table.Dispatch returns (read in table.Dispatch / mon.CaptureRoute)")
	res.Assume("the state map of validate.Ordered is process-wide: names are fresh per history and every run is a fresh process")
	res.Assume("carbon20.ValidatePacket strips one leading dot from the name it returns (read in go-metrics20 validate.go); '.foo' and 'foo' are one name")
	res.Assume("a point's timestamp is the whole second its timestamp field truncates to (carbon timestamps are seconds; '10.2' and '10.9' are the same second); fields stay in [0, 2^32); a first point with timestamp 0 may be forwarded or rejected (the property promises acceptance only for positive timestamps)")
	res.Assume("order validation comes before the blacklist (properties.jsonl C19 anchors): a line dropped by a blacklist entry has taken part in order validation; a call is 'unobserved' when its line reached no route and a blacklist entry matching its name was possibly in force (entry added by a call that began before the Dispatch returned and not deleted by a call that returned before the Dispatch began)")
	res.Assume("no configuration change touches the catch-all capture route; aggregators that match the generated names do not drop the raw point, dropRaw aggregators match other names")
	n := mon.N(300, 12000)
	if _, k := mon.Shard(); k >= 4 && mon.Thorough() {
		n = 30000 // the design's count needs the driver to spread the histories over >= 4 processes
	}
	if v := os.Getenv("C19_HISTORIES"); v != "" { // diagnostics only
		n, _ = strconv.Atoi(v)
	}
	// Histories run in rounds of `lanes` at a time, each lane on its own table and capture route
	// (names are disjoint, so the lanes only meet in validate.Ordered's lock and map - which is the
	// "interleaved across names" part of the quantifier). The table counters are process-wide, so
	// their identities are stated per round.
	lanes := mon.N(4, 6)
	if runtime.NumCPU() < 8 {
		lanes = 2
	}
	var mine []int
	for i := 0; i < n; i++ {
		if mon.Mine(i) {
			mine = append(mine, i)
		}
	}
	worlds := make([]*world, lanes)
	ranCount := 0
	generation := 0
	for lo := 0; lo < len(mine); lo += lanes {
		hi := lo + lanes
		if hi > len(mine) {
			hi = len(mine)
		}
		round := mine[lo:hi]
		if (lo/lanes)%300 == 0 {
			for l := range worlds {
				if worlds[l] != nil {
					worlds[l].retire()
				}
				res.LogCase("building table for lane %d: kind %d", l, (l+generation)%4)
				worlds[l] = newWorld((l+generation)%4, generation*lanes+l) // fresh tables (and bad-metrics reports) every 300 rounds
				res.Count("tables_built_"+worlds[l].built, 1)
			}
			generation++
		}
		hs := make([]history, len(round))
		for k, i := range round {
			hs[k] = gen(mon.Seed(), i)
			calls := 0
			for _, c := range hs[k].Clients {
				calls += len(c)
			}
			res.LogCase("history %d lane=%d table=%s names=%d dispatchers=%d calls=%d range=%d base=%d boundary_timestamps=%v configuration_changes=%s", i, k, worlds[k].built, len(hs[k].Names), len(hs[k].Clients), calls, hs[k].Range, hs[k].Base, hs[k].Edgy, describeAdmin(hs[k].Admin))
			if ranCount+k < 2 {
				res.Sample(map[string]interface{}{"history": i, "names": hs[k].Names, "dispatchers": len(hs[k].Clients), "calls": calls, "timestamp_range": hs[k].Range, "timestamp_base": hs[k].Base, "boundary_timestamps": hs[k].Edgy, "configuration_changes": describeAdmin(hs[k].Admin)})
			}
		}
		deltas := mon.NewDeltas(mon.KeyIn, mon.KeyInvalid, mon.KeyOutOfOrder, mon.KeyUnroutable, mon.KeyBlacklist)
		outs := make([]*ran, len(round))
		var wg sync.WaitGroup
		for k := range round {
			wg.Add(1)
			go func(k int) {
				defer wg.Done()
				outs[k] = runPhase(res, worlds[k], hs[k])
			}(k)
		}
		wg.Wait()
		// counters are incremented inside Dispatch, before it returns
		calls, rejects, unobserved, forwarded := 0, 0, 0, 0
		var everything []opRec
		for _, o := range outs {
			calls += len(o.all)
			rejects += o.rejects
			unobserved += o.unobserved
			forwarded += o.accepts
			everything = append(everything, o.all...)
		}
		roundWitness := func() map[string]interface{} {
			changes := map[string][]string{}
			for k := range round {
				changes[fmt.Sprintf("history %d (table built %s)", round[k], worlds[k].built)] = worlds[k].logTail()
			}
			return map[string]interface{}{"histories_of_the_round": round, "calls": everything, "configuration_changes_latest_last": changes}
		}
		dOOO, dBlack := deltas.Get(mon.KeyOutOfOrder), deltas.Get(mon.KeyBlacklist)
		if dOOO < int64(rejects) || dOOO > int64(rejects+unobserved) {
			res.Violate("out-of-order-count", fmt.Sprintf("%d calls were rejected (and %d more reached no route under a matching blacklist entry), unit=Err.type=out_of_order moved by %d", rejects, unobserved, dOOO), roundWitness())
		}
		if dOOO+dBlack != int64(calls-forwarded) {
			res.Violate("out-of-order-count", fmt.Sprintf("%d of %d calls were not forwarded; unit=Err.type=out_of_order moved by %d and direction=blacklist by %d", calls-forwarded, calls, dOOO, dBlack), roundWitness())
		}
		if d := deltas.Get(mon.KeyIn); d != int64(calls) {
			res.Violate("in-count", fmt.Sprintf("%d calls, unit=Metric.direction=in moved by %d", calls, d), roundWitness())
		}
		if a, b := deltas.Get(mon.KeyInvalid), deltas.Get(mon.KeyUnroutable); a != 0 || b != 0 || dBlack > int64(unobserved) {
			res.Violate("other-count", fmt.Sprintf("generated lines are valid and routable and %d of them can have met a blacklist entry, yet invalid/unroutable/blacklist counters moved by %d/%d/%d", unobserved, a, b, dBlack), roundWitness())
		}
		res.Count("counter_identities_checked_rounds", 1)
		res.Count("lines_counted_as_blacklisted", int(dBlack))
		for k := range round {
			wg.Add(1)
			go func(k int) {
				defer wg.Done()
				checkPhase(res, worlds[k], outs[k])
			}(k)
		}
		wg.Wait()
		res.Eval(len(round))
		ranCount += len(round)
	}
	ran := ranCount
	res.Floor("histories", ran, n)
	cnt := func(k string) int { v, _ := res.Extra[k].(int); return v }
	res.Floor("same_name_call_pairs_overlapping_in_time", cnt("same_name_call_pairs_overlapping_in_time"), n/2)
	res.Floor("rejected", cnt("rejected"), n)
	// what the configuration changes and the boundary timestamps were added for must have happened
	res.Floor("runtime_deletes", cnt("config_deletes_applied"), n/4)
	for _, k := range []string{"delRoute", "delBlacklist", "delRewriter", "delAggregator", "addRoute", "addBlacklist", "addRewriter", "addAggregator"} {
		res.Floor("config_change_"+k, cnt("config_change_"+k), n/30)
	}
	res.Floor("config_changes_through_admin_command", cnt("config_changes_through_admin_command"), n/mon.N(100, 400)) // one change in 20 (thorough: 80) asks for the command, and deletes of blacklist entries / rewriters / aggregators have none
	res.Floor("calls_not_forwarded_on_a_table_after_a_runtime_delete", cnt("calls_not_forwarded_on_a_table_after_a_runtime_delete"), n)
	res.Floor("zero_timestamp_points", cnt("zero_timestamp_points"), n/3)
	res.Floor("fractional_timestamp_points", cnt("fractional_timestamp_points"), n/3)
	res.Floor("single_dispatcher_not_newer_point_directly_after_a_zero_timestamp_point", cnt("single_dispatcher_not_newer_point_directly_after_a_zero_timestamp_point"), n/50)
	res.Floor("unobserved_calls_under_a_matching_blacklist_entry", cnt("unobserved_calls_under_a_matching_blacklist_entry"), n/20)
	res.Write()
}
