// Tables and their configuration changes for C19.
//
// A world is one real table (validate_order=true) with the catch-all capture route the histories
// are observed through, kept for many histories, plus a mirror of what the configuration changes
// put into it (Del* work on list indices). The changes call the Table methods the admin
// interfaces call (telnet/init commands -> imperatives.Apply -> Table.AddX / DelRoute /
// UpdateRoute; http -> Table.DelRewriter / DelBlacklist / DelAggregator / DelRoute); a few go
// through imperatives.Apply itself (it costs up to a second of CPU under -race).
package main

import (
	"bytes"
	"fmt"
	"math"
	"strconv"
	"strings"
	"sync"
	"sync/atomic"
	"time"

	"github.com/grafana/carbon-relay-ng/aggregator"
	"github.com/grafana/carbon-relay-ng/cfg"
	"github.com/grafana/carbon-relay-ng/destination"
	"github.com/grafana/carbon-relay-ng/matcher"
	"github.com/grafana/carbon-relay-ng/rewriter"
	"github.com/grafana/carbon-relay-ng/route"
	"github.com/grafana/carbon-relay-ng/table"

	"verifharness/mon"
)

const (
	aAddRoute = iota
	aDelRoute
	aModRoute
	aAddBlack
	aDelBlack
	aAddRW
	aDelRW
	aAddAgg
	aDelAgg
)

var kindName = []string{"addRoute", "delRoute", "modRoute", "addBlacklist", "delBlacklist", "addRewriter", "delRewriter", "addAggregator", "delAggregator"}

// adminSpec is one configuration change of a history. What it deletes / which list is too long is
// only known when it runs (the table outlives the history): Pick is resolved against the table's
// lists then, a delete on an empty list becomes the add of that kind and an add to a list of 5 the delete.
type adminSpec struct {
	At       int  // single dispatcher: before the call with this index; else: once this many stamps were handed out
	Kind     int  //
	Pick     int  // resolved at run time
	Cmd      bool // through the admin command, where one exists
	Targeted bool // the entry matches the history's name number Target (a blacklist entry then swallows it)
	Target   int
}

func genAdmin(r *mon.Rng, names, dispatchers, calls, callsOfFirst int) []adminSpec {
	weights := []int{aAddRoute, aAddRoute, aDelRoute, aDelRoute, aDelRoute, aModRoute,
		aAddBlack, aAddBlack, aDelBlack, aDelBlack, aDelBlack, aAddRW, aAddRW, aDelRW, aDelRW, aDelRW,
		aAddAgg, aAddAgg, aDelAgg, aDelAgg, aDelAgg}
	cmdOneIn := mon.N(20, 80)
	var out []adminSpec
	na := r.Range(1, 4)
	for j := 0; j < na; j++ {
		a := adminSpec{Kind: r.PickInt(weights), Pick: r.Intn(1 << 20), Cmd: r.Chance(1, cmdOneIn), Target: r.Intn(names)}
		a.At = r.Intn(2*calls + 1)
		if dispatchers == 1 {
			a.At = r.Intn(callsOfFirst + 1)
		}
		if a.Kind == aAddBlack {
			a.Targeted = r.Chance(1, 2)
		} else {
			a.Targeted = r.Chance(1, 2)
		}
		out = append(out, a)
	}
	// in position order
	for i := 1; i < len(out); i++ {
		for j := i; j > 0 && out[j].At < out[j-1].At; j-- {
			out[j], out[j-1] = out[j-1], out[j]
		}
	}
	return out
}

func describeAdmin(as []adminSpec) string {
	if len(as) == 0 {
		return "none"
	}
	var b strings.Builder
	for i, a := range as {
		if i > 0 {
			b.WriteString(",")
		}
		fmt.Fprintf(&b, "%s@%d", kindName[a.Kind], a.At)
		if a.Targeted {
			fmt.Fprintf(&b, "(n%d)", a.Target)
		}
		if a.Cmd {
			b.WriteString("(cmd)")
		}
	}
	return b.String()
}

type extraRoute struct {
	key string
	cap *mon.CaptureRoute
}

// window is the time a blacklist entry matching one of the current history's names was (possibly)
// in force, in stamps of the history's counter.
type window struct {
	name    string
	addCall int64 // stamp taken before the entry was added
	delRet  int64 // stamp taken after it was deleted (MaxInt64: still there)
}

type blackEntry struct {
	desc string
	win  *window // nil: matches none of the current history's names
}

// world is one real table with its capture route, reused for a block of histories.
type world struct {
	tab     *table.Table
	cap     *mon.CaptureRoute
	arrived []int64 // per id: arrival sequence number at the capture route (0 = never)
	arrSeq  int64
	dup     int64

	built   string // how the table was built
	serial  int
	deletes int64 // runtime deletes applied to this table so far
	seq     int

	mu  sync.Mutex
	log []string

	extras []*extraRoute // capture routes added by configuration changes, still in the table
	real   []string      // keys of carbon routes (dead destination, matching nothing that is generated)
	black  []*blackEntry // mirror of the table's blacklist
	nRW    int
	nAgg   int

	names   []string // of the history being run
	windows []*window
	gone    []*extraRoute
}

const aggPrefix = "c19agg."

func isAggregate(line []byte) bool { return bytes.HasPrefix(line, []byte(aggPrefix)) }

func mustMatcher(prefix, sub, regex string) matcher.Matcher {
	m, err := matcher.New(prefix, "", sub, "", regex, "")
	if err != nil {
		panic(err)
	}
	return m
}

const deadDest = "127.0.0.1:1 spool=false pickle=false"

func baseTOML(validateOrder bool) string {
	return fmt.Sprintf("instance = \"default\"\nspool_dir = %q\nbad_metrics_max_age = \"24h\"\nvalidate_order = %v\n", mon.Scratch(), validateOrder)
}

// newWorld builds a table in one of four ways. All of them end up with validate_order=true.
func newWorld(kind, serial int) *world {
	w := &world{serial: serial}
	mon.InitRepo()
	switch kind {
	case 0:
		w.built = "from-minimal-toml"
		w.tab = mon.NewTable("", "", true, mon.Scratch())
	case 1:
		w.built = "from-toml-sections"
		txt := baseTOML(true) +
			"blacklist = [\"prefix c19black.\", \"sub c19blacksub\"]\n" +
			"[[aggregation]]\nfunction = \"sum\"\nregex = '^c19noagg\\.(.*)'\nformat = \"" + aggPrefix + "$1\"\ninterval = 10\nwait = 20\ndropRaw = true\n" +
			"[[rewriter]]\nold = \"c19old\"\nnew = \"c19new\"\nmax = -1\n" +
			fmt.Sprintf("[[route]]\nkey = \"c19toml%d\"\ntype = \"sendAllMatch\"\nprefix = \"c19nomatch.\"\ndestinations = [%q]\n", serial, deadDest)
		t, _, err := mon.TableFromTOML(txt)
		if err != nil {
			panic("C19 table from TOML sections: " + err.Error())
		}
		w.tab = t
		w.black = []*blackEntry{{desc: "prefix c19black."}, {desc: "sub c19blacksub"}}
		w.nAgg, w.nRW = 1, 1
		w.real = []string{fmt.Sprintf("c19toml%d", serial)}
	case 2:
		w.built = "table.New-and-Add-calls"
		def := cfg.NewConfig() // the validation levels main() starts from
		tc, err := table.NewTableConfig(mon.Scratch(), "24h", def.Validation_level_legacy, def.Validation_level_m20, true)
		if err != nil {
			panic(err)
		}
		w.tab = table.New(tc)
		bm := mustMatcher("c19black.", "", "")
		w.tab.AddBlacklist(&bm)
		w.black = []*blackEntry{{desc: "prefix c19black."}}
		rw, err := rewriter.New("c19old", "c19new", "", -1)
		if err != nil {
			panic(err)
		}
		w.tab.AddRewriter(rw)
		w.nRW = 1
		agg, err := aggregator.New("max", mustMatcher("", "", `^c19noagg\.(.*)`), aggPrefix+"$1", false, 10, 20, true, w.tab.In)
		if err != nil {
			panic(err)
		}
		w.tab.AddAggregator(agg)
		w.nAgg = 1
	default:
		w.built = "from-init-commands"
		key := fmt.Sprintf("c19init%d", serial)
		txt := baseTOML(true) + "[init]\ncmds = [\n" +
			"  'addBlack prefix c19black.',\n" +
			"  'addRewriter c19old c19new -1',\n" +
			"  'addAgg sum regex=^c19noagg\\.(.*) " + aggPrefix + "$1 10 20 dropRaw=true',\n" +
			"  'addRoute sendAllMatch " + key + " prefix=c19nomatch.  " + deadDest + "',\n" +
			"]\n"
		t, _, err := mon.TableFromTOML(txt)
		if err != nil {
			panic("C19 table from init commands: " + err.Error())
		}
		w.tab = t
		w.black = []*blackEntry{{desc: "prefix c19black."}}
		w.nAgg, w.nRW = 1, 1
		w.real = []string{key}
	}
	// the mirror must start right: Del* work on indices
	snap := w.tab.Snapshot()
	if len(snap.Blacklist) != len(w.black) || len(snap.Rewriters) != w.nRW || len(snap.Aggregators) != w.nAgg || len(snap.Routes) != len(w.real) {
		panic(fmt.Sprintf("C19 harness: table built %s holds %d/%d/%d/%d blacklist/rewriter/aggregator/route entries, expected %d/%d/%d/%d",
			w.built, len(snap.Blacklist), len(snap.Rewriters), len(snap.Aggregators), len(snap.Routes), len(w.black), w.nRW, w.nAgg, len(w.real)))
	}
	w.cap = mon.NewCaptureRoute("c19capture", mustMatcher("", "", ""), nil)
	w.cap.Hook = func(buf []byte) {
		if isAggregate(buf) {
			return
		}
		f := bytes.Fields(buf)
		if len(f) != 3 {
			return
		}
		id, err := strconv.Atoi(string(f[1]))
		if err != nil || id < 0 || id >= len(w.arrived) {
			return
		}
		s := atomic.AddInt64(&w.arrSeq, 1)
		if !atomic.CompareAndSwapInt64(&w.arrived[id], 0, s) {
			atomic.AddInt64(&w.dup, 1)
		}
	}
	w.tab.AddRoute(w.cap)
	w.note(0, 0, "table built "+w.built+", catch-all capture route added", nil)
	return w
}

// retire stops what keeps running by itself in a table that is not used any more.
func (w *world) retire() {
	for ; w.nAgg > 0; w.nAgg-- {
		w.tab.DelAggregator(0)
	}
}

func (w *world) note(call, ret int64, what string, err error) {
	s := what
	if call != 0 {
		s = fmt.Sprintf("[%d-%d] %s", call, ret, what)
	}
	if err != nil {
		s += " -> error: " + err.Error()
	}
	w.mu.Lock()
	w.log = append(w.log, s)
	if len(w.log) > 60 {
		w.log = append([]string(nil), w.log[len(w.log)-40:]...)
	}
	w.mu.Unlock()
}

// state describes the table for a violation message: how it was built and what changed it last.
func (w *world) state() string {
	w.mu.Lock()
	defer w.mu.Unlock()
	lastChange := "none"
	for i := len(w.log) - 1; i > 0; i-- {
		if !strings.HasPrefix(w.log[i], "---") {
			lastChange = w.log[i]
			break
		}
	}
	return fmt.Sprintf("table built %s, %d runtime deletes so far, last configuration change: %s", w.built, atomic.LoadInt64(&w.deletes), lastChange)
}

func (w *world) logTail() []string {
	w.mu.Lock()
	defer w.mu.Unlock()
	return append([]string(nil), w.log...)
}

func (w *world) beginHistory(h history) {
	w.names = h.Names
	w.windows = nil
	w.gone = nil
	for _, b := range w.black {
		b.win = nil // names are fresh per history: an older entry matches none of them
	}
	for _, x := range w.extras {
		x.cap.Take()
	}
	w.note(0, 0, fmt.Sprintf("--- history %d begins (stamps in brackets are this history's) ---", h.Index), nil)
}

func (w *world) endHistory() []*extraRoute { return w.gone }

func (w *world) liveExtras() []*extraRoute { return append([]*extraRoute(nil), w.extras...) }

// swallowedNow: a blacklist entry for the name is in the table (single dispatcher: changes happen between calls).
func (w *world) swallowedNow(canon string) bool {
	for _, b := range w.black {
		if b.win != nil && b.win.name == canon {
			return true
		}
	}
	return false
}

// maybeSwallowed: a blacklist entry for the name may have been in the configuration a Dispatch
// call [call, ret] loaded.
func (w *world) maybeSwallowed(canon string, call, ret int64) bool {
	for _, x := range w.windows {
		if x.name == canon && x.addCall < ret && call < x.delRet {
			return true
		}
	}
	return false
}

// admin applies one configuration change; the stamps around it come from the history's counter.
func (w *world) admin(res *mon.Result, a adminSpec, stamp *int64) {
	kind := a.Kind
	nRoutes := len(w.extras) + len(w.real)
	switch {
	case kind == aDelRoute && nRoutes == 0, kind == aModRoute && len(w.real) == 0:
		kind = aAddRoute
	case kind == aAddRoute && nRoutes >= 5:
		kind = aDelRoute
	case kind == aDelBlack && len(w.black) == 0:
		kind = aAddBlack
	case kind == aAddBlack && len(w.black) >= 5:
		kind = aDelBlack
	case kind == aDelRW && w.nRW == 0:
		kind = aAddRW
	case kind == aAddRW && w.nRW >= 5:
		kind = aDelRW
	case kind == aDelAgg && w.nAgg == 0:
		kind = aAddAgg
	case kind == aAddAgg && w.nAgg >= 5:
		kind = aDelAgg
	}
	w.seq++
	tag := fmt.Sprintf("%dx%d", w.serial, w.seq)
	var what string
	var err error
	viaCmd := false
	var deleted *window
	apply := func(cmd string) error {
		viaCmd = true
		what = "command: " + cmd
		return mon.Apply(w.tab, cmd)
	}
	call := atomic.AddInt64(stamp, 1)
	switch kind {
	case aAddRoute:
		if a.Kind == aModRoute || a.Cmd || a.Pick%4 == 0 {
			// a carbon route as the admin interfaces build it; its destination is not listening and it matches no generated name
			key := "c19real" + tag
			typ := []string{"sendAllMatch", "sendFirstMatch"}[a.Pick%2]
			if a.Cmd {
				err = apply(fmt.Sprintf("addRoute %s %s prefix=c19nomatch.  %s", typ, key, deadDest))
			} else {
				what = fmt.Sprintf("destination.New + route.New(%s, key %s, prefix c19nomatch.) + Table.AddRoute", typ, key)
				var d *destination.Destination
				d, err = destination.New(key, mustMatcher("", "", ""), "127.0.0.1:1", mon.Scratch(), false, false, time.Second, time.Hour, 1000, 65536, 1000, 200*1024*1024, 10000, time.Second, 500*time.Microsecond, 10*time.Microsecond)
				if err == nil {
					var rt route.Route
					if typ == "sendAllMatch" {
						rt, err = route.NewSendAllMatch(key, mustMatcher("c19nomatch.", "", ""), []*destination.Destination{d})
					} else {
						rt, err = route.NewSendFirstMatch(key, mustMatcher("c19nomatch.", "", ""), []*destination.Destination{d})
					}
					if err == nil {
						w.tab.AddRoute(rt)
					}
				}
			}
			if err == nil {
				w.real = append(w.real, key)
			}
		} else {
			key := "c19extra" + tag
			sub := ""
			if a.Targeted {
				sub = fmt.Sprintf(".n%d", a.Target)
			}
			what = fmt.Sprintf("Table.AddRoute(capture route %s, sub=%q)", key, sub)
			x := &extraRoute{key: key, cap: mon.NewCaptureRoute(key, mustMatcher("", sub, ""), nil)}
			w.tab.AddRoute(x.cap)
			w.extras = append(w.extras, x)
		}
	case aDelRoute:
		i := a.Pick % nRoutes
		var key string
		if i < len(w.extras) {
			key = w.extras[i].key
			w.gone = append(w.gone, w.extras[i])
			w.extras = append(w.extras[:i:i], w.extras[i+1:]...)
		} else {
			i -= len(w.extras)
			key = w.real[i]
			w.real = append(w.real[:i:i], w.real[i+1:]...)
		}
		if a.Cmd {
			err = apply("delRoute " + key)
		} else {
			what = fmt.Sprintf("Table.DelRoute(%q)", key)
			err = w.tab.DelRoute(key)
		}
	case aModRoute:
		key := w.real[a.Pick%len(w.real)]
		p := "c19nomatch" + tag + "."
		if a.Cmd {
			err = apply(fmt.Sprintf("modRoute %s prefix=%s", key, p))
		} else {
			what = fmt.Sprintf("Table.UpdateRoute(%q, prefix=%s)", key, p)
			err = w.tab.UpdateRoute(key, map[string]string{"prefix": p})
		}
	case aAddBlack:
		e := &blackEntry{}
		var m matcher.Matcher
		if a.Targeted {
			name := w.names[a.Target%len(w.names)]
			e.desc = "sub " + name
			e.win = &window{name: name, addCall: call, delRet: math.MaxInt64}
			w.windows = append(w.windows, e.win)
			m = mustMatcher("", name, "")
		} else {
			e.desc = "prefix c19black" + tag + "."
			m = mustMatcher("c19black"+tag+".", "", "")
		}
		if a.Cmd {
			err = apply("addBlack " + e.desc)
		} else {
			what = fmt.Sprintf("Table.AddBlacklist(%s)", e.desc)
			w.tab.AddBlacklist(&m)
		}
		if err == nil {
			w.black = append(w.black, e)
		} else if e.win != nil {
			e.win.delRet = call // never in force
		}
	case aDelBlack:
		i := a.Pick % len(w.black)
		e := w.black[i]
		what = fmt.Sprintf("Table.DelBlacklist(%d) [%s]", i, e.desc)
		err = w.tab.DelBlacklist(i)
		if err == nil {
			w.black = append(w.black[:i:i], w.black[i+1:]...)
			deleted = e.win
		}
	case aAddRW:
		old, nw := "c19old"+tag, "c19new"
		if a.Targeted {
			old, nw = fmt.Sprintf(".n%d", a.Target), fmt.Sprintf(".N%d", a.Target)
		}
		if a.Cmd {
			err = apply(fmt.Sprintf("addRewriter %s %s -1", old, nw))
		} else {
			what = fmt.Sprintf("Table.AddRewriter(%s -> %s)", old, nw)
			var rw rewriter.RW
			rw, err = rewriter.New(old, nw, "", -1)
			if err == nil {
				w.tab.AddRewriter(rw)
			}
		}
		if err == nil {
			w.nRW++
		}
	case aDelRW:
		i := a.Pick % w.nRW
		what = fmt.Sprintf("Table.DelRewriter(%d)", i)
		err = w.tab.DelRewriter(i)
		if err == nil {
			w.nRW--
		}
	case aAddAgg:
		fun := []string{"sum", "max", "last", "count"}[a.Pick%4]
		if a.Targeted && !a.Cmd {
			// matches the generated names, keeps the raw point
			re := `^\.?c19\.s\d+\.h(\d+)\.[nN]\d$`
			what = fmt.Sprintf("Table.AddAggregator(%s regex=%s -> %sh$1, interval 10 wait 20, dropRaw=false)", fun, re, aggPrefix)
			var agg *aggregator.Aggregator
			agg, err = aggregator.New(fun, mustMatcher("", "", re), aggPrefix+"h$1", a.Pick%8 < 4, 10, 20, false, w.tab.In)
			if err == nil {
				w.tab.AddAggregator(agg)
			}
		} else if a.Cmd {
			err = apply(fmt.Sprintf("addAgg %s regex=^c19noagg%s\\.(.*) %s$1 10 20 dropRaw=true", fun, tag, aggPrefix))
		} else {
			re := `^c19noagg` + tag + `\.(.*)`
			what = fmt.Sprintf("Table.AddAggregator(%s regex=%s, dropRaw=true)", fun, re)
			var agg *aggregator.Aggregator
			agg, err = aggregator.New(fun, mustMatcher("", "", re), aggPrefix+"$1", false, 10, 20, true, w.tab.In)
			if err == nil {
				w.tab.AddAggregator(agg)
			}
		}
		if err == nil {
			w.nAgg++
		}
	case aDelAgg:
		i := a.Pick % w.nAgg
		what = fmt.Sprintf("Table.DelAggregator(%d)", i)
		err = w.tab.DelAggregator(i)
		if err == nil {
			w.nAgg--
		}
	}
	ret := atomic.AddInt64(stamp, 1)
	if deleted != nil {
		deleted.delRet = ret
	}
	w.note(call, ret, what, err)
	res.Count("config_changes_applied", 1)
	res.Count("config_change_"+kindName[kind], 1)
	if viaCmd {
		res.Count("config_changes_through_admin_command", 1)
	}
	if err != nil {
		res.Count("config_changes_that_returned_an_error", 1)
	} else if kind == aDelRoute || kind == aDelBlack || kind == aDelRW || kind == aDelAgg {
		atomic.AddInt64(&w.deletes, 1)
		res.Count("config_deletes_applied", 1)
	}
}
