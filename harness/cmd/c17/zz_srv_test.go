package main

import (
	"io"
	"net/http"
	"strings"
	"testing"
	"time"
)

func TestSrv(t *testing.T) {
	c := gen(1, 0)
	outs := []outcome{
		{K: kRespond, Status: 503, Body: bErrPage, Pad: 1<<20 + 17, Frame: fLength},
		{K: kRespond, Status: 503, Body: bErrPage, Pad: 1<<20 + 17, Frame: fChunked},
		{K: kRespond, Status: 503, Body: bErrPage, Pad: 300, Frame: fEOF},
		{K: kRespond, Status: 503, Body: bErrPage, Frame: fLength, Cut: cShortFIN, Sent: 500},
		{K: kRespond, Status: 503, Body: bErrPage, Frame: fChunked, Cut: cShortFIN, Sent: 500},
		{K: kRespond, Status: 503, Body: bErrPage, Frame: fChunked, Cut: cShortFIN, Sent: 0},
		{K: kRespond, Status: 503, Body: bErrPage, Frame: fChunked, Cut: cShortRST, Sent: 999},
		{K: kRespond, Status: 200, Body: bJSON, Frame: fChunked, Cut: cSlow, Sent: 300},
		{K: kRespond, Status: 200, Body: bJSON, Frame: fLength, Cut: cSlow, Sent: 0},
		{K: kRespond, Status: 200, Body: bJSON, Pad: 5000, Frame: fChunked, Cut: cSlow, Sent: 999},
		{K: kRespond, Status: 502, Body: bEmpty, Frame: fLength, Cut: cHangBody, Sent: 100},
		{K: kRespond, Status: 200, Body: bEmpty, Frame: fChunked},
		{K: kRespond, Status: 200, Body: bJSON, Pad: 70000, Frame: fChunked},
	}
	c.script = outs
	c.TimeoutMs = 300
	s := newServer(c)
	defer s.close()
	cl := &http.Client{Timeout: 300 * time.Millisecond}
	for _, o := range outs {
		resp, err := cl.Post(s.addr(), "x", strings.NewReader("junk"))
		if err != nil {
			t.Logf("%s -> Do error %v", o, err)
			continue
		}
		b, err := io.ReadAll(resp.Body)
		resp.Body.Close()
		t.Logf("%s -> status %d CL %d TE %v read %d err %v", o, resp.StatusCode, resp.ContentLength, resp.TransferEncoding, len(b), err)
	}
}
