// C17 — grafana.net route: retry until acknowledged, series order kept,
// shutdown drains.
//
// Each case builds a real route.GrafanaNet pointed at its own loopback HTTP
// server. The server decodes every POST (snappy stream -> metrictank msg header
// -> msgp MetricDataArray), answers from a per-request script and keeps an event
// log. A script entry is {status 200/201/202/204/400/401/403/404/413/429/500/
// 502/503/504} x {body: json / json with invalid>0 / garbage / error page /
// empty, optionally padded up to > 1 MiB} x {Content-Length / chunked /
// delimited by close} x {complete / fewer bytes than declared then FIN or RST
// (also right behind the headers) / silence in mid-body until the client's
// timeout / trickling body}, or no response at all {hang past the client
// timeout, reset after reading, reset before reading}. A POST counts as
// acknowledged when the server, having decoded it, sent a 2xx status line -
// whatever becomes of the response body; every other outcome is a failure and
// the batch must come again. Points carry (case, series, seq) in the name and
// (series, seq) in value and timestamp, so an acknowledged POST names the
// hand-offs it contained. The monitors then ask:
//   - is every accepted metric in a POST that was answered 2xx (bounded quiescence)?
//   - per series: is the order of first acknowledgement the dispatch order?
//   - was a failed batch's content acknowledged before a later point of one of
//     its series (never skipped)?
//   - non-blocking: does Dispatch ever park; is every unacknowledged metric counted
//     as queue_full? blocking: nothing dropped?
//   - does Route.Shutdown() return once the endpoint is idle, and only after
//     everything accepted has been acknowledged?
package main

import (
	"bufio"
	"bytes"
	"encoding/json"
	"fmt"
	"io"
	"net"
	"net/http"
	"os"
	"path/filepath"
	"regexp"
	"runtime"
	"runtime/debug"
	"sort"
	"strconv"
	"strings"
	"sync"
	"sync/atomic"
	"time"

	metrics "github.com/Dieterbe/go-metrics"
	"github.com/golang/snappy"
	"github.com/grafana/carbon-relay-ng/matcher"
	"github.com/grafana/carbon-relay-ng/route"
	"github.com/grafana/metrictank/schema"
	"github.com/grafana/metrictank/schema/msg"
	log "github.com/sirupsen/logrus"

	"verifharness/mon"
)

// ---------------------------------------------------------------- outcomes

// What the scripted endpoint does with one request. Every field is drawn per
// request from the seeded PRNG (see gen).
type okind uint8

const (
	kRespond     okind = iota // reads the request, sends a status line and headers, then (part of) a body
	kHang                     // reads the request, sends nothing until the client gives up
	kResetAfter               // reads the request, resets the connection without sending a byte
	kResetBefore              // resets the connection without reading the request
)

type bodyKind uint8

const (
	bJSON bodyKind = iota
	bJSONInvalid
	bGarbage
	bEmpty
	bErrPage
)

var bodyNames = []string{"json", "json-invalid", "garbage", "empty", "errpage"}

type framing uint8

const (
	fLength  framing = iota // Content-Length
	fChunked                // Transfer-Encoding: chunked
	fEOF                    // neither: the body ends where the connection is closed
)

var frameNames = []string{"length", "chunked", "eof"}

type cutKind uint8

const (
	cNone     cutKind = iota // the complete body is sent
	cShortFIN                // fewer bytes than declared (Content-Length / chunk size / no last chunk), then an orderly close
	cShortRST                // the same, then a reset
	cHangBody                // part of the body, then silence until the client gives up (its timeout)
	cSlow                    // part of the body, the rest trickles in over ~0.4 x the client timeout
)

var cutNames = []string{"", "cut-fin", "cut-rst", "body-hang", "body-slow"}

type outcome struct {
	K      okind
	Status int
	Body   bodyKind
	Pad    int // the body is padded to at least this many bytes (oversized error pages / replies)
	Frame  framing
	Cut    cutKind
	Sent   int // per mille of the body sent before the cut (0 = cut right behind the headers)
}

func (o outcome) String() string {
	switch o.K {
	case kHang:
		return "hang"
	case kResetAfter:
		return "reset-after-read"
	case kResetBefore:
		return "reset-before-read"
	}
	s := strconv.Itoa(o.Status) + "/" + bodyNames[o.Body]
	if o.Pad > 0 {
		s += "+pad" + strconv.Itoa(o.Pad)
	}
	s += "/" + frameNames[o.Frame]
	if o.Cut != cNone {
		s += "/" + cutNames[o.Cut] + "@" + strconv.Itoa(o.Sent/10) + "%"
	}
	return s
}

// class is the coarse kind used in counters and non-triviality signatures.
func (o outcome) class() string {
	if o.K != kRespond {
		return o.String()
	}
	s := strconv.Itoa(o.Status/100) + "xx"
	if o.Cut != cNone {
		s += "-" + cutNames[o.Cut]
	}
	return s
}

// ack: the endpoint decoded the whole request and decided to send a 2xx status line. That is the acknowledgement,
// whatever happens to the response body afterwards (see the assumptions in main).
func (o outcome) ack() bool { return o.K == kRespond && o.Status >= 200 && o.Status < 300 }

// bodyIncomplete: the client cannot read the response body to its declared end (slow bodies may or may not make it).
func (o outcome) bodyIncomplete() bool {
	return o.K == kRespond && (o.Cut == cShortFIN || o.Cut == cShortRST || o.Cut == cHangBody)
}

var okJSON = outcome{K: kRespond, Status: 200, Body: bJSON}

const (
	stallBound  = 2 * time.Second // normal Dispatch: microseconds; normal Shutdown on an idle endpoint: milliseconds
	sampleGap   = 1 * time.Second
	maxStreak   = 6 // decoded failures per batch before the server forces a 2xx (+ <=3 undecoded resets per script)
	valueStride = 10000000
	timeBase    = 1500000000
	apiKey      = "verif-key"
)

// ---------------------------------------------------------------- case

type ccase struct {
	Index          int      `json:"index"`
	Concurrency    int      `json:"concurrency"`
	BufSize        int      `json:"bufSize"`
	BufClass       string   `json:"bufClass"`
	FlushMaxNum    int      `json:"flushMaxNum"`
	FlushMaxWaitMs int      `json:"flushMaxWaitMs"`
	TimeoutMs      int      `json:"timeoutMs"`
	BigBodies      bool     `json:"bigBodies"`
	Blocking       bool     `json:"blocking"`
	Series         int      `json:"series"`
	Points         []int    `json:"pointsPerSeries"`
	Total          int      `json:"totalPoints"`
	Dispatchers    int      `json:"dispatchers"`
	PaceEvery      int      `json:"paceEvery"`
	PaceUs         int      `json:"paceMicros"`
	ShutdownMode   string   `json:"shutdownMode"`
	ShutdownDelay  int      `json:"shutdownDelayMs"`
	Script         []string `json:"script"`
	StickyRun      string   `json:"stickyRun,omitempty"`
	script         []outcome
}

func gen(seed uint64, idx int) *ccase {
	r := mon.NewRng(seed, 17, uint64(idx))
	c := &ccase{Index: idx}
	c.Concurrency = r.PickInt([]int{1, 1, 2, 2, 3, 4, 5, 8})
	c.Blocking = r.Bool()
	c.FlushMaxNum = r.PickInt([]int{1, 2, 3, 5, 10, 10, 25, 50, 100})
	c.FlushMaxWaitMs = r.PickInt([]int{5, 10, 20, 50, 100})
	c.TimeoutMs = r.Range(100, 300)
	// one case in six lets the endpoint send bodies of more than 1 MiB; moving them takes a loaded machine some
	// 100 ms, so these cases get a client timeout that lets them through (and fewer hangs, which cost a timeout each)
	if c.BigBodies = r.Chance(1, 6); c.BigBodies {
		c.TimeoutMs = r.Range(1000, 2000)
	}
	switch r.Intn(4) {
	case 0:
		c.Series = r.Range(1, 3)
	case 1:
		c.Series = r.Range(2, 12)
	default:
		c.Series = r.Range(1, 50)
	}
	// batch / point budget of a case (CPU: every POST is a real HTTP round trip under -race);
	// the thorough tier makes one case in 30 a big one (up to 2 000 points x 50 series)
	maxBatches, maxPoints := 150, 15000
	if mon.Thorough() && r.Chance(1, 30) {
		maxBatches, maxPoints = 600, 100000
	}
	budget := c.FlushMaxNum * maxBatches
	if budget > maxPoints {
		budget = maxPoints
	}
	hi := []int{60, 200, 600, 2000}[r.Intn(4)]
	c.Points = make([]int, c.Series)
	for s := range c.Points {
		c.Points[s] = r.Range(20, hi)
	}
	for {
		c.Total = 0
		for _, p := range c.Points {
			c.Total += p
		}
		if c.Total <= budget || c.Total <= 20*c.Series {
			break
		}
		for s := range c.Points { // shrink towards the minimum of 20 points
			c.Points[s] = 20 + (c.Points[s]-20)/2
		}
	}
	perShard := 0
	if r.Chance(3, 5) {
		c.BufClass = "small"
		perShard = r.PickInt([]int{0, 1, 1, 2, 3, 5, 10, 30})
		c.BufSize = perShard*c.Concurrency + r.Intn(c.Concurrency)
	} else {
		c.BufClass = "large"
		c.BufSize = (c.Total + 16) * c.Concurrency
		if c.BufSize > 400000 {
			c.BufSize = 400000
		}
	}
	c.Dispatchers = r.Range(1, 4)
	if !c.Blocking && r.Bool() {
		c.Dispatchers = 1 // exact attribution of counted drops
	}
	if c.Dispatchers > c.Series {
		c.Dispatchers = c.Series
	}
	switch r.Intn(4) {
	case 0: // as fast as the caller can
	case 1:
		c.PaceEvery, c.PaceUs = r.Range(1, 5), r.Range(50, 400)
	default:
		c.PaceEvery, c.PaceUs = r.Range(5, 200), r.Range(100, 2000)
	}
	// keep the paced dispatch time of a case below ~3 s
	if c.PaceEvery > 0 {
		sleeps := c.Total / c.PaceEvery / c.Dispatchers
		if sleeps*(c.PaceUs+60) > 3000000 {
			c.PaceUs = 3000000/(sleeps+1) - 60
			if c.PaceUs < 1 {
				c.PaceEvery, c.PaceUs = 0, 0
			}
		}
	}
	switch r.Intn(4) {
	case 0:
		c.ShutdownMode = "after-quiescence"
	case 1:
		c.ShutdownMode, c.ShutdownDelay = "delay", r.Range(1, c.FlushMaxWaitMs)
	default:
		c.ShutdownMode = "immediate"
	}
	// the fault script: one entry per request in arrival order, healthy afterwards
	batches := c.Total/c.FlushMaxNum + 1
	L := 3 + r.Intn(25) + batches/4
	if L > 90 {
		L = 90
	}
	pFail := r.PickInt([]int{30, 50, 70})
	caps := &scriptCaps{maxHangs: 5, maxSlow: 5}
	if c.BigBodies {
		caps.maxHangs, caps.maxSlow, caps.maxBig = 2, 2, 3
	}
	for i := 0; i < L; i++ {
		o := genOutcome(r, r.Intn(100) < pFail, caps)
		c.script = append(c.script, o)
		c.Script = append(c.Script, o.String())
	}
	// one case in four: the endpoint answers a run of requests with the same complete error response (an expired
	// key, a gateway that is down for a while), long enough that every batch in flight sees it maxStreak times in
	// a row - a route that gives a batch up after a few identical answers, or treats one class of status as final,
	// shows here and nowhere in a mixed script
	if r.Chance(1, 4) {
		st := r.PickInt([]int{400, 401, 401, 403, 404, 413, 422, 429, 500, 502, 503})
		n := maxStreak * c.Concurrency
		if n > 48 {
			n = 48
		}
		at := r.Intn(3)
		for len(c.script) < at+n {
			c.script = append(c.script, okJSON)
			c.Script = append(c.Script, okJSON.String())
		}
		for i := at; i < at+n; i++ {
			c.script[i] = outcome{K: kRespond, Status: st, Body: bErrPage, Frame: fLength}
			c.Script[i] = c.script[i].String()
		}
		c.StickyRun = fmt.Sprintf("%dx%d@%d", n, st, at)
	}
	return c
}

// scriptCaps bounds the costly entries of one script: every hang costs the case one client timeout, resets before
// the request was read cannot be attributed to a batch (the streak cap does not see them), big bodies cost CPU.
type scriptCaps struct{ hangs, slow, pre, big, maxHangs, maxSlow, maxBig int }

var (
	okStatus   = []int{200, 200, 200, 200, 200, 201, 202, 204}
	failStatus = []int{400, 401, 403, 404, 413, 429, 429, 500, 500, 502, 502, 503, 503, 504}
	padSizes   = []int{299, 300, 301, 1000, 5000, 70000, 1 << 20, 1<<20 + 1, 1<<20 + 17, 1<<20 + 70000}
)

// genOutcome draws what the endpoint does with one request: a failure (non-2xx complete or with a body that cannot
// be read to its end, hang, reset) or a success (2xx, again complete or not).
func genOutcome(r *mon.Rng, fail bool, caps *scriptCaps) outcome {
	o := outcome{K: kRespond}
	if fail {
		switch x := r.Intn(100); {
		case x < 10:
			o.K = kHang
		case x < 28:
			o.K = kResetAfter
		case x < 34:
			o.K = kResetBefore
		}
		if o.K == kHang {
			if caps.hangs++; caps.hangs > caps.maxHangs {
				o.K = kRespond
			}
		}
		if o.K == kResetBefore {
			if caps.pre++; caps.pre > 3 {
				o.K = kResetAfter
			}
		}
		if o.K != kRespond {
			return o
		}
		o.Status = r.PickInt(failStatus)
		o.Body = bodyKind(r.PickInt([]int{int(bErrPage), int(bErrPage), int(bErrPage), int(bGarbage), int(bEmpty), int(bJSON)}))
	} else {
		o.Status = r.PickInt(okStatus)
		o.Body = bodyKind(r.PickInt([]int{int(bJSON), int(bJSON), int(bJSON), int(bJSON), int(bJSONInvalid), int(bGarbage), int(bEmpty)}))
	}
	if o.Status == 204 { // no body, nothing to frame or cut
		o.Body = bEmpty
		return o
	}
	// (many cases make fewer requests than their script is long: a big-body case asks for big bodies early)
	if caps.big < caps.maxBig && r.Bool() {
		o.Pad = r.PickInt(padSizes[6:])
	} else if r.Chance(1, 5) {
		o.Pad = r.PickInt(padSizes)
	}
	if o.Pad >= 1<<20 {
		if caps.big++; caps.big > caps.maxBig {
			o.Pad = []int{5000, 70000}[o.Pad&1]
		}
	}
	o.Frame = framing(r.PickInt([]int{int(fLength), int(fLength), int(fLength), int(fChunked), int(fChunked), int(fEOF)}))
	// how the body ends: failures lose their body more often than successes (an overloaded gateway or a proxy in
	// front of it is what cuts error pages short)
	pCut := 15
	if fail {
		pCut = 45
	}
	if o.Pad >= 1<<20 {
		// moving 1 MiB through the race detector costs both sides the better part of a second: most big bodies are
		// announced (Content-Length, or a run of chunks) and then cut early
		pCut = 65
	}
	if o.Frame != fEOF && r.Intn(100) < pCut {
		o.Cut = cutKind(r.PickInt([]int{int(cShortFIN), int(cShortFIN), int(cShortFIN), int(cShortRST), int(cShortRST), int(cHangBody), int(cSlow)}))
		if o.Cut == cHangBody {
			if caps.hangs++; caps.hangs > caps.maxHangs {
				o.Cut = cShortFIN
			}
		}
		if o.Cut == cSlow {
			if caps.slow++; caps.slow > caps.maxSlow {
				o.Cut = cShortRST
			}
		}
		o.Sent = r.PickInt([]int{0, 0, 1, 100, 300, 500, 700, 900, 999})
		if o.Pad >= 1<<20 {
			o.Sent = r.PickInt([]int{0, 0, 1, 1, 10, 100})
		}
	}
	return o
}

func (c *ccase) brief() string {
	return fmt.Sprintf("case %d conc=%d blocking=%v buf=%d(%s) flushMaxNum=%d flushMaxWait=%dms timeout=%dms big=%v series=%d total=%d dispatchers=%d pace=%d/%dus shutdown=%s script=%d",
		c.Index, c.Concurrency, c.Blocking, c.BufSize, c.BufClass, c.FlushMaxNum, c.FlushMaxWaitMs, c.TimeoutMs, c.BigBodies, c.Series, c.Total, c.Dispatchers, c.PaceEvery, c.PaceUs, c.ShutdownMode, len(c.script))
}

// ---------------------------------------------------------------- server

type pt uint64 // series<<32 | seq

func mkpt(series, seq int) pt { return pt(uint64(series)<<32 | uint64(uint32(seq))) }
func (p pt) series() int      { return int(p >> 32) }
func (p pt) seq() int         { return int(uint32(p)) }
func (p pt) String() string   { return fmt.Sprintf("s%d#%d", p.series(), p.seq()) }

type reqRec struct {
	N       int     // arrival number
	Ev      int64   // event number at the decision (global order of the server's decisions)
	Out     outcome // what the server did
	Forced  bool    // script said fail, streak cap forced 2xx
	Wrote   bool    // the scripted response went out in full without a write error (set when the handler is done)
	Pts     []pt
	Err     string // decode problem
	Foreign int
}

type server struct {
	c        *ccase
	hs       *http.Server
	base     string
	stop     chan struct{}
	inflight int32
	lastAct  int64 // unix nanos of last arrival / handler exit
	arrived  int64
	failed   int64 // requests the server itself failed (answered non-2xx, hung, reset)

	mu        sync.Mutex
	arrivals  int
	ev        int64
	reqs      []*reqRec
	streak    map[pt]int
	firstAck  [][]int64 // [series][seq] event number of first acknowledgement, 0 = never
	distinct  int
	cfgPosts  int
	badHeader int
	corrupt   []string

	hjMu sync.Mutex
	hj   map[net.Conn]struct{} // hijacked connections still open (http.Server.Close does not know them)
	down bool
}

func newServer(c *ccase) *server {
	s := &server{c: c, stop: make(chan struct{}), streak: map[pt]int{}}
	s.firstAck = make([][]int64, c.Series)
	for i, n := range c.Points {
		s.firstAck[i] = make([]int64, n)
	}
	atomic.StoreInt64(&s.lastAct, time.Now().UnixNano())
	prefix := fmt.Sprintf("/k%d", c.Index)
	mux := http.NewServeMux()
	mux.HandleFunc(prefix+"/metrics", s.handleMetrics)
	cfgH := func(w http.ResponseWriter, r *http.Request) {
		io.Copy(io.Discard, r.Body)
		s.mu.Lock()
		s.cfgPosts++
		s.mu.Unlock()
		w.WriteHeader(200)
	}
	mux.HandleFunc(prefix+"/graphite/config/storageSchema", cfgH)
	mux.HandleFunc(prefix+"/graphite/config/storageAggregation", cfgH)
	ln, err := net.Listen("tcp", "127.0.0.1:0")
	if err != nil {
		panic("c17: listen: " + err.Error())
	}
	s.base = "http://" + ln.Addr().String()
	s.hs = &http.Server{Handler: mux}
	go s.hs.Serve(ln)
	return s
}

func (s *server) addr() string { return fmt.Sprintf("%s/k%d/metrics", s.base, s.c.Index) }

// close stops the listener and drops every connection at once; it never waits
// for handlers (a broken route may still be talking to this server).
func (s *server) close() {
	close(s.stop)
	s.hs.Close()
	s.hjMu.Lock()
	s.down = true
	for c := range s.hj {
		c.Close()
	}
	s.hj = nil
	s.hjMu.Unlock()
}

// hijack takes the connection away from net/http so that the response can be written (and cut) byte by byte.
func (s *server) hijack(w http.ResponseWriter) (net.Conn, *bufio.ReadWriter, bool) {
	hj, ok := w.(http.Hijacker)
	if !ok {
		panic("c17: response writer cannot be hijacked")
	}
	conn, brw, err := hj.Hijack()
	if err != nil {
		return nil, nil, false
	}
	s.hjMu.Lock()
	if s.down {
		s.hjMu.Unlock()
		conn.Close()
		return nil, nil, false
	}
	if s.hj == nil {
		s.hj = map[net.Conn]struct{}{}
	}
	s.hj[conn] = struct{}{}
	s.hjMu.Unlock()
	return conn, brw, true
}

func (s *server) drop(conn net.Conn, rst bool) {
	if rst {
		if tc, ok := conn.(*net.TCPConn); ok {
			tc.SetLinger(0)
		}
	}
	conn.Close()
	s.hjMu.Lock()
	delete(s.hj, conn)
	s.hjMu.Unlock()
}

// waitPeerGone parks until the client closed its side (it gave up: client timeout), the case is over (close() closes
// the connection) or the same generous bound the header-less hang uses has passed.
func (s *server) waitPeerGone(conn net.Conn, brw *bufio.ReadWriter) {
	conn.SetReadDeadline(time.Now().Add(time.Duration(s.c.TimeoutMs)*4*time.Millisecond + time.Second))
	var b [1]byte
	brw.Reader.Read(b[:])
}

// A response body is a short head followed by padding taken from a filler that is allocated once: under the race
// detector building (allocating, copying) a body of 1 MiB per request costs the better part of a second.
const maxPad = 1<<20 + 70000

var (
	fillSpace = bytes.Repeat([]byte{' '}, maxPad) // json stays json
	fillDot   = bytes.Repeat([]byte{'.'}, maxPad)
)

type vbody struct{ head, fill []byte }

func (v vbody) size() int { return len(v.head) + len(v.fill) }

// write sends the bytes [from, to) of the body.
func (v vbody) write(w io.Writer, from, to int) error {
	if from < len(v.head) {
		e := to
		if e > len(v.head) {
			e = len(v.head)
		}
		if _, err := w.Write(v.head[from:e]); err != nil {
			return err
		}
		from = e
	}
	if to > from {
		_, err := w.Write(v.fill[from-len(v.head) : to-len(v.head)])
		return err
	}
	return nil
}

// responseBody renders the body the script entry asks for.
func responseBody(o outcome, npts int) vbody {
	var b []byte
	switch o.Body {
	case bJSON:
		b = []byte(fmt.Sprintf(`{"Invalid":0,"Published":%d,"ValidationErrors":{}}`, npts))
	case bJSONInvalid:
		if npts == 0 {
			b = []byte(`{"Invalid":0,"Published":0,"ValidationErrors":{}}`)
		} else {
			b = []byte(fmt.Sprintf(`{"Invalid":1,"Published":%d,"ValidationErrors":{"invalid tag format":{"Count":1,"ExampleIds":[%d]}}}`, npts-1, npts-1))
		}
	case bGarbage:
		b = []byte("<html>ok</html>")
	case bErrPage:
		b = []byte(fmt.Sprintf("<html><head><title>%d %s</title></head><body>scripted gateway failure</body></html>\n", o.Status, http.StatusText(o.Status)))
	}
	min := o.Pad
	if o.Cut != cNone && min < 40 {
		min = 40 // something to cut
	}
	v := vbody{head: b}
	if len(b) < min {
		v.fill = fillSpace[:min-len(b)]
		if o.Body == bGarbage || o.Body == bErrPage {
			v.fill = fillDot[:min-len(b)]
		}
	}
	return v
}

// respond sends the scripted response. Complete Content-Length / chunked responses go through net/http (the
// connection stays reusable); everything else is written raw on the hijacked connection. It reports whether all the
// scripted bytes were written without an error (the client may have gone away: its timeout).
func (s *server) respond(w http.ResponseWriter, o outcome, npts int) bool {
	body := responseBody(o, npts)
	size := body.size()
	if o.Status == 204 {
		w.WriteHeader(204)
		return true
	}
	ctype := "application/json"
	if o.Body == bGarbage || o.Body == bErrPage {
		ctype = "text/html"
	}
	if o.Cut == cNone && o.Frame != fEOF {
		w.Header().Set("Content-Type", ctype)
		if o.Frame == fLength {
			w.Header().Set("Content-Length", strconv.Itoa(size))
			w.WriteHeader(o.Status)
			return body.write(w, 0, size) == nil
		}
		w.WriteHeader(o.Status)
		err1 := body.write(w, 0, size/2)
		w.(http.Flusher).Flush() // no Content-Length + flush: net/http switches to chunked
		err2 := body.write(w, size/2, size)
		return err1 == nil && err2 == nil
	}
	conn, brw, ok := s.hijack(w)
	if !ok {
		return false
	}
	rst := false
	defer func() { s.drop(conn, rst) }()
	conn.SetWriteDeadline(time.Now().Add(time.Duration(s.c.TimeoutMs)*4*time.Millisecond + time.Second))
	fmt.Fprintf(brw, "HTTP/1.1 %d %s\r\nContent-Type: %s\r\n", o.Status, http.StatusText(o.Status), ctype)
	switch o.Frame {
	case fLength:
		fmt.Fprintf(brw, "Content-Length: %d\r\n\r\n", size)
	case fChunked:
		fmt.Fprint(brw, "Transfer-Encoding: chunked\r\n\r\n")
	case fEOF:
		fmt.Fprint(brw, "Connection: close\r\n\r\n")
	}
	if o.Cut == cNone { // fEOF: the body ends with the connection
		body.write(brw, 0, size)
		return brw.Flush() == nil
	}
	k := int(int64(size) * int64(o.Sent) / 1000)
	if k >= size {
		k = size - 1
	}
	csz := size/3 + 1 // chunk size
	if csz > 16384 {
		csz = 16384
	}
	// send writes the bytes [from, to) in the declared framing; open = the last chunk is declared in full but sent in part
	send := func(from, to int, open bool) {
		if o.Frame == fLength {
			body.write(brw, from, to)
			return
		}
		for from < to {
			n := csz
			if from+n > size {
				n = size - from
			}
			if from+n > to {
				if open {
					fmt.Fprintf(brw, "%x\r\n", n)
					body.write(brw, from, to)
					return
				}
				n = to - from
			}
			fmt.Fprintf(brw, "%x\r\n", n)
			body.write(brw, from, from+n)
			fmt.Fprint(brw, "\r\n")
			from += n
		}
	}
	switch o.Cut {
	case cShortFIN, cShortRST:
		send(0, k, true)
		rst = o.Cut == cShortRST
		return brw.Flush() == nil
	case cHangBody:
		send(0, k, true)
		err := brw.Flush()
		s.waitPeerGone(conn, brw)
		rst = true
		return err == nil
	case cSlow:
		// whole chunks only here; whether the client sees the end before its timeout is up to the machine
		step := (size-k)/4 + 1
		for from := 0; from < size; {
			to := k
			if from >= k {
				to = from + step
			}
			if to > size {
				to = size
			}
			if to > from {
				send(from, to, false)
			}
			if brw.Flush() != nil {
				return false
			}
			from = to
			if from < size {
				select {
				case <-time.After(time.Duration(s.c.TimeoutMs) * time.Millisecond / 10):
				case <-s.stop:
					return false
				}
			}
		}
		if o.Frame == fChunked {
			fmt.Fprint(brw, "0\r\n\r\n")
		}
		return brw.Flush() == nil
	}
	return false
}

func (s *server) idleFor() time.Duration {
	if atomic.LoadInt32(&s.inflight) > 0 {
		return 0
	}
	return time.Duration(time.Now().UnixNano() - atomic.LoadInt64(&s.lastAct))
}

func (s *server) curEv() int64 {
	s.mu.Lock()
	defer s.mu.Unlock()
	return s.ev
}

func (s *server) distinctAcked() int {
	s.mu.Lock()
	defer s.mu.Unlock()
	return s.distinct
}

// decode turns a request body into the points of this case it contains.
func (s *server) decode(body []byte) (pts []pt, foreign int, corrupt []string, err error) {
	// a snappy.Reader allocates ~140 KB; reuse them (under -race large allocations are costly)
	sr := snappyPool.Get().(*snappy.Reader)
	sr.Reset(bytes.NewReader(body))
	raw, err := io.ReadAll(sr)
	sr.Reset(nil)
	snappyPool.Put(sr)
	if err != nil {
		return nil, 0, nil, fmt.Errorf("snappy stream: %v (body %d bytes)", err, len(body))
	}
	if len(raw) < 9 {
		return nil, 0, nil, fmt.Errorf("message of %d bytes (body %d bytes): shorter than the 9-byte header", len(raw), len(body))
	}
	if msg.Format(raw[0]) != msg.FormatMetricDataArrayMsgp {
		return nil, 0, nil, fmt.Errorf("format byte %d", raw[0])
	}
	var mda schema.MetricDataArray
	rest, err := mda.UnmarshalMsg(raw[9:])
	if err != nil {
		return nil, 0, nil, fmt.Errorf("msgp: %v", err)
	}
	if len(rest) != 0 {
		return nil, 0, nil, fmt.Errorf("%d trailing bytes after the metric array", len(rest))
	}
	want := fmt.Sprintf("v17.k%d.s", s.c.Index)
	for _, md := range mda {
		if md == nil || !strings.HasPrefix(md.Name, want) {
			foreign++
			continue
		}
		ser, e := strconv.Atoi(strings.TrimSuffix(md.Name[len(want):], ".x"))
		v := int64(md.Value)
		if e != nil || ser < 0 || ser >= s.c.Series || float64(v) != md.Value || int(v/valueStride) != ser ||
			int(v%valueStride) >= s.c.Points[ser] || v < 0 || md.Time != timeBase+v%valueStride {
			if len(corrupt) < 3 {
				corrupt = append(corrupt, fmt.Sprintf("name=%q value=%v time=%d", md.Name, md.Value, md.Time))
			}
			continue
		}
		pts = append(pts, mkpt(ser, int(v%valueStride)))
	}
	return pts, foreign, corrupt, nil
}

var snappyPool = sync.Pool{New: func() interface{} { return snappy.NewReader(nil) }}

func reset(w http.ResponseWriter) {
	hj, ok := w.(http.Hijacker)
	if !ok {
		panic("c17: response writer cannot be hijacked")
	}
	conn, _, err := hj.Hijack()
	if err != nil {
		return
	}
	if tc, ok := conn.(*net.TCPConn); ok {
		tc.SetLinger(0)
	}
	conn.Close()
}

func (s *server) handleMetrics(w http.ResponseWriter, r *http.Request) {
	atomic.AddInt32(&s.inflight, 1)
	atomic.AddInt64(&s.arrived, 1)
	atomic.StoreInt64(&s.lastAct, time.Now().UnixNano())
	defer func() {
		atomic.StoreInt64(&s.lastAct, time.Now().UnixNano())
		atomic.AddInt32(&s.inflight, -1)
	}()
	s.mu.Lock()
	n := s.arrivals
	s.arrivals++
	out := okJSON
	if n < len(s.c.script) {
		out = s.c.script[n]
	}
	rec := &reqRec{N: n, Out: out}
	s.reqs = append(s.reqs, rec)
	if r.Header.Get("Content-Type") != "rt-metric-binary-snappy" || r.Header.Get("Authorization") != "Bearer "+apiKey || r.Method != "POST" {
		s.badHeader++
	}
	if out.K == kResetBefore {
		s.ev++
		rec.Ev = s.ev
		atomic.AddInt64(&s.failed, 1)
		s.mu.Unlock()
		reset(w)
		return
	}
	s.mu.Unlock()

	body, rerr := io.ReadAll(r.Body)
	pts, foreign, corrupt, derr := s.decode(body)
	if rerr != nil {
		pts, derr = nil, fmt.Errorf("reading the body: %v", rerr)
	}

	s.mu.Lock()
	rec.Pts, rec.Foreign = pts, foreign
	if derr != nil {
		rec.Err = derr.Error()
	}
	for _, cs := range corrupt {
		if len(s.corrupt) < 5 {
			s.corrupt = append(s.corrupt, cs)
		}
	}
	if !out.ack() && len(pts) > 0 {
		if s.streak[pts[0]] >= maxStreak {
			out, rec.Forced = okJSON, true
		} else {
			s.streak[pts[0]]++
		}
	}
	s.ev++
	rec.Ev, rec.Out = s.ev, out
	if !out.ack() {
		atomic.AddInt64(&s.failed, 1)
	}
	if out.ack() {
		if len(pts) > 0 {
			delete(s.streak, pts[0])
		}
		for _, p := range pts {
			if fa := &s.firstAck[p.series()][p.seq()]; *fa == 0 {
				*fa = rec.Ev
				s.distinct++
			}
		}
	}
	s.mu.Unlock()

	switch out.K {
	case kRespond:
		if s.respond(w, out, len(pts)) {
			s.mu.Lock()
			rec.Wrote = true
			s.mu.Unlock()
		}
	case kHang:
		t := time.NewTimer(time.Duration(s.c.TimeoutMs)*4*time.Millisecond + time.Second)
		select {
		case <-r.Context().Done(): // the client gave up (its timeout) and closed the connection
		case <-s.stop:
		case <-t.C:
		}
		t.Stop()
		reset(w)
	case kResetAfter:
		reset(w)
	}
}

// ---------------------------------------------------------------- goroutine samples

type park struct {
	Goroutine int64    `json:"goroutine"`
	State     string   `json:"state"`
	Frames    []string `json:"frames"`
}

var hdrRe = regexp.MustCompile(`^goroutine (\d+) \[([^\]]*)\]:`)

func goid() int64 {
	buf := make([]byte, 64)
	n := runtime.Stack(buf, false)
	m := hdrRe.FindSubmatch(buf[:n])
	if m == nil {
		// header cut off: parse by hand
		f := strings.Fields(string(buf[:n]))
		if len(f) > 1 {
			id, _ := strconv.ParseInt(f[1], 10, 64)
			return id
		}
		return -1
	}
	id, _ := strconv.ParseInt(string(m[1]), 10, 64)
	return id
}

var stackMu sync.Mutex

func allStacks() string {
	stackMu.Lock()
	defer stackMu.Unlock()
	sz := 4 << 20
	for {
		buf := make([]byte, sz)
		n := runtime.Stack(buf, true)
		if n < sz || sz >= 512<<20 {
			return string(buf[:n])
		}
		sz *= 4
	}
}

func sampleGoroutine(id int64) (park, bool) {
	for _, blk := range strings.Split(allStacks(), "\n\n") {
		m := hdrRe.FindStringSubmatch(blk)
		if m == nil {
			continue
		}
		if gid, _ := strconv.ParseInt(m[1], 10, 64); gid != id {
			continue
		}
		p := park{Goroutine: id, State: strings.SplitN(m[2], ",", 2)[0]}
		lines := strings.Split(blk, "\n")[1:]
		for i := 0; i+1 < len(lines) && len(p.Frames) < 7; i += 2 {
			fn := lines[i]
			if k := strings.LastIndex(fn, "("); k > 0 && !strings.HasPrefix(fn, "created by") {
				fn = fn[:k]
			}
			loc := strings.TrimSpace(lines[i+1])
			if k := strings.Index(loc, " +0x"); k > 0 {
				loc = loc[:k]
			}
			p.Frames = append(p.Frames, fn+" @ "+filepath.Base(filepath.Dir(loc))+"/"+filepath.Base(loc))
		}
		return p, true
	}
	return park{Goroutine: id, State: "gone"}, false
}

func (p park) parked() bool {
	return p.State != "running" && p.State != "runnable" && p.State != "gone" && p.State != "syscall"
}

func (p park) where() string {
	top, repo := "?", ""
	if len(p.Frames) > 0 {
		top = strings.SplitN(p.Frames[0], " @ ", 2)[0]
	}
	for _, f := range p.Frames {
		if strings.Contains(f, "carbon-relay-ng/") {
			repo = strings.SplitN(f, " @ ", 2)[0]
			repo = repo[strings.LastIndex(repo, "/")+1:]
			break
		}
	}
	return fmt.Sprintf("[%s] %s <- %s", p.State, top, repo)
}

func samePark(a, b park) bool {
	if a.State != b.State || len(a.Frames) != len(b.Frames) {
		return false
	}
	for i := range a.Frames {
		if a.Frames[i] != b.Frames[i] {
			return false
		}
	}
	return true
}

// workersInFlush samples the worker goroutines that route.NewGrafanaNet started from goroutine `creator` (the one
// running this case) and returns those that are inside retryFlush: sending a batch, waiting for or reading a
// response (a 1 MiB body takes the race detector seconds on a loaded machine, long after the endpoint's handler
// wrote it out), or sleeping in a backoff. While there is one, an idle endpoint does not mean nobody is working.
func workersInFlush(creator int64) []string {
	mark := fmt.Sprintf("route.NewGrafanaNet in goroutine %d\n", creator)
	var out []string
	for _, blk := range strings.Split(allStacks(), "\n\n") {
		if !strings.Contains(blk, "route.(*GrafanaNet).retryFlush(") || !strings.Contains(blk+"\n", mark) {
			continue
		}
		m := hdrRe.FindStringSubmatch(blk)
		if m == nil {
			continue
		}
		lines := strings.Split(blk, "\n")
		top := ""
		if len(lines) > 1 {
			top = lines[1]
			if k := strings.LastIndex(top, "("); k > 0 {
				top = top[:k]
			}
		}
		out = append(out, fmt.Sprintf("goroutine %s [%s] %s", m[1], m[2], top))
	}
	return out
}

// ---------------------------------------------------------------- running a case

type dispatcher struct {
	start  int64 // unix nanos when the Dispatch call in progress began, 0 = not in a call
	calls  int64
	gid    int64
	maxLat int64
}

const (
	stNone     = 0
	stAccepted = 1 // dispatched (and, with exact attribution, not counted as dropped)
	stDropped  = 2 // the queue_full counter moved during this Dispatch call (single dispatcher only)
)

type stats17 struct {
	mu sync.Mutex
	m  map[string]int
}

func (s *stats17) add(k string, n int) {
	s.mu.Lock()
	s.m[k] += n
	s.mu.Unlock()
}
func (s *stats17) max(k string, n int) {
	s.mu.Lock()
	if n > s.m[k] {
		s.m[k] = n
	}
	s.mu.Unlock()
}

func cleanAddr(a string) string {
	a = strings.Replace(a, ".", "_", -1)
	a = strings.Replace(a, ":", "_", -1)
	return strings.Replace(a, "/", "", -1)
}

func line(caseIdx, series, seq int) []byte {
	b := make([]byte, 0, 48)
	b = append(b, "v17.k"...)
	b = strconv.AppendInt(b, int64(caseIdx), 10)
	b = append(b, ".s"...)
	b = strconv.AppendInt(b, int64(series), 10)
	b = append(b, ".x "...)
	b = strconv.AppendInt(b, int64(series)*valueStride+int64(seq), 10)
	b = append(b, ' ')
	b = strconv.AppendInt(b, timeBase+int64(seq), 10)
	return b
}

func runCase(res *mon.Result, st *stats17, c *ccase, scratch string) {
	started := time.Now()
	caseGid := goid() // NewGrafanaNet is called from this goroutine: its workers say "created by ... in goroutine <caseGid>"
	srv := newServer(c)
	defer srv.close()
	viol := func(sig string, extra map[string]interface{}, format string, a ...interface{}) {
		w := map[string]interface{}{"config": c, "requests": srv.logExcerpt(80)}
		for k, v := range extra {
			w[k] = v
		}
		res.Violate(sig, fmt.Sprintf("case %d (conc=%d blocking=%v buf=%d flushMaxNum=%d): ", c.Index, c.Concurrency, c.Blocking, c.BufSize, c.FlushMaxNum)+fmt.Sprintf(format, a...), w)
	}

	cfg, err := route.NewGrafanaNetConfig(srv.addr(), apiKey, filepath.Join(scratch, "storage-schemas.conf"), filepath.Join(scratch, "storage-aggregation.conf"))
	if err != nil {
		panic("c17: NewGrafanaNetConfig: " + err.Error())
	}
	cfg.BufSize = c.BufSize
	cfg.FlushMaxNum = c.FlushMaxNum
	cfg.FlushMaxWait = time.Duration(c.FlushMaxWaitMs) * time.Millisecond
	cfg.Timeout = time.Duration(c.TimeoutMs) * time.Millisecond
	cfg.Concurrency = c.Concurrency
	cfg.Blocking = c.Blocking
	cfg.ErrBackoffMin = time.Millisecond
	cfg.ErrBackoffFactor = 1.5
	mt, err := matcher.New("", "", "", "", "", "")
	if err != nil {
		panic("c17: matcher: " + err.Error())
	}
	dropKey := "dest=" + cleanAddr(srv.addr()) + ".unit=Metric.action=drop.reason=queue_full"
	errKey := "dest=" + cleanAddr(srv.addr()) + ".unit=Err.type=flush"
	rt, err := route.NewGrafanaNet(fmt.Sprintf("c17_%d", c.Index), mt, cfg)
	if err != nil {
		panic("c17: NewGrafanaNet: " + err.Error())
	}
	dropCtr, ok := metrics.DefaultRegistry.Get(mon.CounterName(dropKey)).(metrics.Counter)
	if !ok {
		panic("c17: the route did not register its queue_full counter under " + mon.CounterName(dropKey))
	}
	drop0 := dropCtr.Count()
	errCtr, ok := metrics.DefaultRegistry.Get(mon.CounterName(errKey)).(metrics.Counter)
	if !ok {
		panic("c17: the route did not register its flush error counter under " + mon.CounterName(errKey))
	}
	err0 := errCtr.Count()
	// The stall clocks run while the endpoint is idle. The route legitimately leaves it idle while it backs off:
	// errBackoffMin x 1.5^k after k consecutive failures of one batch. The script keeps k <= maxStreak+3, but on an
	// overloaded machine the client also times out on requests the server answered 2xx; those failures show up only
	// in the route's own flush error counter. All of them are charged to one batch (upper bound on its backoff).
	clientOnlyFailures := func() int {
		x := int(errCtr.Count()-err0) - int(atomic.LoadInt64(&srv.failed))
		if x < 0 {
			x = 0
		}
		return x
	}
	backoffAllowance := func() time.Duration {
		k := maxStreak + 3 + 2 + clientOnlyFailures()
		b := float64(time.Millisecond)
		for i := 0; i < k && b < float64(30*time.Second); i++ {
			b *= 1.5
		}
		if b > float64(30*time.Second) {
			b = float64(30 * time.Second)
		}
		return 3 * time.Duration(b)
	}
	stallNow := func() time.Duration { return stallBound + backoffAllowance() }

	// ---- dispatch
	exact := !c.Blocking && c.Dispatchers == 1
	status := make([][]uint8, c.Series)
	for s := range status {
		status[s] = make([]uint8, c.Points[s])
	}
	disps := make([]*dispatcher, c.Dispatchers)
	var wg sync.WaitGroup
	for d := 0; d < c.Dispatchers; d++ {
		disps[d] = &dispatcher{}
		wg.Add(1)
		go func(d int, ds *dispatcher) {
			defer wg.Done()
			atomic.StoreInt64(&ds.gid, goid())
			rr := mon.NewRng(mon.Seed(), 1700+uint64(d), uint64(c.Index))
			var mine []int
			for s := d; s < c.Series; s += c.Dispatchers {
				mine = append(mine, s)
			}
			next := make([]int, c.Series)
			sent := 0
			for len(mine) > 0 {
				k := rr.Intn(len(mine))
				s := mine[k]
				burst := 1 + rr.Intn(4)
				for ; burst > 0 && next[s] < c.Points[s]; burst-- {
					q := next[s]
					next[s]++
					b := line(c.Index, s, q)
					var before int64
					if exact {
						before = dropCtr.Count()
					}
					t0 := time.Now()
					atomic.StoreInt64(&ds.start, t0.UnixNano())
					rt.Dispatch(b)
					atomic.StoreInt64(&ds.start, 0)
					atomic.AddInt64(&ds.calls, 1)
					if lat := int64(time.Since(t0)); lat > ds.maxLat {
						ds.maxLat = lat
					}
					if exact && dropCtr.Count() != before {
						status[s][q] = stDropped
					} else {
						status[s][q] = stAccepted
					}
					sent++
					if c.PaceEvery > 0 && sent%c.PaceEvery == 0 {
						time.Sleep(time.Duration(c.PaceUs) * time.Microsecond)
					}
				}
				if next[s] >= c.Points[s] {
					mine[k] = mine[len(mine)-1]
					mine = mine[:len(mine)-1]
				}
			}
		}(d, disps[d])
	}
	allDone := make(chan struct{})
	go func() { wg.Wait(); close(allDone) }()

	// watch the dispatchers: a parked Dispatch is a refuting event in non-blocking mode, and in
	// blocking mode when the endpoint has been idle for the stall bound (nobody drains the buffer)
	tick := time.NewTicker(50 * time.Millisecond)
	defer tick.Stop()
watch:
	for {
		select {
		case <-allDone:
			break watch
		case <-tick.C:
		}
		now := time.Now().UnixNano()
		for d, ds := range disps {
			s0 := atomic.LoadInt64(&ds.start)
			if s0 == 0 || time.Duration(now-s0) < stallBound {
				continue
			}
			if c.Blocking && srv.idleFor() < stallNow() {
				continue
			}
			calls := atomic.LoadInt64(&ds.calls)
			p1, _ := sampleGoroutine(atomic.LoadInt64(&ds.gid))
			time.Sleep(sampleGap)
			p2, _ := sampleGoroutine(atomic.LoadInt64(&ds.gid))
			if atomic.LoadInt64(&ds.calls) != calls || atomic.LoadInt64(&ds.start) != s0 {
				continue // it moved on
			}
			if c.Blocking && srv.idleFor() < stallNow() {
				continue // the endpoint sees requests again: the buffer is being drained, blocking is legal
			}
			if !p1.parked() || !p2.parked() || !samePark(p1, p2) {
				res.Inconclusive(fmt.Sprintf("case %d: a Dispatch call lasted > %v but the two stack samples do not show one parked frame (%s / %s)", c.Index, stallBound, p1.where(), p2.where()))
				continue
			}
			if c.Blocking {
				if busy := workersInFlush(caseGid); len(busy) > 0 {
					st.add("stall_suspicions_dismissed_worker_in_flush", 1)
					continue // a worker is still busy with a batch (its request, the response, a backoff): the buffer will be drained
				}
			}
			ex := map[string]interface{}{"dispatcher": d, "sample1": p1, "sample2": p2, "calls_completed": calls}
			if c.Blocking {
				viol("dispatch-stuck", ex, "blocking Dispatch parked for > %v while the endpoint saw no request for > %v (nobody drains the buffer): %s", stallBound, stallBound, p2.where())
			} else {
				viol("dispatch-stall", ex, "non-blocking Dispatch parked for > %v: %s", stallBound, p2.where())
			}
			st.add("cases_aborted", 1)
			return // the dispatcher never comes back: abandon the case (own server, nothing shared)
		}
		if time.Since(started) > 15*time.Minute {
			res.Inconclusive(fmt.Sprintf("case %d: dispatch phase still running after 15 minutes", c.Index))
			return
		}
	}

	dispatched, droppedExact := 0, 0
	for s := range status {
		for _, v := range status[s] {
			if v != stNone {
				dispatched++
			}
			if v == stDropped {
				droppedExact++
			}
		}
	}
	if dispatched != c.Total {
		panic("c17: dispatchers did not cover the workload")
	}
	var maxLat int64
	for _, ds := range disps {
		if ds.maxLat > maxLat {
			maxLat = ds.maxLat
		}
	}
	st.max("max_dispatch_latency_us", int(maxLat/1000))
	drops := int(dropCtr.Count() - drop0)
	accepted := dispatched - drops // number of metrics the route took into its buffers
	if exact && drops != droppedExact {
		panic("c17: per-call and total drop counts disagree")
	}

	// bounded quiescence: all accepted acknowledged, or the endpoint saw no request for `idle`
	idle := 2*time.Second + 10*time.Duration(c.FlushMaxWaitMs+c.TimeoutMs)*time.Millisecond
	// returns false only when the watchdog ended the wait (endpoint still busy): no verdict then
	quiesce := func() bool {
		t0 := time.Now()
		for {
			if srv.distinctAcked() >= accepted || srv.idleFor() > idle+backoffAllowance() {
				return true
			}
			if time.Since(t0) > 10*time.Minute {
				res.Inconclusive(fmt.Sprintf("case %d: endpoint still receiving requests after 10 minutes of waiting for quiescence", c.Index))
				return false
			}
			time.Sleep(20 * time.Millisecond)
		}
	}

	// ---- shutdown
	switch c.ShutdownMode {
	case "after-quiescence":
		quiesce()
	case "delay":
		time.Sleep(time.Duration(c.ShutdownDelay) * time.Millisecond)
	}
	pending := accepted - srv.distinctAcked()
	if pending > 0 {
		st.add("cases_shutdown_with_unacked_pending", 1)
		st.add("pending_at_shutdown", pending)
	}
	type shutRes struct {
		ev  int64
		dur time.Duration
	}
	shut := make(chan shutRes, 1)
	var shutGid int64
	tCall := time.Now()
	go func() {
		atomic.StoreInt64(&shutGid, goid())
		rt.Shutdown()
		shut <- shutRes{srv.curEv(), time.Since(tCall)}
	}()
	st.add("shutdown_calls", 1)
	returned, evAtReturn := false, int64(0)
shutwait:
	for {
		select {
		case r := <-shut:
			returned, evAtReturn = true, r.ev
			st.add("shutdown_returned", 1)
			st.max("max_shutdown_ms", int(r.dur/time.Millisecond))
			break shutwait
		case <-tick.C:
		}
		if time.Since(tCall) < stallBound || srv.idleFor() < stallNow() {
			continue // retries against a failing endpoint legitimately take time: the clock only runs while the endpoint is idle
		}
		p1, _ := sampleGoroutine(atomic.LoadInt64(&shutGid))
		arr1 := atomic.LoadInt64(&srv.arrived)
		time.Sleep(sampleGap)
		p2, _ := sampleGoroutine(atomic.LoadInt64(&shutGid))
		if len(shut) > 0 {
			continue
		}
		if atomic.LoadInt64(&srv.arrived) != arr1 || srv.idleFor() < stallNow() {
			continue // the endpoint saw traffic again: not idle
		}
		if !p1.parked() || !p2.parked() || !samePark(p1, p2) {
			if time.Since(tCall) > 3*time.Minute {
				res.Inconclusive(fmt.Sprintf("case %d: Shutdown has not returned after 3 minutes but the samples show no single parked frame (%s / %s)", c.Index, p1.where(), p2.where()))
				break shutwait
			}
			continue
		}
		if busy := workersInFlush(caseGid); len(busy) > 0 {
			// Shutdown waits for a worker that is still busy with a batch (its request, the response, a backoff)
			st.add("stall_suspicions_dismissed_worker_in_flush", 1)
			if time.Since(tCall) > 3*time.Minute {
				res.Inconclusive(fmt.Sprintf("case %d: Shutdown has not returned after 3 minutes, the endpoint is idle, yet a worker is inside retryFlush: %s", c.Index, strings.Join(busy, "; ")))
				break shutwait
			}
			continue
		}
		viol("shutdown-hang", map[string]interface{}{"sample1": p1, "sample2": p2, "endpoint_idle_ms": int(srv.idleFor() / time.Millisecond), "failures_seen_only_by_the_client": clientOnlyFailures(),
			"accepted": accepted, "acknowledged_distinct": srv.distinctAcked()},
			"Shutdown() has not returned %v after the call although the endpoint is healthy and saw no request for > %v; parked at %s (two samples %v apart, same frames)",
			time.Since(tCall).Round(100*time.Millisecond), stallBound, p2.where(), sampleGap)
		break shutwait
	}

	// ---- what got acknowledged
	if !quiesce() {
		st.add("cases_aborted", 1)
		return // still busy when the watchdog fired: neither held nor violated
	}
	// snapshot of the server's log (late handlers of abandoned requests may still be running)
	srv.mu.Lock()
	reqs := make([]reqRec, len(srv.reqs))
	for i, r := range srv.reqs {
		reqs[i] = *r // Pts is never modified after it was set
	}
	firstAck := make([][]int64, len(srv.firstAck))
	for i := range firstAck {
		firstAck[i] = append([]int64(nil), srv.firstAck[i]...)
	}
	distinctFinal := srv.distinct
	corrupt := append([]string(nil), srv.corrupt...)
	badHeader := srv.badHeader
	cfgPosts := srv.cfgPosts
	srv.mu.Unlock()
	// requests still being read have Ev 0: they decided nothing
	var evs []*reqRec
	for i := range reqs {
		if reqs[i].Ev != 0 {
			evs = append(evs, &reqs[i])
		}
	}
	sort.Slice(evs, func(i, j int) bool { return evs[i].Ev < evs[j].Ev })

	var missing, late, dropDelivered []pt
	for s := range status {
		for q, v := range status[s] {
			fa := firstAck[s][q]
			switch {
			case v == stDropped:
				if fa != 0 {
					dropDelivered = append(dropDelivered, mkpt(s, q))
				}
			case fa == 0:
				missing = append(missing, mkpt(s, q))
			case returned && fa > evAtReturn:
				late = append(late, mkpt(s, q))
			}
		}
	}
	shutState := "Shutdown() had returned"
	if !returned {
		shutState = "Shutdown() never returned"
	}
	sum := map[string]interface{}{"dispatched": dispatched, "queue_full_counted": drops, "accepted": accepted, "acknowledged_distinct": distinctFinal,
		"requests": len(reqs), "shutdown_returned": returned, "pending_when_shutdown_was_called": pending}
	if exact || c.Blocking {
		// every individual hand-off is attributable
		if len(missing) > 0 {
			where, det := lastSeen(missing, evs)
			ex := map[string]interface{}{"summary": sum, "unacknowledged_sample": ptsSample(missing, 30), "unacknowledged": len(missing), "unacknowledged_last_seen_in": det}
			if c.Blocking {
				viol("unacked", ex, "%d of %d metrics dispatched (blocking) are in no POST answered 2xx; last POSTs carrying them: %s (bounded quiescence: endpoint idle > %v; %s; queue_full counted %d)", len(missing), dispatched, where, idle, shutState, drops)
			} else {
				viol("unacked", ex, "%d metrics neither counted as queue_full during their Dispatch call nor in any POST answered 2xx; last POSTs carrying them: %s (bounded quiescence: endpoint idle > %v; %s)", len(missing), where, idle, shutState)
			}
		}
	} else if got := distinctFinal; got < accepted {
		where, det := lastSeen(missing, evs)
		ex := map[string]interface{}{"summary": sum, "unacknowledged_sample": ptsSample(missing, 30), "unacknowledged_last_seen_in": det}
		viol("unacked", ex, "%d accepted metrics in no POST answered 2xx (or dropped uncounted); last POSTs carrying unacknowledged metrics: %s; %d dispatched, %d counted as queue_full, %d distinct acknowledged (bounded quiescence: endpoint idle > %v; %s)", accepted-got, where, dispatched, drops, got, idle, shutState)
	} else if got > accepted {
		viol("dropped-but-delivered", map[string]interface{}{"summary": sum}, "%d dispatched, %d counted as queue_full, yet %d distinct metrics were delivered: the drop counter moved for metrics that were not dropped", dispatched, drops, got)
	}
	if c.Blocking && drops > 0 {
		viol("blocking-drop", map[string]interface{}{"summary": sum}, "blocking mode, yet the queue_full drop counter moved by %d", drops)
	}
	if len(dropDelivered) > 0 {
		viol("dropped-but-delivered", map[string]interface{}{"summary": sum, "sample": ptsSample(dropDelivered, 20)}, "%d metrics were counted as queue_full during their Dispatch call and still delivered", len(dropDelivered))
	}
	if len(late) > 0 {
		viol("shutdown-early", map[string]interface{}{"summary": sum, "late_sample": ptsSample(late, 30), "events_at_return": evAtReturn},
			"Shutdown() returned while %d accepted metrics were still unacknowledged (they were acknowledged afterwards)", len(late))
	}
	if len(corrupt) > 0 {
		viol("corrupt-point", map[string]interface{}{"examples": corrupt}, "a POST contained a point whose name, value and timestamp do not belong together: %s", corrupt[0])
	}

	// per series: first acknowledgements in dispatch order
	last := make([]int, c.Series)
	for i := range last {
		last[i] = -1
	}
	seen := map[pt]bool{}
	orderBad := 0
	var orderWit string
	type occ struct {
		ev  int64
		seq int
	}
	ackOcc := make([][]occ, c.Series)
	for _, r := range evs {
		if !r.Out.ack() {
			continue
		}
		for _, p := range r.Pts {
			ackOcc[p.series()] = append(ackOcc[p.series()], occ{r.Ev, p.seq()})
			if seen[p] {
				st.add("duplicate_acks", 1)
				continue
			}
			seen[p] = true
			if p.seq() < last[p.series()] {
				if orderBad == 0 {
					orderWit = fmt.Sprintf("series %d: point #%d first acknowledged (request %d) after point #%d", p.series(), p.seq(), r.N, last[p.series()])
				}
				orderBad++
			} else {
				last[p.series()] = p.seq()
			}
		}
	}
	if orderBad > 0 {
		viol("order", map[string]interface{}{"summary": sum, "out_of_order": orderBad}, "first-acknowledgement order differs from dispatch order for %d points; %s", orderBad, orderWit)
	}

	// a failed batch must be acknowledged before any later point of one of its series is
	retries, retriesCut, fails := 0, 0, 0
	kinds := map[string]bool{}
	lastFail := map[pt]*reqRec{} // first point of a batch -> its last failed attempt (in arrival order)
	for _, f := range evs {
		if !f.Out.ack() && len(f.Pts) > 0 && (lastFail[f.Pts[0]] == nil || f.N > lastFail[f.Pts[0]].N) {
			lastFail[f.Pts[0]] = f
		}
	}
	skipReported := map[pt]bool{}
	for _, f := range evs {
		if f.Out.ack() {
			continue
		}
		fails++
		kinds[f.Out.class()] = true
		if len(f.Pts) == 0 {
			continue
		}
		maxq := map[int]int{}
		for _, p := range f.Pts {
			if q, ok := maxq[p.series()]; !ok || p.seq() > q {
				maxq[p.series()] = p.seq()
			}
		}
		var later int64 // earliest acknowledgement after f of a later point of one of f's series
		var laterPt pt
		for s, q := range maxq {
			for _, o := range ackOcc[s] {
				if o.ev > f.Ev && o.seq > q {
					if later == 0 || o.ev < later {
						later, laterPt = o.ev, mkpt(s, o.seq)
					}
					break
				}
			}
		}
		allAcked := true
		var skipped []pt
		for _, p := range f.Pts {
			fa := firstAck[p.series()][p.seq()]
			if fa == 0 {
				allAcked = false
			}
			if later != 0 && (fa == 0 || fa > later) {
				skipped = append(skipped, p)
			}
		}
		if allAcked {
			retries++
			if f.Out.bodyIncomplete() {
				retriesCut++
			}
		}
		if len(skipped) > 0 && !skipReported[f.Pts[0]] {
			skipReported[f.Pts[0]] = true // one report per batch: its first failed attempt, and the last one (after which it was given up)
			lastTry := ""
			if l := lastFail[f.Pts[0]]; l != f {
				lastTry = fmt.Sprintf("; last failed attempt of the batch: request %d answered %s", l.N, l.Out)
			}
			viol("batch-skipped", map[string]interface{}{"summary": sum, "failed_request": f.N, "failed_outcome": f.Out.String(), "last_failed_attempt": lastFail[f.Pts[0]].N, "last_failed_outcome": lastFail[f.Pts[0]].Out.String(),
				"skipped_sample": ptsSample(skipped, 20), "later_point": laterPt.String()},
				"request %d (%d points, answered %s%s) failed; %d of its points were not acknowledged before the later point %s of the same series was", f.N, len(f.Pts), f.Out, lastTry, len(skipped), laterPt)
		}
	}

	// ---- evidence
	nAck := 0
	for _, r := range evs {
		st.add("posts_"+r.Out.class(), 1)
		if r.Out.K == kRespond {
			st.add("posts_status_"+strconv.Itoa(r.Out.Status), 1)
			if r.Out.Frame == fChunked {
				st.add("posts_answered_chunked", 1)
			}
			if r.Out.Pad >= 70000 {
				st.add("posts_answered_oversized_body", 1)
			}
			if r.Out.Pad >= 1<<20 && r.Wrote && r.Out.Cut == cNone {
				if r.Out.ack() {
					st.add("posts_2xx_body_1MiB_or_more_written_in_full", 1)
				} else {
					st.add("posts_non2xx_body_1MiB_or_more_written_in_full", 1)
				}
			}
			if r.Out.Pad >= 1<<20 {
				st.add("posts_answered_body_1MiB_or_more", 1)
			}
			if r.Out.Pad > 1<<20 && r.Out.Frame == fLength {
				if r.Out.ack() {
					st.add("posts_2xx_content_length_over_1MiB", 1)
				} else {
					st.add("posts_non2xx_content_length_over_1MiB", 1)
				}
			}
			if r.Wrote {
				st.add("posts_response_written_as_scripted", 1)
			}
			if r.Out.bodyIncomplete() {
				if r.Out.ack() {
					st.add("posts_2xx_body_incomplete", 1)
				} else {
					st.add("posts_non2xx_body_incomplete", 1)
				}
			}
		}
		if r.Forced {
			st.add("posts_forced_ok_by_streak_cap", 1)
		}
		if r.Err != "" {
			st.add("posts_undecodable", 1)
		}
		if r.Out.ack() {
			nAck++
		}
		st.add("foreign_points", r.Foreign)
	}
	st.add("posts_total", len(evs))
	st.add("posts_acknowledged", nAck)
	st.add("posts_failed", fails)
	st.add("failed_batches_later_acknowledged", retries)
	st.add("non2xx_body_incomplete_later_acknowledged", retriesCut)
	st.add("points_dispatched", dispatched)
	st.add("points_counted_queue_full", drops)
	st.add("points_acknowledged_distinct", distinctFinal)
	st.add("config_posts", cfgPosts)
	st.add("bad_request_headers", badHeader)
	st.add("route_flush_error_counter", int(errCtr.Count()-err0))
	st.add("failures_seen_only_by_the_client", clientOnlyFailures())
	if drops > 0 {
		st.add("cases_with_counted_drops", 1)
	}
	if c.Blocking && c.BufClass == "small" && maxLat > int64(2*time.Millisecond) {
		st.add("cases_blocking_dispatch_blocked", 1)
	}
	if exact {
		st.add("cases_exact_drop_attribution", 1)
	}
	if c.StickyRun != "" {
		st.add("cases_with_a_run_of_identical_error_answers", 1)
	}
	if retries > 0 && len(kinds) >= 2 {
		var ks []string
		for k := range kinds {
			ks = append(ks, k)
		}
		sort.Strings(ks)
		res.NonTrivial(fmt.Sprintf("c%d/b%v/n%d/%s/%s/full%v/pend%v/%s", c.Concurrency, c.Blocking, c.FlushMaxNum, c.BufClass, strings.Join(ks, "+"), drops > 0, pending > 0, c.ShutdownMode))
	}
	res.Sample(map[string]interface{}{"case": c.brief(), "observed": sum, "failed_posts": fails, "failed_batches_later_acknowledged": retries,
		"wall_ms": int(time.Since(started) / time.Millisecond), "first_requests": srv.logExcerpt(12)})
}

// lastSeen says in which requests the unacknowledged points were seen last: "request #7 answered 503/errpage/length/cut-fin@30%
// (10 points)". Points that never reached the endpoint (dropped by the route, or still buffered) are summed up.
func lastSeen(missing []pt, evs []*reqRec) (string, []string) {
	miss := make(map[pt]bool, len(missing))
	for _, p := range missing {
		miss[p] = true
	}
	// the last one in arrival order: the attempts of one batch arrive one after the other (the server may decide them
	// in another order when a handler is starved past the client's timeout)
	last := map[pt]*reqRec{}
	for _, r := range evs {
		for _, p := range r.Pts {
			if miss[p] && (last[p] == nil || r.N > last[p].N) {
				last[p] = r
			}
		}
	}
	per := map[*reqRec]int{}
	for _, r := range last {
		per[r]++
	}
	rs := make([]*reqRec, 0, len(per))
	for r := range per {
		rs = append(rs, r)
	}
	sort.Slice(rs, func(i, j int) bool { return rs[i].N < rs[j].N })
	var det []string
	for _, r := range rs {
		det = append(det, fmt.Sprintf("request #%d answered %s (%d/%d points)", r.N, r.Out, per[r], len(r.Pts)))
	}
	if n := len(missing) - len(last); n > 0 {
		det = append(det, fmt.Sprintf("%d points in no POST at all", n))
	}
	short := det
	if len(short) > 2 {
		short = append(append([]string(nil), det[:2]...), fmt.Sprintf("... %d in all", len(det)))
	}
	if len(det) > 40 {
		det = append(det[:40:40], fmt.Sprintf("... %d in all", len(det)))
	}
	return strings.Join(short, ", "), det
}

func ptsSample(ps []pt, n int) []string {
	var out []string
	for i, p := range ps {
		if i >= n {
			out = append(out, fmt.Sprintf("... %d in all", len(ps)))
			break
		}
		out = append(out, p.String())
	}
	return out
}

// logExcerpt renders the first n decided requests: "#arrival outcome npoints first..last".
func (s *server) logExcerpt(n int) []string {
	s.mu.Lock()
	defer s.mu.Unlock()
	var out []string
	for i, r := range s.reqs {
		if i >= n {
			out = append(out, fmt.Sprintf("... %d requests in all", len(s.reqs)))
			break
		}
		l := fmt.Sprintf("#%d ev=%d %s", r.N, r.Ev, r.Out)
		if r.Forced {
			l += "(forced by streak cap)"
		}
		if len(r.Pts) > 0 {
			l += fmt.Sprintf(" %d points %s..%s", len(r.Pts), r.Pts[0], r.Pts[len(r.Pts)-1])
		} else if r.Out.K != kResetBefore {
			l += " 0 points"
		}
		if r.Err != "" {
			l += " decode: " + r.Err
		}
		out = append(out, l)
	}
	return out
}

// ---------------------------------------------------------------- main

func main() {
	mon.InitRepo()
	if os.Getenv("C17_LOG") != "" { // debugging aid: show the route's own warnings (one per failed flush)
		log.SetOutput(os.Stderr)
		log.SetLevel(log.WarnLevel)
	}
	res := mon.NewResult("C17")
	res.Rule = "cases from (seed,index): concurrency 1-8, blocking on/off, bufSize small (0-30 per shard) or large, flushMaxNum 1-100, flushMaxWait 5-100ms, timeout 100-300ms (1-2s in the one case in six whose endpoint may send bodies of 1 MiB and more), errBackoffMin 1ms, 1-50 series x 20-2000 points (clipped to a batch budget) from 1-4 dispatcher goroutines (one goroutine per series), paced or flat out; a per-request fault script (30-70% failures: 4xx/5xx (400 401 403 404 413 429 500 502 503 504) with error page / garbage / json / empty body padded to 299..70000 bytes or 1 MiB .. 1 MiB+70000, framed by Content-Length, chunked or connection close, sent completely or (45%) cut: fewer bytes than declared then FIN or RST, also right behind the headers, silence in mid-body until the client timeout, trickling body; hang without headers; reset after / before reading the request. successes: 200 201 202 204 as json, json with invalid>0, garbage, empty, same framings and (15%) the same cuts) then healthy; Shutdown() called right after the last Dispatch, a few ms later, or after quiescence. non-trivial = at least one failed batch was observed being acknowledged later AND >= 2 kinds of failure were served; distinct = (concurrency, blocking, flushMaxNum, buffer class, failure kinds, drops counted, unacknowledged metrics pending at Shutdown, shutdown mode)"
	res.Assume("a POST acknowledges exactly the points the harness server decoded from its body before it sent a 2xx status line: the status line is the acknowledgement, whatever the response body says and whether or not the body arrives completely (the property speaks of acknowledged POSTs, the body of a tsdb-gw reply only reports counts, and the route reads it only for logging); a client that loses a 2xx status line to a reset may retry, which only adds duplicates. Anything else - non-2xx with a complete, cut, hanging or oversized body, no response - is a failure and the batch must come again")
	res.Assume("'accepted' = Dispatch returned and the route's queue_full counter did not move for it (exact per call with a single dispatcher, by totals otherwise)")
	res.Assume("bounded liveness: retry-until-acknowledged is judged after the fault script is exhausted (<= 6 decoded failures per batch) and the endpoint saw no request for 2s + 10x(flushMaxWait+timeout)")
	res.Assume("the endpoint-idle clocks are extended by 3x the largest backoff the route may legitimately be sleeping in: 1ms x 1.5^k with k = scripted cap + the failures only the client saw (its flush error counter minus the failures the server dealt), all charged to one batch")
	res.Assume("a stall is only reported when two goroutine stack samples 1s apart show the same goroutine parked at the same frames after >= 2s (Dispatch normally takes microseconds, Shutdown on an idle endpoint milliseconds), and - for Shutdown and blocking Dispatch, which legitimately wait for the workers - when a sample of the route's worker goroutines shows none of them inside retryFlush (busy with a request, a response or a backoff)")
	scratch := mon.Scratch()
	must := func(err error) {
		if err != nil {
			panic(err)
		}
	}
	must(os.WriteFile(filepath.Join(scratch, "storage-schemas.conf"), []byte("[default]\npattern = .*\nretentions = 10s:1d\n"), 0644))
	must(os.WriteFile(filepath.Join(scratch, "storage-aggregation.conf"), []byte("[default_average]\npattern = .*\nxFilesFactor = 0.3\naggregationMethod = average\n"), 0644))

	st := &stats17{m: map[string]int{}}
	n := mon.N(60, 3000)
	var idxs []int
	if rp := os.Getenv("VERIF_REPLAY"); rp != "" {
		b, err := os.ReadFile(rp)
		must(err)
		var f struct {
			Replay struct {
				Config struct {
					Index int `json:"index"`
				} `json:"config"`
			} `json:"replay"`
		}
		must(json.Unmarshal(b, &f))
		idxs = []int{f.Replay.Config.Index}
		n = 1
	} else {
		for i := 0; i < n; i++ {
			if mon.Mine(i) {
				idxs = append(idxs, i)
			}
		}
	}
	debug.SetGCPercent(600) // fewer collections: the heap is small, large buffers are costly to recycle under -race
	par := 8
	work := make(chan int)
	var wg sync.WaitGroup
	var ran int64
	for w := 0; w < par; w++ {
		wg.Add(1)
		go func() {
			defer wg.Done()
			for i := range work {
				c := gen(mon.Seed(), i)
				res.LogCase("%s", c.brief())
				runCase(res, st, c, scratch)
				res.Eval(1)
				atomic.AddInt64(&ran, 1)
			}
		}()
	}
	for _, i := range idxs {
		work <- i
	}
	close(work)
	wg.Wait()

	st.mu.Lock()
	keys := make([]string, 0, len(st.m))
	for k := range st.m {
		keys = append(keys, k)
	}
	sort.Strings(keys)
	for _, k := range keys {
		res.Count(k, st.m[k])
	}
	m := st.m
	res.Floor("cases", int(ran), n)
	if os.Getenv("VERIF_REPLAY") == "" {
		res.Floor("posts_acknowledged", m["posts_acknowledged"], n)
		res.Floor("posts_failed", m["posts_failed"], n)
		res.Floor("failed_batches_later_acknowledged", m["failed_batches_later_acknowledged"], n/2)
		res.Floor("posts_non2xx_body_incomplete", m["posts_non2xx_body_incomplete"], n/2)
		res.Floor("non2xx_body_incomplete_later_acknowledged", m["non2xx_body_incomplete_later_acknowledged"], n/4)
		res.Floor("posts_2xx_body_incomplete", m["posts_2xx_body_incomplete"], n/4)
		res.Floor("posts_answered_body_1MiB_or_more", m["posts_answered_body_1MiB_or_more"], n/12)
		res.Floor("posts_non2xx_content_length_over_1MiB", m["posts_non2xx_content_length_over_1MiB"], n/100) // rare: a floor for the thorough tier only
		res.Floor("shutdown_calls", m["shutdown_calls"], n*9/10)
		res.Floor("cases_shutdown_with_unacked_pending", m["cases_shutdown_with_unacked_pending"], n/5)
		res.Floor("cases_with_counted_drops", m["cases_with_counted_drops"], n/20)
	}
	st.mu.Unlock()
	res.Write()
}
