// C18 — runtime table changes are atomic with respect to traffic.
//
//	A  snapshot immutability (white-box accessor): a slice loaded from the table /
//	   route snapshot before an admin operation must be element-wise unchanged after it
//	   (every list length 1..6 x every delete index, for routes, blacklist, rewriters,
//	   aggregators, destinations; plus add-after-delete histories).
//	B  forced interleaving (tag-guarded after-load hooks): a dispatcher is held right
//	   after it loaded the snapshot, the harness performs the operation, releases it;
//	   every route / rewriter / aggregator / destination that exists before and after
//	   must see the line exactly once (rewriters: the result must be what the list
//	   before or the list after produces). A dispatcher that never comes back is
//	   confirmed with two stack samples.
//	C  free-running: 8 dispatchers x a stream of admin operations; stable capture
//	   routes must each receive every line exactly once (-race throughout; reports
//	   with one side in a mutator and the other in a dispatch path are scoped to C18
//	   by the driver).
//	E  sequential model: after each operation Table.Snapshot() must equal a model
//	   list; index >= len is an error and leaves the table unchanged; deleting an
//	   unknown route is a no-op.
package main

import (
	"fmt"
	"os"
	"regexp"
	"runtime"
	"strings"
	"sync"
	"sync/atomic"
	"time"

	"github.com/grafana/carbon-relay-ng/aggregator"
	"github.com/grafana/carbon-relay-ng/destination"
	"github.com/grafana/carbon-relay-ng/matcher"
	"github.com/grafana/carbon-relay-ng/rewriter"
	"github.com/grafana/carbon-relay-ng/route"
	"github.com/grafana/carbon-relay-ng/table"

	"verifharness/mon"
)

var res *mon.Result

func mustMatcher(prefix, sub, regex string) matcher.Matcher {
	m, err := matcher.New(prefix, "", sub, "", regex, "")
	if err != nil {
		panic(err)
	}
	return m
}

func newAgg(t *table.Table, regex, outFmt string) *aggregator.Aggregator {
	return newAggBuf(t, regex, outFmt, 2000)
}

// newAggBuf: an aggregation whose inbox holds inBuf points (2000 in production)
func newAggBuf(t *table.Table, regex, outFmt string, inBuf int) *aggregator.Aggregator {
	tick := make(chan time.Time)
	m := mustMatcher("", "", regex)
	a, err := aggregator.NewMocked("count", m, outFmt, false, 60, 120, false, t.GetIn(), inBuf, time.Now, tick)
	if err != nil {
		panic(err)
	}
	return a
}

var uniq int64

func u() int64 { return atomic.AddInt64(&uniq, 1) }

// realRoute adds a sendAllMatch route with n destinations on refusing ports.
func realRoute(t *table.Table, key string, n int, kind string) []string {
	var addrs []string
	cmd := "addRoute " + kind + " " + key + " "
	for i := 0; i < n; i++ {
		a := mon.ReservedAddr()
		addrs = append(addrs, a)
		cmd += " " + a + " spool=false reconn=3600000 "
	}
	if err := mon.Apply(t, strings.TrimSpace(cmd)); err != nil {
		panic(fmt.Sprintf("%s: %v", cmd, err))
	}
	return addrs
}

// ---------------------------------------------------------------- part A

func partA() {
	for n := 1; n <= 6; n++ {
		for del := 0; del < n; del++ {
			// routes
			{
				t := mon.NewTable("none", "none", false, "/nonexistent")
				for i := 0; i < n; i++ {
					t.AddRoute(mon.NewCaptureRoute(fmt.Sprintf("r%d", i), mustMatcher("", "", ""), nil))
				}
				s, _, _, _ := t.VerifC18Slices()
				cp := append([]route.Route(nil), s...)
				res.LogCase("A routes n=%d del=%d", n, del)
				t.DelRoute(fmt.Sprintf("r%d", del))
				for j := range cp {
					if s[j] != cp[j] {
						res.Violate("snapshot-mutated:routes", fmt.Sprintf("routes snapshot [%s] loaded before DelRoute(r%d): element %d changed from %s to %s", keys(cp), del, j, cp[j].Key(), s[j].Key()),
							map[string]interface{}{"list": "routes", "len": n, "delete_index": del})
						break
					}
				}
				res.Eval(1)
				res.Count("snapshot_comparisons", 1)
			}
			// blacklist
			{
				t := mon.NewTable("none", "none", false, "/nonexistent")
				for i := 0; i < n; i++ {
					m := mustMatcher(fmt.Sprintf("b%d.", i), "", "")
					t.AddBlacklist(&m)
				}
				_, s, _, _ := t.VerifC18Slices()
				cp := append([]*matcher.Matcher(nil), s...)
				res.LogCase("A blacklist n=%d del=%d", n, del)
				t.DelBlacklist(del)
				for j := range cp {
					if s[j] != cp[j] {
						res.Violate("snapshot-mutated:blacklist", fmt.Sprintf("blacklist snapshot of %d entries loaded before DelBlacklist(%d): element %d changed from prefix %q to %q", n, del, j, cp[j].Prefix, s[j].Prefix),
							map[string]interface{}{"list": "blacklist", "len": n, "delete_index": del})
						break
					}
				}
				res.Eval(1)
				res.Count("snapshot_comparisons", 1)
			}
			// rewriters
			{
				t := mon.NewTable("none", "none", false, "/nonexistent")
				for i := 0; i < n; i++ {
					rw, _ := rewriter.New(fmt.Sprintf("old%d", i), "new", "", -1)
					t.AddRewriter(rw)
				}
				_, _, s, _ := t.VerifC18Slices()
				cp := append([]rewriter.RW(nil), s...)
				res.LogCase("A rewriters n=%d del=%d", n, del)
				t.DelRewriter(del)
				for j := range cp {
					if s[j].Old != cp[j].Old {
						res.Violate("snapshot-mutated:rewriters", fmt.Sprintf("rewriter snapshot of %d entries loaded before DelRewriter(%d): element %d changed from %q to %q", n, del, j, cp[j].Old, s[j].Old),
							map[string]interface{}{"list": "rewriters", "len": n, "delete_index": del})
						break
					}
				}
				res.Eval(1)
				res.Count("snapshot_comparisons", 1)
			}
			// aggregators
			{
				t := mon.NewTable("none", "none", false, "/nonexistent")
				for i := 0; i < n; i++ {
					t.AddAggregator(newAgg(t, fmt.Sprintf("^agg%d\\.", i), "out"))
				}
				_, _, _, s := t.VerifC18Slices()
				cp := append([]*aggregator.Aggregator(nil), s...)
				res.LogCase("A aggregators n=%d del=%d", n, del)
				quietStdout(func() { t.DelAggregator(del) })
				for j := range cp {
					if s[j] != cp[j] {
						res.Violate("snapshot-mutated:aggregators", fmt.Sprintf("aggregator snapshot of %d entries loaded before DelAggregator(%d): element %d changed from %s to %s", n, del, j, cp[j].Matcher.Regex, s[j].Matcher.Regex),
							map[string]interface{}{"list": "aggregators", "len": n, "delete_index": del})
						break
					}
				}
				for _, a := range s[:n-1] {
					_ = a
				}
				res.Eval(1)
				res.Count("snapshot_comparisons", 1)
			}
			// destinations (all three carbon route types)
			for _, kind := range []string{"sendAllMatch", "sendFirstMatch", "consistentHashing"} {
				if kind == "consistentHashing" && n < 2 {
					continue
				}
				t := mon.NewTable("none", "none", false, "/nonexistent")
				key := fmt.Sprintf("ad%d", u())
				realRoute(t, key, n, kind)
				rt := t.GetRoute(key)
				s := route.VerifC18Dests(rt)
				cp := append([]*destination.Destination(nil), s...)
				res.LogCase("A destinations %s n=%d del=%d", kind, n, del)
				t.DelDestination(key, del)
				for j := range cp {
					if s[j] != cp[j] {
						res.Violate("snapshot-mutated:destinations", fmt.Sprintf("%s destination snapshot of %d entries loaded before DelDestination(%d): element %d changed from %s to %s", kind, n, del, j, cp[j].Addr, s[j].Addr),
							map[string]interface{}{"list": "destinations", "route_type": kind, "len": n, "delete_index": del})
						break
					}
				}
				t.DelRoute(key)
				res.Eval(1)
				res.Count("snapshot_comparisons", 1)
			}
		}
	}
	// add-after-delete histories: every snapshot ever loaded must stay as it was
	nh := mon.N(60, 3000)
	for h := 0; h < nh; h++ {
		r := mon.NewRng(mon.Seed(), 181, uint64(h))
		t := mon.NewTable("none", "none", false, "/nonexistent")
		type snap struct {
			s  []route.Route
			cp []route.Route
			at int
		}
		var snaps []snap
		var live []string
		var hist []string
		for op := 0; op < r.Range(6, 30); op++ {
			if len(live) == 0 || r.Chance(3, 5) {
				k := fmt.Sprintf("h%d", u())
				t.AddRoute(mon.NewCaptureRoute(k, mustMatcher("", "", ""), nil))
				live = append(live, k)
				hist = append(hist, "add "+k)
			} else {
				i := r.Intn(len(live))
				if r.Chance(1, 2) {
					i = len(live) - 1
				}
				hist = append(hist, "del "+live[i])
				t.DelRoute(live[i])
				live = append(live[:i:i], live[i+1:]...)
			}
			s, _, _, _ := t.VerifC18Slices()
			snaps = append(snaps, snap{s, append([]route.Route(nil), s...), op})
			for _, sn := range snaps {
				for j := range sn.cp {
					if sn.s[j] != sn.cp[j] {
						res.Violate("snapshot-mutated:routes", fmt.Sprintf("routes snapshot [%s] loaded after operation %d changed at element %d (%s -> %s) by a later operation", keys(sn.cp), sn.at, j, sn.cp[j].Key(), sn.s[j].Key()),
							map[string]interface{}{"history": hist})
						goto nextHist
					}
				}
			}
		}
	nextHist:
		res.Eval(1)
		res.Count("snapshot_comparisons", len(snaps))
	}
}

func keys(rs []route.Route) string {
	var k []string
	for _, r := range rs {
		k = append(k, r.Key())
	}
	return strings.Join(k, " ")
}

// DelAggregator prints "len N" to stdout; keep the child's log small.
func quietStdout(f func()) {
	old := os.Stdout
	null, err := os.OpenFile(os.DevNull, os.O_WRONLY, 0)
	if err == nil {
		os.Stdout = null
	}
	f()
	os.Stdout = old
	if null != nil {
		null.Close()
	}
}

// ---------------------------------------------------------------- part B

// holder holds the first goroutine that reaches the named hook point.
type holder struct {
	point   string
	armed   int32
	reached chan struct{}
	release chan struct{}
}

var curHolder atomic.Value // *holder

func hookFn(p string) {
	h, _ := curHolder.Load().(*holder)
	if h == nil || h.point != p {
		return
	}
	if atomic.CompareAndSwapInt32(&h.armed, 1, 0) {
		close(h.reached)
		<-h.release
	}
}

func arm(point string) *holder {
	h := &holder{point: point, armed: 1, reached: make(chan struct{}), release: make(chan struct{})}
	curHolder.Store(h)
	return h
}

var gidRe = regexp.MustCompile(`^goroutine (\d+) `)

func curGID() int64 {
	buf := make([]byte, 64)
	n := runtime.Stack(buf, false)
	var id int64
	if m := gidRe.FindSubmatch(buf[:n]); m != nil {
		fmt.Sscan(string(m[1]), &id)
	}
	return id
}

func goroutineBlock(gid int64) string {
	buf := make([]byte, 4<<20)
	n := runtime.Stack(buf, true)
	dump := string(buf[:n])
	i := strings.Index(dump, fmt.Sprintf("goroutine %d [", gid))
	if i < 0 {
		return ""
	}
	rest := dump[i:]
	if j := strings.Index(rest, "\n\n"); j >= 0 {
		rest = rest[:j]
	}
	return rest
}

// repoFrame returns the relay function the goroutine is blocked in: the first frame below the
// standard library must be the relay's; "" when the goroutine is parked in harness code.
func repoFrame(block string) string {
	for _, l := range strings.Split(block, "\n") {
		if l == "" || l[0] == '\t' || strings.HasPrefix(l, "goroutine ") || strings.HasPrefix(l, "created by ") {
			continue
		}
		if strings.HasPrefix(l, "github.com/grafana/carbon-relay-ng/") {
			f := strings.TrimPrefix(l, "github.com/grafana/carbon-relay-ng/")
			if k := strings.LastIndex(f, "("); k > 0 {
				f = f[:k]
			}
			return f
		}
		if strings.HasPrefix(l, "verifharness/") || strings.HasPrefix(l, "main.") {
			return ""
		}
	}
	return ""
}

// interleave runs dispatch() in a goroutine, holds it at `point`, performs op(),
// releases it and waits for dispatch to return. ok=false: the dispatcher never
// came back (confirmed parked at the same repo frame in two samples).
func interleave(point string, dispatch func(), op func()) (ok bool, wedgedAt string, stack string) {
	h := arm(point)
	done := make(chan struct{})
	var gid int64
	go func() {
		atomic.StoreInt64(&gid, curGID())
		dispatch()
		close(done)
	}()
	select {
	case <-h.reached:
	case <-done:
		// hook point not on this path
		curHolder.Store((*holder)(nil))
		res.Count("interleavings_hook_not_reached", 1)
		return true, "", ""
	case <-time.After(20 * time.Second):
		res.Inconclusive("dispatcher neither reached the hook point " + point + " nor returned")
		return true, "", ""
	}
	op()
	close(h.release)
	res.Count("interleavings_forced", 1)
	select {
	case <-done:
		return true, "", ""
	case <-time.After(3 * time.Second):
	}
	b1 := goroutineBlock(atomic.LoadInt64(&gid))
	select {
	case <-done:
		return true, "", ""
	case <-time.After(time.Second):
	}
	b2 := goroutineBlock(atomic.LoadInt64(&gid))
	f1, f2 := repoFrame(b1), repoFrame(b2)
	if f1 != "" && f1 == f2 {
		return false, f1, b2
	}
	res.Inconclusive("dispatcher slow after release but not parked at a stable repo frame")
	<-done
	return true, "", ""
}

func partB() {
	table.VerifPoint = hookFn
	route.VerifPoint = hookFn
	for n := 1; n <= 6; n++ {
		for del := 0; del < n; del++ {
			bRoutes(n, del)
			bRewriters(n, del)
			bAggregators(n, del)
			if n <= 3 {
				bAggregatorInboxFull(n, del, (n+del)%3)
			}
			for _, kind := range []string{"sendAllMatch", "sendFirstMatch"} {
				bDestinations(n, del, kind)
			}
			bRealRouteDeleted(n, del)
			if n >= 2 {
				bHashDestinations(n, del, false)
			}
		}
		if n >= 2 {
			bHashDestinations(n, 0, true)
		}
	}
	curHolder.Store((*holder)(nil))
}

// ---- consistent hashing: many dispatchers held between loading the route snapshot and using it
//
// Every name has one owner among the route's destinations (observed one line at a time before and after the
// change). K dispatchers, one per name, are held at consistenthashing-after-load while a destination is deleted
// (or added); each of them must then hand its line to the owner under the table before the change or to the
// owner under the table after it. So a destination that is in both tables receives at least the lines of the
// names it owns in both, and at most those it owns in either; nothing goes anywhere else.
type multiHolder struct {
	point   string
	want    int32
	n       int32
	reached chan struct{}
	release chan struct{}
}

var curMulti atomic.Value // *multiHolder

func multiHook(p string) {
	h, _ := curMulti.Load().(*multiHolder)
	if h == nil || h.point != p {
		hookFn(p)
		return
	}
	if k := atomic.AddInt32(&h.n, 1); k <= h.want {
		if k == h.want {
			close(h.reached)
		}
		<-h.release
	}
}

func bHashDestinations(n, del int, add bool) {
	t := mon.NewTable("none", "none", false, "/nonexistent")
	key := fmt.Sprintf("bh%d", u())
	addrs := realRoute(t, key, n, "consistentHashing")
	rt := t.GetRoute(key)
	if add {
		addrs = append(addrs, mon.ReservedAddr())
	}
	var ks []string
	for _, a := range addrs {
		ks = append(ks, mon.KeyDestDropNoConn(mon.DestKey(key, a)))
	}
	const K = 48
	tag := u()
	line := func(i int) []byte { return []byte(fmt.Sprintf("c18.h%d.n%d 1 1", tag, i)) }
	// owner of every name: one line at a time, exactly one counter moves
	owners := func(what string) ([]int, bool) {
		out := make([]int, K)
		for i := 0; i < K; i++ {
			d := mon.NewDeltas(ks...)
			rt.Dispatch(line(i))
			waitCounters(d, ks, 1)
			out[i] = -1
			for j := range ks {
				if d.Get(ks[j]) == 1 && out[i] == -1 {
					out[i] = j
				} else if d.Get(ks[j]) != 0 {
					out[i] = -2
				}
			}
			if out[i] < 0 {
				var ds []string
				for j := range ks {
					ds = append(ds, fmt.Sprintf("d%d(%s):%d", j, addrs[j], d.Get(ks[j])))
				}
				res.Violate("hash-not-exactly-one", fmt.Sprintf("consistentHashing route with %d destinations (%s): the line %q moved the hand-off counters of not exactly one destination: %v", n, what, line(i), ds), map[string]interface{}{"destinations": n, "handoffs": ds})
				return nil, false
			}
		}
		return out, true
	}
	before, ok := owners("before the change")
	if !ok {
		return
	}
	what := fmt.Sprintf("DelDestination(%d)", del)
	if add {
		what = "Add(one more destination)"
	}
	res.LogCase("B hash-destinations n=%d %s", n, what)
	h := &multiHolder{point: "consistenthashing-after-load", want: K, reached: make(chan struct{}), release: make(chan struct{})}
	curMulti.Store(h)
	route.VerifPoint = multiHook
	d := mon.NewDeltas(ks...)
	var wg sync.WaitGroup
	panics := make(chan string, K)
	for i := 0; i < K; i++ {
		wg.Add(1)
		go func(i int) {
			defer wg.Done()
			defer func() {
				if r := recover(); r != nil {
					panics <- fmt.Sprint(r)
				}
			}()
			rt.Dispatch(line(i))
		}(i)
	}
	select {
	case <-h.reached:
	case <-time.After(20 * time.Second):
		res.Inconclusive("not all dispatchers reached consistenthashing-after-load")
		close(h.release)
		wg.Wait()
		curMulti.Store((*multiHolder)(nil))
		route.VerifPoint = hookFn
		shutdownRoute(t, key)
		return
	}
	if add {
		ds, err := mon.ParseDestinations(t, key, addrs[n]+" spool=false reconn=3600000")
		if err != nil || len(ds) != 1 {
			panic(fmt.Sprint("ParseDestinations: ", err))
		}
		rt.(interface {
			Add(*destination.Destination)
		}).Add(ds[0])
	} else {
		t.DelDestination(key, del)
	}
	close(h.release)
	done := make(chan struct{})
	go func() { wg.Wait(); close(done) }()
	select {
	case <-done:
	case <-time.After(30 * time.Second):
		res.Inconclusive("held consistent-hashing dispatchers did not return within 30s after the release")
		curMulti.Store((*multiHolder)(nil))
		route.VerifPoint = hookFn
		return
	}
	curMulti.Store((*multiHolder)(nil))
	route.VerifPoint = hookFn
	res.Eval(1)
	res.Count("interleavings_forced", 1)
	res.Count("hash_dispatchers_held", K)
	select {
	case p := <-panics:
		res.Violate("stale-dispatch:hash-panic", fmt.Sprintf("consistentHashing route with %d destinations, %d dispatchers held after loading the route snapshot, %s, released: Dispatch panicked: %s", n, K, what, p),
			map[string]interface{}{"destinations": n, "change": what, "panic": p})
		shutdownRoute(t, key)
		return
	default:
	}
	// every line is handed to somebody (the deleted destination may discard): wait for the counters
	lost := 0
	for i := range before {
		if !add && before[i] == del {
			lost++
		}
	}
	waitCounters(d, ks, int64(K-lost))
	time.Sleep(5 * time.Millisecond)
	got := make([]int64, len(ks))
	var gotS []string
	for j := range ks {
		got[j] = d.Get(ks[j])
		gotS = append(gotS, fmt.Sprintf("d%d:%d", j, got[j]))
	}
	// owners after the change (index space of addrs: a deleted destination keeps its slot, never an owner)
	var after []int
	{
		ksAfter := ks
		_ = ksAfter
		after, ok = owners("after the change")
		if !ok {
			shutdownRoute(t, key)
			return
		}
	}
	lo := make([]int64, len(ks))
	hi := make([]int64, len(ks))
	for i := 0; i < K; i++ {
		b, a := before[i], after[i]
		if b == a {
			lo[b]++
			hi[b]++
		} else {
			hi[b]++
			hi[a]++
		}
	}
	var total int64
	bad := ""
	for j := range ks {
		total += got[j]
		if !add && j == del {
			if got[j] > hi[j] {
				bad = fmt.Sprintf("the deleted destination d%d was handed %d lines, it owned %d of the held names", j, got[j], hi[j])
			}
			continue
		}
		if got[j] < lo[j] || got[j] > hi[j] {
			bad = fmt.Sprintf("destination d%d (in the table before and after) was handed %d of the held lines; it owns %d of the names under both tables and %d under either", j, got[j], lo[j], hi[j])
		}
	}
	if bad == "" && (total > K || total < int64(K-lost)) {
		bad = fmt.Sprintf("%d hand-offs for %d held lines (%d of them owned by the deleted destination)", total, K, lost)
	}
	if bad != "" {
		res.Violate("stale-dispatch:hash-destinations", fmt.Sprintf("consistentHashing route with %d destinations, %d dispatchers held after loading the route snapshot, %s, released: %s (hand-offs %v)", n, K, what, bad, gotS),
			map[string]interface{}{"destinations": n, "change": what, "handoffs": gotS, "owners_before": fmt.Sprint(before), "owners_after": fmt.Sprint(after)})
	} else {
		res.NonTrivial(fmt.Sprintf("B/hash/%d/%s", n, what))
	}
	shutdownRoute(t, key)
}

func bRoutes(n, del int) {
	t := mon.NewTable("none", "none", false, "/nonexistent")
	var caps []*mon.CaptureRoute
	for i := 0; i < n; i++ {
		c := mon.NewCaptureRoute(fmt.Sprintf("r%d", i), mustMatcher("", "", ""), nil)
		caps = append(caps, c)
		t.AddRoute(c)
	}
	line := fmt.Sprintf("c18.b.routes.%d 1 1", u())
	res.LogCase("B routes n=%d del=%d", n, del)
	ok, _, _ := interleave("dispatch-after-load", func() { t.Dispatch([]byte(line)) }, func() { t.DelRoute(fmt.Sprintf("r%d", del)) })
	res.Eval(1)
	if !ok {
		return
	}
	var got []string
	bad := false
	for i, c := range caps {
		got = append(got, fmt.Sprintf("r%d:%d", i, c.Len()))
		if i != del && c.Len() != 1 {
			bad = true
		}
	}
	if bad {
		res.Violate("stale-dispatch:routes", fmt.Sprintf("routes [r0..r%d], dispatcher held after loading the snapshot, DelRoute(r%d), released: deliveries per route %v (every route other than r%d must get the line exactly once)", n-1, del, got, del),
			map[string]interface{}{"routes": n, "deleted": del, "deliveries": got})
	} else {
		res.NonTrivial(fmt.Sprintf("B/routes/%d/%d", n, del))
	}
}

func bRewriters(n, del int) {
	t := mon.NewTable("none", "none", false, "/nonexistent")
	letters := "abcdef"
	apply := func(skip int) string {
		name := "m.x"
		for i := 0; i < n; i++ {
			if i == skip {
				continue
			}
			name = strings.Replace(name, "x", "x"+string(letters[i]), 1)
		}
		return name
	}
	for i := 0; i < n; i++ {
		rw, err := rewriter.New("x", "x"+string(letters[i]), "", 1)
		if err != nil {
			panic(err)
		}
		t.AddRewriter(rw)
	}
	c := mon.NewCaptureRoute("cap", mustMatcher("", "", ""), nil)
	t.AddRoute(c)
	res.LogCase("B rewriters n=%d del=%d", n, del)
	ok, _, _ := interleave("dispatch-after-load", func() { t.Dispatch([]byte("m.x 1 1")) }, func() { t.DelRewriter(del) })
	res.Eval(1)
	if !ok {
		return
	}
	lines := c.Lines()
	before, after := apply(-1)+" 1 1", apply(del)+" 1 1"
	if len(lines) != 1 || (lines[0] != before && lines[0] != after) {
		res.Violate("stale-dispatch:rewriters", fmt.Sprintf("%d rewriters, dispatcher held, DelRewriter(%d), released: delivered %q, but the list before gives %q and the list after gives %q", n, del, lines, before, after),
			map[string]interface{}{"rewriters": n, "deleted": del, "delivered": lines})
	} else {
		res.NonTrivial(fmt.Sprintf("B/rewriters/%d/%d", n, del))
	}
}

func bAggregators(n, del int) {
	t := mon.NewTable("none", "none", false, "/nonexistent")
	var aggs []*aggregator.Aggregator
	tag := u()
	for i := 0; i < n; i++ {
		a := newAgg(t, fmt.Sprintf("^c18agg%d\\.", tag), fmt.Sprintf("out%d.%d", tag, i))
		aggs = append(aggs, a)
		t.AddAggregator(a)
	}
	var ks []string
	for _, a := range aggs {
		ks = append(ks, mon.KeyAggIn(a.Key))
	}
	d := mon.NewDeltas(ks...)
	res.LogCase("B aggregators n=%d del=%d", n, del)
	line := fmt.Sprintf("c18agg%d.v 1 %d", tag, time.Now().Unix())
	ok, at, stack := interleave("dispatch-after-load", func() { t.Dispatch([]byte(line)) }, func() { quietStdout(func() { t.DelAggregator(del) }) })
	res.Eval(1)
	if !ok {
		res.Violate("dispatch-wedged:"+at, fmt.Sprintf("%d aggregations, dispatcher held after loading the table snapshot, DelAggregator(%d), released: the dispatcher never returns (parked in %s) - the line is skipped for every later aggregation and every route and the input connection is wedged", n, del, at),
			map[string]interface{}{"aggregators": n, "deleted": del, "stack": stack})
		return
	}
	// each surviving aggregator processes its inbox asynchronously: wait by bounded steps
	var surv []string
	for i := range aggs {
		if i != del {
			surv = append(surv, ks[i])
		}
	}
	waitCounters(d, surv, int64(n-1))
	time.Sleep(2 * time.Millisecond)
	var got []string
	bad := false
	for i := range aggs {
		v := d.Get(ks[i])
		got = append(got, fmt.Sprintf("a%d:%d", i, v))
		if i != del && v != 1 {
			bad = true
		}
	}
	if bad {
		res.Violate("stale-dispatch:aggregators", fmt.Sprintf("%d aggregations, dispatcher held, DelAggregator(%d), released: points taken in per aggregation %v (each surviving one must take the point exactly once)", n, del, got),
			map[string]interface{}{"aggregators": n, "deleted": del, "points_in": got})
	} else {
		res.NonTrivial(fmt.Sprintf("B/aggregators/%d/%d", n, del))
	}
	for i, a := range aggs {
		if i != del {
			a.Shutdown()
		}
	}
}

// bAggregatorInboxFull: the deleted aggregation's inbox has no free slot when the held dispatcher gets to it.
// In production the inbox has 2000 slots and fills up when points arrive faster than the aggregation takes them
// in (or when its final flush, which DelAggregator waits for, takes a while under traffic); here the inbox is
// scaled down to `slots` and `slots`+1 dispatchers hold the previous table, so the last one finds it full. The
// aggregation's loop has ended by then: whoever waits for a free slot waits forever, unless the hand-off gives up
// on a removed aggregation. A route that exists before and after must get every one of the lines exactly once.
func bAggregatorInboxFull(n, del, slots int) {
	t := mon.NewTable("none", "none", false, "/nonexistent")
	var aggs []*aggregator.Aggregator
	tag := u()
	for i := 0; i < n; i++ {
		a := newAggBuf(t, fmt.Sprintf("^c18aggf%d\\.", tag), fmt.Sprintf("outf%d.%d", tag, i), slots)
		aggs = append(aggs, a)
		t.AddAggregator(a)
	}
	cr := mon.NewCaptureRoute(fmt.Sprintf("capf%d", tag), mustMatcher("", "", ""), nil)
	t.AddRoute(cr)
	res.LogCase("B aggregator inbox full n=%d del=%d slots=%d", n, del, slots)
	k := slots + 1
	mh := &multiHolder{point: "dispatch-after-load", want: int32(k), reached: make(chan struct{}), release: make(chan struct{})}
	curMulti.Store(mh)
	table.VerifPoint = multiHook
	defer func() { curMulti.Store((*multiHolder)(nil)); table.VerifPoint = hookFn }()
	done := make([]chan struct{}, k)
	gids := make([]int64, k)
	var lines []string
	for i := 0; i < k; i++ {
		done[i] = make(chan struct{})
		line := fmt.Sprintf("c18aggf%d.v%d 1 %d", tag, i, time.Now().Unix())
		lines = append(lines, line)
		go func(i int, line string) {
			atomic.StoreInt64(&gids[i], curGID())
			t.Dispatch([]byte(line))
			close(done[i])
		}(i, line)
	}
	select {
	case <-mh.reached:
	case <-time.After(20 * time.Second):
		res.Inconclusive("inbox-full scenario: the dispatchers did not reach the hook point")
		close(mh.release)
		return
	}
	quietStdout(func() { t.DelAggregator(del) })
	close(mh.release)
	res.Count("interleavings_forced", 1)
	res.Eval(1)
	deadline := time.After(4 * time.Second)
	wedged := -1
	for i := 0; i < k && wedged < 0; i++ {
		select {
		case <-done[i]:
		case <-deadline:
			wedged = i
		}
	}
	if wedged >= 0 {
		b1 := goroutineBlock(atomic.LoadInt64(&gids[wedged]))
		time.Sleep(time.Second)
		select {
		case <-done[wedged]:
			res.Inconclusive("inbox-full scenario: dispatcher slow after release")
			return
		default:
		}
		b2 := goroutineBlock(atomic.LoadInt64(&gids[wedged]))
		f1, f2 := repoFrame(b1), repoFrame(b2)
		if f1 != "" && f1 == f2 {
			res.Violate("dispatch-wedged:"+f1, fmt.Sprintf("%d aggregations with an inbox of %d, %d dispatchers held after loading the table snapshot, DelAggregator(%d), released: a dispatcher never returns (parked in %s, waiting for room in the inbox of an aggregation whose loop has ended) - its line is skipped for every route and the input connection is wedged", n, slots, k, del, f1),
				map[string]interface{}{"aggregators": n, "deleted": del, "slots": slots, "stack": b2})
		} else {
			res.Inconclusive("inbox-full scenario: dispatcher slow after release but not parked at a stable repo frame")
		}
		return
	}
	got := map[string]int{}
	for _, l := range cr.Lines() {
		got[l]++
	}
	for _, l := range lines {
		if got[l] != 1 {
			res.Violate("stale-dispatch:agg-inbox-full", fmt.Sprintf("%d aggregations with an inbox of %d, %d dispatchers held, DelAggregator(%d), released: the route behind the aggregations got %q %d times (must be once)", n, slots, k, del, l, got[l]),
				map[string]interface{}{"aggregators": n, "deleted": del, "slots": slots})
			return
		}
	}
	res.NonTrivial(fmt.Sprintf("B/agg-inbox-full/%d/%d/%d", n, del, slots))
	for i, a := range aggs {
		if i != del {
			a.Shutdown()
		}
	}
}

func waitCounters(d *mon.Deltas, ks []string, want int64) {
	for step := 0; step < 6000; step++ {
		var sum int64
		for _, k := range ks {
			sum += d.Get(k)
		}
		if sum >= want {
			return
		}
		time.Sleep(time.Millisecond)
	}
}

func bDestinations(n, del int, kind string) {
	t := mon.NewTable("none", "none", false, "/nonexistent")
	key := fmt.Sprintf("bd%d", u())
	addrs := realRoute(t, key, n, kind)
	var ks []string
	for _, a := range addrs {
		ks = append(ks, mon.KeyDestDropNoConn(mon.DestKey(key, a)))
	}
	d := mon.NewDeltas(ks...)
	rt := t.GetRoute(key)
	point := strings.ToLower(kind) + "-after-load"
	res.LogCase("B destinations %s n=%d del=%d", kind, n, del)
	line := []byte(fmt.Sprintf("c18.b.dest.%d 1 1", u()))
	ok, at, stack := interleave(point, func() { rt.Dispatch(line) }, func() { t.DelDestination(key, del) })
	res.Eval(1)
	// admissible hand-offs per destination d[i] (all destinations accept everything):
	//  sendAllMatch:   every surviving destination exactly once, the deleted one 0 or 1
	//  sendFirstMatch: as the table before the change: d0 is the first match (if d0 is the deleted one its
	//                  hand-off may be discarded), nobody else; or as after: the first surviving one only
	admissible := func(v []int64) bool {
		if kind == "sendAllMatch" {
			for i := range v {
				if i != del && v[i] != 1 || v[i] > 1 {
					return false
				}
			}
			return true
		}
		var others int64
		for i := 1; i < len(v); i++ {
			if !(del == 0 && i == 1) {
				others += v[i]
			}
		}
		if others != 0 {
			return false
		}
		if del != 0 {
			return v[0] == 1
		}
		d1 := int64(0)
		if len(v) > 1 {
			d1 = v[1]
		}
		return (v[0] <= 1 && d1 == 0) || (v[0] == 0 && d1 == 1)
	}
	if !ok {
		res.Violate("dispatch-wedged:"+at, fmt.Sprintf("%s route with %d destinations, dispatcher held after loading the route snapshot, DelDestination(%d), released: the dispatcher never returns (parked in %s) - the line is skipped for every later destination and route and the input connection is wedged", kind, n, del, at),
			map[string]interface{}{"route_type": kind, "destinations": n, "deleted": del, "stack": stack})
		return
	}
	var want int64
	if kind == "sendAllMatch" {
		want = int64(n - 1)
	} else {
		want = 1
	}
	waitCounters(d, ks, want)
	time.Sleep(2 * time.Millisecond)
	var got []string
	var vals []int64
	for i := range addrs {
		v := d.Get(ks[i])
		vals = append(vals, v)
		got = append(got, fmt.Sprintf("d%d:%d", i, v))
	}
	bad := !admissible(vals)
	if bad {
		res.Violate("stale-dispatch:destinations", fmt.Sprintf("%s route with %d destinations, dispatcher held, DelDestination(%d), released: hand-offs per destination %v", kind, n, del, got),
			map[string]interface{}{"route_type": kind, "destinations": n, "deleted": del, "handoffs": got})
	} else {
		res.NonTrivial(fmt.Sprintf("B/dest/%s/%d/%d", kind, n, del))
	}
	shutdownRoute(t, key)
}

func shutdownRoute(t *table.Table, key string) {
	done := make(chan struct{})
	go func() { t.DelRoute(key); close(done) }()
	select {
	case <-done:
	case <-time.After(10 * time.Second):
	}
}

// a real carbon route is deleted while a dispatcher holds the table snapshot that still lists it
func bRealRouteDeleted(n, del int) {
	t := mon.NewTable("none", "none", false, "/nonexistent")
	var caps []*mon.CaptureRoute
	realKey := fmt.Sprintf("br%d", u())
	for i := 0; i < n; i++ {
		if i == del {
			realRoute(t, realKey, 1, "sendAllMatch")
			caps = append(caps, nil)
			continue
		}
		c := mon.NewCaptureRoute(fmt.Sprintf("r%d", i), mustMatcher("", "", ""), nil)
		caps = append(caps, c)
		t.AddRoute(c)
	}
	res.LogCase("B real-route-deleted n=%d del=%d", n, del)
	line := fmt.Sprintf("c18.b.rr.%d 1 1", u())
	ok, at, stack := interleave("dispatch-after-load", func() { t.Dispatch([]byte(line)) }, func() { t.DelRoute(realKey) })
	res.Eval(1)
	if !ok {
		res.Violate("dispatch-wedged:"+at, fmt.Sprintf("table with %d routes, dispatcher held after loading the table snapshot, DelRoute(<carbon route at index %d>), released: the dispatcher never returns (parked in %s) - later routes never get the line and the input connection is wedged", n, del, at),
			map[string]interface{}{"routes": n, "deleted_index": del, "stack": stack})
		return
	}
	var got []string
	bad := false
	for i, c := range caps {
		if c == nil {
			continue
		}
		got = append(got, fmt.Sprintf("r%d:%d", i, c.Len()))
		if c.Len() != 1 {
			bad = true
		}
	}
	if bad {
		res.Violate("stale-dispatch:routes", fmt.Sprintf("deleting the carbon route at index %d of %d while a dispatcher holds the old snapshot: deliveries %v", del, n, got),
			map[string]interface{}{"routes": n, "deleted_index": del, "deliveries": got})
	} else {
		res.NonTrivial(fmt.Sprintf("B/realroute/%d/%d", n, del))
	}
}

// ---------------------------------------------------------------- part B2
//
// several admin operations of different kinds are applied while one dispatcher is held
// after it loaded the snapshot: what that dispatcher then does must be what ONE version
// of the table (before the operations, or after the first k of them) prescribes.

type tver struct {
	black  []string    // blacklisted prefixes
	rws    [][2]string // literal rewriters old -> new (all occurrences)
	routes [][2]string // capture routes: key, prefix filter
}

func (v tver) clone() tver {
	return tver{append([]string(nil), v.black...), append([][2]string(nil), v.rws...), append([][2]string(nil), v.routes...)}
}

// process returns route key -> delivered line for one metric under this version.
func (v tver) process(name, rest string) map[string]string {
	out := map[string]string{}
	for _, b := range v.black {
		if strings.HasPrefix(name, b) {
			return out
		}
	}
	for _, rw := range v.rws {
		name = strings.Replace(name, rw[0], rw[1], -1)
	}
	for _, r := range v.routes {
		if strings.HasPrefix(name, r[1]) {
			out[r[0]] = name + rest
		}
	}
	return out
}

func partB2() {
	n := mon.N(150, 3000)
	words := []string{"foo", "bar", "baz", "qux"}
	for h := 0; h < n; h++ {
		r := mon.NewRng(mon.Seed(), 186, uint64(h))
		t := mon.NewTable("none", "none", false, "/nonexistent")
		caps := map[string]*mon.CaptureRoute{}
		var cur tver
		var hist []string
		addRoute := func() {
			k := fmt.Sprintf("m%d", len(caps))
			pf := r.Pick([]string{"", "", "foo", "bar", "ba", "q"})
			c := mon.NewCaptureRoute(k, mustMatcher(pf, "", ""), nil)
			caps[k] = c
			t.AddRoute(c)
			cur.routes = append(cur.routes, [2]string{k, pf})
			hist = append(hist, fmt.Sprintf("addRoute %s prefix=%q", k, pf))
		}
		op := func() {
			switch r.Intn(6) {
			case 0:
				addRoute()
			case 1:
				if len(cur.routes) > 0 {
					i := r.Intn(len(cur.routes))
					hist = append(hist, "delRoute "+cur.routes[i][0])
					t.DelRoute(cur.routes[i][0])
					cur.routes = append(cur.routes[:i:i], cur.routes[i+1:]...)
				}
			case 2:
				b := r.Pick(words)
				m := mustMatcher(b, "", "")
				t.AddBlacklist(&m)
				cur.black = append(cur.black, b)
				hist = append(hist, "addBlack prefix "+b)
			case 3:
				if len(cur.black) > 0 {
					i := r.Intn(len(cur.black))
					hist = append(hist, fmt.Sprintf("delBlack %d", i))
					t.DelBlacklist(i)
					cur.black = append(cur.black[:i:i], cur.black[i+1:]...)
				}
			case 4:
				o, nw := r.Pick(words), r.Pick(words)+r.Pick([]string{"", "x"})
				rw, err := rewriter.New(o, nw, "", -1)
				if err == nil {
					t.AddRewriter(rw)
					cur.rws = append(cur.rws, [2]string{o, nw})
					hist = append(hist, fmt.Sprintf("addRewriter %s %s -1", o, nw))
				}
			case 5:
				if len(cur.rws) > 0 {
					i := r.Intn(len(cur.rws))
					hist = append(hist, fmt.Sprintf("delRewriter %d", i))
					t.DelRewriter(i)
					cur.rws = append(cur.rws[:i:i], cur.rws[i+1:]...)
				}
			}
		}
		for i := 0; i < r.Range(1, 3); i++ {
			addRoute()
		}
		for i := 0; i < r.Range(0, 4); i++ {
			op()
		}
		setup := len(hist)
		versions := []tver{cur.clone()}
		name := r.Pick(words) + "." + r.Pick(words)
		rest := fmt.Sprintf(" %d 1", u())
		res.LogCase("B2 history %d", h)
		nops := r.Range(2, 4)
		ok, _, _ := interleave("dispatch-after-load", func() { t.Dispatch([]byte(name + rest)) }, func() {
			for i := 0; i < nops; i++ {
				op()
				versions = append(versions, cur.clone())
			}
		})
		res.Eval(1)
		if !ok {
			continue
		}
		got := map[string][]string{}
		for k, c := range caps {
			if l := c.Lines(); len(l) > 0 {
				got[k] = l
			}
		}
		match := -1
		for vi, v := range versions {
			want := v.process(name, rest)
			same := len(want) == len(got)
			for k, l := range want {
				if g := got[k]; len(g) != 1 || g[0] != l {
					same = false
				}
			}
			if same {
				match = vi
				break
			}
		}
		if match < 0 {
			var wants []string
			for vi, v := range versions {
				wants = append(wants, fmt.Sprintf("T%d:%v", vi, v.process(name, rest)))
			}
			res.Violate("mixed-table-versions", fmt.Sprintf("metric %q dispatched by a dispatcher held while %d admin operations were applied was delivered as %v, which no single version of the table prescribes (%s)", name, nops, got, strings.Join(wants, " ")),
				map[string]interface{}{"setup": hist[:setup], "operations_while_held": hist[setup:], "metric": name, "delivered": got})
		} else {
			distinct := map[string]bool{}
			for _, v := range versions {
				distinct[fmt.Sprint(v.process(name, rest))] = true
			}
			if len(distinct) > 1 {
				res.NonTrivial(fmt.Sprintf("B2/%d", h))
			}
		}
		res.Count("multi_op_interleavings", 1)
	}
}

// ---------------------------------------------------------------- part C

func partC() {
	nh := mon.N(12, 400)
	for h := 0; h < nh; h++ {
		if !mon.Mine(h) {
			continue
		}
		r := mon.NewRng(mon.Seed(), 183, uint64(h))
		res.LogCase("C history %d", h)
		t := mon.NewTable("none", "none", false, "/nonexistent")
		tag := u()
		prefix := fmt.Sprintf("c18c%d.", tag)
		// stable capture routes interleaved with transient ones
		var stable []*mon.CaptureRoute
		var transient []string
		nextT := 0
		addTransient := func() {
			k := fmt.Sprintf("t%d_%d", tag, nextT)
			nextT++
			t.AddRoute(mon.NewCaptureRoute(k, mustMatcher("", "", ""), nil))
			transient = append(transient, k)
		}
		for i := 0; i < 3; i++ {
			for j := 0; j < r.Range(0, 2); j++ {
				addTransient()
			}
			c := mon.NewCaptureRoute(fmt.Sprintf("stable%d", i), mustMatcher(prefix, "", ""), nil)
			stable = append(stable, c)
			t.AddRoute(c)
		}
		addTransient()
		// a real route whose filter and destination filter are modified (never matching our traffic... or always)
		realKey := fmt.Sprintf("cr%d", tag)
		addrs := realRoute(t, realKey, 2, "sendAllMatch")
		dks := []string{mon.KeyDestDropNoConn(mon.DestKey(realKey, addrs[0])), mon.KeyDestDropNoConn(mon.DestKey(realKey, addrs[1]))}
		dd := mon.NewDeltas(dks...)
		const D = 8
		per := mon.N(1500, 4000)
		var wg sync.WaitGroup
		stop := make(chan struct{})
		// admin stream
		var ops int64
		var adminWg sync.WaitGroup
		adminWg.Add(1)
		go func() {
			defer adminWg.Done()
			ra := mon.NewRng(mon.Seed(), 184, uint64(h))
			var nb, nrw, nagg int
			for {
				select {
				case <-stop:
					return
				default:
				}
				switch ra.Intn(12) {
				case 0, 1:
					addTransient()
				case 2, 3, 4:
					if len(transient) > 0 {
						i := ra.Intn(len(transient))
						t.DelRoute(transient[i])
						transient = append(transient[:i], transient[i+1:]...)
					}
				case 5:
					m := mustMatcher("neverA.", "", "")
					t.AddBlacklist(&m)
					nb++
				case 6:
					if nb > 0 {
						t.DelBlacklist(ra.Intn(nb))
						nb--
					}
				case 7:
					rw, _ := rewriter.New("neverB", "x", "", -1)
					t.AddRewriter(rw)
					nrw++
				case 8:
					if nrw > 0 {
						t.DelRewriter(ra.Intn(nrw))
						nrw--
					}
				case 9:
					if nagg < 4 {
						t.AddAggregator(newAgg(t, "^neverC\\.", "o"))
						nagg++
					} else {
						quietStdout(func() { t.DelAggregator(ra.Intn(nagg)) })
						nagg--
					}
				case 10:
					// route filter alternates between two filters that both accept all our traffic
					if ra.Bool() {
						t.UpdateRoute(realKey, map[string]string{"prefix": prefix})
					} else {
						t.UpdateRoute(realKey, map[string]string{"prefix": "", "sub": "c18c"})
					}
				case 11:
					t.UpdateDestination(realKey, ra.Intn(2), map[string]string{"prefix": prefix[:ra.Range(1, len(prefix))]})
				}
				atomic.AddInt64(&ops, 1)
				time.Sleep(time.Duration(ra.Intn(300)) * time.Microsecond)
			}
		}()
		for di := 0; di < D; di++ {
			wg.Add(1)
			go func(di int) {
				defer wg.Done()
				for i := 0; i < per; i++ {
					t.Dispatch([]byte(fmt.Sprintf("%sd%d.n%d 1 1", prefix, di, i)))
				}
			}(di)
		}
		wdone := make(chan struct{})
		go func() { wg.Wait(); close(wdone) }()
		select {
		case <-wdone:
		case <-time.After(120 * time.Second):
			res.Inconclusive(fmt.Sprintf("C history %d: dispatchers did not finish within 120s", h))
			close(stop)
			continue
		}
		close(stop)
		adminWg.Wait()
		total := D * per
		for si, c := range stable {
			seen := map[string]int{}
			for _, l := range c.Lines() {
				seen[l]++
			}
			dups, miss := 0, total-len(seen)
			var ex string
			for l, k := range seen {
				if k > 1 {
					dups++
					ex = l
				}
			}
			if dups > 0 || miss > 0 {
				res.Violate("concurrent-admin:stable-route-miscount", fmt.Sprintf("under %d concurrent admin operations stable route #%d received %d lines twice (e.g. %q) and missed %d of %d", atomic.LoadInt64(&ops), si, dups, ex, miss, total),
					map[string]interface{}{"history": h, "dispatchers": D, "lines": total, "admin_ops": atomic.LoadInt64(&ops)})
				break
			}
		}
		waitCounters(dd, dks, int64(2*total))
		for i, k := range dks {
			if v := dd.Get(k); v != int64(total) {
				res.Violate("concurrent-admin:stable-destination-miscount", fmt.Sprintf("under concurrent filter updates destination #%d of the stable carbon route was handed %d of %d lines", i, v, total),
					map[string]interface{}{"history": h})
				break
			}
		}
		res.Count("admin_ops_concurrent", int(atomic.LoadInt64(&ops)))
		res.Count("lines_dispatched_concurrent", total)
		res.Eval(1)
		res.NonTrivial(fmt.Sprintf("C/%d", h))
		shutdownRoute(t, realKey)
	}
}

// ---------------------------------------------------------------- part E

func partE() {
	nh := mon.N(100, 6000)
	for h := 0; h < nh; h++ {
		if !mon.Mine(h) {
			continue
		}
		r := mon.NewRng(mon.Seed(), 185, uint64(h))
		t := mon.NewTable("none", "none", false, "/nonexistent")
		var mRoutes, mBlack, mRw, mAgg []string
		var hist []string
		fail := func(sig, msg string) {
			res.Violate(sig, msg, map[string]interface{}{"history": hist})
		}
		check := func() bool {
			s := t.Snapshot()
			var gr, gb, grw, ga []string
			for _, x := range s.Routes {
				gr = append(gr, x.Key)
			}
			for _, x := range s.Blacklist {
				gb = append(gb, x.Prefix)
			}
			for _, x := range s.Rewriters {
				grw = append(grw, x.Old)
			}
			for _, x := range s.Aggregators {
				ga = append(ga, x.Matcher.Regex)
			}
			if strings.Join(gr, ",") != strings.Join(mRoutes, ",") {
				fail("view:routes", fmt.Sprintf("table view lists routes %v, the sequence of changes applied gives %v", gr, mRoutes))
				return false
			}
			if strings.Join(gb, ",") != strings.Join(mBlack, ",") {
				fail("view:blacklist", fmt.Sprintf("table view lists blacklist %v, expected %v", gb, mBlack))
				return false
			}
			if strings.Join(grw, ",") != strings.Join(mRw, ",") {
				fail("view:rewriters", fmt.Sprintf("table view lists rewriters %v, expected %v", grw, mRw))
				return false
			}
			if strings.Join(ga, ",") != strings.Join(mAgg, ",") {
				fail("view:aggregators", fmt.Sprintf("table view lists aggregations %v, expected %v", ga, mAgg))
				return false
			}
			return true
		}
		delAt := func(m []string, i int) []string {
			out := append([]string(nil), m[:i]...)
			return append(out, m[i+1:]...)
		}
		nops := r.Range(10, 60)
		okh := true
		for op := 0; op < nops && okh; op++ {
			switch r.Intn(10) {
			case 0, 1:
				k := fmt.Sprintf("e%d", u())
				t.AddRoute(mon.NewCaptureRoute(k, mustMatcher("", "", ""), nil))
				mRoutes = append(mRoutes, k)
				hist = append(hist, "addRoute "+k)
			case 2:
				if len(mRoutes) > 0 && r.Chance(3, 4) {
					i := r.Intn(len(mRoutes))
					hist = append(hist, "delRoute "+mRoutes[i])
					if err := t.DelRoute(mRoutes[i]); err != nil {
						fail("view:delroute-error", err.Error())
						okh = false
					}
					mRoutes = delAt(mRoutes, i)
				} else {
					hist = append(hist, "delRoute unknown")
					if err := t.DelRoute("no-such-route"); err != nil {
						fail("view:delroute-unknown-error", "deleting an unknown route returned an error: "+err.Error())
						okh = false
					}
				}
			case 3:
				p := fmt.Sprintf("bl%d.", u())
				m := mustMatcher(p, "", "")
				t.AddBlacklist(&m)
				mBlack = append(mBlack, p)
				hist = append(hist, "addBlack "+p)
			case 4:
				i := r.Intn(len(mBlack) + 2)
				hist = append(hist, fmt.Sprintf("delBlack %d (of %d)", i, len(mBlack)))
				err := t.DelBlacklist(i)
				if i < len(mBlack) {
					mBlack = delAt(mBlack, i)
					if err != nil {
						fail("view:del-error", "DelBlacklist with a valid index failed: "+err.Error())
						okh = false
					}
				} else if err == nil {
					fail("view:index-beyond-end-accepted", fmt.Sprintf("DelBlacklist(%d) on a list of %d returned no error", i, len(mBlack)))
					okh = false
				}
			case 5:
				o := fmt.Sprintf("old%d", u())
				rw, _ := rewriter.New(o, "n", "", -1)
				t.AddRewriter(rw)
				mRw = append(mRw, o)
				hist = append(hist, "addRewriter "+o)
			case 6:
				i := r.Intn(len(mRw) + 2)
				hist = append(hist, fmt.Sprintf("delRewriter %d (of %d)", i, len(mRw)))
				err := t.DelRewriter(i)
				if i < len(mRw) {
					mRw = delAt(mRw, i)
					if err != nil {
						fail("view:del-error", "DelRewriter with a valid index failed: "+err.Error())
						okh = false
					}
				} else if err == nil {
					fail("view:index-beyond-end-accepted", fmt.Sprintf("DelRewriter(%d) on a list of %d returned no error", i, len(mRw)))
					okh = false
				}
			case 7:
				if len(mAgg) < 5 {
					re := fmt.Sprintf("^ea%d\\.", u())
					t.AddAggregator(newAgg(t, re, "o"))
					mAgg = append(mAgg, re)
					hist = append(hist, "addAgg "+re)
				}
			case 8:
				i := r.Intn(len(mAgg) + 2)
				hist = append(hist, fmt.Sprintf("delAgg %d (of %d)", i, len(mAgg)))
				var err error
				quietStdout(func() { err = t.DelAggregator(i) })
				if i < len(mAgg) {
					mAgg = delAt(mAgg, i)
					if err != nil {
						fail("view:del-error", "DelAggregator with a valid index failed: "+err.Error())
						okh = false
					}
				} else if err == nil {
					fail("view:index-beyond-end-accepted", fmt.Sprintf("DelAggregator(%d) on a list of %d returned no error", i, len(mAgg)))
					okh = false
				}
			case 9:
				hist = append(hist, "delDestination on unknown route / capture route")
				if err := t.DelDestination("no-such-route", 0); err == nil {
					fail("view:deldest-unknown-accepted", "DelDestination on an unknown route returned no error")
					okh = false
				}
			}
			if okh && !check() {
				okh = false
			}
			res.Count("sequential_ops_checked", 1)
		}
		// leftover aggregators: stop their goroutines
		_, _, _, aggs := t.VerifC18Slices()
		for _, a := range aggs {
			a.Shutdown()
		}
		res.Eval(1)
		if len(hist) > 0 && h < 2 {
			res.Sample(map[string]interface{}{"sequential_history": hist})
		}
	}
	// destination index beyond the end on a real route
	t := mon.NewTable("none", "none", false, "/nonexistent")
	key := fmt.Sprintf("ed%d", u())
	realRoute(t, key, 3, "sendAllMatch")
	for _, i := range []int{3, 4, 100} {
		if err := t.DelDestination(key, i); err == nil {
			res.Violate("view:index-beyond-end-accepted", fmt.Sprintf("DelDestination(%d) on a route with 3 destinations returned no error", i), nil)
		}
	}
	if n := len(t.Snapshot().Routes[0].Dests); n != 3 {
		res.Violate("view:destinations", fmt.Sprintf("rejected DelDestination calls changed the destination list (%d left of 3)", n), nil)
	}
	if err := t.DelDestination(key, 1); err != nil || len(t.Snapshot().Routes[0].Dests) != 2 {
		res.Violate("view:destinations", "DelDestination(1) on 3 destinations did not leave 2", nil)
	}
	shutdownRoute(t, key)
	eDestinationViews()
}

// eDestinationViews: a route's destination list after a sequence of DelDestination calls is the configured list
// without the deleted entries, in configured order (sendFirstMatch depends on the order; a delete that moves
// another destination into the freed slot changes which destination is "first").
func eDestinationViews() {
	nh := mon.N(3, 40)
	idx := 0
	for _, kind := range []string{"sendAllMatch", "sendFirstMatch", "consistentHashing"} {
		for h := 0; h < nh; h++ {
			idx++
			if !mon.Mine(idx) {
				continue
			}
			r := mon.NewRng(mon.Seed(), 187, uint64(idx))
			n := r.Range(3, 6)
			if h == 0 {
				n = 5
			}
			t := mon.NewTable("none", "none", false, "/nonexistent")
			key := fmt.Sprintf("ev%d", u())
			model := append([]string(nil), realRoute(t, key, n, kind)...)
			var hist []string
			res.LogCase("E destination views %s n=%d", kind, n)
			for len(model) > 1 {
				del := r.Intn(len(model))
				if h == 0 && len(model) == n {
					del = 0 // the first delete of the first history frees the first slot of five
				}
				hist = append(hist, fmt.Sprintf("DelDestination(%d)", del))
				if err := t.DelDestination(key, del); err != nil {
					res.Violate("view:deldest-rejected", fmt.Sprintf("%s route with %d destinations: %s returned %v", kind, len(model), hist[len(hist)-1], err), map[string]interface{}{"history": hist})
					break
				}
				model = append(append([]string(nil), model[:del]...), model[del+1:]...)
				var got []string
				for _, rs := range t.Snapshot().Routes {
					if rs.Key == key {
						for _, d := range rs.Dests {
							got = append(got, d.Addr)
						}
					}
				}
				if strings.Join(got, " ") != strings.Join(model, " ") {
					res.Violate("view:destination-order", fmt.Sprintf("%s route, %d destinations configured, after %v the view lists %v, the configured order without the deleted entries is %v", kind, n, hist, got, model), map[string]interface{}{"history": hist, "kind": kind})
					break
				}
				res.Count("destination_views_compared", 1)
			}
			res.Eval(1)
			res.NonTrivial(fmt.Sprintf("E/destviews/%s/%d", kind, n))
			shutdownRoute(t, key)
		}
	}
}

// ---------------------------------------------------------------- part F: one change, several options
//
// modRoute may set several filter options at once. That is ONE change: traffic must see the filter as it was
// before or as it is after, never a mixture of old and new options; and a change that is rejected because one of
// its options is invalid must leave the filter as it was.
func partF() {
	nRej := mon.N(24, 400)
	for i := 0; i < nRej; i++ {
		if !mon.Mine(i) {
			continue
		}
		fRejected(i)
	}
	nTog := mon.N(2, 24)
	for i := 0; i < nTog; i++ {
		if !mon.Mine(i) {
			continue
		}
		fToggle(i)
	}
}

var fOptVals = map[string][]string{
	"prefix": {"aaa.", "bbb.", "c18f", ""}, "notPrefix": {"zzz", "aaa.x", ""}, "sub": {".x.", "w1", ""}, "notSub": {"qq", ".y.", ""},
	"regex": {"^[ab]+\\.", "w[0-9]+$", ""}, "notRegex": {"k9$", "^bbb\\.y", ""},
}

func fProbes() []string {
	var out []string
	for _, a := range []string{"aaa.", "bbb.", "c18f.", "zzz.", "aaa.x."} {
		for _, b := range []string{"x.", "y.", "w1.", "qq."} {
			for _, c := range []string{"w7", "k9", "w12", "end"} {
				out = append(out, a+b+c)
			}
		}
	}
	return out
}

func fRejected(idx int) {
	r := mon.NewRng(mon.Seed(), 1801, uint64(idx))
	t := mon.NewTable("none", "none", false, "/nonexistent")
	key := fmt.Sprintf("fr%d", u())
	realRoute(t, key, 1, "sendAllMatch")
	defer shutdownRoute(t, key)
	rt := t.GetRoute(key)
	names := []string{"prefix", "notPrefix", "sub", "notSub", "regex", "notRegex"}
	cur := map[string]string{}
	decisions := func() string {
		var b strings.Builder
		for _, p := range fProbes() {
			if rt.Match([]byte(p)) {
				b.WriteByte('1')
			} else {
				b.WriteByte('0')
			}
		}
		return b.String()
	}
	for step := 0; step < 6; step++ {
		opts := map[string]string{}
		for _, k := range r.Perm(len(names))[:r.Range(2, 4)] {
			opts[names[k]] = r.Pick(fOptVals[names[k]])
		}
		invalid := r.Chance(1, 2)
		if invalid {
			opts[r.Pick([]string{"regex", "notRegex"})] = r.Pick([]string{"(", "a[", "x{2,1}", "(?P<n"})
		}
		before := decisions()
		res.LogCase("F rejected %d step %d: UpdateRoute %v (invalid=%v)", idx, step, opts, invalid)
		err := t.UpdateRoute(key, opts)
		after := decisions()
		res.Count("multi_option_changes", 1)
		w := map[string]interface{}{"options_set_in_one_change": fmt.Sprint(opts), "filter_before": fmt.Sprint(cur), "error": fmt.Sprint(err)}
		if invalid {
			if err == nil {
				res.Violate("invalid-change-accepted", fmt.Sprintf("modRoute with options %v (one of them is not a valid regex) returned no error", opts), w)
				return
			}
			if before != after {
				res.Violate("rejected-change-applied", fmt.Sprintf("modRoute with options %v was rejected (%v) but the route's filter changed: decisions for %d probe names were %s, are %s", opts, err, len(fProbes()), before, after), w)
				return
			}
			res.Count("rejected_changes_checked", 1)
			continue
		}
		if err != nil {
			res.Violate("valid-change-rejected", fmt.Sprintf("modRoute with valid options %v was rejected: %v", opts, err), w)
			return
		}
		for k, v := range opts {
			cur[k] = v
		}
		f, ferr := oracleFilter(cur)
		if ferr != nil {
			panic(ferr)
		}
		for _, p := range fProbes() {
			if got, want := rt.Match([]byte(p)), f(p); got != want {
				res.Violate("multi-option-change-wrong", fmt.Sprintf("after modRoute %v the filter should be %v: decision for %q is %v, expected %v", opts, cur, p, got, want), w)
				return
			}
		}
	}
	res.Eval(1)
	res.NonTrivial(fmt.Sprintf("F/rejected/%d", idx))
}

// oracleFilter: conjunction of the options that are set (Go regexp / strings, nothing from the relay)
func oracleFilter(o map[string]string) (func(string) bool, error) {
	var re, nre *regexp.Regexp
	var err error
	if o["regex"] != "" {
		if re, err = regexp.Compile(o["regex"]); err != nil {
			return nil, err
		}
	}
	if o["notRegex"] != "" {
		if nre, err = regexp.Compile(o["notRegex"]); err != nil {
			return nil, err
		}
	}
	return func(n string) bool {
		if o["prefix"] != "" && !strings.HasPrefix(n, o["prefix"]) {
			return false
		}
		if o["notPrefix"] != "" && strings.HasPrefix(n, o["notPrefix"]) {
			return false
		}
		if o["sub"] != "" && !strings.Contains(n, o["sub"]) {
			return false
		}
		if o["notSub"] != "" && strings.Contains(n, o["notSub"]) {
			return false
		}
		if re != nil && !re.MatchString(n) {
			return false
		}
		if nre != nil && nre.MatchString(n) {
			return false
		}
		return true
	}, nil
}

func fToggle(idx int) {
	r := mon.NewRng(mon.Seed(), 1802, uint64(idx))
	t := mon.NewTable("none", "none", false, "/nonexistent")
	key := fmt.Sprintf("ft%d", u())
	realRoute(t, key, 1, "sendAllMatch")
	defer shutdownRoute(t, key)
	// large alternations: compiling one takes milliseconds, which is how long a filter published option by option
	// would stay half-applied
	alt := func(suffix string) string {
		var w []string
		for i := 0; i < 3000; i++ {
			w = append(w, fmt.Sprintf("w%d%s", i, suffix))
		}
		return `\.(` + strings.Join(w, "|") + `)\.`
	}
	f1 := map[string]string{"prefix": "aaa.", "regex": alt("x")}
	f2 := map[string]string{"prefix": "bbb.", "regex": alt("y")}
	if err := t.UpdateRoute(key, f1); err != nil {
		panic(err)
	}
	// these match the new prefix with the old regex or the other way round: never a complete old or new filter
	hybrids := []string{"bbb.w7x.k 1 1", "aaa.w7y.k 1 1", "bbb.w2999x.k 1 1", "aaa.w0y.k 1 1"}
	toggles := r.Range(20, 40)
	res.LogCase("F toggle %d: %d two-option changes under traffic", idx, toggles)
	d := mon.NewDeltas(mon.KeyUnroutable)
	var dispatched int64
	stop := make(chan struct{})
	var wg sync.WaitGroup
	for g := 0; g < 3; g++ {
		wg.Add(1)
		go func(g int) {
			defer wg.Done()
			for i := 0; ; i++ {
				select {
				case <-stop:
					return
				default:
				}
				t.Dispatch([]byte(hybrids[(i+g)%len(hybrids)]))
				atomic.AddInt64(&dispatched, 1)
			}
		}(g)
	}
	for k := 0; k < toggles; k++ {
		f := f2
		if k%2 == 1 {
			f = f1
		}
		if err := t.UpdateRoute(key, f); err != nil {
			panic(err)
		}
	}
	close(stop)
	wg.Wait()
	n := atomic.LoadInt64(&dispatched)
	for step := 0; step < 2000 && d.Get(mon.KeyUnroutable) < n; step++ {
		time.Sleep(time.Millisecond)
	}
	un := d.Get(mon.KeyUnroutable)
	res.Count("two_option_changes_under_traffic", toggles)
	res.Count("hybrid_lines_dispatched", int(n))
	res.Eval(1)
	if un != n {
		res.Violate("half-applied-change", fmt.Sprintf("a route was switched %d times between {prefix=aaa. regex=..x..} and {prefix=bbb. regex=..y..} (one modRoute each) while %d lines were dispatched that match neither filter (new prefix with old regex or old prefix with new regex): %d of them were routed (unroutable moved by %d)", toggles, n, n-un, un),
			map[string]interface{}{"changes": toggles, "lines": n, "unroutable": un, "example_lines": hybrids})
		return
	}
	if n > 100 {
		res.NonTrivial(fmt.Sprintf("F/toggle/%d", idx))
	}
}

func main() {
	res = mon.NewResult("C18")
	res.Rule = "A: every (list length 1..6, delete index) for routes/blacklist/rewriters/aggregators/destinations(3 route types) + add/delete histories, snapshot compared element-wise after the operation; B: the same grid with a dispatcher held at the after-load hook while the delete happens (capture routes, non-idempotent rewriters, counting aggregators, real destinations, real route deleted); C: 8 dispatchers x free-running admin operations; E: random sequential histories vs model list; F: modRoute changes that set several filter options at once (rejected ones must change nothing; applied ones are never visible half-applied to traffic). non-trivial = a forced interleaving / concurrent history that completed with all its monitors evaluated; distinct = (part, kind, length, index) or history index"
	res.Assume("capture routes stand for routes at table level; destinations point at refusing ports so each hand-off shows once in conn_down_no_spool")
	res.Assume("a dispatcher that does not return within 4s and is parked at the same repo frame in two samples is wedged (normal latency is microseconds)")
	sh, _ := mon.Shard()
	res.Sample(map[string]interface{}{"forced_interleaving": "routes [r0 r1 r2 r3]: dispatcher held at table dispatch-after-load, DelRoute(r0), released; expect r1,r2,r3 exactly once"})
	if sh == 0 {
		partA()
		partB()
		partB2()
		curHolder.Store((*holder)(nil))
	}
	partC()
	partE()
	partF()
	if sh == 0 {
		fi, _ := res.Extra["interleavings_forced"].(int)
		res.Floor("interleavings_forced", fi, 100)
		sc, _ := res.Extra["snapshot_comparisons"].(int)
		res.Floor("snapshot_comparisons", sc, 150)
	}
	res.Write()
}
