// C10 — aggregations emit exactly one correct point per bucket, once, in order.
//
// One real aggregator.Aggregator (aggregator.NewMocked) per history, on a
// harness clock and an unbuffered tick channel. The harness serialises the
// history black-box: a point is handed over with AddMaybe and the harness waits
// (bounded steps of Snapshot() round trips, which go through the aggregator's
// own goroutine) until the rule's direction=in counter has moved; a tick is sent
// on the unbuffered channel and followed by a Snapshot() round trip; the output
// channel is drained concurrently into an ordered log which is collected after
// every event through a sentinel the harness itself sends on that channel.
// So each history is one deterministic interleaving and the generator produces
// the interleavings.
//
// Oracle: oracle.AggModel (bucket = ts − ts mod interval; open / late-but-unflushed
// / closed point classes; ten functions re-implemented from docs/aggregation.md).
package main

import (
	"encoding/json"
	"fmt"
	"os"
	"regexp"
	"strconv"
	"strings"
	"sync"
	"sync/atomic"
	"time"

	"github.com/grafana/carbon-relay-ng/aggregator"
	"github.com/grafana/carbon-relay-ng/matcher"

	"verifharness/mon"
	"verifharness/oracle"
)

// ---------------------------------------------------------------------------
// rule shapes: the expected output name is known by construction

type shape struct {
	Regex string
	Fmt   string
	out   func(dc, host, metric, name string) string
	desc  string
}

var shapes = []shape{
	{`^c10\.d[0-9]\.h[0-9]+\.[a-z]+$`, `agg.c10.all`, func(dc, host, metric, name string) string { return "agg.c10.all" }, "no group: every input name -> one output name"},
	{`^c10\.(d[0-9])\.h[0-9]+\.[a-z]+$`, `agg.$1.total`, func(dc, host, metric, name string) string { return "agg." + dc + ".total" }, "$1: several input names per output name, several output names"},
	{`^c10\.(d[0-9])\.h[0-9]+\.([a-z]+)$`, `agg.$2.by.$1.x`, func(dc, host, metric, name string) string { return "agg." + metric + ".by." + dc + ".x" }, "$2 and $1 swapped"},
	{`^(c10\.d[0-9]\.h[0-9]+\.[a-z]+)$`, `$1`, func(dc, host, metric, name string) string { return name }, "identity: one output name per input name"},
	{`^c10\.(d[0-9])\.(h[0-9]+)\.[a-z]+$`, `agg.${1}_${2}.r`, func(dc, host, metric, name string) string { return "agg." + dc + "_" + host + ".r" }, "${1}_${2}: braces next to literals"},
	// long output names whose lengths sit on and next to allocator size classes (32, 33, 48, 64 bytes)
	{`^c10\.(d[0-9])\.h[0-9]+\.[a-z]+$`, `agg.$1.` + pad(25), func(dc, host, metric, name string) string { return "agg." + dc + "." + pad(25) }, "32-byte output name"},
	{`^c10\.(d[0-9])\.h[0-9]+\.[a-z]+$`, `agg.$1.` + pad(26), func(dc, host, metric, name string) string { return "agg." + dc + "." + pad(26) }, "33-byte output name"},
	{`^c10\.(d[0-9])\.h[0-9]+\.[a-z]+$`, `agg.$1.` + pad(41), func(dc, host, metric, name string) string { return "agg." + dc + "." + pad(41) }, "48-byte output name"},
	{`^c10\.(d[0-9])\.h[0-9]+\.[a-z]+$`, `agg.$1.` + pad(57), func(dc, host, metric, name string) string { return "agg." + dc + "." + pad(57) }, "64-byte output name"},
}

func pad(n int) string { return strings.Repeat("requests_total_", n/15+1)[:n] }

// optional filters, each with the predicate it documents
type filt struct {
	Field string // prefix, notPrefix, sub, notSub, notRegex
	Pat   string
	ok    func(name string) bool // true = the name passes this filter
}

var filters = []filt{
	{"prefix", "c10.", func(n string) bool { return strings.HasPrefix(n, "c10.") }},
	{"prefix", "c10.d1", func(n string) bool { return strings.HasPrefix(n, "c10.d1") }},
	{"notPrefix", "c10.d2", func(n string) bool { return !strings.HasPrefix(n, "c10.d2") }},
	{"sub", ".h1.", func(n string) bool { return strings.Contains(n, ".h1.") }},
	{"sub", "c", func(n string) bool { return strings.Contains(n, "c") }},
	{"notSub", "mem", func(n string) bool { return !strings.Contains(n, "mem") }},
	{"notRegex", `\.h3\.`, func(n string) bool { return !strings.Contains(n, ".h3.") }},
	{"notRegex", `^c10\.d0\..*io$`, func(n string) bool { return !(strings.HasPrefix(n, "c10.d0.") && strings.HasSuffix(n, "io")) }},
}

var dcs = []string{"d0", "d1", "d2"}
var hosts = []string{"h0", "h1", "h2", "h3", "h10"}
var metricNames = []string{"cpu", "mem", "io"}

type Rule struct {
	Fun      string `json:"fun"`
	Interval uint   `json:"interval"`
	Wait     uint   `json:"wait"`
	Cache    bool   `json:"cache"`
	DropRaw  bool   `json:"dropRaw"`
	InBuf    int    `json:"inBuf"`
	Shape    int    `json:"shape"`
	Filters  []int  `json:"filters"`
	// rendered
	Regex     string `json:"regex"`
	Fmt       string `json:"fmt"`
	Prefix    string `json:"prefix,omitempty"`
	NotPrefix string `json:"notPrefix,omitempty"`
	Sub       string `json:"sub,omitempty"`
	NotSub    string `json:"notSub,omitempty"`
	NotRegex  string `json:"notRegex,omitempty"`
}

// Ev is one event of a history.
type Ev struct {
	K     string  `json:"k"` // p = point, t = tick, c = clock step
	Name  string  `json:"name,omitempty"`
	Val   float64 `json:"v,omitempty"`
	Ts    uint32  `json:"ts,omitempty"`
	Match bool    `json:"match,omitempty"`
	Out   string  `json:"out,omitempty"` // expected expanded name (by construction)
	Ns    int64   `json:"ns,omitempty"`  // c: new clock value, t: tick value (unix nanoseconds)
}

type History struct {
	Index int   `json:"index"`
	Rule  Rule  `json:"rule"`
	Start int64 `json:"startClockNs"`
	Evs   []Ev  `json:"events"`
}

const sec = int64(time.Second)

func genName(r *mon.Rng, rule *Rule) (name string, match bool, out string) {
	dc, host, metric := r.Pick(dcs), r.Pick(hosts), r.Pick(metricNames)
	name = "c10." + dc + "." + host + "." + metric
	switch r.Intn(12) {
	case 0: // trailing digit: the regex of every shape rejects it
		name += strconv.Itoa(r.Intn(10))
		return name, false, ""
	case 1: // other first node
		name = "x" + name[1:]
		return name, false, ""
	}
	for _, fi := range rule.Filters {
		if !filters[fi].ok(name) {
			return name, false, ""
		}
	}
	return name, true, shapes[rule.Shape].out(dc, host, metric, name)
}

func genVal(r *mon.Rng) float64 {
	switch r.Intn(9) {
	case 0:
		return float64(r.Range(-5, 5))
	case 1:
		return float64(r.Range(0, 100000))
	case 2:
		return float64(r.Range(-1000000, 1000000)) / 1000
	case 3:
		return float64(r.Range(1, 999)) * 1e6 // large
	case 4:
		return float64(r.Range(-9, 9)) * 1e-7 // below the printed precision
	case 5:
		return 42 // repeated value
	case 6:
		return float64(r.Range(0, 99)) + 0.5
	default:
		return float64(r.Range(-3000, 3000)) / 8
	}
}

// genInterval draws the rule's interval. The property speaks of "the timestamp rounded down to the
// interval" for every interval, so besides the customary divisors of a minute / hour / day the generator
// draws intervals that divide none of them (primes, 7, 14, 45, 7000, a week) and random ones: a bucket
// start is a multiple of the interval counted from the Unix epoch, whatever the interval is.
func genInterval(r *mon.Rng) int {
	switch r.Intn(8) {
	case 0, 1, 2: // customary
		return r.PickInt([]int{1, 2, 5, 10, 30, 60, 300, 3600, 86400})
	case 3, 4: // dividing neither a minute nor an hour nor a day (3 and 45 divide an hour, not a minute)
		return r.PickInt([]int{3, 7, 11, 13, 14, 17, 45, 49, 61, 7000, 86400 * 7})
	case 5, 6: // small random, primes included
		return r.Range(2, 200)
	default:
		return r.Range(201, 100000)
	}
}

func customary(iv uint) bool { return 86400%iv == 0 }

func gen(seed uint64, idx int, fun string) History {
	r := mon.NewRng(seed, 10, uint64(idx))
	rule := Rule{Fun: fun}
	rule.Interval = uint(genInterval(r))
	iv := int(rule.Interval)
	rule.Wait = uint(r.PickInt([]int{0, 1, iv / 2, iv, iv + 1, 2 * iv, 3*iv + 7, 120}))
	rule.Cache = r.Bool()
	rule.DropRaw = r.Chance(1, 4)
	rule.InBuf = r.PickInt([]int{0, 0, 1, 16, 2000})
	rule.Shape = r.Intn(len(shapes))
	rule.Regex, rule.Fmt = shapes[rule.Shape].Regex, shapes[rule.Shape].Fmt
	used := map[string]bool{}
	for n := r.PickInt([]int{0, 0, 1, 1, 2}); n > 0; n-- {
		fi := r.Intn(len(filters))
		f := filters[fi]
		if used[f.Field] {
			continue
		}
		used[f.Field] = true
		rule.Filters = append(rule.Filters, fi)
		switch f.Field {
		case "prefix":
			rule.Prefix = f.Pat
		case "notPrefix":
			rule.NotPrefix = f.Pat
		case "sub":
			rule.Sub = f.Pat
		case "notSub":
			rule.NotSub = f.Pat
		case "notRegex":
			rule.NotRegex = f.Pat
		}
	}
	wait := int64(rule.Wait)
	ivl := int64(iv)

	h := History{Index: idx, Rule: rule}
	now := (1600000000+int64(r.Intn(7200)))*sec + int64(r.PickInt([]int{0, 0, 1, 500000000, 999999999}))
	h.Start = now
	lastTick := int64(0)
	clk := oracle.AggClock{Interval: rule.Interval, Wait: rule.Wait}
	late := map[oracle.BK]int{}
	openBuckets := map[int64]bool{} // bucket starts holding contributions, not yet closed
	var closedBuckets []int64
	var usedTs []uint32
	maxTs := uint32(now / sec)

	setClock := func(ns int64) {
		if ns < now {
			ns = now
		}
		now = ns
		h.Evs = append(h.Evs, Ev{K: "c", Ns: ns})
	}
	tick := func(ns int64) {
		if ns > now {
			ns = now
		}
		if ns < lastTick {
			ns = lastTick
		}
		lastTick = ns
		cut := clk.SawTick(ns / sec)
		for b := range openBuckets {
			if b <= cut {
				delete(openBuckets, b)
				closedBuckets = append(closedBuckets, b)
			}
		}
		h.Evs = append(h.Evs, Ev{K: "t", Ns: ns})
	}
	point := func(ts int64) {
		if ts < 1 {
			ts = 1
		}
		name, match, out := genName(r, &rule)
		ev := Ev{K: "p", Name: name, Val: genVal(r), Ts: uint32(ts), Match: match, Out: out}
		if match {
			k := oracle.BK{Name: out, Bucket: oracle.Bucket(ev.Ts, rule.Interval)}
			if clk.Classify(ev.Ts, now/sec) == oracle.Late {
				if late[k] >= 8 {
					// keep the subset search bounded: make it an open point instead
					ev.Ts = uint32(now/sec + ivl)
					k.Bucket = oracle.Bucket(ev.Ts, rule.Interval)
				} else {
					late[k]++
				}
			}
			if clk.Classify(ev.Ts, now/sec) != oracle.Closed {
				openBuckets[int64(k.Bucket)] = true
			}
		}
		if ev.Ts > maxTs {
			maxTs = ev.Ts
		}
		usedTs = append(usedTs, ev.Ts)
		h.Evs = append(h.Evs, ev)
	}
	someOpenBucket := func() (int64, bool) {
		if len(openBuckets) == 0 {
			return 0, false
		}
		// deterministic choice: smallest or largest
		var lo, hi int64
		first := true
		for b := range openBuckets {
			if first || b < lo {
				lo = b
			}
			if first || b > hi {
				hi = b
			}
			first = false
		}
		if r.Bool() {
			return lo, true
		}
		return hi, true
	}

	n := r.Range(40, 80)
	for len(h.Evs) < n {
		nowS := now / sec
		switch x := r.Intn(100); {
		case x < 58: // a point
			var ts int64
			switch r.Intn(12) {
			case 0:
				ts = nowS
			case 1:
				ts = nowS - int64(r.Intn(iv+1))
			case 2: // around the open/late boundary now − wait
				ts = nowS - wait + int64(r.PickInt([]int{-1, 0, 1, iv - 1, iv, -iv, -iv + 1}))
			case 3: // on / next to an interval boundary
				ts = (nowS/ivl+int64(r.Range(-2, 2)))*ivl + int64(r.PickInt([]int{-1, 0, 1}))
			case 4: // future
				ts = nowS + int64(r.Range(1, 2*iv+1))
			case 5: // late
				ts = nowS - wait - int64(r.Intn(2*iv+1))
			case 6: // a bucket that was already closed
				if len(closedBuckets) > 0 {
					ts = closedBuckets[r.Intn(len(closedBuckets))] + int64(r.Intn(iv))
				} else {
					ts = nowS - wait - int64(3*iv)
				}
			case 7: // a timestamp used before (ties for derive, same bucket again)
				if len(usedTs) > 0 {
					ts = int64(usedTs[r.Intn(len(usedTs))])
				} else {
					ts = nowS
				}
			case 9: // last second of a bucket / first and second second of the next, around the oldest bucket that is still open
				b := ((nowS-wait)/ivl + 1 + int64(r.Intn(2))) * ivl
				ts = b + int64(r.PickInt([]int{-1, 0, 1, iv - 1, iv, iv + 1}))
			case 8: // into a bucket that holds contributions
				if b, ok := someOpenBucket(); ok {
					ts = b + int64(r.Intn(iv))
				} else {
					ts = nowS
				}
			default:
				ts = nowS - int64(r.Intn(2*iv+int(wait)+1)) + int64(r.Intn(iv+1))
			}
			point(ts)
		case x < 70: // clock step
			var d int64
			switch r.Intn(8) {
			case 0:
				d = 0
			case 1:
				d = 1
			case 2:
				d = ivl - 1
			case 3:
				d = ivl
			case 4:
				d = ivl + 1
			case 5:
				d = wait
			case 6: // align: (now − wait) lands exactly on an interval boundary
				t := nowS - wait
				d = (ivl - t%ivl) % ivl
			default:
				d = int64(r.Intn(3*iv + 1))
			}
			ns := (nowS+d)*sec + int64(r.PickInt([]int{0, 0, 0, 1, 250000000, 999999999}))
			if r.Chance(1, 60) && ns/sec+100*wait+8*ivl < 3500000000 { // far jump: regex cache entries expire (100 × wait); timestamps stay 32-bit
				ns += (100*wait + 5*ivl) * sec
			}
			setClock(ns)
		case x < 84: // tick
			switch r.Intn(6) {
			case 0, 1, 2:
				tick(now)
			case 3:
				tick(now - int64(r.Intn(iv+1))*sec)
			case 4: // exactly the first instant bucket b is due: tick − wait == b
				if b, ok := someOpenBucket(); ok {
					t := (b + wait) * sec
					if t > now {
						setClock(t + int64(r.PickInt([]int{0, 0, 999999999})))
					}
					tick(t)
				} else {
					tick(now)
				}
			default: // one second before bucket b is due
				if b, ok := someOpenBucket(); ok {
					t := (b + wait - 1) * sec
					if t > now {
						setClock(t + int64(r.PickInt([]int{0, 999999999})))
					}
					tick(t + int64(r.PickInt([]int{0, 999999999})))
				} else {
					tick(now)
				}
			}
		case x < 92: // boundary scenario: tick at an aligned clock, then a point into bucket now − wait (closed)
			t := nowS - wait
			d := (ivl - t%ivl) % ivl
			if d > 0 || now%sec != 0 {
				setClock((nowS + d) * sec)
			}
			if r.Chance(2, 3) {
				tick(now)
			}
			point(now/sec - wait + int64(r.Intn(iv)))
			if r.Bool() {
				point(now/sec - wait + ivl) // first bucket that is still open
			}
		default: // burst into one bucket
			base := nowS - int64(r.Intn(iv+1))
			for i := r.Range(2, 6); i > 0; i-- {
				point(base + int64(r.Intn(iv)))
			}
		}
	}
	// final: everything becomes due
	end := (int64(maxTs) + wait + 2*ivl + 1) * sec
	if end < now {
		end = now
	}
	setClock(end)
	tick(end)
	return h
}

// ---------------------------------------------------------------------------
// generator self-check against the standard library (a disagreement is a harness bug)

var reCache = map[string]*regexp.Regexp{}

func re(s string) *regexp.Regexp {
	if x, ok := reCache[s]; ok {
		return x
	}
	x := regexp.MustCompile(s)
	reCache[s] = x
	return x
}

func selfCheck(rule *Rule, ev *Ev) {
	n := ev.Name
	m := re(rule.Regex).FindStringSubmatchIndex(n)
	ok := m != nil
	if rule.NotRegex != "" && re(rule.NotRegex).MatchString(n) {
		ok = false
	}
	if rule.Prefix != "" && !strings.HasPrefix(n, rule.Prefix) {
		ok = false
	}
	if rule.NotPrefix != "" && strings.HasPrefix(n, rule.NotPrefix) {
		ok = false
	}
	if rule.Sub != "" && !strings.Contains(n, rule.Sub) {
		ok = false
	}
	if rule.NotSub != "" && strings.Contains(n, rule.NotSub) {
		ok = false
	}
	if ok != ev.Match {
		panic(fmt.Sprintf("harness generator: name %q rule %+v: by construction match=%v, stdlib says %v", n, *rule, ev.Match, ok))
	}
	if ok {
		out := string(re(rule.Regex).ExpandString(nil, rule.Fmt, n, m))
		if out != ev.Out {
			panic(fmt.Sprintf("harness generator: name %q rule %+v: by construction out=%q, stdlib says %q", n, *rule, ev.Out, out))
		}
	}
}

// ---------------------------------------------------------------------------
// execution

type stats struct {
	open, late, closed, nonmatch, ticks, lines, buckets, subsets int
	lateContributed, tooOld, boundaryPts, boundaryTicks          int
	multiBuckets                                                 int
	oddHistories, oddBoundaryPts, oddBuckets                     int // intervals of which a day is not a multiple
}

func runHistory(res *mon.Result, h History, st *stats) {
	rule := h.Rule
	viol := func(sig, msg string) { res.Violate(sig, msg, h) }

	var clockNs int64 = h.Start
	now := func() time.Time { return time.Unix(0, atomic.LoadInt64(&clockNs)) }
	tickCh := make(chan time.Time)
	out := make(chan []byte)
	m, err := matcher.New(rule.Prefix, rule.NotPrefix, rule.Sub, rule.NotSub, rule.Regex, rule.NotRegex)
	if err != nil {
		panic(err)
	}
	agg, err := aggregator.NewMocked(rule.Fun, m, rule.Fmt, rule.Cache, rule.Interval, rule.Wait, rule.DropRaw, out, rule.InBuf, now, tickCh)
	if err != nil {
		panic(err)
	}

	// drain the output channel into an ordered log; a nil slice is the harness' own sentinel
	// The slices themselves are retained too, as a route or destination would retain them, and compared
	// again when the lines are harvested: an emitted line must not change after it was handed over.
	var mu sync.Mutex
	var logLines []string
	var rawLines [][]byte
	altered := ""
	ack := make(chan struct{})
	go func() {
		for b := range out {
			if b == nil {
				ack <- struct{}{}
				continue
			}
			mu.Lock()
			logLines = append(logLines, string(b))
			rawLines = append(rawLines, b)
			mu.Unlock()
		}
	}()
	harvest := func() []string {
		out <- nil
		<-ack
		mu.Lock()
		l := logLines
		for i, b := range rawLines {
			if string(b) != l[i] && altered == "" {
				altered = fmt.Sprintf("line %q, as handed to the consumer, later read %q", l[i], b)
			}
		}
		logLines = nil
		rawLines = nil
		mu.Unlock()
		return l
	}

	kIn := mon.KeyAggIn(agg.Key)
	d := mon.NewDeltas(kIn, mon.KeyAggTooOld)
	model := oracle.NewAggModel(rule.Fun, rule.Interval, rule.Wait)
	matching := 0
	bucketsWith2 := map[oracle.BK]int{}
	odd := !customary(rule.Interval)
	if odd {
		st.oddHistories++
	}

	for i := range h.Evs {
		ev := &h.Evs[i]
		switch ev.K {
		case "c":
			atomic.StoreInt64(&clockNs, ev.Ns)
		case "p":
			selfCheck(&rule, ev)
			in0, old0 := d.Get(kIn), d.Get(mon.KeyAggTooOld)
			fields := [][]byte{[]byte(ev.Name), []byte(strconv.FormatFloat(ev.Val, 'f', -1, 64)), []byte(strconv.FormatUint(uint64(ev.Ts), 10))}
			agg.AddMaybe(fields, ev.Val, ev.Ts)
			// barrier: Snapshot() is answered by the goroutine that consumes the points
			steps := 2
			if rule.InBuf > 0 {
				steps = 8 // a buffered point is taken with probability >= 1/2 per round trip
			}
			if ev.Match {
				steps = 2000
			}
			for s := 0; s < steps; s++ {
				agg.Snapshot()
				if d.Get(kIn)-in0 >= 1 {
					agg.Snapshot()
					break
				}
			}
			din, dold := d.Get(kIn)-in0, d.Get(mon.KeyAggTooOld)-old0
			if l := harvest(); len(l) > 0 {
				viol("emission-without-tick", fmt.Sprintf("event %d (point %s %v %d): %d line(s) emitted although no tick was delivered: %q", i, ev.Name, ev.Val, ev.Ts, len(l), l))
			}
			if !ev.Match {
				st.nonmatch++
				if din != 0 || dold != 0 {
					viol("nonmatching-consumed", fmt.Sprintf("event %d: %s does not match the rule, yet direction=in moved by %d and TooOld by %d", i, ev.Name, din, dold))
				}
				continue
			}
			matching++
			if m := uint(ev.Ts) % rule.Interval; odd && (m == 0 || m == 1 || m == rule.Interval-1) {
				st.oddBoundaryPts++
			}
			if din != 1 {
				viol("matching-not-consumed", fmt.Sprintf("event %d: %s matches the rule, direction=in.aggregator=%s moved by %d (want 1) within %d barrier steps", i, ev.Name, agg.Key, din, steps))
			}
			if dold < 0 || dold > 1 {
				viol("tooold-count", fmt.Sprintf("event %d: one point moved what=TooOld by %d", i, dold))
			}
			nowS := atomic.LoadInt64(&clockNs) / sec
			if int64(oracle.Bucket(ev.Ts, rule.Interval)) == nowS-int64(rule.Wait) {
				st.boundaryPts++
			}
			cl, sig, msg := model.Point(ev.Out, ev.Val, ev.Ts, nowS, dold == 1)
			if sig != "" {
				viol(sig, fmt.Sprintf("event %d: %s", i, msg))
			}
			switch cl {
			case oracle.Open:
				st.open++
				bucketsWith2[oracle.BK{Name: ev.Out, Bucket: oracle.Bucket(ev.Ts, rule.Interval)}]++
			case oracle.Late:
				st.late++
				if dold == 0 {
					st.lateContributed++
				}
			case oracle.Closed:
				st.closed++
			}
			if dold == 1 {
				st.tooOld++
			}
		case "t":
			tickCh <- time.Unix(0, ev.Ns)
			agg.Snapshot()
			lines := harvest()
			tickS := ev.Ns / sec
			for _, k := range model.Pending() {
				if int64(k.Bucket) == tickS-int64(rule.Wait) {
					st.boundaryTicks++
					break
				}
			}
			probs, nb, ns := model.Tick(tickS, lines)
			for _, p := range probs {
				viol(p.Sig, fmt.Sprintf("event %d (tick %d, clock %d, wait %d): %s", i, tickS, atomic.LoadInt64(&clockNs)/sec, rule.Wait, p.Msg))
			}
			st.ticks++
			st.lines += len(lines)
			st.buckets += nb
			if odd {
				st.oddBuckets += nb
			}
			st.subsets += ns
		}
	}
	if p := model.Pending(); len(p) > 0 {
		panic(fmt.Sprintf("harness generator: history %d leaves buckets pending after the final tick: %v", h.Index, p))
	}
	// shutting down flushes once more with now − wait: everything was emitted already
	agg.Shutdown()
	if l := harvest(); len(l) > 0 {
		probs, _, _ := model.Tick(atomic.LoadInt64(&clockNs)/sec, l)
		for _, p := range probs {
			viol(p.Sig, "at shutdown after the final flush: "+p.Msg)
		}
		if len(probs) == 0 {
			viol("double-emit", fmt.Sprintf("at shutdown after the final flush: %q", l))
		}
	}
	close(out)
	mu.Lock()
	alt := altered
	mu.Unlock()
	if alt != "" {
		viol("emitted-line-altered", "an output line changed after it had been handed to the consumer: "+alt)
	}
	if got := d.Get(kIn); got != int64(matching) {
		viol("in-count", fmt.Sprintf("history handed over %d matching points, direction=in.aggregator=%s moved by %d", matching, agg.Key, got))
	}
	for _, n := range bucketsWith2 {
		if n >= 2 {
			st.multiBuckets++
		}
	}
}

func (st *stats) sub(o stats) stats {
	return stats{open: st.open - o.open, late: st.late - o.late, closed: st.closed - o.closed, buckets: st.buckets - o.buckets, multiBuckets: st.multiBuckets - o.multiBuckets}
}

func main() {
	res := mon.NewResult("C10")
	res.Rule = "histories of {point, clock step, tick} for one aggregation rule generated from (seed,index): function = index mod 10 (all ten), interval drawn from the customary divisors of a day {1,2,5,10,30,60,300,3600,86400}, from {3,7,11,13,14,17,45,49,61,7000,604800} and at random from 2..100000 (so most intervals divide neither a minute nor a day), wait in {0,1,iv/2,iv,iv+1,2iv,3iv+7,120}, 5 regex/format shapes (no group, $1, $2+$1, identity, ${1}_${2}), optional prefix/notPrefix/sub/notSub/notRegex, cache on/off, input buffer 0..2000; timestamps current, future, out of order, on and next to the bucket boundaries k*interval-1, k*interval, k*interval+1 of the rule's own interval, exactly on now-wait, late, and into closed buckets; ticks at the clock, lagging, and exactly at / one second before bucket+wait; non-trivial = the history had open, late-but-unflushed and closed points and emitted >= 2 buckets of which >= 1 held >= 2 contributions; distinct = (function,index)"
	res.Assume("Snapshot() is answered by the goroutine that consumes points and ticks (used as a barrier, checked by reading aggregator.run)")
	res.Assume("the expected output name of a generated input name is known by construction and cross-checked against regexp.Expand of the standard library")
	res.Assume("standard deviation = population standard deviation (docs/aggregation.md says only 'standard devation')")
	res.Assume("derive with several points on the oldest/newest timestamp: any of their values is accepted")
	res.Assume("late-but-unflushed points (bucket <= now-wait, no tick yet): any subset of those counted too old may have contributed; those not counted must have")
	mon.InitRepo()

	per := mon.N(80, 8000)
	total := per * len(oracle.AggFunctions)
	// replay: the witness of a violation is the complete history; run exactly that
	var replayH *History
	if p := os.Getenv("VERIF_REPLAY"); p != "" {
		var rp struct {
			Replay *History `json:"replay"`
		}
		b, err := os.ReadFile(p)
		if err != nil || json.Unmarshal(b, &rp) != nil || rp.Replay == nil || len(rp.Replay.Evs) == 0 {
			panic("C10: cannot read a history from replay file " + p)
		}
		replayH = rp.Replay
		total = 1
	}
	var st stats
	ran := 0
	for idx := 0; idx < total; idx++ {
		if replayH == nil && !mon.Mine(idx) {
			continue
		}
		fun := oracle.AggFunctions[idx%len(oracle.AggFunctions)]
		var h History
		if replayH != nil {
			h, fun = *replayH, replayH.Rule.Fun
		} else {
			h = gen(mon.Seed(), idx, fun)
		}
		res.LogCase("history %d fun=%s interval=%d wait=%d shape=%d cache=%v inBuf=%d events=%d", idx, fun, h.Rule.Interval, h.Rule.Wait, h.Rule.Shape, h.Rule.Cache, h.Rule.InBuf, len(h.Evs))
		before := st
		done := make(chan struct{})
		go func() {
			runHistory(res, h, &st)
			close(done)
		}()
		select {
		case <-done:
		case <-time.After(3 * time.Minute): // >1000x the normal duration of a history (a few ms)
			res.Inconclusive(fmt.Sprintf("history %d (fun %s) did not finish: a barrier never returned; run abandoned", idx, fun))
			res.Write()
			os.Exit(0)
		}
		res.Eval(1)
		dlt := st.sub(before)
		if dlt.open > 0 && dlt.late > 0 && dlt.closed > 0 && dlt.buckets >= 2 && dlt.multiBuckets >= 1 {
			res.NonTrivial(fmt.Sprintf("%s/%d", fun, idx))
		}
		if ran < 2 {
			res.Sample(map[string]interface{}{"index": idx, "rule": h.Rule, "first_events": h.Evs[:12], "events": len(h.Evs)})
		}
		ran++
	}
	res.Count("points_open", st.open)
	res.Count("points_late_unflushed", st.late)
	res.Count("points_late_that_contributed", st.lateContributed)
	res.Count("points_closed", st.closed)
	res.Count("points_counted_too_old", st.tooOld)
	res.Count("points_not_matching", st.nonmatch)
	res.Count("points_with_bucket_exactly_now_minus_wait", st.boundaryPts)
	res.Count("ticks", st.ticks)
	res.Count("ticks_with_a_pending_bucket_exactly_tick_minus_wait", st.boundaryTicks)
	res.Count("lines_emitted", st.lines)
	res.Count("buckets_emitted", st.buckets)
	res.Count("subset_evaluations", st.subsets)
	res.Count("histories_with_an_interval_not_dividing_a_day", st.oddHistories)
	res.Count("points_on_or_next_to_a_bucket_boundary_of_such_an_interval", st.oddBoundaryPts)
	res.Count("buckets_emitted_with_such_an_interval", st.oddBuckets)
	if replayH == nil {
		res.Floor("histories", ran, total)
		res.Floor("buckets_emitted", st.buckets, total*3)
		res.Floor("points_closed", st.closed, total)
		res.Floor("points_late_unflushed", st.late, total)
		res.Floor("histories_with_an_interval_not_dividing_a_day", st.oddHistories, total/4)
		res.Floor("points_on_or_next_to_a_bucket_boundary_of_such_an_interval", st.oddBoundaryPts, total/2)
		res.Floor("buckets_emitted_with_such_an_interval", st.oddBuckets, total/2)
	}
	res.Write()
}
