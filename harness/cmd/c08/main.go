// C08 — the disk spool queue recovers consistently from a crash at any point.
//
// Fault enumeration: a history of put/get operations is executed against the
// real nsqd.DiskQueue, one operation at a time. Every firing of the tag-guarded
// crash-point hook (after each file write / fsync / meta tmp create / tmp write
// / rename / segment remove / bad-file rename / rollover, and at rest) is a
// crash point: the hook handler copies the spool directory as the kernel would
// leave it if the process died there, together with what the harness knows at
// that instant:
//
//	E      the enqueued messages (a Put in flight counts as "may be present")
//	Hmax   messages handed to the consumer (a receive in flight counts as handed)
//	Hs     messages handed to the consumer when the last completed sync finished
//	S      messages written to a segment when the last completed sync finished
//
// A child process reopens each snapshot with the real code and drains it; the
// delivered sequence D must be a contiguous byte-identical run E[i..j) with
// Hs <= i <= Hmax and j >= S. Then fresh messages are enqueued and everything
// is drained: every delivered message must be byte-identical to an enqueued
// one and every fresh message must come out, in order. A child that panics or
// never reaches its idle point refutes "never crashes or hangs".
package main

import (
	"bufio"
	"bytes"
	"encoding/binary"
	"encoding/json"
	"fmt"
	"io"
	"os"
	"os/exec"
	"path/filepath"
	"regexp"
	"runtime"
	"strconv"
	"strings"
	"sync/atomic"
	"syscall"
	"time"

	"verifharness/dq"
	"verifharness/mon"
)

type op struct {
	Put bool
	Len int
}

type hcase struct {
	Index     int
	MaxBytes  int64
	SyncEvery int64
	Ops       []op
}

func (c hcase) compact() string {
	var b strings.Builder
	for _, o := range c.Ops {
		if o.Put {
			fmt.Fprintf(&b, "p%d ", o.Len)
		} else {
			b.WriteString("g ")
		}
	}
	return strings.TrimSpace(b.String())
}

func (c hcase) desc() map[string]interface{} {
	return map[string]interface{}{"history": c.Index, "maxBytesPerFile": c.MaxBytes, "syncEvery": c.SyncEvery, "ops": c.compact()}
}

func payload(seq uint32, n int) []byte {
	b := make([]byte, n)
	x := seq*2654435761 + 777
	for i := range b {
		x = x*1664525 + 1013904223
		b[i] = byte(x >> 24)
	}
	if n >= 4 {
		binary.BigEndian.PutUint32(b, seq)
	}
	return b
}

func gen(seed uint64, idx int) hcase {
	r := mon.NewRng(seed, 8, uint64(idx))
	c := hcase{Index: idx}
	c.MaxBytes = int64(r.PickInt([]int{1, 16, 64, 200, 4096}))
	c.SyncEvery = int64(r.PickInt([]int{1, 2, 3, 7, 1000}))
	n := r.Range(10, 60)
	seg := int(c.MaxBytes)
	pPut := r.PickInt([]int{45, 55, 65, 80})
	for i := 0; i < n; i++ {
		if r.Intn(100) < pPut {
			var l int
			switch r.Intn(7) {
			case 0:
				l = 0
			case 1:
				l = r.Range(0, 3*seg)
			case 2:
				l = seg - 4 + r.Range(-2, 2)
			case 3:
				l = r.Range(1, 10)
			default:
				l = r.Range(0, seg/2+12)
			}
			if l < 0 {
				l = 0
			}
			if l > 13000 {
				l = 13000
			}
			c.Ops = append(c.Ops, op{true, l})
		} else {
			c.Ops = append(c.Ops, op{})
		}
	}
	return c
}

// snapMeta is what the harness knows at a crash point.
type snapMeta struct {
	K         int    `json:"k"`
	Point     string `json:"point"`
	Step      int    `json:"step"`
	Lens      []int  `json:"lens"` // lengths of E (seq = index+1)
	Hmax      int    `json:"hmax"`
	Hs        int    `json:"hs"`
	S         int    `json:"s"`
	MaxBytes  int64  `json:"maxBytes"`
	SyncEvery int64  `json:"syncEvery"`
	Files     string `json:"files"` // listing, for the witness
}

func copyDir(src, dst string) (string, error) {
	if err := os.MkdirAll(dst, 0755); err != nil {
		return "", err
	}
	ents, err := os.ReadDir(src)
	if err != nil {
		return "", err
	}
	var listing strings.Builder
	for _, e := range ents {
		b, err := os.ReadFile(filepath.Join(src, e.Name()))
		if err != nil {
			if os.IsNotExist(err) {
				continue
			}
			return "", err
		}
		if err := os.WriteFile(filepath.Join(dst, e.Name()), b, 0644); err != nil {
			return "", err
		}
		fmt.Fprintf(&listing, "%s:%d ", strings.TrimPrefix(e.Name(), "q.diskqueue."), len(b))
	}
	return listing.String(), nil
}

// runHistory executes the history and snapshots the directory at every crash point.
// killAt >= 0: instead of snapshotting, SIGKILL this process at that crash point.
func runHistory(c hcase, dir, snapRoot string, killAt int) (metas []snapMeta, err error) {
	os.RemoveAll(dir)
	var lens []int
	var handed, inGet int32
	var written, hs, s int
	step := 0
	k := 0
	var snapErr error
	dq.H.OnAny = func(label string) {
		if label == "segment-write" {
			written++
		}
		if label == "meta-rename" {
			// last completed sync: what was consumed / written by now
			hs = int(atomic.LoadInt32(&handed))
			s = written
		}
		// read inGet BEFORE handed: the consumer increments handed and only then clears inGet,
		// so this can overestimate Hmax by one but never underestimate it
		ig := atomic.LoadInt32(&inGet)
		m := snapMeta{K: k, Point: label, Step: step, Lens: append([]int(nil), lens...),
			Hmax: int(ig + atomic.LoadInt32(&handed)), Hs: hs, S: s,
			MaxBytes: c.MaxBytes, SyncEvery: c.SyncEvery}
		if killAt >= 0 {
			if k == killAt {
				b, _ := json.Marshal(m)
				os.WriteFile(filepath.Join(snapRoot, "kill.json"), b, 0644)
				syscall.Kill(os.Getpid(), syscall.SIGKILL)
				time.Sleep(time.Hour)
			}
			k++
			return
		}
		l, e := copyDir(dir, filepath.Join(snapRoot, strconv.Itoa(k)))
		if e != nil && snapErr == nil {
			snapErr = e
		}
		m.Files = l
		metas = append(metas, m)
		k++
	}
	defer func() { dq.H.OnAny = nil }()
	q, err := dq.Open("q", dir, c.MaxBytes, c.SyncEvery)
	if err != nil {
		return metas, err
	}
	model := 0 // messages queued and not handed
	for i, o := range c.Ops {
		step = i
		if o.Put {
			lens = append(lens, o.Len) // the put is in flight from now on
			if err := q.Put(payload(uint32(len(lens)), o.Len)); err != nil {
				return metas, fmt.Errorf("step %d: %v", i, err)
			}
			model++
		} else if model > 0 {
			atomic.StoreInt32(&inGet, 1)
			sq := dq.H.Seq()
			select {
			case <-q.D.ReadChan():
			case <-time.After(60 * time.Second):
				return metas, fmt.Errorf("step %d: nothing delivered", i)
			}
			atomic.AddInt32(&handed, 1)
			atomic.StoreInt32(&inGet, 0)
			if _, _, ok := dq.H.WaitIdle(sq, 60*time.Second); !ok {
				return metas, fmt.Errorf("step %d: no idle point after read", i)
			}
			model--
		}
	}
	// leave the queue open: the "relay" dies here too (last snapshot was at idle)
	dq.H.OnAny = nil
	q.Close()
	return metas, snapErr
}

type verdict struct {
	K    int    `json:"k"`
	Sig  string `json:"sig"` // "" = held
	Msg  string `json:"msg"`
	D    int    `json:"d"` // messages delivered on reopen
	I    int    `json:"i"`
	Cont int    `json:"cont"` // fresh messages delivered in continuation
}

func rebuildE(lens []int) [][]byte {
	e := make([][]byte, len(lens))
	for i, l := range lens {
		e[i] = payload(uint32(i+1), l)
	}
	return e
}

// judge decides whether D is an admissible recovery for meta m.
func judge(m snapMeta, E [][]byte, D [][]byte) (sig, msg string, at int) {
	// all i such that D == E[i:i+len(D)]
	var cands []int
	for i := 0; i+len(D) <= len(E); i++ {
		ok := true
		for x := range D {
			if !bytes.Equal(D[x], E[i+x]) {
				ok = false
				break
			}
		}
		if ok {
			cands = append(cands, i)
		}
	}
	if len(cands) == 0 {
		// say why: unknown message or wrong order
		for x, d := range D {
			found := false
			for _, e := range E {
				if bytes.Equal(d, e) {
					found = true
				}
			}
			if !found {
				return "corrupt", fmt.Sprintf("delivered message #%d (%d bytes, %.12x...) is not byte-identical to any enqueued message", x, len(d), d), -1
			}
		}
		return "not-contiguous", fmt.Sprintf("the %d delivered messages are enqueued ones but not one contiguous run in enqueue order", len(D)), -1
	}
	best := ""
	for _, i := range cands {
		j := i + len(D)
		switch {
		case i > m.Hmax:
			best = fmt.Sprintf("skipped|run starts at message %d but only %d were handed to the consumer: messages %d..%d were never delivered", i, m.Hmax, m.Hmax, i-1)
		case i < m.Hs:
			if best == "" {
				best = fmt.Sprintf("redelivered-synced|run starts at message %d although %d messages had been consumed when the last completed sync finished", i, m.Hs)
			}
		case j < m.S:
			if best == "" {
				best = fmt.Sprintf("lost-synced|run ends at message %d although %d messages were written before the last completed sync", j, m.S)
			}
		default:
			return "", "", i
		}
	}
	p := strings.SplitN(best, "|", 2)
	return p[0], p[1], cands[0]
}

// childReopen: reopen snapshots start.. in order, write verdict lines.
func childReopen(root string, start, end int) {
	dq.OpenWatchdog = 6 * time.Second
	out, err := os.OpenFile(filepath.Join(root, "verdicts.jsonl"), os.O_CREATE|os.O_WRONLY|os.O_APPEND, 0644)
	if err != nil {
		panic(err)
	}
	bad := 0
	for k := start; k < end; k++ {
		mb, err := os.ReadFile(filepath.Join(root, fmt.Sprintf("%d.json", k)))
		if err != nil {
			panic(err)
		}
		var m snapMeta
		json.Unmarshal(mb, &m)
		v := reopenOne(m, filepath.Join(root, strconv.Itoa(k)))
		v.K = k
		b, _ := json.Marshal(v)
		out.Write(append(b, '\n'))
		if v.Sig != "" {
			bad++
			if bad >= 4 {
				break // enough witnesses from this history
			}
		}
		if strings.HasSuffix(v.Sig, "-hang") {
			// a stuck (possibly spinning) I/O loop stays behind in this process: continue in a fresh one
			out.Close()
			os.Exit(3)
		}
	}
	out.Close()
}

func stacks() string {
	buf := make([]byte, 1<<20)
	n := runtime.Stack(buf, true)
	return string(buf[:n])
}

func reopenOne(m snapMeta, dir string) verdict {
	E := rebuildE(m.Lens)
	seq0 := dq.H.Seq()
	q, err := dq.Open("q", dir, m.MaxBytes, m.SyncEvery)
	_ = seq0
	if err != nil {
		// confirm: still no idle point a while later, same goroutine parked
		st1 := stacks()
		time.Sleep(2 * time.Second)
		if dq.H.Seq() == seq0 {
			return verdict{Sig: "reopen-hang", Msg: "reopened queue never reached its idle point (no progress in two samples)\n" + trimStack(st1)}
		}
	}
	q.Watchdog = 6 * time.Second
	var D [][]byte
	for q.Label == "idle-ready" {
		msg, ok, err := q.Get()
		if !ok {
			// a loaded machine can starve this process: confirm with a much longer wait before calling it a hang
			q.Watchdog = 45 * time.Second
			msg, ok, err = q.Get()
			q.Watchdog = 6 * time.Second
		}
		if !ok {
			return verdict{Sig: "reopen-hang", Msg: "queue at rest claims a message is ready but delivers nothing\n" + trimStack(stacks())}
		}
		D = append(D, msg)
		if err != nil {
			return verdict{Sig: "reopen-hang", Msg: err.Error() + "\n" + trimStack(stacks())}
		}
		if len(D) > len(E)+5 {
			return verdict{Sig: "corrupt", Msg: fmt.Sprintf("more messages delivered (%d) than were ever enqueued (%d)", len(D), len(E)), D: len(D)}
		}
	}
	sig, msg, at := judge(m, E, D)
	if sig != "" {
		return verdict{Sig: sig, Msg: msg, D: len(D), I: at}
	}
	// continuation: the reopened queue keeps working
	r := mon.NewRng(uint64(m.K), 88, uint64(len(m.Lens)))
	nf := r.Range(2, 6)
	var fresh [][]byte
	for x := 0; x < nf; x++ {
		var l int
		if r.Bool() {
			l = r.Range(0, 24)
		} else {
			l = r.Range(0, int(m.MaxBytes)+20)
		}
		if l > 13000 {
			l = 13000
		}
		b := payload(uint32(1000000+x), l)
		if l >= 1 {
			b[len(b)-1] = 0xF5 // marks fresh messages
		}
		fresh = append(fresh, b)
		if err := q.Put(b); err != nil {
			return verdict{Sig: "cont-put", Msg: "Put after recovery: " + err.Error(), D: len(D), I: at}
		}
	}
	var C [][]byte
	for q.Label == "idle-ready" {
		msg, ok, err := q.Get()
		if !ok {
			q.Watchdog = 45 * time.Second
			msg, ok, err = q.Get()
			q.Watchdog = 6 * time.Second
		}
		if !ok || err != nil {
			return verdict{Sig: "cont-hang", Msg: "after recovery + fresh puts the queue stopped delivering\n" + trimStack(stacks()), D: len(D), I: at}
		}
		C = append(C, msg)
		if len(C) > len(E)+nf+5 {
			break
		}
	}
	q.Close()
	// every delivered message must be an enqueued one, intact
	for x, c := range C {
		found := false
		for _, e := range E {
			if bytes.Equal(c, e) {
				found = true
			}
		}
		for _, e := range fresh {
			if bytes.Equal(c, e) {
				found = true
			}
		}
		if !found {
			return verdict{Sig: "cont-corrupt", Msg: fmt.Sprintf("after recovery, message #%d delivered (%d bytes %.12x...) is not byte-identical to any enqueued message", x, len(c), c), D: len(D), I: at, Cont: len(C)}
		}
	}
	// the fresh messages must all come out, in order (nothing beyond the un-synced tail is lost)
	fi := 0
	for _, c := range C {
		if fi < len(fresh) && bytes.Equal(c, fresh[fi]) {
			fi++
		}
	}
	if fi != len(fresh) {
		return verdict{Sig: "cont-lost", Msg: fmt.Sprintf("after recovery %d messages were enqueued but only %d of them were delivered (%d messages came out in total)", len(fresh), fi, len(C)), D: len(D), I: at, Cont: len(C)}
	}
	return verdict{D: len(D), I: at, Cont: len(C)}
}

func trimStack(s string) string {
	// keep only goroutines inside the disk queue
	var keep []string
	for _, g := range strings.Split(s, "\n\n") {
		if strings.Contains(g, "nsqd.(*DiskQueue)") {
			keep = append(keep, g)
		}
	}
	out := strings.Join(keep, "\n\n")
	if len(out) > 3000 {
		out = out[:3000]
	}
	return out
}

var frameRe = regexp.MustCompile(`(?m)^github.com/grafana/carbon-relay-ng/([\w./()*]+)\(`)

func crashSig(log string) (string, string) {
	i := strings.Index(log, "panic: ")
	if j := strings.Index(log, "fatal error: "); j >= 0 && (i < 0 || j < i) {
		i = j
	}
	if i < 0 {
		return "reopen-crash:unknown", log
	}
	tail := log[i:]
	line := tail
	if nl := strings.IndexByte(tail, '\n'); nl >= 0 {
		line = tail[:nl]
	}
	line = regexp.MustCompile(`\d+`).ReplaceAllString(line, "N")
	fr := "?"
	if m := frameRe.FindStringSubmatch(tail); m != nil {
		fr = m[1]
	}
	if len(tail) > 2500 {
		tail = tail[:2500]
	}
	return "reopen-crash:" + fr + ":" + line, tail
}

// judgeSnapshots runs children over the snapshots and records violations.
func judgeSnapshots(res *mon.Result, c hcase, root string, metas []snapMeta) {
	for _, m := range metas {
		b, _ := json.Marshal(m)
		os.WriteFile(filepath.Join(root, fmt.Sprintf("%d.json", m.K)), b, 0644)
	}
	start := 0
	bad0 := res.NumViolations()
	for start < len(metas) {
		if res.NumViolations()-bad0 >= 4 {
			res.Count("crash_points_skipped_after_4_violations_in_history", len(metas)-start)
			return
		}
		os.Remove(filepath.Join(root, "verdicts.jsonl"))
		cmd := exec.Command(os.Args[0])
		cmd.Env = append(os.Environ(), "VERIF_CHILD=reopen", "VERIF_CHILD_ROOT="+root,
			fmt.Sprintf("VERIF_CHILD_START=%d", start), fmt.Sprintf("VERIF_CHILD_END=%d", len(metas)))
		var errb bytes.Buffer
		cmd.Stdout = io.Discard
		cmd.Stderr = &errb
		done := make(chan error, 1)
		cmd.Start()
		go func() { done <- cmd.Wait() }()
		var werr error
		select {
		case werr = <-done:
		case <-time.After(time.Duration(120+len(metas)) * time.Second):
			cmd.Process.Signal(syscall.SIGQUIT)
			time.Sleep(2 * time.Second)
			cmd.Process.Kill()
			werr = fmt.Errorf("child watchdog")
			<-done
		}
		next := start
		f, err := os.Open(filepath.Join(root, "verdicts.jsonl"))
		if err == nil {
			sc := bufio.NewScanner(f)
			sc.Buffer(make([]byte, 1<<20), 1<<24)
			for sc.Scan() {
				var v verdict
				if json.Unmarshal(sc.Bytes(), &v) != nil {
					continue
				}
				record(res, c, metas[v.K], v)
				next = v.K + 1
			}
			f.Close()
		}
		if werr == nil || next >= len(metas) {
			return // all snapshots judged (or the child stopped early after many violations)
		}
		if ee, ok := werr.(*exec.ExitError); ok && ee.ExitCode() == 3 {
			start = next // the child reported a hang and left; go on with the next snapshot
			continue
		}
		// the child died (or hung) on snapshot `next`
		if werr != nil && werr.Error() == "child watchdog" {
			res.Inconclusive(fmt.Sprintf("history %d snapshot %d: reopen child hit its watchdog", c.Index, next))
		} else {
			sig, dump := crashSig(errb.String())
			m := metas[next]
			w := c.desc()
			w["crash_point"] = fmt.Sprintf("#%d %s during step %d", m.K, m.Point, m.Step)
			w["files_at_crash"] = m.Files
			w["dump"] = dump
			res.Violate(sig, fmt.Sprintf("reopening the spool as left at crash point %q (history %d step %d) killed the process", m.Point, c.Index, m.Step), w)
			res.Count("crash_points", 1)
		}
		start = next + 1
	}
}

func record(res *mon.Result, c hcase, m snapMeta, v verdict) {
	res.Count("crash_points", 1)
	res.Count("point:"+m.Point, 1)
	res.Count("messages_redelivered_on_reopen", v.D)
	if v.Sig == "" {
		if v.D > 0 || v.Cont > 0 {
			res.NonTrivial(fmt.Sprintf("%d/%d", c.Index, m.K))
		}
		return
	}
	w := c.desc()
	w["crash_point"] = fmt.Sprintf("#%d %s during step %d", m.K, m.Point, m.Step)
	w["files_at_crash"] = m.Files
	w["known_at_crash"] = fmt.Sprintf("enqueued=%d handed<=%d consumed_at_last_sync=%d written_at_last_sync=%d", len(m.Lens), m.Hmax, m.Hs, m.S)
	w["delivered_on_reopen"] = v.D
	w["run_start"] = v.I
	res.Violate(v.Sig, fmt.Sprintf("crash point %q (history %d, step %d): %s", m.Point, c.Index, m.Step, v.Msg), w)
}

func main() {
	switch os.Getenv("VERIF_CHILD") {
	case "reopen":
		s, _ := strconv.Atoi(os.Getenv("VERIF_CHILD_START"))
		e, _ := strconv.Atoi(os.Getenv("VERIF_CHILD_END"))
		childReopen(os.Getenv("VERIF_CHILD_ROOT"), s, e)
		return
	case "kill":
		idx, _ := strconv.Atoi(os.Getenv("VERIF_CHILD_INDEX"))
		at, _ := strconv.Atoi(os.Getenv("VERIF_CHILD_KILLAT"))
		seed, _ := strconv.ParseUint(os.Getenv("VERIF_CHILD_SEED"), 10, 64)
		root := os.Getenv("VERIF_CHILD_ROOT")
		runHistory(gen(seed, idx), filepath.Join(root, "live"), root, at)
		os.Exit(3) // kill point beyond the history
	}
	res := mon.NewResult("C08")
	res.Rule = "every firing of the crash-point hook (file write, fsync, meta tmp create/write, rename, segment remove, bad-file rename, rollover, at rest) of every generated put/get history is a crash point: directory copied there, reopened by a child with the real code, drained, judged against E/Hmax/Hs/S, then continued with fresh messages; non-trivial = a crash point whose reopening delivered at least one message; distinct = (history, crash point)"
	res.Assume("process death only: the page cache survives (power loss is outside C08)")
	res.Assume("copying the directory inside the hook equals the state a SIGKILL at that point leaves behind (cross-checked by the real-kill sample)")
	res.Assume("a Put in flight at the crash point may or may not be recovered; a receive in flight counts as handed over")
	scratch := mon.Scratch()
	n := mon.N(64, 3000)
	ran := 0
	for i := 0; i < n; i++ {
		if !mon.Mine(i) {
			continue
		}
		if o := os.Getenv("VERIF_ONLY"); o != "" && o != fmt.Sprint(i) {
			continue
		}
		if res.NumViolations() >= 16 {
			res.Count("histories_skipped_after_16_violations", 1)
			continue // the run has failed already; more witnesses only cost time
		}
		c := gen(mon.Seed(), i)
		res.LogCase("history %d max=%d sync=%d ops=%s", i, c.MaxBytes, c.SyncEvery, c.compact())
		root := filepath.Join(scratch, "snap")
		os.RemoveAll(root)
		os.MkdirAll(root, 0755)
		metas, err := runHistory(c, filepath.Join(scratch, "live"), root, -1)
		if err != nil {
			res.Inconclusive(fmt.Sprintf("history %d could not be completed: %v", i, err))
		}
		judgeSnapshots(res, c, root, metas)
		os.RemoveAll(root)
		os.RemoveAll(filepath.Join(scratch, "live"))
		res.Eval(1)
		if ran == 0 {
			res.Sample(c.desc())
		}
		ran++
	}
	// real-kill sample: the same histories, the process really dies at the point
	nk := mon.N(24, 1000)
	for i := 0; i < nk; i++ {
		if !mon.Mine(i) || os.Getenv("VERIF_ONLY") != "" {
			continue
		}
		if res.NumViolations() >= 16 {
			continue
		}
		idx := i % n
		c := gen(mon.Seed(), idx)
		r := mon.NewRng(mon.Seed(), 81, uint64(i))
		root := filepath.Join(scratch, "kill")
		os.RemoveAll(root)
		os.MkdirAll(root, 0755)
		killAt := r.Intn(4*len(c.Ops) + 4)
		res.LogCase("kill history %d at point %d", idx, killAt)
		cmd := exec.Command(os.Args[0])
		cmd.Env = append(os.Environ(), "VERIF_CHILD=kill", "VERIF_CHILD_ROOT="+root, fmt.Sprintf("VERIF_CHILD_INDEX=%d", idx),
			fmt.Sprintf("VERIF_CHILD_KILLAT=%d", killAt), fmt.Sprintf("VERIF_CHILD_SEED=%d", mon.Seed()))
		cmd.Stdout, cmd.Stderr = io.Discard, io.Discard
		cmd.Run()
		mb, err := os.ReadFile(filepath.Join(root, "kill.json"))
		if err != nil {
			os.RemoveAll(root)
			continue // kill point beyond the end of the history
		}
		var m snapMeta
		json.Unmarshal(mb, &m)
		m.K = 0
		l, _ := copyDir(filepath.Join(root, "live"), filepath.Join(root, "0"))
		m.Files = l
		judgeSnapshots(res, c, root, []snapMeta{m})
		res.Count("real_kills", 1)
		os.RemoveAll(root)
	}
	res.Floor("histories", ran, n)
	cp, _ := res.Extra["crash_points"].(int)
	res.Floor("crash_points", cp, n*20)
	res.Write()
}
