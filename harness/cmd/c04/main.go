// C04 — forwarded line = rewritten name + untouched value/timestamp; buffers isolated.
//
// Oracle: oracle.Rewriter (own loop for literal rules incl. max, stdlib
// regexp.ReplaceAll for /re/ rules, not-clause, table order). For every accepted
// line the bytes every consumer ends up with must be
//
//	oracleRewrite(name) + " " + valueToken + " " + tsToken
//
// with the two tokens byte-for-byte as the harness wrote them.
//
// Consumers watched per generated table (built from TOML / init commands as an
// operator would): two capture routes (before and after the real route in table
// order), a real sendAllMatch route whose destination is a recording loopback
// endpoint, a mocked aggregator that sees every line and — in half of the tables —
// a drop-raw aggregator. In three tables of four both aggregators are *held*
// (their run loop is parked flushing into a channel nobody reads yet) while the
// lines are dispatched, so they provably still hold the line when the input
// buffer is reused; in the fourth they run concurrently with the feed, which is
// where the race detector can see an unsynchronised reuse (RACE_SCOPE C04).
//
// Two feeders:
//
//	dispatch  Table.Dispatch(buf) with buf cut from one arena; the arena is compared
//	          with a copy after the call (Dispatch must not modify it, not even beyond
//	          len) and then overwritten with 0xAA; the next line reuses the same bytes
//	tcp       the real input.Listener + input.Plain on loopback TCP, 1-3 concurrent
//	          connections with hundreds of lines each, so the scanner recycles its
//	          buffer while earlier lines are still queued in the held aggregators
//
// After the feed: aggregators released, numIn awaited (bounded steps), tick,
// outputs collected; destination flushed until the endpoint has every line that
// was not counted as dropped; then all observations are compared, and at the very
// end every slice a capture route retained is compared with the copy taken when
// it was delivered.
package main

import (
	"bytes"
	"fmt"
	"io"
	"net"
	"os"
	"runtime"
	"runtime/debug"
	"runtime/pprof"
	"strconv"
	"strings"
	"sync"
	"time"

	"github.com/grafana/carbon-relay-ng/aggregator"
	"github.com/grafana/carbon-relay-ng/destination"
	"github.com/grafana/carbon-relay-ng/input"
	"github.com/grafana/carbon-relay-ng/matcher"
	"github.com/grafana/carbon-relay-ng/route"

	"verifharness/mon"
	"verifharness/oracle"
)

// ---------------------------------------------------------------- case description

type lineSpec struct {
	ID   int
	Name string
	Val  string
	Ts   string
	WS   [4]string
	Raw  []byte
	TsN  uint32

	RwName   string
	Expected string
	Drop     bool // consumed by the drop-raw aggregator: must reach no route
	Changed  bool // rewriting changed the name
	Layout   bool // whitespace layout is not the canonical single blanks
}

type c04case struct {
	Index   int                  `json:"index"`
	Mode    string               `json:"mode"`
	Legacy  string               `json:"validation_level_legacy"`
	M20     string               `json:"validation_level_m20"`
	Rules   []oracle.RewriteRule `json:"rewriters"`
	ViaCmd  bool                 `json:"rewriters_added_by_init_cmd"`
	NLines  int                  `json:"lines"`
	Conns   int                  `json:"connections,omitempty"`
	DropAgg bool                 `json:"with_dropraw_aggregator"`
	Cache   bool                 `json:"aggregator_cache"`
	Held    bool                 `json:"aggregators_held_during_feed"`
	lines   []*lineSpec
	fx      stats // rule effects, from the oracle's point of view (for the evidence)
}

var plainTok = []string{"foo", "bar", "a", "ab", "aa", "aaa", "srv", "server", "web01", "x", "collectd", "cpu", "0", "o", "zq", "foofoo", "server", "A1"}
var mediumTok = []string{"$1", "${1}", "#", "[]", "(", "*", "\\", "%s", "a:b", "\"q\"", "~", "{x}", "|", "^", "+", "?"}
var noneTok = []string{"\xc3\xa9", "\xff", "x;y", ";", "\x01", "\xe2\x82\xac", "\x7f"}

func genName(r *mon.Rng, legacy, m20 string) string {
	nseg := r.Range(1, 6)
	segs := make([]string, 0, nseg+3)
	for i := 0; i < nseg; i++ {
		x := r.Intn(20)
		switch {
		case x < 2 && legacy != "strict":
			segs = append(segs, r.Pick(mediumTok))
		case x < 3 && legacy == "none":
			segs = append(segs, r.Pick(noneTok))
		case x < 4 && legacy != "strict":
			segs = append(segs, "") // empty node: ".."
		case x < 6:
			segs = append(segs, r.Pick(plainTok)+strconv.Itoa(r.Intn(100)))
		case x < 7:
			segs = append(segs, r.Pick(plainTok)+r.Pick([]string{"_", "-"})+r.Pick(plainTok))
		case x < 8:
			// runs of one character: a literal rule whose replacement ends with the start of `old`
			// ("aa"->"ba", "__"->"._", "oo"->"fo") must not re-scan what it has just written
			segs = append(segs, r.Pick([]string{"aaaa", "aaa", "a___b", "x__y", "oooo", "fooo", "aaaaa", "dc1___web1"}))
		default:
			segs = append(segs, r.Pick(plainTok))
		}
	}
	name := strings.Join(segs, ".")
	if name == "" {
		name = "a"
	}
	// metrics2.0 style names
	if r.Chance(1, 12) {
		if m20 == "none" {
			name = r.Pick([]string{"a=b.", "unit=B.", "k_is_v.", "x=.=y."}) + name
		} else if !strings.Contains(name, "_is_") {
			name = "unit=B.mtype=gauge.host=h" + strconv.Itoa(r.Intn(10)) + "." + name
		}
	}
	if r.Chance(1, 15) && !strings.ContainsAny(name[:strings.IndexByte(name+".", '.')], "=") && !strings.HasPrefix(name, "k_is_v") {
		name = "." + name // graphite tolerates a leading dot
		if legacy == "strict" && strings.HasPrefix(name, "..") {
			name = name[1:]
		}
	}
	return name
}

var valueSpellings = []string{"1e3", "0x1p-2", "+5", "-0", "1.50", "1E3", ".5", "5.", "-1.5e-3", "0", "00012", "1e+06", "Inf", "-inf", "NaN", "0X1P+4",
	"0x1_0p0", "3.141592653589793238462643383279", "1e308", "1e-400", "42", "-7", "1.0", "100.000", "+0.0", "0e0", "1234567890123456789", "infinity", "+Inf", "0x.8p1"}

func genTs(r *mon.Rng, n uint32) string {
	switch r.Intn(12) {
	case 0:
		return fmt.Sprintf("%d.0", n)
	case 1:
		return fmt.Sprintf("%d.50", n)
	case 2:
		return fmt.Sprintf("+%d", n)
	case 3:
		return fmt.Sprintf("0%d", n)
	case 4:
		return fmt.Sprintf("%d.", n)
	case 5:
		return fmt.Sprintf("%de0", n)
	case 6:
		return fmt.Sprintf("0x%xp0", n)
	case 7:
		return fmt.Sprintf("%d.%03de3", n/1000, n%1000)
	default:
		return strconv.FormatUint(uint64(n), 10)
	}
}

func genWS(r *mon.Rng, mode string, inner bool) string {
	if inner {
		x := r.Intn(20)
		switch {
		case x < 9:
			return " "
		case x < 12:
			return "\t"
		case x < 14:
			return "  "
		case x < 15:
			return " \t "
		case x < 16:
			return "\t\t"
		case x < 17:
			return "       "
		case x < 18:
			return "\t \t"
		default:
			if mode == "dispatch" {
				return r.Pick([]string{"\v", "\f", "\r", " \r ", "\n", "\t\v\f "})
			}
			return r.Pick([]string{"\v", "\f", " \r ", "\r"})
		}
	}
	x := r.Intn(10)
	switch {
	case x < 6:
		return ""
	case x < 7:
		return " "
	case x < 8:
		return "\t"
	case x < 9:
		return "  "
	default:
		return " \t "
	}
}

var litOld = []string{"foo", "bar", "a", "aa", "o", ".", "..", "server", "server.", "srv", "web", "0", "x", "foo.bar", "collectd", "zq", "_", "A", "$1", "cpu.", "ab"}
var litNew = []string{"", "bar", "X", "aa", "$1", "${1}", "foo.foo", ".", "zq", "baz", "a", "_", "o0o"}
var reOld = []string{`^`, `server\.([^.]+)`, `a+`, `\.`, `^([^.]+)\.([^.]+)`, `o(o)?`, `[0-9]+`, `$`, `(?i)FOO`, `\.\.`, `^(.*)$`, `x*`, `(a)(b)?`, `\.([a-z]+)$`, `^\.`, `[^a-z.]`, `(?P<first>^[^.]*)`}
var reNew = []string{"prefix.", "servers.${1}.collectd", "${2}.${1}", "$1", "${1}x", "$1x", "", "X", "$$", "${0}${0}", "[$0]", "${first}.${first}", "zq"}
var notLit = []string{"collectd", "aa", "web", ".", "zq", "0", "foo", "prefix", "X"}
var notRe = []string{`^srv`, `[0-9]$`, `collectd`, `^$`, `^prefix\.`, `\.\.`, `(?i)x`}

func genRules(r *mon.Rng) []oracle.RewriteRule {
	n := r.PickInt([]int{0, 1, 1, 2, 2, 3, 4})
	rules := make([]oracle.RewriteRule, 0, n)
	for i := 0; i < n; i++ {
		var ru oracle.RewriteRule
		if r.Chance(2, 5) {
			ru = oracle.RewriteRule{Old: "/" + r.Pick(reOld) + "/", New: r.Pick(reNew), Max: -1}
		} else {
			ru = oracle.RewriteRule{Old: r.Pick(litOld), New: r.Pick(litNew), Max: r.PickInt([]int{-1, -1, 0, 1, 1, 2, 3, 7})}
			if ru.Max >= 1 && r.Bool() {
				ru.Old = r.Pick([]string{"a", "o", ".", "0", "aa", "foo", "r"}) // occurs several times in most names: max matters
			}
			if r.Chance(1, 6) {
				// same-length pairs where a suffix of `new` is a prefix of `old`
				p := [][2]string{{"aa", "ba"}, {"__", "._"}, {"..", "_."}, {"oo", "fo"}, {"aa", "xa"}, {"aaa", "baa"}}[r.Intn(6)]
				ru.Old, ru.New = p[0], p[1]
			}
		}
		switch r.Intn(10) {
		case 0, 1:
			ru.Not = r.Pick(notLit)
		case 2:
			ru.Not = "/" + r.Pick(notRe) + "/"
		}
		rules = append(rules, ru)
	}
	return rules
}

var simpleWord = func(s string) bool {
	if s == "" {
		return false
	}
	for i := 0; i < len(s); i++ {
		c := s[i]
		if !(c >= 'a' && c <= 'z') && c != '.' && !(c >= 'A' && c <= 'Z') {
			return false
		}
	}
	return true
}

func genCase(seed uint64, idx int) *c04case {
	r := mon.NewRng(seed, 401, uint64(idx))
	c := &c04case{Index: idx}
	c.Mode = "dispatch"
	if idx%3 == 2 {
		c.Mode = "tcp"
		c.Conns = r.Range(1, 3)
	}
	c.Legacy = r.Pick([]string{"none", "medium", "medium", "strict"})
	c.M20 = r.Pick([]string{"none", "medium"})
	c.Rules = genRules(r)
	c.ViaCmd = true
	for _, ru := range c.Rules {
		if ru.Not != "" || !simpleWord(ru.Old) || !simpleWord(ru.New) {
			c.ViaCmd = false
		}
	}
	if len(c.Rules) == 0 || !r.Chance(1, 4) {
		c.ViaCmd = false
	}
	c.DropAgg = r.Bool()
	c.Cache = r.Bool()
	c.Held = idx%4 != 3 // one table in four lets the aggregators run concurrently with the feed (race detector's turn)
	c.NLines = mon.N(200, 400)
	if c.Mode == "tcp" {
		c.NLines = mon.N(400, 700)
	}
	rw, err := oracle.CompileRules(c.Rules)
	if err != nil {
		panic(fmt.Sprintf("generator produced a rule the oracle rejects: %v %+v", err, c.Rules))
	}
	for i := 0; i < c.NLines; i++ {
		l := &lineSpec{ID: i}
		l.Name = genName(r, c.Legacy, c.M20)
		l.Val = r.Pick(valueSpellings)
		l.TsN = 1500000000 + uint32(i)
		l.Ts = genTs(r, l.TsN)
		l.WS = [4]string{genWS(r, c.Mode, false), genWS(r, c.Mode, true), genWS(r, c.Mode, true), genWS(r, c.Mode, false)}
		if c.Mode == "tcp" && strings.HasSuffix(l.WS[3], "\r") {
			l.WS[3] += " "
		}
		l.Raw = []byte(l.WS[0] + l.Name + l.WS[1] + l.Val + l.WS[2] + l.Ts + l.WS[3])
		out, info := rw.ApplyInfo([]byte(l.Name))
		l.RwName = string(out)
		for k, s := range info {
			if s.Skipped {
				c.fx.skipped++
			}
			if s.Limited {
				c.fx.limited++
				if c.Rules[k].Max >= 2 {
					c.fx.limitedGE2++
				}
			}
			if s.Changed && s.Regex {
				c.fx.regexChanged++
			}
			if s.Changed && !s.Regex {
				c.fx.literalChanged++
			}
		}
		l.Expected = l.RwName + " " + l.Val + " " + l.Ts
		l.Changed = l.RwName != l.Name
		l.Layout = l.WS != [4]string{"", " ", " ", ""}
		l.Drop = c.DropAgg && strings.Contains(l.RwName, "zq")
		c.lines = append(c.lines, l)
	}
	return c
}

func (c *c04case) toml() string {
	var b strings.Builder
	fmt.Fprintf(&b, "instance = \"default\"\nspool_dir = %q\nbad_metrics_max_age = \"24h\"\nvalidate_order = false\n", mon.Scratch())
	fmt.Fprintf(&b, "validation_level_legacy = %q\nvalidation_level_m20 = %q\n", c.Legacy, c.M20)
	if c.ViaCmd {
		b.WriteString("[init]\ncmds = [\n")
		for _, ru := range c.Rules {
			fmt.Fprintf(&b, "  'addRewriter %s %s %d',\n", ru.Old, ru.New, ru.Max)
		}
		b.WriteString("]\n")
	} else {
		for _, ru := range c.Rules {
			fmt.Fprintf(&b, "[[rewriter]]\nold = '%s'\nnew = '%s'\nnot = '%s'\nmax = %d\n", ru.Old, ru.New, ru.Not, ru.Max)
		}
	}
	return b.String()
}

func (c *c04case) witness(l *lineSpec) map[string]interface{} {
	w := map[string]interface{}{"case": c.Index, "mode": c.Mode, "validation_level_legacy": c.Legacy, "validation_level_m20": c.M20,
		"rewriters": c.Rules, "rewriters_added_by_init_cmd": c.ViaCmd, "with_dropraw_aggregator": c.DropAgg, "aggregators_held_during_feed": c.Held}
	if l != nil {
		w["line_id"] = l.ID
		w["line_sent"] = fmt.Sprintf("%q", l.Raw)
		w["name"] = fmt.Sprintf("%q", l.Name)
		w["oracle_rewritten_name"] = fmt.Sprintf("%q", l.RwName)
		w["oracle_line"] = fmt.Sprintf("%q", l.Expected)
	}
	return w
}

// ---------------------------------------------------------------- held aggregator

var aggNow = func() time.Time { return time.Unix(1499999000, 0) }

type heldAgg struct {
	a     *aggregator.Aggregator
	tick  chan time.Time
	out   chan []byte
	inKey string
	base  int64

	mu   sync.Mutex
	got  [][]byte
	stop chan struct{}
	done chan struct{}
}

func newHeldAgg(res *mon.Result, m matcher.Matcher, outFmt string, cache, dropRaw bool, inBuf int) *heldAgg {
	h := &heldAgg{tick: make(chan time.Time), out: make(chan []byte), stop: make(chan struct{}), done: make(chan struct{})}
	a, err := aggregator.NewMocked("last", m, outFmt, cache, 1, 10, dropRaw, h.out, inBuf, aggNow, h.tick)
	if err != nil {
		panic(err)
	}
	h.a = a
	h.inKey = mon.KeyAggIn(a.Key)
	h.base = mon.Counter(h.inKey)
	return h
}

// hold parks the aggregator's run loop inside Flush (sending the primer's output
// to a channel nobody reads): from here on everything handed to it stays queued.
func (h *heldAgg) hold(res *mon.Result) bool {
	h.a.AddMaybe([][]byte{[]byte("c04primer.zq"), []byte("1"), []byte("1499999500")}, 1, 1499999500)
	if !h.waitIn(1, res) {
		return false
	}
	h.tick <- time.Unix(1499999600, 0) // received by the run loop: it is now on its way into Flush
	return true
}

func (h *heldAgg) waitIn(n int64, res *mon.Result) bool {
	for step := 0; step < 60000; step++ {
		if mon.Counter(h.inKey)-h.base >= n {
			return true
		}
		if step < 50 {
			runtime.Gosched()
		} else {
			time.Sleep(500 * time.Microsecond)
		}
	}
	return false
}

// release lets the run loop go on and collects everything it emits.
func (h *heldAgg) release() {
	go func() {
		defer close(h.done)
		for {
			select {
			case b := <-h.out:
				h.mu.Lock()
				h.got = append(h.got, b)
				h.mu.Unlock()
			case <-h.stop:
				return
			}
		}
	}()
}

func (h *heldAgg) outputs() [][]byte {
	h.mu.Lock()
	defer h.mu.Unlock()
	return append([][]byte(nil), h.got...)
}

// drain: a sentinel point is queued behind everything the aggregator still
// holds (its inbox is FIFO) with a timestamp later than all of them, so it is the last
// thing a flush emits; ticks are sent until the sentinel's own output shows
// up, at which point every earlier point has been processed and flushed too.
func (h *heldAgg) drain(res *mon.Result, what string) {
	h.a.AddMaybe([][]byte{[]byte("c04sentinel.zq"), []byte("1"), []byte("1600000000")}, 1, 1600000000)
	seen := 0
	for round := 0; round < 200000; round++ {
		h.tick <- time.Unix(2000000000, 0)
		for step := 0; step < 4; step++ {
			outs := h.outputs()
			for ; seen < len(outs); seen++ {
				if bytes.Contains(outs[seen], []byte("c04sentinel.zq ")) {
					return
				}
			}
			if round < 50 {
				runtime.Gosched()
			} else {
				time.Sleep(50 * time.Microsecond)
			}
		}
	}
	res.Inconclusive(what + ": the aggregator never emitted the sentinel queued behind the lines (step bound)")
}

func (h *heldAgg) shutdown() {
	h.a.Shutdown()
	close(h.stop)
	<-h.done
}

// ---------------------------------------------------------------- tcp feeder

type sigHandler struct {
	inner *input.Plain
	done  chan error
}

func (s *sigHandler) Kind() string { return s.inner.Kind() }
func (s *sigHandler) Handle(r io.Reader) error {
	err := s.inner.Handle(r)
	s.done <- err
	return err
}

// ---------------------------------------------------------------- one case

type stats struct {
	lines, delivered, destLines, aggOut, retained, changed, nontrivialLines int
	skipped, limited, limitedGE2, regexChanged, literalChanged              int
}

func (s *stats) add(o stats) {
	s.lines += o.lines
	s.delivered += o.delivered
	s.destLines += o.destLines
	s.aggOut += o.aggOut
	s.retained += o.retained
	s.changed += o.changed
	s.nontrivialLines += o.nontrivialLines
	s.skipped += o.skipped
	s.limited += o.limited
	s.limitedGE2 += o.limitedGE2
	s.regexChanged += o.regexChanged
	s.literalChanged += o.literalChanged
}

func runCase(res *mon.Result, c *c04case, st *stats) {
	viol := func(sig, msg string, l *lineSpec, extra map[string]interface{}) {
		w := c.witness(l)
		for k, v := range extra {
			w[k] = v
		}
		res.Violate(sig, msg, w)
	}
	tSec := time.Now()
	sec := func(name string) {
		if debugTiming {
			fmt.Printf("  case %d %s: %.3fs\n", c.Index, name, time.Since(tSec).Seconds())
		}
		tSec = time.Now()
	}
	setupMu.Lock() // the admin-command tokenizer keeps global state: tables are built one at a time
	t, _, err := mon.TableFromTOML(c.toml())
	if err != nil {
		setupMu.Unlock()
		// the generator only emits configurations the documentation allows
		viol("config-rejected", "table could not be built from a documented rewriter configuration: "+err.Error(), nil, map[string]interface{}{"toml": c.toml()})
		return
	}
	sec("TableFromTOML(+lock wait)")
	log := &mon.Log{}
	all, _ := matcher.New("", "", "", "", "", "")
	r1 := mon.NewCaptureRoute(fmt.Sprintf("c04cap1_%d", c.Index), all, log)
	r2 := mon.NewCaptureRoute(fmt.Sprintf("c04cap2_%d", c.Index), all, log)
	ep := mon.NewEndpoint(mon.Mode{})
	rkey := fmt.Sprintf("c04r%d", c.Index)
	t.AddRoute(r1)
	if c.Index%10 == 9 {
		// as an operator would (the admin-command tokenizer is slow under -race, hence only one table in ten)
		if err := mon.Apply(t, fmt.Sprintf("addRoute sendAllMatch %s  %s spool=false pickle=false flush=50", rkey, ep.Addr)); err != nil {
			panic("addRoute: " + err.Error())
		}
	} else {
		// what that command does internally (imperatives.readDestination + route.NewSendAllMatch); connbuf sized to the case, iobuf varied
		iobuf := []int{4096, 65536, 300, 2000000}[c.Index%4]
		dst, err := destination.New(rkey, all, ep.Addr, mon.Scratch(), false, false, 50*time.Millisecond, 10*time.Second, c.NLines+1000, iobuf,
			10000, 200*1024*1024, 10000, time.Second, 500*time.Microsecond, 10*time.Microsecond)
		if err != nil {
			panic(err)
		}
		rtNew, err := route.NewSendAllMatch(rkey, all, []*destination.Destination{dst})
		if err != nil {
			panic(err)
		}
		t.AddRoute(rtNew)
	}
	t.AddRoute(r2)
	setupMu.Unlock()
	sec("addRoute")
	dkey := mon.DestKey(rkey, ep.Addr)
	defer func() {
		// Destination.Shutdown closes the connection but leaves its keep-safe janitor running
		// (2.4 MB reallocated every 10 s per leaked connection): let the relay loop see the
		// connection die first, which releases it, then shut down. Not part of any verdict.
		base := mon.Counter(mon.KeyDestDropNoConn(dkey))
		ep.Down()
		if rt := t.GetRoute(rkey); rt != nil {
			for step := 0; step < 20000; step++ {
				rt.Dispatch([]byte("verifprobe.cleanup 1 1"))
				if mon.Counter(mon.KeyDestDropNoConn(dkey)) > base {
					break
				}
				time.Sleep(200 * time.Microsecond)
			}
		}
		t.Shutdown()
	}()
	rt := t.GetRoute(rkey)
	ep.WaitAccepted(1, 2000)
	sec("accepted")
	if !mon.ProbeOnline(func(b []byte) { rt.Dispatch(b); rt.Flush(); runtime.Gosched(); rt.Flush() }, ep, rkey, 400) {
		res.Inconclusive(fmt.Sprintf("case %d: destination never came online", c.Index))
		return
	}
	sec("table+probe")
	d := mon.NewDeltas(mon.KeyDestDropSlowConn(dkey), mon.KeyDestDropNoConn(dkey))

	mAll, err := matcher.New("", "", "", "", "^(.*)$", "")
	if err != nil {
		panic(err)
	}
	agg1 := newHeldAgg(res, mAll, fmt.Sprintf("c04agg%d.$1", c.Index), c.Cache, false, c.NLines+16)
	t.AddAggregator(agg1.a)
	aggs := []*heldAgg{agg1}
	var agg2 *heldAgg
	if c.DropAgg {
		mDrop, err := matcher.New("", "", "zq", "", "^(.*)$", "")
		if err != nil {
			panic(err)
		}
		agg2 = newHeldAgg(res, mDrop, fmt.Sprintf("c04drop%d.$1", c.Index), !c.Cache, true, c.NLines+16)
		t.AddAggregator(agg2.a)
		aggs = append(aggs, agg2)
	}
	for _, h := range aggs {
		if !c.Held {
			h.a.AddMaybe([][]byte{[]byte("c04primer.zq"), []byte("1"), []byte("1499999500")}, 1, 1499999500)
			h.release()
			continue
		}
		if !h.hold(res) {
			res.Inconclusive(fmt.Sprintf("case %d: aggregator primer was not taken in", c.Index))
			return
		}
	}

	sec("aggs held")
	// ---- feed
	switch c.Mode {
	case "dispatch":
		arena := make([]byte, 0)
		for _, l := range c.lines {
			if len(l.Raw)+32 > len(arena) {
				arena = make([]byte, len(l.Raw)+64)
			}
		}
		before := make([]byte, len(arena))
		for _, l := range c.lines {
			for i := range arena {
				arena[i] = 0x55
			}
			buf := arena[:len(l.Raw)]
			copy(buf, l.Raw)
			copy(before, arena)
			t.Dispatch(buf)
			if !bytes.Equal(arena, before) {
				where := "within the line"
				if bytes.Equal(buf, l.Raw) {
					where = "beyond len(buf), within its capacity"
				}
				viol("caller-buffer-modified", "Table.Dispatch modified the caller's buffer ("+where+")", l, map[string]interface{}{"buffer_after": fmt.Sprintf("%q", arena[:len(l.Raw)+8])})
			}
			// the reader is free to reuse its buffer as soon as the hand-off returns
			for i := range arena {
				arena[i] = 0xAA
			}
		}
	case "tcp":
		h := &sigHandler{inner: input.NewPlain(t), done: make(chan error, 8)}
		ln := input.NewListener("127.0.0.1:0", 120*time.Second, h)
		if err := ln.Start(); err != nil {
			panic(err)
		}
		ta, _ := ln.VerifListenerAddrs()
		var wg sync.WaitGroup
		for k := 0; k < c.Conns; k++ {
			var stream bytes.Buffer
			rr := mon.NewRng(mon.Seed(), 402+uint64(k), uint64(c.Index))
			for i := k; i < len(c.lines); i += c.Conns {
				stream.Write(c.lines[i].Raw)
				if rr.Chance(1, 4) {
					stream.WriteString("\r\n")
				} else {
					stream.WriteString("\n")
				}
			}
			wg.Add(1)
			go func(data []byte, rr *mon.Rng) {
				defer wg.Done()
				conn, err := net.DialTCP("tcp", nil, ta.(*net.TCPAddr))
				if err != nil {
					res.Inconclusive("tcp feeder cannot connect: " + err.Error())
					h.done <- err
					return
				}
				conn.SetNoDelay(true)
				for len(data) > 0 {
					n := rr.PickInt([]int{1, 7, 100, 1000, 4096, 5000, 20000, len(data)})
					if n > len(data) {
						n = len(data)
					}
					if _, err := conn.Write(data[:n]); err != nil {
						res.Inconclusive("tcp feeder write failed: " + err.Error())
						break
					}
					data = data[n:]
					if rr.Chance(1, 3) {
						runtime.Gosched()
					}
				}
				conn.Close()
			}(stream.Bytes(), rr)
		}
		wg.Wait()
		for k := 0; k < c.Conns; k++ {
			select {
			case <-h.done:
			case <-time.After(300 * time.Second):
				res.Inconclusive(fmt.Sprintf("case %d: plain handler did not return", c.Index))
			}
		}
		ln.Stop()
	}
	st.lines += len(c.lines)
	sec("feed")

	// ---- drain the consumers
	nRouted := 0
	for _, l := range c.lines {
		if !l.Drop {
			nRouted++
		}
	}
	for _, h := range aggs {
		if c.Held {
			h.release()
		}
	}
	agg1.drain(res, fmt.Sprintf("case %d agg1", c.Index))
	if agg2 != nil {
		agg2.drain(res, fmt.Sprintf("case %d agg2", c.Index))
	}
	sec("agg drain")
	countLines := func() int {
		n := 0
		for _, cr := range ep.Conns() {
			n += bytes.Count(cr.Data(), []byte{'\n'})
		}
		return n
	}
	nProbe := 0
	for step := 0; step < 20000; step++ {
		rt.Flush()
		dropped := int(d.Get(mon.KeyDestDropSlowConn(dkey)) + d.Get(mon.KeyDestDropNoConn(dkey)))
		nProbe = 0
		for _, cr := range ep.Conns() {
			nProbe += bytes.Count(cr.Data(), []byte("verifprobe."))
		}
		if countLines()-nProbe >= nRouted-dropped {
			break
		}
		time.Sleep(500 * time.Microsecond)
	}
	dropped := int(d.Get(mon.KeyDestDropSlowConn(dkey)) + d.Get(mon.KeyDestDropNoConn(dkey)))

	sec("dest flush")
	// ---- compare
	byExpected := map[string]*lineSpec{}
	byTs := map[string]*lineSpec{}
	byTsN := map[uint32]*lineSpec{}
	for _, l := range c.lines {
		byExpected[l.Expected] = l
		byTs[l.Ts] = l
		byTsN[l.TsN] = l
	}
	lastTok := func(b []byte) string {
		f := bytes.Fields(b)
		if len(f) == 0 {
			return ""
		}
		return string(f[len(f)-1])
	}
	classify := func(got []byte, l *lineSpec) string {
		f := bytes.Split(got, []byte(" "))
		if len(f) != 3 {
			return "layout"
		}
		switch {
		case string(f[0]) != l.RwName:
			return "name"
		case string(f[1]) != l.Val:
			return "value"
		case string(f[2]) != l.Ts:
			return "timestamp"
		}
		return "layout"
	}
	check := func(consumer string, got []byte, seen map[int]int) *lineSpec {
		if l, ok := byExpected[string(got)]; ok {
			seen[l.ID]++
			return l
		}
		l := byTs[lastTok(got)]
		if l == nil {
			// the timestamp token itself may be what changed: fall back to its numeric value
			if f, err := strconv.ParseFloat(lastTok(got), 64); err == nil && f >= 0 && f < 4294967296 {
				l = byTsN[uint32(f)]
			}
		}
		if l == nil {
			viol(consumer+":unattributable", consumer+" holds bytes that correspond to no dispatched line", nil, map[string]interface{}{"delivered": fmt.Sprintf("%q", got)})
			return nil
		}
		seen[l.ID]++
		kind := classify(got, l)
		viol(consumer+":"+kind, fmt.Sprintf("%s received a line that is not oracleRewrite(name)+\" \"+value+\" \"+timestamp (%s differs)", consumer, kind), l, map[string]interface{}{"delivered": fmt.Sprintf("%q", got)})
		return l
	}
	// capture routes
	caps := [][]mon.Captured{r1.Take(), r2.Take()}
	seenCap := []map[int]int{{}, {}}
	for ci, got := range caps {
		name := fmt.Sprintf("capture-route-%d", ci+1)
		ordered := c.Mode == "dispatch" || c.Conns == 1
		var want []*lineSpec
		for _, l := range c.lines {
			if !l.Drop {
				want = append(want, l)
			}
		}
		for j, g := range got {
			l := check(name, g.Copy, seenCap[ci])
			if l != nil && l.Drop {
				viol(name+":dropraw-leak", "a line consumed by a drop-raw aggregation reached a route", l, nil)
			}
			if ordered && l != nil && j < len(want) && len(got) == len(want) && want[j] != l {
				viol(name+":order", "sequential hand-offs reached the capture route in a different order", l, map[string]interface{}{"position": j})
			}
		}
		st.delivered += len(got)
	}
	// both capture routes must have seen the same bytes for the same line
	cap2 := map[int][]byte{}
	for _, g := range caps[1] {
		if l := byTs[lastTok(g.Copy)]; l != nil {
			cap2[l.ID] = g.Copy
		}
	}
	for _, g := range caps[0] {
		if l := byTs[lastTok(g.Copy)]; l != nil {
			if o, ok := cap2[l.ID]; ok && !bytes.Equal(o, g.Copy) {
				viol("consumers-differ", "two routes received different bytes for the same line", l, map[string]interface{}{"route1": fmt.Sprintf("%q", g.Copy), "route2": fmt.Sprintf("%q", o)})
			}
		}
	}
	// destination
	seenDest := map[int]int{}
	for _, cr := range ep.Conns() {
		data := cr.Data()
		if len(data) > 0 && data[len(data)-1] != '\n' {
			viol("destination:unterminated", "the destination's stream does not end with a newline after a flush", nil, map[string]interface{}{"tail": fmt.Sprintf("%q", data[maxi(0, len(data)-80):])})
		}
		for _, ln := range bytes.Split(data, []byte{'\n'}) {
			if len(ln) == 0 || bytes.HasPrefix(ln, []byte("verifprobe.")) {
				continue
			}
			st.destLines++
			l := check("destination", ln, seenDest)
			if l != nil && l.Drop {
				viol("destination:dropraw-leak", "a line consumed by a drop-raw aggregation reached a destination", l, nil)
			}
		}
	}
	// aggregators
	aggCheck := func(h *heldAgg, prefix string, who string, expect func(l *lineSpec) bool) map[int]int {
		seen := map[int]int{}
		for _, o := range h.outputs() {
			f := bytes.Split(o, []byte(" "))
			if len(f) != 3 {
				viol(who+":format", "aggregation output is not 'key value ts'", nil, map[string]interface{}{"output": fmt.Sprintf("%q", o)})
				continue
			}
			if string(f[0]) == prefix+"c04primer.zq" || string(f[0]) == prefix+"c04sentinel.zq" {
				continue
			}
			st.aggOut++
			tsn, _ := strconv.ParseUint(string(f[2]), 10, 32)
			l := byTsN[uint32(tsn)]
			if l == nil {
				viol(who+":unattributable", "aggregation output carries a timestamp no dispatched line had", nil, map[string]interface{}{"output": fmt.Sprintf("%q", o)})
				continue
			}
			seen[l.ID]++
			if string(f[0]) != prefix+l.RwName {
				viol(who+":name", "the aggregator processed a name that is not the rewritten name of the line (it holds the fields until its run loop gets to them)", l,
					map[string]interface{}{"output": fmt.Sprintf("%q", o), "oracle_key": fmt.Sprintf("%q", prefix+l.RwName)})
			}
			if v, err := strconv.ParseFloat(l.Val, 64); err == nil {
				if want := fmt.Sprintf("%f", v); want != string(f[1]) {
					viol(who+":value", "the aggregator's value is not the line's value", l, map[string]interface{}{"output": fmt.Sprintf("%q", o), "oracle_value": want})
				}
			}
			if !expect(l) {
				viol(who+":unexpected", "aggregation output for a line the aggregation should not have seen", l, map[string]interface{}{"output": fmt.Sprintf("%q", o)})
			}
		}
		return seen
	}
	seenAgg1 := aggCheck(agg1, fmt.Sprintf("c04agg%d.", c.Index), "aggregator", func(l *lineSpec) bool { return true })
	var seenAgg2 map[int]int
	if agg2 != nil {
		seenAgg2 = aggCheck(agg2, fmt.Sprintf("c04drop%d.", c.Index), "dropraw-aggregator", func(l *lineSpec) bool { return l.Drop })
	}
	// every consumer of one line: present everywhere it should be
	missingDest, undelivered := 0, 0
	for _, l := range c.lines {
		n1, n2, nd, na := seenCap[0][l.ID], seenCap[1][l.ID], seenDest[l.ID], seenAgg1[l.ID]
		if n1 > 1 || n2 > 1 || na > 1 || nd > 1 {
			viol("duplicate", "one hand-off was delivered more than once to a consumer", l, map[string]interface{}{"capture1": n1, "capture2": n2, "destination": nd, "aggregator": na})
		}
		if n1+n2+nd+na == 0 {
			undelivered++
			if undelivered <= 2 {
				res.Sample(map[string]interface{}{"NOT_DELIVERED_ANYWHERE": fmt.Sprintf("%q", l.Raw), "levels": c.Legacy + "/" + c.M20})
				fmt.Printf("undelivered: case %d %s/%s %q\n", c.Index, c.Legacy, c.M20, l.Raw)
			}
			continue
		}
		if l.Drop {
			if seenAgg2[l.ID] != 1 || na != 1 {
				viol("consumers-disagree", "a drop-raw line reached only some of the aggregations", l, map[string]interface{}{"aggregator": na, "dropraw_aggregator": seenAgg2[l.ID]})
			}
			continue
		}
		if n1 != 1 || n2 != 1 || na != 1 {
			viol("consumers-disagree", "a line reached only some of its consumers", l, map[string]interface{}{"capture1": n1, "capture2": n2, "destination": nd, "aggregator": na})
		}
		if nd == 0 {
			missingDest++
		}
		if l.Changed && l.Layout && nd == 1 {
			st.nontrivialLines++
		}
		if l.Changed {
			st.changed++
		}
	}
	if missingDest > dropped {
		res.Inconclusive(fmt.Sprintf("case %d: %d lines missing at the destination, %d counted as dropped (delivery completeness is C05/C06's subject)", c.Index, missingDest, dropped))
	}
	if undelivered > 0 {
		res.Count("lines_valid_by_construction_but_delivered_nowhere", undelivered)
	}
	// ---- last: every retained slice still equals the copy taken at delivery
	for ci, got := range caps {
		for _, g := range got {
			st.retained++
			if !bytes.Equal(g.Given, g.Copy) {
				viol("retained-slice-changed", fmt.Sprintf("the slice handed to capture route %d changed after delivery", ci+1), byTs[lastTok(g.Copy)],
					map[string]interface{}{"at_delivery": fmt.Sprintf("%q", g.Copy), "now": fmt.Sprintf("%q", g.Given)})
			}
		}
	}
	for _, h := range aggs {
		h.shutdown()
	}
	sec("compare+shutdown")
	st.skipped, st.limited, st.limitedGE2, st.regexChanged, st.literalChanged = c.fx.skipped, c.fx.limited, c.fx.limitedGE2, c.fx.regexChanged, c.fx.literalChanged
}

var setupMu sync.Mutex

var debugTiming = os.Getenv("C04_TIMING") != ""

func maxi(a, b int) int {
	if a > b {
		return a
	}
	return b
}

func main() {
	if pf := os.Getenv("C04_PROF"); pf != "" {
		f, _ := os.Create(pf)
		pprof.StartCPUProfile(f)
		defer pprof.StopCPUProfile()
	}
	debug.SetGCPercent(400) // every destination connection allocates ~7 MB of pointer slices; collect less often
	mon.InitRepo()
	res := mon.NewResult("C04")
	res.Rule = "tables generated from (seed,index): validation levels {none,medium,strict}x{none,medium} written as configuration text; 0-4 rewriters (literal with max in {-1,0,1,2,3,7}, /regex/ with ${n}, $n, named groups, empty matches; not-clause absent / substring / /regex/) added through [[rewriter]] sections or addRewriter init commands; lines valid by construction for the chosen levels: names over a small token set with repeats (plus metrics2.0 names, leading dots, empty nodes, regex/template metacharacters, 8-bit bytes where the level allows), 30 value spellings, 9 timestamp spellings, whitespace layouts from single blanks to tabs / runs / leading / trailing / VT FF CR. two thirds of the tables are fed by Table.Dispatch from one reused arena (overwritten with 0xAA after every call), one third by the real Listener+Plain handler over 1-3 concurrent TCP connections; in three tables of four the aggregators are held (parked in a flush) during the feed and released afterwards, in the fourth they run concurrently with it. non-trivial table = at least 10 lines whose name was changed by rewriting AND whose layout was not canonical AND that were seen byte-identical by both capture routes, the destination endpoint and the held aggregator"
	res.Assume("tokens are the maximal runs of non-whitespace the harness wrote; whitespace is ASCII blank, TAB, VT, FF, CR, LF")
	res.Assume("lines missing at the destination are C05/C06's subject: here they make the run inconclusive unless counted as dropped")
	res.Assume("the aggregator is observed through its output key (name it processed), timestamp and value formatted with %f")
	n := mon.N(200, 2000)
	if v, err := strconv.Atoi(os.Getenv("C04_LIMIT")); err == nil && v > 0 && v < n {
		n = v // monitor validation against mutants only: fewer tables (the floors then fail unless something fired)
	}
	var st stats
	var mu sync.Mutex
	ran, nontrivial := 0, 0
	jobs := make(chan int)
	var wg sync.WaitGroup
	for w := 0; w < 4; w++ {
		wg.Add(1)
		go func() {
			defer wg.Done()
			for i := range jobs {
				c := genCase(mon.Seed(), i)
				res.LogCase("case %d mode=%s legacy=%s m20=%s rules=%+v lines=%d", i, c.Mode, c.Legacy, c.M20, c.Rules, c.NLines)
				var cs stats
				tCase := time.Now()
				runCase(res, c, &cs)
				if el := time.Since(tCase); debugTiming {
					fmt.Printf("case %d (%s) took %.2fs\n", i, c.Mode, el.Seconds())
				}
				res.Eval(1)
				mu.Lock()
				st.add(cs)
				ran++
				if cs.nontrivialLines >= 10 {
					nontrivial++
					res.NonTrivial(fmt.Sprintf("case/%d", i))
				}
				mu.Unlock()
				if i < 3 {
					l := c.lines[len(c.lines)/2]
					res.Sample(map[string]interface{}{"case": c.Index, "mode": c.Mode, "levels": c.Legacy + "/" + c.M20, "rewriters": c.Rules,
						"example_line": fmt.Sprintf("%q", l.Raw), "oracle": fmt.Sprintf("%q", l.Expected)})
				}
			}
		}()
	}
	only := os.Getenv("C04_ONLY") // monitor validation only: "tcp" or "dispatch"
	for i := 0; i < n; i++ {
		if only != "" && (i%3 == 2) != (only == "tcp") {
			continue
		}
		if mon.Mine(i) {
			jobs <- i
		}
	}
	close(jobs)
	wg.Wait()
	res.Count("lines_fed", st.lines)
	res.Count("capture_route_deliveries", st.delivered)
	res.Count("destination_lines_received", st.destLines)
	res.Count("aggregation_outputs", st.aggOut)
	res.Count("retained_slices_compared_at_end", st.retained)
	res.Count("lines_with_name_changed_by_rewriting", st.changed)
	res.Count("lines_changed_and_noncanonical_layout_seen_by_all_consumers", st.nontrivialLines)
	res.Count("rule_applications_skipped_by_not_clause", st.skipped)
	res.Count("literal_rule_applications_cut_short_by_max", st.limited)
	res.Count("literal_rule_applications_cut_short_by_max_of_2_or_more", st.limitedGE2)
	res.Count("regex_rule_applications_that_changed_the_name", st.regexChanged)
	res.Count("literal_rule_applications_that_changed_the_name", st.literalChanged)
	res.Floor("tables", ran, n)
	res.Floor("capture_route_deliveries", st.delivered, n*mon.N(200, 400)*2*8/10)
	res.Floor("destination_lines_received", st.destLines, n*mon.N(200, 400)*7/10)
	res.Floor("aggregation_outputs", st.aggOut, n*mon.N(200, 400)*8/10)
	res.Floor("nontrivial_tables", nontrivial, n/4)
	res.Write()
}
