// C09 — the disk spool queue is an exact persistent FIFO across clean restarts.
//
// Oracle: a slice. The real nsqd.DiskQueue is driven one operation at a time
// (put / get / close+reopen); after every operation the queue's I/O loop is
// waited for at its idle point (tag-guarded hook) and Depth() plus the
// ready/empty state are compared with the model; every delivered message is
// compared byte-for-byte with the model head.
package main

import (
	"bytes"
	"encoding/binary"
	"fmt"
	"os"
	"path/filepath"
	"sync"
	"time"

	"verifharness/dq"
	"verifharness/mon"
)

type op struct {
	Kind string `json:"op"` // put, get, reopen
	Len  int    `json:"len,omitempty"`
}

type hcase struct {
	Index     int   `json:"index"`
	MaxBytes  int64 `json:"maxBytesPerFile"`
	SyncEvery int64 `json:"syncEvery"`
	Ops       []op  `json:"ops"`
}

func payload(seq uint32, n int) []byte {
	b := make([]byte, n)
	x := seq*2654435761 + 12345
	for i := range b {
		x = x*1664525 + 1013904223
		b[i] = byte(x >> 24)
	}
	if n >= 4 {
		binary.BigEndian.PutUint32(b, seq)
	}
	return b
}

func gen(seed uint64, idx int) hcase {
	r := mon.NewRng(seed, 9, uint64(idx))
	c := hcase{Index: idx}
	c.MaxBytes = int64(r.PickInt([]int{1, 2, 7, 16, 33, 64, 100, 200, 1000, 4096}))
	c.SyncEvery = int64(r.PickInt([]int{1, 1, 2, 3, 7, 50, 1000}))
	n := r.Range(50, 400)
	if !mon.Thorough() {
		n = r.Range(30, 160)
	}
	seg := int(c.MaxBytes)
	// bias: phases of filling / draining so the queue spans several segments
	pPut := 55
	for i := 0; i < n; i++ {
		if i%40 == 0 {
			pPut = r.PickInt([]int{35, 50, 60, 75})
		}
		x := r.Intn(100)
		switch {
		case x < pPut:
			var l int
			switch r.Intn(8) {
			case 0:
				l = 0
			case 1:
				l = r.Range(0, 3*seg+4)
			case 2: // land exactly around the segment limit: record = 4+l bytes
				l = seg - 4 + r.Range(-2, 2)
			case 3:
				l = seg + r.Range(-5, 5)
			case 4:
				l = r.Range(1, 12)
			default:
				l = r.Range(0, seg/2+8)
			}
			if l < 0 {
				l = 0
			}
			if l > 20000 {
				l = 20000
			}
			c.Ops = append(c.Ops, op{"put", l})
		case x < pPut+35:
			c.Ops = append(c.Ops, op{Kind: "get"})
		default:
			if r.Chance(1, 3) {
				c.Ops = append(c.Ops, op{Kind: "reopen"})
			} else if r.Chance(1, 3) {
				// a message is taken and the queue is closed straight away, without waiting for it to come to rest
				c.Ops = append(c.Ops, op{Kind: "getclose"})
			} else {
				c.Ops = append(c.Ops, op{Kind: "get"})
			}
		}
	}
	return c
}

// compact renders a history as "p9 g r ..." (put len / get / reopen).
func compact(ops []op, max int) string {
	var b bytes.Buffer
	for i, o := range ops {
		if i >= max {
			fmt.Fprintf(&b, "... (%d ops)", len(ops))
			break
		}
		switch o.Kind {
		case "put":
			fmt.Fprintf(&b, "p%d ", o.Len)
		case "get":
			b.WriteString("g ")
		case "getclose":
			b.WriteString("gR ")
		default:
			b.WriteString("R ")
		}
	}
	return b.String()
}

var nGetClose int

func runCase(res *mon.Result, c hcase, dir string) {
	os.RemoveAll(dir)
	defer os.RemoveAll(dir)
	viol := func(sig, format string, a ...interface{}) {
		res.Violate(sig, fmt.Sprintf(format, a...), c)
	}
	q, err := dq.Open("q", dir, c.MaxBytes, c.SyncEvery)
	if err != nil {
		viol("open-stuck", "%v", err)
		return
	}
	var model [][]byte
	var seq uint32
	// delivered slices are kept (as a consumer that forwards them would) and
	// compared again at the end: a delivered message must never change afterwards
	type kept struct{ got, want []byte }
	var delivered []kept
	defer func() {
		for i, k := range delivered {
			if !bytes.Equal(k.got, k.want) {
				viol("delivered-message-altered", "the %d-th delivered message (%d bytes) changed after it was handed to the consumer: now %.16x, was %.16x", i, len(k.want), k.got, k.want)
				return
			}
		}
	}()
	crossed, reopenNonEmpty := false, false
	bytesInSeg := int64(0)
	check := func(step int, what string) bool {
		if d := q.D.Depth(); d != int64(len(model)) {
			viol("depth", "step %d after %s: Depth()=%d, model has %d undelivered messages", step, what, d, len(model))
			return false
		}
		if len(model) == 0 && q.Label == "idle-ready" {
			viol("phantom-ready", "step %d after %s: queue offers a message although everything was delivered", step, what)
			return false
		}
		if len(model) > 0 && q.Label == "idle-empty" {
			viol("lost-empty", "step %d after %s: queue is at rest offering nothing although %d messages are undelivered", step, what, len(model))
			return false
		}
		return true
	}
	get := func(step int) bool {
		if len(model) == 0 {
			return true // nothing to get: the ready/empty check above covers phantoms
		}
		m, ok, err := q.Get()
		if !ok {
			viol("undelivered", "step %d: no message delivered although %d are queued", step, len(model))
			return false
		}
		if err != nil {
			viol("stuck", "step %d: %v", step, err)
			return false
		}
		if !bytes.Equal(m, model[0]) {
			pos := -1
			for i := range model {
				if bytes.Equal(m, model[i]) {
					pos = i
				}
			}
			viol("wrong-message", "step %d: delivered %d bytes %.16x, expected head of %d bytes %.16x (delivered message is model position %d)", step, len(m), m, len(model[0]), model[0], pos)
			return false
		}
		delivered = append(delivered, kept{m, model[0]})
		model = model[1:]
		return true
	}
	for step, o := range c.Ops {
		switch o.Kind {
		case "put":
			seq++
			b := payload(seq, o.Len)
			if err := q.Put(b); err != nil {
				viol("put-error", "step %d: Put: %v", step, err)
				return
			}
			model = append(model, b)
			bytesInSeg += int64(4 + o.Len)
			if bytesInSeg > c.MaxBytes {
				crossed = true
				bytesInSeg = 0
			}
		case "get":
			if !get(step) {
				return
			}
		case "reopen", "getclose":
			if o.Kind == "getclose" && len(model) > 0 {
				var m []byte
				select {
				case m = <-q.D.ReadChan():
				case <-time.After(q.Watchdog):
					viol("undelivered", "step %d: no message delivered although %d are queued", step, len(model))
					return
				}
				if !bytes.Equal(m, model[0]) {
					viol("wrong-message", "step %d: delivered %d bytes %.16x, expected head of %d bytes %.16x", step, len(m), m, len(model[0]), model[0])
					return
				}
				delivered = append(delivered, kept{m, model[0]})
				model = model[1:]
				nGetClose++
			}
			if len(model) > 0 {
				reopenNonEmpty = true
			}
			if err := q.Close(); err != nil {
				viol("close-error", "step %d: Close: %v", step, err)
				return
			}
			q, err = dq.Open("q", dir, c.MaxBytes, c.SyncEvery)
			if err != nil {
				viol("open-stuck", "step %d: %v", step, err)
				return
			}
		}
		if !check(step, o.Kind) {
			q.Close()
			return
		}
	}
	// final drain must yield exactly the model
	for len(model) > 0 {
		if !get(len(c.Ops)) || !check(len(c.Ops), "final drain") {
			q.Close()
			return
		}
	}
	q.Close()
	// a clean close + reopen of an empty queue must stay empty
	q, err = dq.Open("q", dir, c.MaxBytes, c.SyncEvery)
	if err != nil {
		viol("open-stuck", "final reopen: %v", err)
		return
	}
	check(len(c.Ops)+1, "final reopen")
	q.Close()
	if crossed && reopenNonEmpty {
		res.NonTrivial(fmt.Sprintf("%d/%d/%d", c.Index, c.MaxBytes, c.SyncEvery))
	}
}

// concurrent variant: P producers, one consumer, unique values; per-producer
// order and exactly-once are checked on the received sequence.
func runConcurrent(res *mon.Result, idx int, dir string) {
	os.RemoveAll(dir)
	defer os.RemoveAll(dir)
	r := mon.NewRng(mon.Seed(), 99, uint64(idx))
	maxBytes := int64(r.PickInt([]int{16, 64, 200, 4096}))
	syncEvery := int64(r.PickInt([]int{1, 3, 100}))
	q, err := dq.Open("qc", dir, maxBytes, syncEvery)
	if err != nil {
		res.Violate("open-stuck", err.Error(), idx)
		return
	}
	const P = 3
	per := r.Range(30, 120)
	var wg sync.WaitGroup
	for p := 0; p < P; p++ {
		wg.Add(1)
		go func(p int) {
			defer wg.Done()
			rr := mon.NewRng(mon.Seed(), 100+uint64(p), uint64(idx))
			for i := 0; i < per; i++ {
				b := make([]byte, 8+rr.Intn(40))
				binary.BigEndian.PutUint32(b, uint32(p))
				binary.BigEndian.PutUint32(b[4:], uint32(i))
				if err := q.D.Put(b); err != nil {
					res.Violate("put-error", err.Error(), idx)
					return
				}
			}
		}(p)
	}
	next := make([]uint32, P)
	got := 0
	desc := map[string]interface{}{"concurrent": idx, "maxBytesPerFile": maxBytes, "syncEvery": syncEvery, "producers": P, "perProducer": per}
	for got < P*per {
		select {
		case m := <-q.D.ReadChan():
			if len(m) < 8 {
				res.Violate("conc-torn", fmt.Sprintf("message of %d bytes", len(m)), desc)
				return
			}
			p, i := binary.BigEndian.Uint32(m), binary.BigEndian.Uint32(m[4:])
			if int(p) >= P || i != next[p] {
				res.Violate("conc-order", fmt.Sprintf("producer %d: got its message #%d, expected #%d", p, i, next[p]), desc)
				return
			}
			next[p]++
			got++
		case <-time.After(60 * time.Second):
			res.Violate("conc-undelivered", fmt.Sprintf("only %d of %d messages delivered", got, P*per), desc)
			return
		}
	}
	wg.Wait()
	select {
	case m := <-q.D.ReadChan():
		res.Violate("conc-extra", fmt.Sprintf("extra message %x after everything was delivered", m), desc)
	case <-time.After(20 * time.Millisecond):
	}
	q.Close()
	res.NonTrivial(fmt.Sprintf("conc/%d", idx))
}

func main() {
	res := mon.NewResult("C09")
	res.Rule = "histories over {put(len),get,close+reopen} generated from (seed,index): maxBytesPerFile in {1..4096}, syncEvery in {1..1000}, lengths 0..3x segment biased to the segment limit; non-trivial = the history rolled over to a new segment at least once AND reopened the queue while messages were undelivered; plus concurrent histories (3 producers, 1 consumer)"
	res.Assume("the tag-guarded idle hook fires only when the I/O loop is about to block (checked by reading nsqd/diskqueue.go)")
	res.Assume("clean restart = Close() returned before the queue is opened again, same process")
	dir := filepath.Join(mon.Scratch(), "c09")
	n := mon.N(400, 30000)
	nc := mon.N(24, 600)
	ran := 0
	for i := 0; i < n; i++ {
		if !mon.Mine(i) {
			continue
		}
		c := gen(mon.Seed(), i)
		res.LogCase("case %d max=%d sync=%d ops=%d", i, c.MaxBytes, c.SyncEvery, len(c.Ops))
		runCase(res, c, fmt.Sprintf("%s-%d", dir, i)) // own directory: a queue left behind by a violating case must not disturb the next one
		res.Eval(1)
		res.Count("operations", len(c.Ops))
		if ran < 1 {
			res.Sample(map[string]interface{}{"index": c.Index, "maxBytesPerFile": c.MaxBytes, "syncEvery": c.SyncEvery, "ops": compact(c.Ops, 60)})
		}
		ran++
	}
	for i := 0; i < nc; i++ {
		if !mon.Mine(i) {
			continue
		}
		res.LogCase("concurrent %d", i)
		runConcurrent(res, i, fmt.Sprintf("%s-c%d", dir, i))
		res.Eval(1)
		res.Count("concurrent_histories", 1)
	}
	res.Count("gets_followed_by_immediate_close", nGetClose)
	res.Floor("histories", ran, n)
	res.Write()
}
