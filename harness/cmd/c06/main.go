// C06 — a bad endpoint never stalls ingestion; steady-state losses are all counted.
//
// A real table with (A) a real carbon route whose single destination (no spool)
// points at a scripted loopback endpoint and (B) a capture route that accepts
// everything. D dispatcher goroutines push unique lines through Table.Dispatch
// while the endpoint misbehaves. Monitors:
//   - stall detector: every Dispatch call is stamped; a call in flight longer than
//     the stall bound (>=1000x normal) whose goroutine is parked at the same repo
//     frame in two stack samples 1 s apart is a violation ("bounded time" restated
//     as: every one of N hand-offs returned within the bound);
//   - route B must have received every line handed in (other routes not starved);
//   - conservation at steady states, after quiescence by bounded steps:
//     down + no spool:   handed == conn_down_no_spool delta
//     connection up:     handed == received + slow_conn delta
//
// Runtime address updates (Table.UpdateDestination {"addr": ...}, what `modDest <route> <idx> addr=`
// does):
//   - blackhole-readdr: the destination sits on a black hole with traffic beyond all buffers and is
//     re-pointed at a healthy endpoint B while traffic continues: every Dispatch keeps returning
//     (stall detector); afterwards the steady-state identity holds on B;
//   - pause-readdr: a healthy endpoint A stops reading for a moment (a backlog builds on the
//     connection), the destination is re-pointed at B, A reads again. Both endpoints stayed healthy,
//     so after quiescence handed == received(A) + received(B) + slow_conn (old + new destination key).
//
// The close-mid-stream scripts also run with spool=true (own spool directory): stall detector and
// second route only, C07 owns conservation with spooling.
package main

import (
	"bytes"
	"fmt"
	"os"
	"path/filepath"
	"regexp"
	"runtime"
	"strings"
	"sync"
	"sync/atomic"
	"time"

	"github.com/grafana/carbon-relay-ng/destination"
	"github.com/grafana/carbon-relay-ng/route"
	"github.com/grafana/carbon-relay-ng/table"

	"verifharness/mon"
)

type scase struct {
	Index       int    `json:"index"`
	Script      string `json:"script"`
	Dispatchers int    `json:"dispatchers"`
	Lines       int    `json:"lines_per_phase"`
	LineLen     int    `json:"max_line_len"`
	ConnBuf     int    `json:"connbuf"`
	IoBuf       int    `json:"iobuf"`
	Flush       int    `json:"flush_ms"`
	Rate        int    `json:"throttle_bytes_per_s,omitempty"`
	CloseAt     int    `json:"close_after_bytes,omitempty"`
	SpoolSleep  int    `json:"spoolsleep_us,omitempty"`         // > 0: the destination has spool=true
	Traffic     bool   `json:"traffic_during_update,omitempty"` // pause-readdr: the address update happens mid-traffic
}

var scripts = []string{"absent", "refuse-then-appear", "blackhole", "blackhole-then-read", "throttled-slow", "throttled-fast", "healthy", "healthy-tinybuf",
	"abort-early", "abort-late", "graceful-early", "graceful-late", "appear-then-abort", "healthy-many-dispatchers", "firstmatch-first-down",
	// runtime address updates
	"blackhole-readdr", "pause-readdr",
	// the close-mid-stream scripts with spool=true (stall detector only)
	"abort-early-spool", "abort-late-spool", "graceful-early-spool", "graceful-late-spool"}

func gen(idx int) scase {
	r := mon.NewRng(mon.Seed(), 6, uint64(idx))
	c := scase{Index: idx, Script: scripts[idx%len(scripts)]}
	c.Dispatchers = r.Range(1, 4)
	c.Lines = mon.N(12000, 30000)
	c.LineLen = r.PickInt([]int{100, 300, 1000})
	c.ConnBuf = r.PickInt([]int{0, 10, 100, 1000})
	c.IoBuf = r.PickInt([]int{512, 4096, 65536})
	c.Flush = r.PickInt([]int{5, 50, 500})
	switch c.Script {
	case "throttled-slow":
		// slow enough that a single buffered write stays blocked for seconds: whatever the relay does about
		// that (nothing today), lines must not vanish uncounted while the endpoint keeps reading
		c.Rate = r.Range(10, 30) * 1000
		c.Flush, c.IoBuf = 5, 65536
		// ... which needs more traffic than the kernel's socket buffers (several MB on loopback) can absorb
		c.LineLen, c.ConnBuf = 1000, 1000
		c.Lines *= 2
	case "throttled-fast":
		c.Rate = r.Range(100, 500) * 1000
	case "healthy-tinybuf":
		// connbuf=0 is accepted: the connection's queue is unbuffered, a hand-off only succeeds while its writer waits
		c.ConnBuf, c.IoBuf = r.PickInt([]int{0, 1}), 64
	case "healthy-many-dispatchers":
		c.Dispatchers = 8
	case "blackhole-readdr":
		// the connection's writer must be stuck in a socket write when the address changes: traffic beyond
		// io buffer + connection queue + the kernel's socket buffers
		c.LineLen = 1000
		if c.Lines < 24000 {
			c.Lines = 24000 // ~12 MB
		}
	case "pause-readdr":
		// a backlog must sit in the connection's queue when the address changes: a queue (connbuf > 0) and,
		// while the endpoint pauses, more traffic than io buffer + queue + kernel socket buffers take
		c.LineLen = 1000
		c.ConnBuf = r.PickInt([]int{100, 1000, 5000})
		c.Traffic = r.Bool()
	}
	if strings.Contains(c.Script, "early") {
		c.CloseAt = r.Range(1, 5000)
	} else if strings.Contains(c.Script, "late") || c.Script == "appear-then-abort" {
		c.CloseAt = r.Range(200000, 1500000)
	}
	if strings.HasSuffix(c.Script, "-spool") {
		// whatever the relay does with the lines of the dead connection (it feeds them to the spool one by one,
		// spoolsleep apart, in the background) must not hold up a hand-off: many short lines before the close
		// and a long spoolsleep make anything that waits for it visible to the stall detector
		c.SpoolSleep = 2000
		if strings.Contains(c.Script, "late") {
			c.LineLen = 100
			c.ConnBuf = r.PickInt([]int{1000, 10000})
			c.CloseAt = r.Range(20, 35) * c.Lines // 3600-6400 lines (quick) reach the endpoint before it closes
		}
	}
	return c
}

var latMu sync.Mutex
var latMax = map[string]float64{}

// ---- stall detector -------------------------------------------------------

type dispState struct {
	gid   int64
	start int64 // unix nano of the call in flight, 0 = idle
	calls int64
	maxNs int64
}

var gidRe = regexp.MustCompile(`^goroutine (\d+) `)

func curGID() int64 {
	buf := make([]byte, 64)
	n := runtime.Stack(buf, false)
	m := gidRe.FindSubmatch(buf[:n])
	var id int64
	fmt.Sscan(string(m[1]), &id)
	return id
}

func goroutineBlock(dump string, gid int64) string {
	marker := fmt.Sprintf("goroutine %d [", gid)
	i := strings.Index(dump, marker)
	if i < 0 {
		return ""
	}
	rest := dump[i:]
	if j := strings.Index(rest, "\n\n"); j >= 0 {
		rest = rest[:j]
	}
	return rest
}

func allStacks() string {
	buf := make([]byte, 4<<20)
	n := runtime.Stack(buf, true)
	return string(buf[:n])
}

// topRepoFrame returns the goroutine's state and the repo function it is blocked in: the first
// frame below the standard library must belong to the relay. A goroutine that is blocked inside
// harness code (a capture route's own mutex, the stall detector) is not a relay stall: "" then.
func topRepoFrame(block string) (state, frame string) {
	if m := regexp.MustCompile(`^goroutine \d+ \[([^\],]+)`).FindStringSubmatch(block); m != nil {
		state = m[1]
	}
	for _, l := range strings.Split(block, "\n") {
		if l == "" || l[0] == '\t' || strings.HasPrefix(l, "goroutine ") || strings.HasPrefix(l, "created by ") {
			continue
		}
		if strings.HasPrefix(l, "github.com/grafana/carbon-relay-ng/") {
			f := strings.TrimPrefix(l, "github.com/grafana/carbon-relay-ng/")
			if k := strings.LastIndex(f, "("); k > 0 {
				f = f[:k]
			}
			return state, f
		}
		if strings.HasPrefix(l, "verifharness/") || strings.HasPrefix(l, "main.") {
			return state, "" // parked in the harness itself
		}
		// anything else is standard library / runtime: keep walking down
	}
	return state, ""
}

// countRoute is the healthy second route: it accepts everything and only counts the lines of
// its case (keeping every line, as mon.CaptureRoute does, costs hundreds of MB here and makes
// the garbage collector part of the measurement).
type countRoute struct {
	prefix []byte
	n      int64
}

func (c *countRoute) Dispatch(buf []byte) {
	if bytes.HasPrefix(buf, c.prefix) {
		atomic.AddInt64(&c.n, 1)
	}
}
func (c *countRoute) Match(s []byte) bool { return true }
func (c *countRoute) Snapshot() route.Snapshot {
	return route.Snapshot{Type: "count", Key: "capB"}
}
func (c *countRoute) Key() string     { return "capB" }
func (c *countRoute) Flush() error    { return nil }
func (c *countRoute) Shutdown() error { return nil }
func (c *countRoute) GetDestination(index int) (*destination.Destination, error) {
	return nil, fmt.Errorf("no destinations")
}
func (c *countRoute) DelDestination(index int) error { return fmt.Errorf("no destinations") }
func (c *countRoute) UpdateDestination(index int, opts map[string]string) error {
	return fmt.Errorf("no destinations")
}
func (c *countRoute) Update(opts map[string]string) error { return fmt.Errorf("not supported") }

// ---- one case --------------------------------------------------------------

type runner struct {
	res   *mon.Result
	c     scase
	t     *table.Table
	capB  *countRoute
	ep    *mon.Endpoint
	epB   *mon.Endpoint // address updates: the endpoint the destination is re-pointed at
	key   string        // route key
	dkey  string
	dkeyB string // the destination's counter key once it points at epB
	seq   int64
	disp  []*dispState
	stall int32 // set when a stall was confirmed: dispatchers must not be waited for
	bound time.Duration
	stopM chan struct{}
	wgM   sync.WaitGroup
	cmd   string
	cmd2  string // what the address update amounts to on the admin port

	scanMu    sync.Mutex
	scans     map[*mon.ConnRec]*connScan
	malformed string
}

var t0 = time.Now()

func (r *runner) dbg(what string) {
	if os.Getenv("VERIF_DEBUG") != "" {
		fmt.Printf("DEBUG %7.2fs case %d %s: %s\n", time.Since(t0).Seconds(), r.c.Index, r.c.Script, what)
	}
}

func (r *runner) witness() map[string]interface{} {
	w := map[string]interface{}{"case": r.c, "route_cmd": r.cmd}
	if r.cmd2 != "" {
		w["later_cmd"] = r.cmd2
	}
	return w
}

func (r *runner) monitor() {
	defer r.wgM.Done()
	tk := time.NewTicker(100 * time.Millisecond)
	defer tk.Stop()
	for {
		select {
		case <-r.stopM:
			return
		case <-tk.C:
		}
		now := time.Now().UnixNano()
		for _, d := range r.disp {
			st := atomic.LoadInt64(&d.start)
			if st == 0 || time.Duration(now-st) < r.bound {
				continue
			}
			calls := atomic.LoadInt64(&d.calls)
			b1 := goroutineBlock(allStacks(), d.gid)
			time.Sleep(time.Second)
			if atomic.LoadInt64(&d.calls) != calls || atomic.LoadInt64(&d.start) != st {
				r.res.Inconclusive(fmt.Sprintf("case %d: a Dispatch call took longer than %v but did return (loaded machine?)", r.c.Index, r.bound))
				continue
			}
			b2 := goroutineBlock(allStacks(), d.gid)
			s1, f1 := topRepoFrame(b1)
			s2, f2 := topRepoFrame(b2)
			if f1 != "" && f1 == f2 && s1 == s2 && s1 != "running" && s1 != "runnable" {
				w := r.witness()
				w["stack_sample_1"] = b1
				w["stack_sample_2"] = b2
				w["in_flight_for"] = time.Duration(time.Now().UnixNano() - st).String()
				r.res.Violate("dispatch-stalled:"+f1, fmt.Sprintf("Table.Dispatch has not returned after %v while the endpoint script is %q: goroutine parked in %s (%s) in two samples 1s apart", r.bound, r.c.Script, f1, s1), w)
				atomic.StoreInt32(&r.stall, 1)
				return
			}
			r.res.Inconclusive(fmt.Sprintf("case %d: long Dispatch call, goroutine not parked at a stable repo frame (%s/%s)", r.c.Index, s1, s2))
		}
	}
}

// send pushes n unique lines through Table.Dispatch from D goroutines; returns
// the number handed in, or -1 if a stall was confirmed.
func (r *runner) send(n int, mid func()) int {
	var wg sync.WaitGroup
	per := n / r.c.Dispatchers
	var once sync.Once
	var sent int64
	for di := 0; di < r.c.Dispatchers; di++ {
		wg.Add(1)
		d := r.disp[di]
		go func(di int) {
			defer wg.Done()
			d.gid = curGID()
			rr := mon.NewRng(mon.Seed(), 600+uint64(di), uint64(r.c.Index))
			for i := 0; i < per; i++ {
				if atomic.LoadInt32(&r.stall) != 0 {
					return
				}
				id := atomic.AddInt64(&r.seq, 1)
				name := fmt.Sprintf("c06.%d.l%d", r.c.Index, id)
				want := rr.Range(30, r.c.LineLen)
				if pad := want - len(name) - 16; pad > 0 {
					name += "." + strings.Repeat("y", pad)
				}
				line := []byte(fmt.Sprintf("%s %d %d", name, id, 1500000000+id%100000))
				atomic.StoreInt64(&d.start, time.Now().UnixNano())
				r.t.Dispatch(line)
				took := time.Now().UnixNano() - atomic.LoadInt64(&d.start)
				atomic.StoreInt64(&d.start, 0)
				atomic.AddInt64(&d.calls, 1)
				if took > atomic.LoadInt64(&d.maxNs) {
					atomic.StoreInt64(&d.maxNs, took)
				}
				if atomic.AddInt64(&sent, 1) == int64(n/2) && mid != nil {
					once.Do(mid)
				}
			}
		}(di)
	}
	done := make(chan struct{})
	go func() { wg.Wait(); close(done) }()
	for {
		select {
		case <-done:
			return int(atomic.LoadInt64(&sent))
		case <-time.After(200 * time.Millisecond):
			if atomic.LoadInt32(&r.stall) != 0 {
				return -1
			}
		}
	}
}

func (r *runner) received() int { return int(r.ep.TotalBytes()) }

// countLines counts complete lines over all connections that carry this case's ids
// (probe lines excluded) and checks they are well-formed. Incremental: every
// connection's stream is only parsed once.
type connScan struct {
	off  int // bytes consumed so far
	n    int
	tail []byte
}

func (r *runner) countLines() (n int, malformed string) { return r.countLinesOn(r.ep) }

func (r *runner) countLinesOn(eps ...*mon.Endpoint) (n int, malformed string) {
	r.scanMu.Lock()
	defer r.scanMu.Unlock()
	if r.scans == nil {
		r.scans = map[*mon.ConnRec]*connScan{}
	}
	prefix := []byte(fmt.Sprintf("c06.%d.l", r.c.Index))
	var conns []*mon.ConnRec
	for _, ep := range eps {
		conns = append(conns, ep.Conns()...)
	}
	for _, c := range conns {
		sc := r.scans[c]
		if sc == nil {
			sc = &connScan{}
			r.scans[c] = sc
		}
		nd := c.DataFrom(sc.off)
		sc.off += len(nd)
		data := append(sc.tail, nd...)
		for len(data) > 0 {
			nl := bytes.IndexByte(data, '\n')
			if nl < 0 {
				break // a connection that was cut may end in a partial line
			}
			l := data[:nl]
			data = data[nl+1:]
			if bytes.HasPrefix(l, []byte("verifprobe.")) {
				continue
			}
			if !bytes.HasPrefix(l, prefix) || bytes.Count(l, []byte(" ")) != 2 {
				if r.malformed == "" {
					r.malformed = fmt.Sprintf("%.120q", l)
				}
				continue
			}
			sc.n++
		}
		sc.tail = append([]byte(nil), data...)
		n += sc.n
	}
	return n, r.malformed
}

func (r *runner) flushDest() {
	rt := r.t.GetRoute(fmt.Sprintf("c06r%d", r.c.Index))
	if rt == nil {
		return
	}
	if d, err := rt.GetDestination(0); err == nil {
		done := make(chan struct{})
		go func() { d.Flush(); close(done) }()
		select {
		case <-done:
		case <-time.After(5 * time.Second): // a flush may sit behind a blocked socket write: not a verdict
		}
	}
}

// steadyUp checks handed == received + slow_conn for a phase on a connection that stays up.
func (r *runner) steadyUp(phase string, handed int, recvBase int, d *mon.Deltas) {
	var got int
	ok := false
	for step := 0; step < 3000; step++ {
		r.flushDest()
		got, _ = r.countLines()
		got -= recvBase
		if int64(got)+d.Get(mon.KeyDestDropSlowConn(r.dkey)) >= int64(handed) {
			ok = true
			break
		}
		time.Sleep(3 * time.Millisecond)
	}
	slow := d.Get(mon.KeyDestDropSlowConn(r.dkey))
	noconn := d.Get(mon.KeyDestDropNoConn(r.dkey))
	r.res.Count("lines_handed", handed)
	r.res.Count("lines_received", got)
	r.res.Count("lines_dropped_slow_conn", int(slow))
	if os.Getenv("VERIF_DEBUG") != "" {
		fmt.Printf("DEBUG case %d %s %s: handed=%d got=%d slow=%d noconn=%d accepted=%d ok=%v\n", r.c.Index, r.c.Script, phase, handed, got, slow, noconn, r.ep.Accepted(), ok)
	}
	if _, bad := r.countLines(); bad != "" {
		w := r.witness()
		w["line"] = bad
		r.res.Violate("malformed-line", "endpoint received a line that was never handed off: "+bad, w)
		return
	}
	if !ok || int64(got)+slow != int64(handed) || noconn != 0 {
		w := r.witness()
		w["phase"], w["handed"], w["received"], w["slow_conn"], w["conn_down_no_spool"] = phase, handed, got, slow, noconn
		w["connections_accepted"] = r.ep.Accepted()
		r.res.Violate("uncounted-loss-up", fmt.Sprintf("%s: connection up: handed %d, received %d, slow_conn %d, conn_down_no_spool %d -> %d lines disappeared uncounted", phase, handed, got, slow, noconn, int64(handed)-int64(got)-slow-noconn), w)
	}
}

func (r *runner) steadyDown(phase string, handed int, d *mon.Deltas) {
	ok := false
	for step := 0; step < 3000; step++ {
		if d.Get(mon.KeyDestDropNoConn(r.dkey)) >= int64(handed) {
			ok = true
			break
		}
		time.Sleep(2 * time.Millisecond)
	}
	no := d.Get(mon.KeyDestDropNoConn(r.dkey))
	slow := d.Get(mon.KeyDestDropSlowConn(r.dkey))
	r.res.Count("lines_handed", handed)
	r.res.Count("lines_dropped_conn_down", int(no))
	if !ok || no != int64(handed) || slow != 0 || r.received() != 0 {
		w := r.witness()
		w["phase"], w["handed"], w["conn_down_no_spool"], w["slow_conn"] = phase, handed, no, slow
		r.res.Violate("uncounted-loss-down", fmt.Sprintf("%s: endpoint down, spooling off: handed %d but conn_down_no_spool moved by %d", phase, handed, no), w)
	}
}

func (r *runner) online(tag string) bool {
	return mon.ProbeOnline(r.t.Dispatch, r.ep, fmt.Sprintf("%s.%d", tag, r.c.Index), 600)
}

func runCase(res *mon.Result, c scase) {
	r := &runner{res: res, c: c, stopM: make(chan struct{})}
	r.bound = 2 * time.Second
	if mon.Thorough() {
		r.bound = 5 * time.Second
	}
	for i := 0; i < 8; i++ {
		r.disp = append(r.disp, &dispState{})
	}
	mode := mon.Mode{}
	startDown := false
	script := strings.TrimSuffix(c.Script, "-spool")
	switch script {
	case "absent", "refuse-then-appear", "appear-then-abort":
		startDown = true
	case "blackhole", "blackhole-then-read", "blackhole-readdr":
		mode = mon.Mode{NoRead: true, RcvBuf: 4096}
	case "pause-readdr":
		mode = mon.Mode{RcvBuf: 65536}
	case "throttled-slow", "throttled-fast":
		mode = mon.Mode{Rate: c.Rate, RcvBuf: 8192}
	case "abort-early", "abort-late":
		mode = mon.Mode{CloseAfter: c.CloseAt, Abortive: true}
	case "graceful-early", "graceful-late":
		mode = mon.Mode{CloseAfter: c.CloseAt}
	}
	if startDown {
		r.ep = mon.NewEndpointDown(mode)
	} else {
		r.ep = mon.NewEndpoint(mode)
	}
	defer r.ep.Close()
	spoolDir, spoolOpts := "/nonexistent-spool", "spool=false"
	if c.SpoolSleep > 0 {
		spoolDir = filepath.Join(mon.Scratch(), fmt.Sprintf("c06spool%d", c.Index))
		os.MkdirAll(spoolDir, 0755)
		spoolOpts = fmt.Sprintf("spool=true spoolsleep=%d", c.SpoolSleep)
	}
	r.t = mon.NewTable("none", "none", false, spoolDir)
	key := fmt.Sprintf("c06r%d", c.Index)
	r.key = key
	r.dkey = mon.DestKey(key, r.ep.Addr)
	r.cmd = fmt.Sprintf("addRoute sendAllMatch %s  %s %s flush=%d reconn=40 connbuf=%d iobuf=%d", key, r.ep.Addr, spoolOpts, c.Flush, c.ConnBuf, c.IoBuf)
	if strings.HasSuffix(script, "-readdr") {
		r.epB = mon.NewEndpoint(mon.Mode{})
		defer r.epB.Close()
		r.dkeyB = mon.DestKey(key, r.epB.Addr)
		r.cmd2 = fmt.Sprintf("modDest %s 0 addr=%s", key, r.epB.Addr)
	}
	downFirst := ""
	if c.Script == "firstmatch-first-down" {
		// the first destination (in configured order) accepts the lines and is down without spool; a second,
		// healthy one would accept them too. "While it is down with spooling disabled every line is counted":
		// the lines belong to the first destination and must all show in its conn_down_no_spool counter.
		downFirst = mon.ReservedAddr()
		r.cmd = fmt.Sprintf("addRoute sendFirstMatch %s  %s prefix=c06. spool=false reconn=3600000  %s spool=false flush=%d reconn=40 connbuf=%d iobuf=%d", key, downFirst, r.ep.Addr, c.Flush, c.ConnBuf, c.IoBuf)
		r.dkey = mon.DestKey(key, downFirst)
	}
	if err := mon.Apply(r.t, r.cmd); err != nil {
		res.Violate("harness-setup", err.Error(), c)
		return
	}
	r.capB = &countRoute{prefix: []byte(fmt.Sprintf("c06.%d.l", c.Index))}
	r.t.AddRoute(r.capB)
	r.wgM.Add(1)
	go r.monitor()
	defer func() {
		defer r.dbg("case end")
		close(r.stopM)
		r.wgM.Wait()
		if atomic.LoadInt32(&r.stall) == 0 {
			done := make(chan struct{})
			go func() { r.t.DelRoute(key); close(done) }()
			wait := 10 * time.Second
			if c.SpoolSleep > 0 {
				wait = 3 * time.Second // shutdown waits for the background redo ingest (lines x spoolsleep)
			}
			select {
			case <-done:
			case <-time.After(wait): // shutdown flushes into a dead socket; not part of C06
			}
		}
	}()
	total := 0
	phase := func(n int, mid func()) (int, bool) {
		h := r.send(n, mid)
		if h < 0 {
			return 0, false
		}
		total += h
		return h, true
	}
	allKeys := []string{mon.KeyDestDropSlowConn(r.dkey), mon.KeyDestDropNoConn(r.dkey), mon.KeyDestOut(r.dkey)}
	if r.epB != nil {
		allKeys = append(allKeys, mon.KeyDestDropSlowConn(r.dkeyB), mon.KeyDestDropNoConn(r.dkeyB), mon.KeyDestOut(r.dkeyB))
	}

	switch script {
	case "firstmatch-first-down":
		if !r.online("fm") { // probe lines do not start with "c06.": they go to the healthy second destination
			res.Inconclusive(fmt.Sprintf("case %d: second destination did not come online", c.Index))
			return
		}
		d := mon.NewDeltas(allKeys...)
		h, ok := phase(c.Lines, nil)
		if !ok {
			return
		}
		ok2 := false
		for step := 0; step < 4000; step++ {
			if d.Get(mon.KeyDestDropNoConn(r.dkey)) >= int64(h) {
				ok2 = true
				break
			}
			time.Sleep(2 * time.Millisecond)
		}
		got, _ := r.countLines()
		no := d.Get(mon.KeyDestDropNoConn(r.dkey))
		r.res.Count("lines_handed", h)
		r.res.Count("lines_dropped_conn_down", int(no))
		if !ok2 || no != int64(h) || got != 0 {
			w := r.witness()
			w["handed"], w["first_destination_conn_down_no_spool"], w["received_by_second_destination"] = h, no, got
			res.Violate("uncounted-loss-down", fmt.Sprintf("send-first-match, first matching destination down without spool: handed %d, its conn_down_no_spool counter moved by %d, the later destination received %d", h, no, got), w)
		}
	case "absent":
		d := mon.NewDeltas(allKeys...)
		h, ok := phase(c.Lines, nil)
		if !ok {
			return
		}
		r.steadyDown("endpoint absent", h, d)
	case "refuse-then-appear", "appear-then-abort":
		d := mon.NewDeltas(allKeys...)
		h, ok := phase(c.Lines/2, nil)
		if !ok {
			return
		}
		r.steadyDown("before the endpoint appears", h, d)
		if c.Script == "appear-then-abort" {
			r.ep.SetMode(mon.Mode{CloseAfter: c.CloseAt, Abortive: true})
		}
		r.ep.Up()
		if !r.online("up") {
			res.Inconclusive(fmt.Sprintf("case %d: destination did not come online after the endpoint appeared", c.Index))
			return
		}
		if c.Script == "appear-then-abort" {
			if _, ok := phase(c.Lines, func() {}); !ok { // connection dies somewhere in here
				return
			}
			r.ep.SetMode(mon.Mode{})
			if !r.online("re") {
				res.Inconclusive(fmt.Sprintf("case %d: destination did not come back after the abort", c.Index))
				return
			}
		}
		r.quiesceProbes()
		base, _ := r.countLines()
		d2 := mon.NewDeltas(allKeys...)
		h2, ok := phase(c.Lines/2, nil)
		if !ok {
			return
		}
		r.steadyUp("after the endpoint appeared", h2, base, d2)
	case "healthy", "healthy-tinybuf", "healthy-many-dispatchers", "throttled-slow", "throttled-fast", "blackhole-then-read":
		if c.Script != "blackhole-then-read" {
			if !r.online("h") {
				res.Inconclusive(fmt.Sprintf("case %d: destination did not come online", c.Index))
				return
			}
			r.quiesceProbes()
		} else {
			r.ep.WaitAccepted(1, 2000)
			time.Sleep(100 * time.Millisecond) // let the relay loop adopt the connection (no probe can be seen yet)
		}
		base, _ := r.countLines()
		d := mon.NewDeltas(allKeys...)
		h, ok := phase(c.Lines, nil)
		if !ok {
			return
		}
		// the endpoint starts reading at full speed: the connection was up all along
		r.ep.SetMode(mon.Mode{})
		if c.Script == "blackhole-then-read" {
			// lines handed before the relay loop adopted the connection are legitimately counted as conn down
			pre := d.Get(mon.KeyDestDropNoConn(r.dkey))
			if pre > 0 {
				h -= int(pre)
				d2 := mon.NewDeltas(allKeys...)
				_ = d2
			}
			r.steadyUpAllowing(h, base, d, pre)
		} else {
			r.steadyUp("connection up throughout ("+c.Script+")", h, base, d)
		}
	case "blackhole":
		r.ep.WaitAccepted(1, 2000)
		if _, ok := phase(c.Lines, nil); !ok {
			return
		}
	case "blackhole-readdr":
		r.ep.WaitAccepted(1, 2000)
		time.Sleep(100 * time.Millisecond) // let the relay loop adopt the connection (no probe can be seen)
		d0 := mon.NewDeltas(allKeys...)
		r.dbg("start")
		if _, ok := phase(c.Lines, nil); !ok {
			return
		}
		r.dbg("phase 1 done")
		if d0.Get(mon.KeyDestDropSlowConn(r.dkey)) > 0 {
			res.Count("readdr_cases_blackhole_queue_full_at_update", 1)
		}
		// the operator re-points the destination at a healthy endpoint while traffic continues
		var upd chan error
		if _, ok := phase(c.Lines/2, func() { upd = r.readdress() }); !ok {
			return
		}
		r.dbg("phase 2 done")
		if !r.awaitUpdate(upd) {
			return
		}
		r.dbg("update returned")
		// from here on the destination has a healthy endpoint: the steady-state identity holds on it.
		// (the connection to the black hole is still there; nothing is asserted about what sits on it)
		r.ep, r.epB = r.epB, r.ep
		r.dkey, r.dkeyB = r.dkeyB, r.dkey
		if !r.online("fence") { // one connection is FIFO: once a probe arrived, everything handed before it has
			res.Inconclusive(fmt.Sprintf("case %d: no probe line arrived at the new endpoint", c.Index))
			return
		}
		r.dbg("fence seen")
		base, _ := r.countLines()
		if base > 0 {
			res.Count("readdr_new_endpoint_received_mid_traffic", 1)
		}
		d := mon.NewDeltas(allKeys...)
		h, ok := phase(c.Lines/2, nil)
		if !ok {
			return
		}
		r.dbg("phase 3 done")
		r.steadyUp("after the address update from a black hole to a healthy endpoint", h, base, d)
		r.dbg("steady done")
	case "pause-readdr":
		if !r.online("h") {
			res.Inconclusive(fmt.Sprintf("case %d: destination did not come online", c.Index))
			return
		}
		r.quiesceProbes()
		base, _ := r.countLinesOn(r.ep, r.epB)
		d := mon.NewDeltas(allKeys...)
		// (the relay's first dial and its reconnect ticker can both connect at start-up: the endpoint serves all of them)
		accA := r.ep.Accepted()
		r.ep.SetMode(mon.Mode{NoRead: true}) // healthy, but not reading for a moment
		h1, ok := phase(c.Lines, nil)
		if !ok {
			return
		}
		r.dbg("phase 1 done")
		// how many lines sit in the connection's queue right now (the relay's own gauge; evidence only)
		backlog := mon.GaugeValue("dest=" + r.dkey + ".unit=Metric.what=numBuffered")
		r.dbg(fmt.Sprintf("queued on the connection at the update: %d", backlog))
		upd := r.readdress()
		resumed := make(chan struct{})
		go func() {
			time.Sleep(300 * time.Millisecond)
			r.ep.SetMode(mon.Mode{}) // ... and reads again
			close(resumed)
		}()
		if !c.Traffic {
			<-resumed
		}
		h2, ok := phase(c.Lines/4, nil)
		<-resumed
		r.dbg("phase 2 done")
		if !ok || !r.awaitUpdate(upd) {
			return
		}
		r.dbg("update returned")
		r.steadyReaddr(h1+h2, base, d, backlog > 0, accA)
		r.dbg("steady done")
	case "abort-early", "abort-late", "graceful-early", "graceful-late":
		r.ep.WaitAccepted(1, 2000)
		_, ok := phase(c.Lines, func() {})
		if !ok {
			return
		}
		if c.SpoolSleep > 0 {
			// spooling: only the stall detector and the second route (C07 owns conservation with a spool).
			// Most lines of a full-speed burst are slow_conn drops: keep the traffic going until the endpoint has
			// seen enough bytes to close, and for one more round after that
			for round := 0; round < 6 && r.ep.Accepted() < 2; round++ {
				if _, ok := phase(c.Lines, nil); !ok {
					return
				}
			}
			r.dbg("closed mid-traffic")
			if _, ok := phase(c.Lines, nil); !ok {
				return
			}
			r.dbg("traffic done")
			if r.ep.Accepted() < 2 {
				res.Count("spool_cases_without_a_close", 1)
				res.Count("dispatch_calls_timed", total)
				return // not counted as non-trivial
			}
			res.Count("spool_cases_closed_mid_traffic", 1)
			break
		}
		// afterwards the endpoint behaves: steady state on the re-established connection
		r.ep.SetMode(mon.Mode{})
		if !r.online("re") {
			res.Inconclusive(fmt.Sprintf("case %d: destination did not come back after the close", c.Index))
			return
		}
		r.quiesceProbes()
		base, _ := r.countLines()
		d := mon.NewDeltas(allKeys...)
		h, ok := phase(c.Lines/2, nil)
		if !ok {
			return
		}
		r.steadyUp("after reconnecting", h, base, d)
	}
	// other routes were not starved: the capture route saw every line handed in (plus probes)
	gotB := int(atomic.LoadInt64(&r.capB.n))
	if gotB != total {
		w := r.witness()
		w["handed"], w["second_route_received"] = total, gotB
		res.Violate("other-route-starved", fmt.Sprintf("the healthy second route received %d of %d lines", gotB, total), w)
	}
	var maxNs, calls int64
	for _, d := range r.disp {
		if v := atomic.LoadInt64(&d.maxNs); v > maxNs {
			maxNs = v
		}
		calls += atomic.LoadInt64(&d.calls)
	}
	res.Count("dispatch_calls_timed", int(calls))
	res.Count("connections_accepted", r.ep.Accepted())
	latMu.Lock()
	if ms := float64(maxNs) / 1e6; ms > latMax[c.Script] {
		latMax[c.Script] = ms
	}
	latMu.Unlock()
	res.NonTrivial(fmt.Sprintf("%s/%d/%d/%d", c.Script, c.ConnBuf, c.IoBuf, c.Dispatchers))
}

// steadyUpAllowing is steadyUp for the black-hole case where `pre` lines were
// handed before the relay loop adopted the connection (counted as conn down).
func (r *runner) steadyUpAllowing(handed int, recvBase int, d *mon.Deltas, pre int64) {
	var got int
	ok := false
	for step := 0; step < 4000; step++ {
		r.flushDest()
		got, _ = r.countLines()
		got -= recvBase
		if int64(got)+d.Get(mon.KeyDestDropSlowConn(r.dkey)) >= int64(handed) {
			ok = true
			break
		}
		time.Sleep(3 * time.Millisecond)
	}
	slow := d.Get(mon.KeyDestDropSlowConn(r.dkey))
	noconn := d.Get(mon.KeyDestDropNoConn(r.dkey))
	r.res.Count("lines_handed", handed)
	r.res.Count("lines_received", got)
	r.res.Count("lines_dropped_slow_conn", int(slow))
	if !ok || int64(got)+slow != int64(handed) || noconn != pre || r.ep.Accepted() != 1 {
		if r.ep.Accepted() != 1 {
			r.res.Inconclusive(fmt.Sprintf("case %d: the black-holed connection was replaced (%d accepted)", r.c.Index, r.ep.Accepted()))
			return
		}
		w := r.witness()
		w["handed_after_adoption"], w["received"], w["slow_conn"], w["conn_down_no_spool"] = handed, got, slow, noconn
		r.res.Violate("uncounted-loss-up", fmt.Sprintf("black hole that later reads, connection never broken: handed %d, received %d, slow_conn %d -> %d lines disappeared uncounted", handed, got, slow, int64(handed)-int64(got)-slow), w)
	}
}

// readdress re-points the destination at endpoint B the way `modDest <route> 0 addr=<B>` does (the admin command
// ends in this call; the harness' command lock is not held across a call that may hang).
func (r *runner) readdress() chan error {
	ch := make(chan error, 1)
	go func() { ch <- r.t.UpdateDestination(r.key, 0, map[string]string{"addr": r.epB.Addr}) }()
	return ch
}

// awaitUpdate waits for the address update to return. An update that does not return is no verdict by
// itself: if it wedged the relay loop, the stall detector sees the hand-offs that are stuck behind it.
func (r *runner) awaitUpdate(upd chan error) bool {
	if upd == nil {
		r.res.Inconclusive(fmt.Sprintf("case %d: the address update was never issued", r.c.Index))
		return false
	}
	for i := 0; i < 300; i++ {
		select {
		case err := <-upd:
			if err != nil {
				r.res.Violate("harness-setup", "UpdateDestination: "+err.Error(), r.witness())
				return false
			}
			if !r.epB.WaitAccepted(1, 500) {
				r.res.Inconclusive(fmt.Sprintf("case %d: the destination could not connect to the new address", r.c.Index))
				return false
			}
			return true
		case <-time.After(100 * time.Millisecond):
			if atomic.LoadInt32(&r.stall) != 0 {
				return false
			}
		}
	}
	r.res.Inconclusive(fmt.Sprintf("case %d: the address update has not returned after 30s (no hand-off was stuck)", r.c.Index))
	return false
}

// steadyReaddr: endpoint A paused and resumed, the destination was re-pointed at B in between; both endpoints
// were healthy all along, so every line handed off was received by one of them or counted as slow_conn drop
// (under the destination's old or new key).
func (r *runner) steadyReaddr(handed int, base int, d *mon.Deltas, backlogged bool, accA int) {
	slowSum := func() int64 {
		return d.Get(mon.KeyDestDropSlowConn(r.dkey)) + d.Get(mon.KeyDestDropSlowConn(r.dkeyB))
	}
	var gotA, gotB int
	var sum int64
	still, last := 0, int64(-1)
	ok := false
	// quiescence: the sum is reached, or nothing moved for 2000 consecutive steps (>= 6 s, 12 x the longest flush period)
	for step := 0; step < 20000 && still < 2000; step++ {
		r.flushDest()
		gotA, _ = r.countLinesOn(r.ep)
		gotB, _ = r.countLinesOn(r.epB)
		sum = int64(gotA+gotB-base) + slowSum()
		if sum >= int64(handed) {
			ok = true
			break
		}
		if sum == last {
			still++
		} else {
			still, last = 0, sum
		}
		time.Sleep(3 * time.Millisecond)
	}
	slow := slowSum()
	noconn := d.Get(mon.KeyDestDropNoConn(r.dkey)) + d.Get(mon.KeyDestDropNoConn(r.dkeyB))
	r.res.Count("lines_handed", handed)
	r.res.Count("lines_received", gotA+gotB-base)
	r.res.Count("lines_dropped_slow_conn", int(slow))
	r.res.Count("readdr_lines_received_old_endpoint", gotA-base)
	r.res.Count("readdr_lines_received_new_endpoint", gotB)
	if backlogged && gotB > 0 {
		r.res.Count("readdr_cases_with_backlog_on_old_connection", 1)
	} else {
		r.res.Count("readdr_cases_without_backlog", 1)
	}
	if os.Getenv("VERIF_DEBUG") != "" {
		fmt.Printf("DEBUG case %d %s: handed=%d gotA=%d gotB=%d slow=%d noconn=%d backlogged=%v ok=%v still=%d\n", r.c.Index, r.c.Script, handed, gotA-base, gotB, slow, noconn, backlogged, ok, still)
	}
	if _, bad := r.countLinesOn(r.ep, r.epB); bad != "" {
		w := r.witness()
		w["line"] = bad
		r.res.Violate("malformed-line", "endpoint received a line that was never handed off: "+bad, w)
		return
	}
	if r.ep.Accepted() != accA || r.epB.Accepted() != 1 {
		r.res.Inconclusive(fmt.Sprintf("case %d: the destination reconnected during the scenario (%d->%d / %d connections accepted): not the steady state", r.c.Index, accA, r.ep.Accepted(), r.epB.Accepted()))
		return
	}
	if !ok && still < 2000 {
		r.res.Inconclusive(fmt.Sprintf("case %d: lines still trickling in after 20000 steps", r.c.Index))
		return
	}
	if sum != int64(handed) || noconn != 0 {
		w := r.witness()
		w["handed"], w["received_old_endpoint"], w["received_new_endpoint"], w["slow_conn"], w["conn_down_no_spool"] = handed, gotA-base, gotB, slow, noconn
		w["backlog_on_old_connection_at_update"] = backlogged
		r.res.Violate("uncounted-loss-readdr", fmt.Sprintf("endpoint paused, destination re-pointed, endpoint resumed (both healthy): handed %d, old endpoint received %d, new endpoint %d, slow_conn %d, conn_down_no_spool %d -> %d lines disappeared uncounted", handed, gotA-base, gotB, slow, noconn, int64(handed)-sum-noconn), w)
	}
}

// quiesceProbes lets probe lines drain so that baselines are stable.
func (r *runner) quiesceProbes() {
	last := -1
	for i := 0; i < 300; i++ {
		r.flushDest()
		n := r.received()
		if n == last && i > 20 {
			return
		}
		last = n
		time.Sleep(2 * time.Millisecond)
	}
}

func main() {
	res := mon.NewResult("C06")
	res.Rule = "endpoint scripts {absent, refuse-then-appear, blackhole(+then read), throttled slow/fast, healthy (+tiny buffers, +8 dispatchers), abortive/graceful close early/late (spool=false, and spool=true with spoolsleep=2ms for the stall detector only), appear-then-abort, runtime address update away from a black hole mid-traffic (blackhole-readdr), runtime address update while a healthy endpoint pauses reading with a backlog queued on its connection (pause-readdr)} x generated connbuf/iobuf/flush/line length/dispatcher count; every Table.Dispatch call is timed by the stall detector; conservation identities at the steady states; non-trivial = the case ran to the end with its monitors active; distinct = (script, connbuf, iobuf, dispatchers)"
	res.Assume("'never stalls' is restated as: each of the N hand-offs returned within the stall bound (2s quick / 5s thorough, normal < 1ms), confirmed by two stack samples of a parked goroutine; anything else long is inconclusive")
	res.Assume("identities are asserted only in steady states (connection up throughout a phase / endpoint absent throughout a phase), never across a transition")
	res.Assume("pause-readdr: an address update between two endpoints that both stay healthy is not a transition between steady states: the old connection stays up and keeps delivering what was queued on it, so handed == received(old) + received(new) + slow_conn (old + new destination key); the verdict needs the sum to have stood still for 2000 quiescence steps, and no reconnect during the scenario")
	res.Assume("address updates go through Table.UpdateDestination (the call `modDest <route> <idx> addr=` ends in), not through the command parser: the harness' command lock must not be held across a call that may hang")
	n := mon.N(len(scripts), len(scripts)*14)
	var wg sync.WaitGroup
	sem := make(chan struct{}, 3)
	ran := 0
	for i := 0; i < n; i++ {
		if !mon.Mine(i) {
			continue
		}
		if o := os.Getenv("VERIF_ONLY"); o != "" && o != fmt.Sprint(i) {
			continue
		}
		c := gen(i)
		res.LogCase("case %+v", c)
		if ran < 4 {
			res.Sample(c)
		}
		ran++
		wg.Add(1)
		sem <- struct{}{}
		go func() {
			defer wg.Done()
			runCase(res, c)
			res.Eval(1)
			<-sem
		}()
	}
	wg.Wait()
	res.Set("max_dispatch_latency_ms_by_script", latMax)
	res.Floor("cases", ran, n)
	calls, _ := res.Extra["dispatch_calls_timed"].(int)
	res.Floor("dispatch_calls_timed", calls, n*5000)
	res.Write()
}
