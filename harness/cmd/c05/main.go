// C05 — a healthy carbon connection carries the lines in order, once, unbroken.
//
// A real carbon route is built by command string (iobuf / connbuf / flush /
// pickle as generated), its destination connects to a loopback endpoint that
// reads everything, and unique lines of generated lengths are handed to
// Route.Dispatch in bursts and trickles. Offline oracle over the recorded byte
// stream: it must be exactly (line + "\n")* — or >I-prefixed pickles — for a
// subsequence of the hand-off sequence in hand-off order; the number of absent
// lines must equal the slow_conn drop counter delta and direction=out must equal
// the number of lines received.
package main

import (
	"bytes"
	"encoding/binary"
	"fmt"
	"os"
	"runtime/pprof"
	"strings"
	"sync"
	"time"

	ogorek "github.com/kisielk/og-rek"

	"verifharness/mon"
)

type ccase struct {
	Index   int    `json:"index"`
	IoBuf   int    `json:"iobuf"`
	ConnBuf int    `json:"connbuf"`
	Flush   int    `json:"flush_ms"`
	Pickle  bool   `json:"pickle"`
	Lines   int    `json:"lines"`
	MaxLen  int    `json:"max_line_len"`
	Pattern string `json:"pattern"`
}

func gen(idx int) ccase {
	r := mon.NewRng(mon.Seed(), 5, uint64(idx))
	c := ccase{Index: idx}
	c.IoBuf = r.PickInt([]int{1, 2, 3, 5, 16, 64, 100, 4096, 65536, 2000000})
	c.ConnBuf = r.PickInt([]int{1, 8, 1000, 30000})
	c.Flush = r.PickInt([]int{1, 10, 100})
	c.Pickle = r.Chance(1, 4)
	c.Lines = mon.N(1500, 12000)
	if c.IoBuf <= 5 {
		c.Lines = c.Lines / 3 // one syscall per few bytes
	}
	if c.IoBuf >= 4096 {
		c.Lines = c.Lines / 3 // long lines
	}
	c.MaxLen = 4 * c.IoBuf
	if c.MaxLen < 40 {
		c.MaxLen = 40
	}
	if c.MaxLen > 9000 {
		c.MaxLen = 9000 // the race detector makes very long lines disproportionately slow
	}
	c.Pattern = r.Pick([]string{"burst", "trickle", "mixed", "mixed"})
	if idx%8 == 3 {
		// the endpoint keeps the connection open but stops reading for a while in the middle of the hand-off, with
		// more traffic than the io buffer and the kernel's socket buffers absorb: a write blocks half done and is
		// resumed later. Still the healthy steady state: the connection never goes down.
		c.Pattern = "stall"
		c.IoBuf = r.PickInt([]int{4096, 65536})
		c.ConnBuf = r.PickInt([]int{100, 1000})
		c.Flush = r.PickInt([]int{1, 10, 100})
		c.Pickle = false
		c.Lines = mon.N(12000, 32000)
		c.MaxLen = 1100
	}
	return c
}

// line i of case c: unique name, padded to the drawn length.
func mkLine(c ccase, r *mon.Rng, i int) []byte {
	base := fmt.Sprintf("c05.%d.n%d", c.Index, i)
	tail := fmt.Sprintf(" %d %d", i, 1500000000+i)
	var want int
	if c.Pattern == "stall" {
		pad := r.Range(900, 1100) - len(base) - len(tail)
		return []byte(base + "." + strings.Repeat("x", pad-1) + tail)
	}
	switch r.Intn(6) {
	case 0:
		want = 5
	case 1:
		want = c.IoBuf + r.Range(-3, 3) // around the io buffer size
	case 2:
		want = r.Range(5, c.MaxLen)
	case 3:
		want = c.IoBuf/2 + r.Range(0, 3)
	default:
		want = r.Range(20, 90) // typical
	}
	if want > c.MaxLen {
		want = c.MaxLen
	}
	pad := want - len(base) - len(tail)
	if pad > 0 {
		base += "." + strings.Repeat("x", pad-1)
	}
	return []byte(base + tail)
}

func runCase(res *mon.Result, c ccase) {
	mode := mon.Mode{}
	if c.Pattern == "stall" {
		mode.RcvBuf = 8192
	}
	ep := mon.NewEndpoint(mode)
	defer ep.Close()
	t := mon.NewTable("none", "none", false, "/nonexistent-spool")
	key := fmt.Sprintf("c05r%d", c.Index)
	cmd := fmt.Sprintf("addRoute sendAllMatch %s  %s flush=%d reconn=50 connbuf=%d iobuf=%d pickle=%v", key, ep.Addr, c.Flush, c.ConnBuf, c.IoBuf, c.Pickle)
	if err := mon.Apply(t, cmd); err != nil {
		res.Violate("harness-setup", err.Error(), c)
		return
	}
	defer t.DelRoute(key)
	rt := t.GetRoute(key)
	dest, err := rt.GetDestination(0)
	if err != nil {
		res.Violate("harness-setup", err.Error(), c)
		return
	}
	if c.Pickle {
		// probes are text lines; in pickle mode they arrive pickled: look for the name
		ok := false
		for i := 0; i < 400 && !ok; i++ {
			rt.Dispatch([]byte(fmt.Sprintf("verifprobe.c05.%d 1 1", i)))
			for j := 0; j < 10 && !ok; j++ {
				for _, cr := range ep.Conns() {
					if bytes.Contains(cr.Data(), []byte("verifprobe.c05.")) {
						ok = true
					}
				}
				time.Sleep(time.Millisecond)
			}
		}
		if !ok {
			res.Inconclusive(fmt.Sprintf("case %d: destination never came online", c.Index))
			return
		}
	} else if !mon.ProbeOnline(rt.Dispatch, ep, "c05", 400) {
		res.Inconclusive(fmt.Sprintf("case %d: destination never came online", c.Index))
		return
	}
	dkey := mon.DestKey(key, ep.Addr)
	// let the probes drain, then take baselines
	for i := 0; i < 200; i++ {
		dest.Flush()
		time.Sleep(2 * time.Millisecond)
	}
	conns := ep.Conns()
	if len(conns) != 1 {
		res.Inconclusive(fmt.Sprintf("case %d: %d connections before traffic", c.Index, len(conns)))
		return
	}
	base := conns[0].Len()
	d := mon.NewDeltas(mon.KeyDestDropSlowConn(dkey), mon.KeyDestOut(dkey), mon.KeyDestDropNoConn(dkey), mon.KeyDestBadPickle(dkey))

	r := mon.NewRng(mon.Seed(), 55, uint64(c.Index))
	handed := make([][]byte, c.Lines)
	index := make(map[string]int, c.Lines)
	for i := range handed {
		handed[i] = mkLine(c, r, i)
		index[string(handed[i][:bytes.IndexByte(handed[i], ' ')])] = i
	}
	// hand off
	burst := 0
	for i, l := range handed {
		buf := append([]byte(nil), l...)
		rt.Dispatch(buf)
		if c.Pattern == "stall" && i == len(handed)/10 {
			stalled := mode
			stalled.NoRead = true
			ep.SetMode(stalled)
		}
		switch c.Pattern {
		case "trickle":
			if i%7 == 0 {
				time.Sleep(time.Duration(r.Intn(3)) * time.Millisecond)
			}
		case "mixed":
			if burst == 0 {
				burst = r.Range(1, 400)
				time.Sleep(time.Duration(r.Intn(c.Flush+2)) * time.Millisecond)
			}
			burst--
		}
	}
	if c.Pattern == "stall" {
		time.Sleep(time.Duration(r.Range(300, 800)) * time.Millisecond)
		ep.SetMode(mode)
		res.Count("stalls", 1)
	}
	// quiescence by steps: received + dropped == handed (stream parsed incrementally)
	var got [][]byte
	var perr string
	var pending []byte
	off := base
	nbytes := 0
	done := false
	for step := 0; step < 4000; step++ {
		dest.Flush()
		nd := conns[0].DataFrom(off)
		off += len(nd)
		nbytes += len(nd)
		pending = append(pending, nd...)
		var units [][]byte
		var used int
		units, used, perr = parse(pending, c.Pickle)
		got = append(got, units...)
		pending = pending[used:]
		if perr != "" {
			break
		}
		if int64(len(got))+d.Get(mon.KeyDestDropSlowConn(dkey)) >= int64(len(handed)) && len(nd) == 0 {
			done = true
			break
		}
		time.Sleep(2 * time.Millisecond)
	}
	if perr == "" && len(pending) > 0 {
		perr = fmt.Sprintf("stream ends inside a line/frame: %.80q", pending)
	}
	data := pending
	w := map[string]interface{}{"case": c, "cmd": cmd}
	if len(ep.Conns()) != 1 {
		res.Inconclusive(fmt.Sprintf("case %d: connection was re-established during the run (not the healthy steady state)", c.Index))
		return
	}
	if perr != "" {
		w["stream_tail"] = tailStr(data)
		res.Violate("stream-malformed", fmt.Sprintf("byte stream is not a sequence of complete lines/frames: %s", perr), w)
		return
	}
	// every received unit must be a handed line, indexes strictly increasing
	last := -1
	for n, g := range got {
		name := g
		if !c.Pickle {
			sp := bytes.IndexByte(g, ' ')
			if sp < 0 {
				sp = len(g)
			}
			name = g[:sp]
		}
		i, ok := index[string(name)]
		if !ok || (!c.Pickle && !bytes.Equal(g, handed[i])) {
			w["received_unit"] = n
			w["bytes"] = fmt.Sprintf("%.200q", g)
			res.Violate("torn-or-merged", fmt.Sprintf("received unit #%d is not one of the handed-off lines (torn, merged or altered)", n), w)
			return
		}
		if i == last {
			w["line"] = i
			res.Violate("duplicated", fmt.Sprintf("line #%d received twice on a healthy connection", i), w)
			return
		}
		if i < last {
			w["line"] = i
			res.Violate("reordered", fmt.Sprintf("line #%d received after line #%d", i, last), w)
			return
		}
		last = i
	}
	slow := d.Get(mon.KeyDestDropSlowConn(dkey))
	out := d.Get(mon.KeyDestOut(dkey))
	other := d.Get(mon.KeyDestDropNoConn(dkey)) + d.Get(mon.KeyDestBadPickle(dkey))
	res.Count("lines_handed", len(handed))
	res.Count("lines_received", len(got))
	res.Count("lines_dropped_slow_conn", int(slow))
	res.Count("bytes_received", nbytes)
	if !done || int64(len(handed)-len(got)) != slow || other != 0 {
		w["handed"], w["received"], w["slow_conn"], w["other_drops"] = len(handed), len(got), slow, other
		res.Violate("uncounted-loss", fmt.Sprintf("handed %d, received %d, slow_conn drops %d (other drop counters %d): %d lines unaccounted for", len(handed), len(got), slow, other, int64(len(handed)-len(got))-slow), w)
		return
	}
	if out != int64(len(got)) {
		w["out_counter"], w["received"] = out, len(got)
		res.Violate("out-counter", fmt.Sprintf("direction=out moved by %d but %d lines were received", out, len(got)), w)
		return
	}
	if len(got)*2 >= len(handed) {
		res.NonTrivial(fmt.Sprintf("%d/%d/%d/%v/%s", c.IoBuf, c.ConnBuf, c.Flush, c.Pickle, c.Pattern))
	}
}

func tailStr(b []byte) string {
	if len(b) > 300 {
		b = b[len(b)-300:]
	}
	return fmt.Sprintf("%q", b)
}

// parse splits the stream into complete lines (without newline) or, in pickle
// mode, into the metric names carried by complete frames; used = bytes consumed
// (a trailing partial unit is left for the next call).
func parse(data []byte, pickle bool) (units [][]byte, used int, err string) {
	if !pickle {
		for {
			nl := bytes.IndexByte(data[used:], '\n')
			if nl < 0 {
				return units, used, ""
			}
			if nl == 0 {
				return units, used, "empty line (doubled newline)"
			}
			units = append(units, data[used:used+nl])
			used += nl + 1
		}
	}
	for {
		rest := data[used:]
		if len(rest) < 4 {
			return units, used, ""
		}
		n := int(binary.BigEndian.Uint32(rest))
		if n > 1<<24 {
			return units, used, fmt.Sprintf("implausible frame length %d", n)
		}
		if len(rest) < 4+n {
			return units, used, ""
		}
		v, e := ogorek.NewDecoder(bytes.NewReader(rest[4 : 4+n])).Decode()
		if e != nil {
			return units, used, "frame does not unpickle: " + e.Error()
		}
		l, ok := v.([]interface{})
		if !ok || len(l) != 1 {
			return units, used, fmt.Sprintf("frame is not a one-element list: %T", v)
		}
		tup, ok := l[0].(ogorek.Tuple)
		if !ok || len(tup) != 2 {
			return units, used, "frame item is not a 2-tuple"
		}
		name, ok := tup[0].(string)
		if !ok {
			return units, used, "frame item name is not a string"
		}
		units = append(units, []byte(name))
		used += 4 + n
	}
}

func main() {
	if pf := os.Getenv("VERIF_PPROF"); pf != "" {
		f, _ := os.Create(pf)
		pprof.StartCPUProfile(f)
		defer pprof.StopCPUProfile()
	}
	res := mon.NewResult("C05")
	res.Rule = "configurations generated from (seed,index): iobuf in {1,2,3,5,16,64,100,4096,65536,2000000}, connbuf in {1,8,1000,30000}, flush in {1,10,100}ms, pickle 1/4, line lengths 5B..4x iobuf (cap 9000) biased to the buffer size, hand-off pattern burst/trickle/mixed, every 8th case a stall (1 kB lines, the endpoint stops reading for 0.3-0.8 s mid-stream with a small receive buffer, then resumes on the same connection); non-trivial = at least half of the handed lines were received and checked; distinct = (iobuf,connbuf,flush,pickle,pattern)"
	res.Assume("the loopback endpoint reads as fast as it can (healthy); a run in which the connection was re-established is set aside as inconclusive")
	res.Assume("pickle frames are decoded with the og-rek dependency here; CPython decoding is C16")
	n := mon.N(48, 800)
	var wg sync.WaitGroup
	sem := make(chan struct{}, 2)
	ran := 0
	for i := 0; i < n; i++ {
		if !mon.Mine(i) {
			continue
		}
		if o := os.Getenv("VERIF_ONLY"); o != "" && o != fmt.Sprint(i) {
			continue
		}
		c := gen(i)
		res.LogCase("case %+v", c)
		if ran < 3 {
			res.Sample(c)
		}
		ran++
		wg.Add(1)
		sem <- struct{}{}
		go func() {
			defer wg.Done()
			runCase(res, c)
			res.Eval(1)
			<-sem
		}()
	}
	wg.Wait()
	res.Floor("cases", ran, n)
	rcv, _ := res.Extra["lines_received"].(int)
	res.Floor("lines_received", rcv, n*100)
	res.Write()
}
