// C05 — a healthy carbon connection carries the lines in order, once, unbroken.
//
// A real carbon route is built by command string (iobuf / connbuf / flush /
// pickle as generated), its destination connects to a loopback endpoint that
// reads everything, and unique lines of generated lengths are handed to
// Route.Dispatch in bursts and trickles. Offline oracle over the recorded byte
// stream: it must be exactly (line + "\n")* — or >I-prefixed pickles — for a
// subsequence of the hand-off sequence in hand-off order; the number of absent
// lines must equal the slow_conn drop counter delta and direction=out must equal
// the number of lines received.
//
// Group cases: 3-6 such destinations (pickle mode mostly) are active at the same
// time in this one process, each with its own table, route, loopback endpoint and
// dispatcher goroutine(s), small io buffers (frames straddle them), endpoints that
// stop reading for a few tens of ms now and then (writes block half done and
// resume; the connection stays up). Every endpoint's stream must satisfy the same
// oracle for the lines handed to ITS destination; a well-formed line/frame of
// another destination is reported under its own signature (foreign-line).
package main

import (
	"bytes"
	"encoding/binary"
	"fmt"
	"io"
	"math"
	"os"
	"regexp"
	"runtime"
	"runtime/pprof"
	"strconv"
	"strings"
	"sync"
	"time"

	ogorek "github.com/kisielk/og-rek"

	"verifharness/mon"
)

type ccase struct {
	Index   int    `json:"index"`
	IoBuf   int    `json:"iobuf"`
	ConnBuf int    `json:"connbuf"`
	Flush   int    `json:"flush_ms"`
	Pickle  bool   `json:"pickle"`
	Lines   int    `json:"lines"`
	MaxLen  int    `json:"max_line_len"`
	Pattern string `json:"pattern"`

	// group cases only: this destination is one of several active at the same time in the process
	Group       int   `json:"group,omitempty"`       // 1-based group number
	Members     []int `json:"members,omitempty"`     // Index of every destination of the group
	Dispatchers int   `json:"dispatchers,omitempty"` // goroutines handing lines to this destination (line i by goroutine i%n)
	PauseEvery  int   `json:"pause_every_ms,omitempty"`
	PauseFor    int   `json:"pause_for_ms,omitempty"`
	RcvBuf      int   `json:"rcvbuf,omitempty"`
	Procs       int   `json:"gomaxprocs,omitempty"` // while the group runs (same for all its destinations)
}

// groupBase is the Index of the first destination of the first group (single cases have smaller indexes).
const (
	groupBase   = 100000
	groupStride = 8
)

// genGroup: the destinations of group g (0-based): 3-6, pickle mode mostly (at least two), small io buffers around
// the size of a line/frame, endpoints with a small receive buffer that pause reading now and then.
func genGroup(g int) []ccase {
	r := mon.NewRng(mon.Seed(), 6, uint64(g))
	k := r.Range(3, 6)
	procs := r.PickInt([]int{2, 2, 3, 4})
	cs := make([]ccase, k)
	members := make([]int, k)
	for j := range members {
		members[j] = groupBase + g*groupStride + j
	}
	for j := range cs {
		c := ccase{Index: members[j], Group: g + 1, Members: members, Procs: procs}
		c.Pickle = j < 2 || r.Chance(2, 3)
		c.IoBuf = r.PickInt([]int{24, 48, 64, 100, 100, 150, 150, 256, 512})
		c.ConnBuf = r.PickInt([]int{2000, 30000, 30000})
		c.Flush = r.PickInt([]int{1, 10, 100})
		c.Lines = mon.N(1500, 6000)
		c.MaxLen = 2 * c.IoBuf
		if c.MaxLen < 60 {
			c.MaxLen = 60
		}
		if c.MaxLen > 400 {
			c.MaxLen = 400
		}
		c.Pattern = r.Pick([]string{"burst", "mixed", "mixed"})
		c.Dispatchers = 1
		if r.Chance(1, 3) {
			c.Dispatchers = 2
		}
		if j == 0 || r.Chance(3, 4) {
			c.PauseEvery = r.Range(5, 40)
			c.PauseFor = r.Range(1, 25)
			c.RcvBuf = r.PickInt([]int{4096, 8192, 16384})
		}
		cs[j] = c
	}
	return cs
}

// barrier lets the destinations of a group start their hand-off together. Every member arrives exactly once
// (a member that gives up early arrives when it returns), so nobody waits for ever.
type barrier struct {
	wg sync.WaitGroup
}

type member struct {
	b    *barrier
	once sync.Once
}

func (m *member) arrive() {
	if m != nil {
		m.once.Do(m.b.wg.Done)
	}
}

func (m *member) arriveAndWait() {
	if m != nil {
		m.arrive()
		m.b.wg.Wait()
	}
}

func gen(idx int) ccase {
	r := mon.NewRng(mon.Seed(), 5, uint64(idx))
	c := ccase{Index: idx}
	c.IoBuf = r.PickInt([]int{1, 2, 3, 5, 16, 64, 100, 4096, 65536, 2000000})
	c.ConnBuf = r.PickInt([]int{1, 8, 1000, 30000})
	c.Flush = r.PickInt([]int{1, 10, 100})
	c.Pickle = r.Chance(1, 4)
	c.Lines = mon.N(1500, 12000)
	if c.IoBuf <= 5 {
		c.Lines = c.Lines / 3 // one syscall per few bytes
	}
	if c.IoBuf >= 4096 {
		c.Lines = c.Lines / 3 // long lines
	}
	c.MaxLen = 4 * c.IoBuf
	if c.MaxLen < 40 {
		c.MaxLen = 40
	}
	if c.MaxLen > 9000 {
		c.MaxLen = 9000 // the race detector makes very long lines disproportionately slow
	}
	c.Pattern = r.Pick([]string{"burst", "trickle", "mixed", "mixed"})
	if idx%8 == 3 {
		// the endpoint keeps the connection open but stops reading for a while in the middle of the hand-off, with
		// more traffic than the io buffer and the kernel's socket buffers absorb: a write blocks half done and is
		// resumed later. Still the healthy steady state: the connection never goes down.
		c.Pattern = "stall"
		c.IoBuf = r.PickInt([]int{4096, 65536})
		c.ConnBuf = r.PickInt([]int{100, 1000})
		c.Flush = r.PickInt([]int{1, 10, 100})
		c.Pickle = false
		c.Lines = mon.N(12000, 32000)
		c.MaxLen = 1100
	}
	return c
}

// line i of case c: unique name, padded to the drawn length.
func mkLine(c ccase, r *mon.Rng, i int) []byte {
	base := fmt.Sprintf("c05.%d.n%d", c.Index, i)
	tail := fmt.Sprintf(" %d %d", i, 1500000000+i)
	var want int
	if c.Pattern == "stall" {
		pad := r.Range(900, 1100) - len(base) - len(tail)
		return []byte(base + "." + strings.Repeat("x", pad-1) + tail)
	}
	switch r.Intn(6) {
	case 0:
		want = 5
	case 1:
		want = c.IoBuf + r.Range(-3, 3) // around the io buffer size
	case 2:
		want = r.Range(5, c.MaxLen)
	case 3:
		want = c.IoBuf/2 + r.Range(0, 3)
	default:
		want = r.Range(20, 90) // typical
	}
	if want > c.MaxLen {
		want = c.MaxLen
	}
	pad := want - len(base) - len(tail)
	if pad > 0 {
		base += "." + strings.Repeat("x", pad-1)
	}
	return []byte(base + tail)
}

func runCase(res *mon.Result, c ccase, m *member) {
	defer m.arrive()
	mode := mon.Mode{RcvBuf: c.RcvBuf}
	if c.Pattern == "stall" {
		mode.RcvBuf = 8192
	}
	ep := mon.NewEndpoint(mode)
	defer ep.Close()
	t := mon.NewTable("none", "none", false, "/nonexistent-spool")
	key := fmt.Sprintf("c05r%d", c.Index)
	cmd := fmt.Sprintf("addRoute sendAllMatch %s  %s flush=%d reconn=50 connbuf=%d iobuf=%d pickle=%v", key, ep.Addr, c.Flush, c.ConnBuf, c.IoBuf, c.Pickle)
	if err := mon.Apply(t, cmd); err != nil {
		res.Violate("harness-setup", err.Error(), c)
		return
	}
	defer t.DelRoute(key)
	rt := t.GetRoute(key)
	dest, err := rt.GetDestination(0)
	if err != nil {
		res.Violate("harness-setup", err.Error(), c)
		return
	}
	if c.Pickle {
		// probes are text lines; in pickle mode they arrive pickled: look for the name
		ok := false
		for i := 0; i < 400 && !ok; i++ {
			rt.Dispatch([]byte(fmt.Sprintf("verifprobe.c05.%d 1 1", i)))
			for j := 0; j < 10 && !ok; j++ {
				for _, cr := range ep.Conns() {
					if bytes.Contains(cr.Data(), []byte("verifprobe.c05.")) {
						ok = true
					}
				}
				time.Sleep(time.Millisecond)
			}
		}
		if !ok {
			res.Inconclusive(fmt.Sprintf("case %d: destination never came online", c.Index))
			return
		}
	} else if !mon.ProbeOnline(rt.Dispatch, ep, "c05", 400) {
		res.Inconclusive(fmt.Sprintf("case %d: destination never came online", c.Index))
		return
	}
	dkey := mon.DestKey(key, ep.Addr)
	// let the probes drain, then take baselines
	for i := 0; i < 200; i++ {
		dest.Flush()
		time.Sleep(2 * time.Millisecond)
	}
	conns := ep.Conns()
	if len(conns) != 1 {
		res.Inconclusive(fmt.Sprintf("case %d: %d connections before traffic", c.Index, len(conns)))
		return
	}
	base := conns[0].Len()
	d := mon.NewDeltas(mon.KeyDestDropSlowConn(dkey), mon.KeyDestOut(dkey), mon.KeyDestDropNoConn(dkey), mon.KeyDestBadPickle(dkey))

	r := mon.NewRng(mon.Seed(), 55, uint64(c.Index))
	handed := make([][]byte, c.Lines)
	index := make(map[string]int, c.Lines)
	for i := range handed {
		handed[i] = mkLine(c, r, i)
		index[string(handed[i][:bytes.IndexByte(handed[i], ' ')])] = i
	}
	// the destinations of a group start together
	m.arriveAndWait()
	// group cases: the endpoint stops reading for a moment now and then, until the stream is complete (the connection
	// stays open, a write that blocked half done is resumed)
	pauses := 0
	stopPauser := func() {}
	if c.PauseEvery > 0 {
		stop := make(chan struct{})
		exited := make(chan struct{})
		rp := mon.NewRng(mon.Seed(), 57, uint64(c.Index))
		go func() {
			defer close(exited)
			nap := func(ms int) bool {
				select {
				case <-stop:
					return false
				case <-time.After(time.Duration(ms) * time.Millisecond):
					return true
				}
			}
			for nap(rp.Range(c.PauseEvery/2+1, c.PauseEvery*3/2+1)) {
				paused := mode
				paused.NoRead = true
				ep.SetMode(paused)
				pauses++
				ok := nap(rp.Range(1, c.PauseFor))
				ep.SetMode(mode)
				if !ok {
					return
				}
			}
		}()
		var once sync.Once
		stopPauser = func() {
			once.Do(func() {
				close(stop)
				<-exited
				ep.SetMode(mode)
			})
		}
	}
	defer stopPauser() // before the route is deleted (its shutdown flushes)

	tHand := time.Now()
	// hand off: line i by dispatcher i%nd, each dispatcher in increasing order
	ndisp := c.Dispatchers
	if ndisp < 1 {
		ndisp = 1
	}
	handOff := func(who int, r *mon.Rng) {
		burst := 0
		for i := who; i < len(handed); i += ndisp {
			buf := append([]byte(nil), handed[i]...)
			rt.Dispatch(buf)
			if c.Pattern == "stall" && i == len(handed)/10 {
				stalled := mode
				stalled.NoRead = true
				ep.SetMode(stalled)
			}
			switch c.Pattern {
			case "trickle":
				if i%7 == 0 {
					time.Sleep(time.Duration(r.Intn(3)) * time.Millisecond)
				}
			case "mixed":
				if burst == 0 {
					burst = r.Range(1, 400)
					time.Sleep(time.Duration(r.Intn(c.Flush+2)) * time.Millisecond)
				}
				burst--
			}
		}
	}
	if ndisp == 1 {
		handOff(0, r)
	} else {
		var hw sync.WaitGroup
		for who := 0; who < ndisp; who++ {
			hw.Add(1)
			go func(who int) {
				defer hw.Done()
				handOff(who, mon.NewRng(mon.Seed(), 58+uint64(who), uint64(c.Index)))
			}(who)
		}
		hw.Wait()
	}
	if c.Pattern == "stall" {
		time.Sleep(time.Duration(r.Range(300, 800)) * time.Millisecond)
		ep.SetMode(mode)
		res.Count("stalls", 1)
	}
	tDrain := time.Now()
	// quiescence by steps: received + dropped == handed (stream parsed incrementally). Every step flushes the
	// destination; the wait ends without completion only after a long run of steps in which nothing arrived and no
	// counter moved although every flush returned (then lines are neither on their way nor counted)
	var got []unit
	var perr string
	var pending []byte
	off := base
	nbytes := 0
	done := false
	idle := 0
	var lastSlow int64 = -1
	for step := 0; step < 60000 && idle < idleSteps; step++ {
		dest.Flush()
		nd := conns[0].DataFrom(off)
		off += len(nd)
		nbytes += len(nd)
		pending = append(pending, nd...)
		var units []unit
		var used int
		units, used, perr = parse(pending, c.Pickle)
		for len(got) == 0 && len(units) > 0 && bytes.HasPrefix(units[0].name, []byte("verifprobe.c05.")) {
			// a probe line (handed off before the baseline) that reached the endpoint only now
			units = units[1:]
		}
		got = append(got, units...)
		pending = pending[used:]
		if perr != "" {
			break
		}
		slow := d.Get(mon.KeyDestDropSlowConn(dkey))
		if int64(len(got))+slow >= int64(len(handed)) && len(nd) == 0 {
			done = true
			break
		}
		if len(nd) == 0 && slow == lastSlow {
			idle++
		} else {
			idle = 0
		}
		lastSlow = slow
		time.Sleep(2 * time.Millisecond)
	}
	stopPauser()
	if c.Group > 0 {
		fmt.Printf("case %d: hand-off %.1fs, drain %.1fs, %d received, %d dropped, %d pauses, done=%v\n", c.Index, tDrain.Sub(tHand).Seconds(), time.Since(tDrain).Seconds(), len(got), d.Get(mon.KeyDestDropSlowConn(dkey)), pauses, done)
	}
	if c.PauseEvery > 0 {
		res.Count("group_endpoint_pauses", pauses)
	}
	if perr == "" && len(pending) > 0 && (done || idle >= idleSteps) {
		perr = fmt.Sprintf("stream ends inside a line/frame: %.80q", pending)
	}
	data := pending
	w := map[string]interface{}{"case": c, "cmd": cmd}
	if len(ep.Conns()) != 1 {
		res.Inconclusive(fmt.Sprintf("case %d: connection was re-established during the run (not the healthy steady state)", c.Index))
		return
	}
	if perr != "" {
		w["stream_tail"] = tailStr(data)
		w["units_before"] = len(got)
		res.Violate("stream-malformed", fmt.Sprintf("byte stream is not a sequence of complete lines/frames: %s", perr), w)
		return
	}
	// every received unit must be a handed line, indexes strictly increasing (per dispatcher)
	last := make([]int, ndisp)
	for who := range last {
		last[who] = -1
	}
	for n, g := range got {
		name := g.name
		if !c.Pickle {
			sp := bytes.IndexByte(name, ' ')
			if sp < 0 {
				sp = len(name)
			}
			name = name[:sp]
		}
		i, ok := index[string(name)]
		if !ok {
			w["received_unit"] = n
			w["bytes"] = fmt.Sprintf("%.200q", g.name)
			if sm := lineName.FindSubmatch(name); sm != nil && string(sm[1]) != strconv.Itoa(c.Index) {
				w["foreign_index"] = string(sm[1])
				res.Violate("foreign-line", fmt.Sprintf("received unit #%d is a line that was handed to another destination (case index %s), not to this one", n, sm[1]), w)
				return
			}
			res.Violate("torn-or-merged", fmt.Sprintf("received unit #%d is not one of the handed-off lines (torn, merged or altered)", n), w)
			return
		}
		if !c.Pickle && !bytes.Equal(g.name, handed[i]) {
			w["received_unit"] = n
			w["bytes"] = fmt.Sprintf("%.200q", g.name)
			res.Violate("torn-or-merged", fmt.Sprintf("received unit #%d is not one of the handed-off lines (torn, merged or altered)", n), w)
			return
		}
		if c.Pickle && (g.ts != int64(1500000000+i) || g.val != float64(i)) {
			// mkLine: value i, timestamp 1500000000+i
			w["received_unit"] = n
			w["line"] = i
			w["frame_ts"], w["frame_val"] = g.ts, g.val
			res.Violate("torn-or-merged", fmt.Sprintf("received frame #%d has the name of line #%d but timestamp %d value %v (altered)", n, i, g.ts, g.val), w)
			return
		}
		who := i % ndisp
		if i == last[who] {
			w["line"] = i
			res.Violate("duplicated", fmt.Sprintf("line #%d received twice on a healthy connection", i), w)
			return
		}
		if i < last[who] {
			w["line"] = i
			res.Violate("reordered", fmt.Sprintf("line #%d received after line #%d (handed off in that order by one goroutine)", i, last[who]), w)
			return
		}
		last[who] = i
	}
	slow := d.Get(mon.KeyDestDropSlowConn(dkey))
	out := d.Get(mon.KeyDestOut(dkey))
	other := d.Get(mon.KeyDestDropNoConn(dkey)) + d.Get(mon.KeyDestBadPickle(dkey))
	res.Count("lines_handed", len(handed))
	res.Count("lines_received", len(got))
	res.Count("lines_dropped_slow_conn", int(slow))
	res.Count("bytes_received", nbytes)
	if c.Group > 0 {
		res.Count("group_destinations", 1)
		if c.Pickle {
			res.Count("group_pickle_destinations", 1)
		}
		res.Count("group_lines_received", len(got))
	}
	if !done && idle < idleSteps {
		res.Inconclusive(fmt.Sprintf("case %d: the stream was still arriving when the step budget ended (%d of %d lines received, %d dropped)", c.Index, len(got), len(handed), slow))
		return
	}
	if !done || int64(len(handed)-len(got)) != slow || other != 0 {
		w["handed"], w["received"], w["slow_conn"], w["other_drops"] = len(handed), len(got), slow, other
		res.Violate("uncounted-loss", fmt.Sprintf("handed %d, received %d, slow_conn drops %d (other drop counters %d): %d lines unaccounted for", len(handed), len(got), slow, other, int64(len(handed)-len(got))-slow), w)
		return
	}
	if out != int64(len(got)) {
		w["out_counter"], w["received"] = out, len(got)
		res.Violate("out-counter", fmt.Sprintf("direction=out moved by %d but %d lines were received", out, len(got)), w)
		return
	}
	if len(got)*2 >= len(handed) {
		sig := fmt.Sprintf("%d/%d/%d/%v/%s", c.IoBuf, c.ConnBuf, c.Flush, c.Pickle, c.Pattern)
		if c.Group > 0 {
			sig += fmt.Sprintf("/group-of-%d/%d", len(c.Members), ndisp)
		}
		res.NonTrivial(sig)
	}
}

// idleSteps: so many quiescence steps (flush, look, 2 ms) in a row without a byte arriving or a drop being counted
// end the wait for the rest of the stream.
const idleSteps = 4000

// lineName: the name of a line of this check (case index, line number, optional padding)
var lineName = regexp.MustCompile(`^c05\.(\d+)\.n\d+(\.x+)?$`)

func tailStr(b []byte) string {
	if len(b) > 300 {
		b = b[len(b)-300:]
	}
	return fmt.Sprintf("%q", b)
}

// unit is one received line (name = the whole line, without newline) or one pickle frame (name, timestamp, value).
type unit struct {
	name []byte
	ts   int64
	val  float64
}

// parse splits the stream into complete lines (without newline) or, in pickle
// mode, into the datapoints carried by complete frames; used = bytes consumed
// (a trailing partial unit is left for the next call).
func parse(data []byte, pickle bool) (units []unit, used int, err string) {
	if !pickle {
		for {
			nl := bytes.IndexByte(data[used:], '\n')
			if nl < 0 {
				return units, used, ""
			}
			if nl == 0 {
				return units, used, "empty line (doubled newline)"
			}
			units = append(units, unit{name: data[used : used+nl]})
			used += nl + 1
		}
	}
	for {
		rest := data[used:]
		if len(rest) < 4 {
			return units, used, ""
		}
		n := int(binary.BigEndian.Uint32(rest))
		if n > 1<<24 {
			return units, used, fmt.Sprintf("implausible frame length %d (header % x)", n, rest[:4])
		}
		if len(rest) < 4+n {
			return units, used, ""
		}
		if u, ok := plainFrame(rest[4 : 4+n]); ok {
			units = append(units, u)
			used += 4 + n
			continue
		}
		dec := ogorek.NewDecoder(bytes.NewReader(rest[4 : 4+n]))
		v, e := dec.Decode()
		if e != nil {
			return units, used, fmt.Sprintf("frame does not unpickle: %s: %.120q", e.Error(), rest[:4+n])
		}
		if _, e := dec.Decode(); e != io.EOF {
			return units, used, fmt.Sprintf("the pickle ends before its frame of %d bytes does (bytes follow the STOP opcode): %.120q", n, rest[:4+n])
		}
		l, ok := v.([]interface{})
		if !ok || len(l) != 1 {
			return units, used, fmt.Sprintf("frame is not a one-element list: %T", v)
		}
		tup, ok := l[0].(ogorek.Tuple)
		if !ok || len(tup) != 2 {
			return units, used, "frame item is not a 2-tuple"
		}
		name, ok := tup[0].(string)
		if !ok {
			return units, used, "frame item name is not a string"
		}
		tv, ok := tup[1].(ogorek.Tuple)
		if !ok || len(tv) != 2 {
			return units, used, "frame item has no (timestamp, value) 2-tuple"
		}
		ts, ok1 := tv[0].(int64)
		val, ok2 := tv[1].(float64)
		if !ok1 || !ok2 {
			return units, used, fmt.Sprintf("frame item (timestamp, value) is (%T, %T), not (integer, float)", tv[0], tv[1])
		}
		units = append(units, unit{name: []byte(name), ts: ts, val: val})
		used += 4 + n
	}
}

// plainFrame reads a pickle that is exactly the opcode sequence EMPTY_LIST MARK MARK SHORT_BINSTRING|BINSTRING name
// MARK BININT ts BINFLOAT val TUPLE TUPLE APPENDS STOP, i.e. [(name, (ts, val))], without the general decoder (which
// allocates several kB per frame); any other payload is left to the general decoder.
func plainFrame(p []byte) (unit, bool) {
	if len(p) < 5 || p[0] != ']' || p[1] != '(' || p[2] != '(' {
		return unit{}, false
	}
	var nameLen, at int
	switch p[3] {
	case 'U':
		nameLen, at = int(p[4]), 5
	case 'T':
		if len(p) < 8 {
			return unit{}, false
		}
		nameLen, at = int(binary.LittleEndian.Uint32(p[4:8])), 8
	default:
		return unit{}, false
	}
	if nameLen < 0 || len(p) != at+nameLen+1+5+9+4 {
		return unit{}, false
	}
	name := p[at : at+nameLen]
	q := p[at+nameLen:]
	if q[0] != '(' || q[1] != 'J' || q[6] != 'G' || q[15] != 't' || q[16] != 't' || q[17] != 'e' || q[18] != '.' {
		return unit{}, false
	}
	ts := int64(int32(binary.LittleEndian.Uint32(q[2:6])))
	val := math.Float64frombits(binary.BigEndian.Uint64(q[7:15]))
	return unit{name: name, ts: ts, val: val}, true
}

func main() {
	if pf := os.Getenv("VERIF_PPROF"); pf != "" {
		f, _ := os.Create(pf)
		pprof.StartCPUProfile(f)
		defer pprof.StopCPUProfile()
	}
	res := mon.NewResult("C05")
	res.Rule = "configurations generated from (seed,index): iobuf in {1,2,3,5,16,64,100,4096,65536,2000000}, connbuf in {1,8,1000,30000}, flush in {1,10,100}ms, pickle 1/4, line lengths 5B..4x iobuf (cap 9000) biased to the buffer size, hand-off pattern burst/trickle/mixed, every 8th case a stall (1 kB lines, the endpoint stops reading for 0.3-0.8 s mid-stream with a small receive buffer, then resumes on the same connection); group cases (run first, one group at a time, generated from (seed,group)): 3-6 destinations active at the same time in the process, each with its own table, route, endpoint and 1-2 dispatcher goroutines (line i by goroutine i mod n; order is demanded per goroutine), pickle for the first two and 2/3 of the others, iobuf in {24,48,64,100,150,256,512}, connbuf in {2000,30000}, line lengths up to 2x iobuf (60..400), GOMAXPROCS in {2,3,4} while the group runs, 3 of 4 endpoints with SO_RCVBUF 4-16 kB stop reading for 1-25 ms (rounded up by the 20 ms poll of the endpoint) every 5-40 ms until their stream is complete; each stream is held to the same oracle for its own lines, pickle frames also to the timestamp and value of the line; non-trivial = at least half of the handed lines were received and checked; distinct = (iobuf,connbuf,flush,pickle,pattern[,group size,dispatchers])"
	res.Assume("the loopback endpoint reads as fast as it can, apart from the scripted pauses during which it keeps the connection open (healthy); a run in which the connection was re-established is set aside as inconclusive")
	res.Assume("pickle frames are decoded with the og-rek dependency here (frames that are exactly the opcode sequence of [(name,(ts,val))] by a direct reader); CPython decoding is C16")
	res.Assume("a probe line of the online test that reaches the endpoint only after the baseline was taken is skipped at the head of the stream")
	only := os.Getenv("VERIF_ONLY")
	// group cases first, one group at a time: all its destinations run concurrently
	ng := mon.N(8, 84)
	grun := 0
	for g := 0; g < ng; g++ {
		if !mon.Mine(g) {
			continue
		}
		cs := genGroup(g)
		if only != "" {
			o, _ := strconv.Atoi(only)
			if o < cs[0].Index || o >= cs[0].Index+groupStride {
				continue
			}
		}
		grun++
		res.Count("group_cases", 1)
		if grun == 1 {
			res.Sample(cs)
		}
		gt0 := time.Now()
		// few processors: the goroutines of the destinations take turns on the same ones
		procs0 := runtime.GOMAXPROCS(cs[0].Procs)
		b := &barrier{}
		b.wg.Add(len(cs))
		var gw sync.WaitGroup
		for _, c := range cs {
			res.LogCase("group case %+v", c)
			gw.Add(1)
			go func(c ccase) {
				defer gw.Done()
				runCase(res, c, &member{b: b})
				res.Eval(1)
			}(c)
		}
		gw.Wait()
		runtime.GOMAXPROCS(procs0)
		fmt.Printf("group %d: %d destinations, %.1fs\n", g, len(cs), time.Since(gt0).Seconds())
	}
	n := mon.N(48, 800)
	var wg sync.WaitGroup
	sem := make(chan struct{}, 2)
	ran := 0
	for i := 0; i < n; i++ {
		if !mon.Mine(i) {
			continue
		}
		if only != "" && only != fmt.Sprint(i) {
			continue
		}
		c := gen(i)
		res.LogCase("case %+v", c)
		if ran < 3 {
			res.Sample(c)
		}
		ran++
		wg.Add(1)
		sem <- struct{}{}
		go func() {
			defer wg.Done()
			runCase(res, c, nil)
			res.Eval(1)
			<-sem
		}()
	}
	wg.Wait()
	res.Floor("cases", ran, n)
	res.Floor("group_cases", grun, ng)
	grcv, _ := res.Extra["group_lines_received"].(int)
	res.Floor("group_lines_received", grcv, ng*3*1000)
	rcv, _ := res.Extra["lines_received"].(int)
	res.Floor("lines_received", rcv, n*100)
	res.Write()
}
