package main

// Two scenarios added after seeded changes C03-2 and C03-3 went unnoticed:
//
//	sharedCache: several aggregations with the SAME regex and output format but different other
//	  options (notRegex, sub ...), all with the match cache on. The cached decision of one must never
//	  be served to another: every aggregation's decision for a name must be its own filter's, in
//	  whatever order the aggregations look the name up.
//	clearOption: a route's or destination's filter option is CLEARED at run time (set to the empty
//	  string through Table.UpdateRoute / UpdateDestination - the admin command cannot express an empty
//	  value). "An empty option imposes no constraint": after the update the decision must be the
//	  conjunction of the remaining options only.

import (
	"fmt"
	"time"

	"github.com/grafana/carbon-relay-ng/aggregator"
	"github.com/grafana/carbon-relay-ng/matcher"

	"verifharness/mon"
	"verifharness/oracle"
)

func sharedCache(res *mon.Result, idx int) {
	r := mon.NewRng(mon.Seed(), 331, uint64(idx))
	regex := r.Pick([]string{`^c03s\.(.*)$`, `c03s\.([a-z]+)`, `^c03s\.[a-c]+\.(.*)`})
	// formats made only of group references expand to the empty string for some matching names ("c03s." with $1,
	// every name with the non-existent $9): the decision is the filter's, whatever the output name turns out to be
	outFmt := r.Pick([]string{"c03out.$1", "c03out.$1", "$1", "$9"})
	variants := [][6]string{ // prefix notPrefix sub notSub regex notRegex
		{"", "", "", "", regex, ""},
		{"", "", "", "", regex, `canary`},
		{"", "", "", "", regex, `^c03s\.b`},
		{"", "", "", "b", regex, ""},
		{"", "", "a", "", regex, `x$`},
	}
	perm := r.Perm(len(variants))
	n := r.Range(2, 4)
	now := func() time.Time { return time.Unix(1_700_000_000, 0) }
	type one struct {
		ag  *aggregator.Aggregator
		f   *oracle.Filter
		opt [6]string
	}
	var aggs []one
	out := make(chan []byte, 1000)
	for _, vi := range perm[:n] {
		v := variants[vi]
		m, err := matcher.New(v[0], v[1], v[2], v[3], v[4], v[5])
		if err != nil {
			panic(err)
		}
		// dropRaw: AddMaybe then returns the complete-filter decision synchronously
		ag, err := aggregator.NewMocked("sum", m, outFmt, true, 60, 120, true, out, 1000, now, make(chan time.Time))
		if err != nil {
			panic(err)
		}
		f, _ := oracle.NewFilter(v[0], v[1], v[2], v[3], v[4], v[5])
		aggs = append(aggs, one{ag, f, v})
	}
	names := []string{"c03s.a.x", "c03s.b.x", "c03s.canary1.load", "c03s.abc", "c03s.a.canary", "c03s.c.yx", "other.c03s.abc", "c03s.bb", "c03s.ab.x", "c03s.", "c03s.a."}
	for round := 0; round < 3; round++ {
		for _, ni := range r.Perm(len(names)) {
			name := names[ni]
			for _, ai := range r.Perm(len(aggs)) {
				a := aggs[ai]
				res.LogCase("sharedCache %d: name %s aggregator %v", idx, name, a.opt)
				got := a.ag.AddMaybe([][]byte{[]byte(name), []byte("1"), []byte("1700000000")}, 1, 1_700_000_000)
				want := a.f.Accept(name)
				res.Count("shared_cache_decisions", 1)
				if got != want {
					var others [][6]string
					for _, o := range aggs {
						others = append(others, o.opt)
					}
					res.Violate("agg-shared-cache-decision", fmt.Sprintf("aggregations with the same regex and format "+outFmt+" (cache on): the one with options %v decided %v for %q, its own filter says %v (round %d)", a.opt, got, name, want, round),
						map[string]interface{}{"format": outFmt, "aggregations(prefix,notPrefix,sub,notSub,regex,notRegex)": others, "name": name, "round": round})
					for _, o := range aggs {
						go o.ag.Shutdown()
					}
					return
				}
			}
		}
	}
	go func() {
		for range out {
		}
	}()
	for _, o := range aggs {
		o.ag.Shutdown()
	}
	res.NonTrivial(fmt.Sprintf("shared-cache/%d", idx))
}

func clearOption(res *mon.Result, idx int) {
	r := mon.NewRng(mon.Seed(), 332, uint64(idx))
	t := mon.NewTable("none", "none", false, "/nonexistent")
	key := fmt.Sprintf("c03clr%ds%d", idx, mon.Seed())
	addr := mon.ReservedAddr()
	cur := map[string]string{"prefix": "", "notPrefix": "", "sub": "", "notSub": "", "regex": "", "notRegex": ""}
	curD := map[string]string{"prefix": "", "notPrefix": "", "sub": "", "notSub": "", "regex": "", "notRegex": ""}
	cmd := fmt.Sprintf("addRoute sendAllMatch %s regex=^a notRegex=c$  %s spool=false reconn=3600000 sub=b notRegex=^ab", key, addr)
	cur["regex"], cur["notRegex"] = "^a", "c$"
	curD["sub"], curD["notRegex"] = "b", "^ab"
	if err := mon.Apply(t, cmd); err != nil {
		panic(err)
	}
	defer func() {
		done := make(chan struct{})
		go func() { t.DelRoute(key); close(done) }()
		select {
		case <-done:
		case <-time.After(10 * time.Second):
		}
	}()
	names := oracle.SmallNames("abc.", 3)
	if len(names) > 120 {
		names = names[:120]
	}
	names = append(names, "abc", "ab", "b.ac", "cab", "a.b.c", "bc", "xabc")
	vals := map[string][]string{
		"prefix": {"a", "ab", "b"}, "notPrefix": {"a", "c"}, "sub": {"b", ".", "bc"}, "notSub": {"c", "ab"},
		"regex": {"^a", "b+", "^ab?c", "c$"}, "notRegex": {"c$", "^ab", "^a|b$"},
	}
	optNames := []string{"prefix", "notPrefix", "sub", "notSub", "regex", "notRegex"}
	var hist []string
	check := func() bool {
		rt := t.GetRoute(key)
		dest, _ := rt.GetDestination(0)
		fr, _ := oracle.NewFilter(cur["prefix"], cur["notPrefix"], cur["sub"], cur["notSub"], cur["regex"], cur["notRegex"])
		fd, _ := oracle.NewFilter(curD["prefix"], curD["notPrefix"], curD["sub"], curD["notSub"], curD["regex"], curD["notRegex"])
		for _, n := range names {
			res.Count("cleared_option_decisions", 2)
			if got, want := rt.Match([]byte(n)), fr.Accept(n); got != want {
				res.Violate("route-cleared-option-still-enforced", fmt.Sprintf("route filter after the updates %v is %v: decision for %q is %v, the conjunction of the options that are set says %v", hist, cur, n, got, want),
					map[string]interface{}{"updates": hist, "route_options_now": cur, "name": n})
				return false
			}
			if got, want := dest.Match([]byte(n)), fd.Accept(n); got != want {
				res.Violate("dest-cleared-option-still-enforced", fmt.Sprintf("destination filter after the updates %v is %v: decision for %q is %v, the conjunction of the options that are set says %v", hist, curD, n, got, want),
					map[string]interface{}{"updates": hist, "destination_options_now": curD, "name": n})
				return false
			}
		}
		return true
	}
	if !check() {
		return
	}
	for step := 0; step < r.Range(6, 14); step++ {
		o := r.Pick(optNames)
		v := ""
		if r.Chance(1, 2) { // half of the updates clear an option
			v = r.Pick(vals[o])
		}
		onDest := r.Bool()
		res.LogCase("clearOption %d: step %d dest=%v %s=%q", idx, step, onDest, o, v)
		var err error
		if onDest {
			hist = append(hist, fmt.Sprintf("dest %s=%q", o, v))
			err = t.UpdateDestination(key, 0, map[string]string{o: v})
			curD[o] = v
		} else {
			hist = append(hist, fmt.Sprintf("route %s=%q", o, v))
			err = t.UpdateRoute(key, map[string]string{o: v})
			cur[o] = v
		}
		if err != nil {
			res.Violate("update-rejected", fmt.Sprintf("updating option %s to %q was rejected: %v", o, v, err), map[string]interface{}{"updates": hist})
			return
		}
		if !check() {
			return
		}
	}
	res.NonTrivial(fmt.Sprintf("clear-option/%d", idx))
}

func runExtras(res *mon.Result) {
	n := mon.N(10, 300)
	for i := 0; i < n; i++ {
		if !mon.Mine(i) {
			continue
		}
		sharedCache(res, i)
		clearOption(res, i)
		res.Eval(2)
	}
}
