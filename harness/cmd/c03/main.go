// C03 — filters mean exactly the documented conjunction, evaluated on the metric name.
//
// Oracle: oracle.Filter (strings.HasPrefix / Contains + independently compiled
// stdlib regexp, on the name). The real code is consulted at the six places a
// filter is used and each observed decision is compared with the oracle:
//
//	matcher            matcher.New(...).Match, plus the PreMatch + MatchRegexAndExpand pair
//	blacklist          entry in a real table (addBlack command / Table.AddBlacklist); observed
//	                   through a capture route and the direction=blacklist counter
//	route              filter of a real carbon route built by command string; observed through the
//	                   hand-off counters of its (refusing) destinations and direction=unroutable
//	dest               destination filters inside sendAllMatch / sendFirstMatch routes built by
//	                   command string; observed through per-destination hand-off counters
//	agg                aggregator.NewMocked with a harness clock and tick channel: output present or
//	                   absent after a forced tick, AddMaybe's consumed flag (dropRaw), the in-counter;
//	                   cache on/off, repeated lookups, cache expiry; alone and wired into a real table
//	aggregate-routing  aggregation output entering Table.In and being routed by route filters
//
// Every line is sent with several value / timestamp tokens that contain filter
// material; the decision must be the oracle's decision on the name each time.
package main

import (
	"fmt"
	"net"
	"os"
	"regexp"
	"runtime"
	"runtime/debug"
	"runtime/pprof"
	"strconv"
	"strings"
	"sync"
	"sync/atomic"
	"syscall"
	"time"
	"unicode/utf8"

	"github.com/grafana/carbon-relay-ng/aggregator"
	"github.com/grafana/carbon-relay-ng/destination"
	"github.com/grafana/carbon-relay-ng/matcher"
	"github.com/grafana/carbon-relay-ng/route"
	"github.com/grafana/carbon-relay-ng/table"

	"verifharness/mon"
	"verifharness/oracle"
)

const (
	letters  = "abce35" // literal alphabet of filters and names (e, 3, 5 also occur in value/timestamp tokens)
	alphabet = letters + "."
	sentinel = "zzsentinel"
)

var (
	valueTokens = []string{"1", "1e3", "3e5", "5", "35", "0.5", "3.5", "-3", "5e3", "1e-3", "53", "3", "0.35", "3e-5"}
	tsTokens    = []string{"10", "15", "35", "1533", "1000000005", "1000000003", "53", "5", "3", "1500000000"}
	allDigits   = regexp.MustCompile(`^[0-9]+$`)
)

// ---------------------------------------------------------------- filters

type fspec struct {
	Prefix    string `json:"prefix,omitempty"`
	NotPrefix string `json:"notPrefix,omitempty"`
	Sub       string `json:"sub,omitempty"`
	NotSub    string `json:"notSub,omitempty"`
	Regex     string `json:"regex,omitempty"`
	NotRegex  string `json:"notRegex,omitempty"`
}

func (s fspec) oracle() (*oracle.Filter, error) {
	return oracle.NewFilter(s.Prefix, s.NotPrefix, s.Sub, s.NotSub, s.Regex, s.NotRegex)
}

func (s fspec) real() (matcher.Matcher, error) {
	return matcher.New(s.Prefix, s.NotPrefix, s.Sub, s.NotSub, s.Regex, s.NotRegex)
}

func (s fspec) pairs() [][2]string {
	var out [][2]string
	for _, p := range [][2]string{{"prefix", s.Prefix}, {"notPrefix", s.NotPrefix}, {"sub", s.Sub}, {"notSub", s.NotSub}, {"regex", s.Regex}, {"notRegex", s.NotRegex}} {
		if p[1] != "" {
			out = append(out, p)
		}
	}
	return out
}

func (s fspec) empty() bool { return len(s.pairs()) == 0 }

// cmdOpts renders the options the way an operator types them into a command.
func (s fspec) cmdOpts() string {
	var parts []string
	for _, p := range s.pairs() {
		parts = append(parts, p[0]+"="+p[1])
	}
	return strings.Join(parts, " ")
}

// cmdSafe: the admin command language cannot express every string (blanks split
// words, an all-digit word is a number token); such values are not generated for
// the places that are configured by command.
func cmdSafeValue(v string) bool {
	if strings.ContainsAny(v, " \t\n\"#=") || allDigits.MatchString(v) {
		return false
	}
	for _, kw := range []string{"true", "false"} {
		if strings.HasPrefix(v, kw) {
			return false
		}
	}
	return true
}

func (s fspec) cmdSafe() bool {
	for _, p := range s.pairs() {
		if !cmdSafeValue(p[1]) {
			return false
		}
	}
	return true
}

// merged: what the filter is after modRoute / modDest with the options of o.
func (s fspec) merged(o fspec) fspec {
	if o.Prefix != "" {
		s.Prefix = o.Prefix
	}
	if o.NotPrefix != "" {
		s.NotPrefix = o.NotPrefix
	}
	if o.Sub != "" {
		s.Sub = o.Sub
	}
	if o.NotSub != "" {
		s.NotSub = o.NotSub
	}
	if o.Regex != "" {
		s.Regex = o.Regex
	}
	if o.NotRegex != "" {
		s.NotRegex = o.NotRegex
	}
	return s
}

// keepSome keeps n randomly chosen options of s (regex / notRegex preferred).
func keepSome(r *mon.Rng, s fspec, n int) fspec {
	ps := s.pairs()
	var out fspec
	for k := 0; k < n && len(ps) > 0; k++ {
		i := r.Intn(len(ps))
		for try := 0; try < 2; try++ { // bias towards the regex options
			if !strings.Contains(strings.ToLower(ps[i][0]), "regex") {
				i = r.Intn(len(ps))
			}
		}
		switch ps[i][0] {
		case "prefix":
			out.Prefix = ps[i][1]
		case "notPrefix":
			out.NotPrefix = ps[i][1]
		case "sub":
			out.Sub = ps[i][1]
		case "notSub":
			out.NotSub = ps[i][1]
		case "regex":
			out.Regex = ps[i][1]
		case "notRegex":
			out.NotRegex = ps[i][1]
		}
		ps = append(ps[:i], ps[i+1:]...)
	}
	return out
}

// fcase is a generated filter with what is needed to generate names that hit it.
type fcase struct {
	Spec fspec
	rx   *oracle.GenRegex
	nrx  *oracle.GenRegex
	seed string
}

func pad(r *mon.Rng, s string) string {
	if r.Chance(40, 100) {
		s = oracle.RandName(r, alphabet, 1, 2) + s
	}
	if r.Chance(40, 100) {
		s += oracle.RandName(r, alphabet, 1, 2)
	}
	return s
}

func genFilter(r *mon.Rng, needRegex, cmd, nonEmpty bool) fcase {
	rg := oracle.RegexGen{Letters: letters, Dot: true}
	for {
		var c fcase
		if needRegex || r.Chance(60, 100) {
			if r.Chance(12, 100) {
				c.Spec.Regex = r.Pick(oracle.CuratedRegexes)
			} else {
				c.rx = rg.Gen(r)
				c.Spec.Regex = c.rx.Src
			}
		}
		switch {
		case c.rx != nil:
			c.seed = pad(r, c.rx.Sample(r))
		case c.Spec.Regex != "":
			c.seed = r.Pick(oracle.CuratedNames)
		default:
			c.seed = oracle.RandName(r, alphabet, 1, 6)
		}
		if r.Chance(30, 100) {
			if r.Chance(12, 100) {
				c.Spec.NotRegex = r.Pick(oracle.CuratedRegexes)
			} else {
				c.nrx = rg.Gen(r)
				c.Spec.NotRegex = c.nrx.Src
			}
		}
		if r.Chance(25, 100) {
			if len(c.seed) > 0 && r.Chance(70, 100) {
				k := 1 + r.Intn(3)
				if k > len(c.seed) {
					k = len(c.seed)
				}
				c.Spec.Prefix = c.seed[:k]
			} else {
				c.Spec.Prefix = oracle.RandName(r, alphabet, 1, 2)
			}
		}
		if r.Chance(18, 100) {
			if len(c.seed) > 0 && r.Chance(20, 100) {
				c.Spec.NotPrefix = c.seed[:1]
			} else {
				c.Spec.NotPrefix = oracle.RandName(r, alphabet, 1, 2)
			}
		}
		if r.Chance(25, 100) {
			if len(c.seed) > 0 && r.Chance(70, 100) {
				i := r.Intn(len(c.seed))
				j := i + 1 + r.Intn(3)
				if j > len(c.seed) {
					j = len(c.seed)
				}
				c.Spec.Sub = c.seed[i:j]
			} else {
				c.Spec.Sub = oracle.RandName(r, alphabet, 1, 2)
			}
		}
		if r.Chance(18, 100) {
			c.Spec.NotSub = oracle.RandName(r, alphabet, 1, 2)
		}
		if cmd && !c.Spec.cmdSafe() {
			continue
		}
		if nonEmpty && c.Spec.empty() {
			continue
		}
		return c
	}
}

// names generates n names for the filter: the seed and near misses of it,
// strings sampled from the regex / notRegex trees (padded, mutated), strings
// composed of the prefix and sub options, curated names, random names.
func (c *fcase) names(r *mon.Rng, n, minLen int) []string {
	var out []string
	for len(out) < n {
		var s string
		switch r.Intn(10) {
		case 0, 1:
			s = c.seed
		case 2, 3, 4:
			if c.rx != nil {
				s = pad(r, c.rx.Sample(r))
			} else if c.Spec.Regex != "" {
				s = r.Pick(oracle.CuratedNames)
			} else {
				s = oracle.RandName(r, alphabet, 0, 6)
			}
		case 5:
			if c.nrx != nil {
				s = pad(r, c.nrx.Sample(r))
			} else {
				s = oracle.RandName(r, alphabet, 0, 6)
			}
		case 6:
			s = c.Spec.Prefix + oracle.RandName(r, alphabet, 0, 2) + c.Spec.Sub + oracle.RandName(r, alphabet, 0, 2)
		case 7:
			s = r.Pick(oracle.CuratedNames)
		default:
			s = oracle.RandName(r, alphabet, 0, 6)
		}
		if r.Chance(25, 100) {
			s = oracle.Mutate(r, s, alphabet)
		}
		if len(s) > 10 {
			s = s[:10]
		}
		if len(s) < minLen || strings.ContainsAny(s, " \t\r\n") {
			continue
		}
		out = append(out, s)
	}
	return out
}

// tokens picks value / timestamp tokens for a line; half of the time they are
// chosen to contain material of the filter (a sub string that is a number, a
// regex that ends in a digit and '$').
func tokens(r *mon.Rng, fs ...fspec) (string, string) {
	v, ts := r.Pick(valueTokens), r.Pick(tsTokens)
	for _, f := range fs {
		for _, p := range f.pairs() {
			if r.Chance(1, 2) {
				continue
			}
			if _, err := strconv.ParseFloat(p[1], 64); err == nil && !strings.ContainsAny(p[1], "xXpP_nNiI") {
				v = p[1]
			}
			if strings.HasSuffix(p[1], "$") && len(p[1]) >= 2 {
				if d := p[1][len(p[1])-2]; d >= '0' && d <= '9' {
					ts = "150000000" + string(d)
				}
			}
		}
	}
	return v, ts
}

// ---------------------------------------------------------------- bookkeeping

type witness struct {
	Place  string      `json:"place"`
	Case   int         `json:"case"`
	Filter fspec       `json:"filter"`
	Name   string      `json:"name"`
	Line   string      `json:"line,omitempty"`
	Oracle bool        `json:"oracle_accepts"`
	Real   bool        `json:"real_accepts"`
	Config string      `json:"config,omitempty"`
	Detail interface{} `json:"detail,omitempty"`
}

type checker struct {
	res  *mon.Result
	addr string // loopback address that refuses connections for the whole run

	mu     sync.Mutex
	accept map[string]int
	reject map[string]int
}

func (k *checker) tally(place string, orc bool) {
	k.mu.Lock()
	if orc {
		k.accept[place]++
	} else {
		k.reject[place]++
	}
	k.mu.Unlock()
}

var anchored = regexp.MustCompile(`\^|\\A`)

// label names a disagreement by place and shape. It only chooses the
// signature; whether there is a violation was decided before.
func label(place string, f *oracle.Filter, name, line string, realAccept bool) string {
	if !utf8.ValidString(name) {
		return labelASCII(place, f, name, line, realAccept) + "-invalid-utf8-name"
	}
	return labelASCII(place, f, name, line, realAccept)
}

func labelASCII(place string, f *oracle.Filter, name, line string, realAccept bool) string {
	// which single option, asked at the matcher, answers differently from the reference?
	for _, p := range f.Options() {
		one := f.Single(p[0])
		m, err := matcher.New(one.Prefix, one.NotPrefix, one.Sub, one.NotSub, one.Regex, one.NotRegex)
		if err != nil {
			continue
		}
		if m.Match([]byte(name)) != one.Accept(name) {
			if (p[0] == oracle.CRegex || p[0] == oracle.CNotRegex) && anchored.MatchString(p[1]) {
				return place + "-" + p[0] + "-prefix"
			}
			return place + "-" + p[0] + "-wrong"
		}
	}
	// the matcher is right about the name: was the filter shown the whole line?
	wholeLine := map[string]string{"dest": "dest-filter-sees-value", "aggregate-routing": "aggregate-routing-whole-line"}
	if line != "" && line != name && f.Accept(line) == realAccept {
		if s, ok := wholeLine[place]; ok {
			return s
		}
		return place + "-filter-sees-whole-line"
	}
	if realAccept {
		if fl := f.Failing(name); len(fl) > 0 {
			return place + "-" + fl[0] + "-ignored"
		}
	}
	return place + "-overstrict"
}

// decide compares one observed decision with the oracle.
func (k *checker) decide(place string, idx int, spec fspec, f *oracle.Filter, name, line string, realAccept bool, config string, detail interface{}) bool {
	return k.decideWith(f.Accept(name), place, idx, spec, f, name, line, realAccept, config, detail)
}

// decideWith is decide for a caller that already asked the oracle.
func (k *checker) decideWith(orc bool, place string, idx int, spec fspec, f *oracle.Filter, name, line string, realAccept bool, config string, detail interface{}) bool {
	k.tally(place, orc)
	if orc == realAccept {
		return true
	}
	sig := label(place, f, name, line, realAccept)
	k.res.Violate(sig, fmt.Sprintf("%s: filter {%s} on name %q (line %q): the documented conjunction says accept=%v (rejecting conjuncts: %v), the relay decided accept=%v",
		place, f.String(), name, line, orc, f.Failing(name), realAccept),
		witness{place, idx, spec, name, line, orc, realAccept, config, detail})
	return false
}

// settle waits, by bounded steps, until get() reaches want; counters only grow,
// so overshooting ends the wait at once. Every caller has passed a barrier
// before (route.Flush goes through the relay loop that counted the hand-off; a
// forced tick is accepted by the aggregator loop only after the lookups), so the
// counters are already final and the step bound is small: it only matters when
// the relay disagrees with the oracle.
func settle(get func() int64, want int64) bool {
	for i := 0; i < 150; i++ {
		g := get()
		if g == want {
			return true
		}
		if g > want {
			return false
		}
		if i < 100 {
			runtime.Gosched()
		} else {
			time.Sleep(200 * time.Microsecond)
		}
	}
	return get() == want
}

func b2i(b bool) int64 {
	if b {
		return 1
	}
	return 0
}

// holdRefusingAddr binds a loopback TCP port without listening on it: connects
// are refused, and no other process can take the port while the check runs.
func holdRefusingAddr() string {
	fd, err := syscall.Socket(syscall.AF_INET, syscall.SOCK_STREAM, 0)
	if err == nil {
		if err = syscall.Bind(fd, &syscall.SockaddrInet4{Addr: [4]byte{127, 0, 0, 1}}); err == nil {
			if sa, err := syscall.Getsockname(fd); err == nil {
				if in4, ok := sa.(*syscall.SockaddrInet4); ok {
					addr := fmt.Sprintf("127.0.0.1:%d", in4.Port)
					c, err := net.DialTimeout("tcp", addr, 2*time.Second)
					if err != nil {
						return addr // refused, as wanted; fd stays open for the life of the process
					}
					c.Close()
				}
			}
		}
		syscall.Close(fd)
	}
	return mon.ReservedAddr()
}

// ---------------------------------------------------------------- place 1: matcher

var exoticRegexes = []string{"^é", "^aé?b", "^\\x{FFFD}b", "^\\x{e9}b", "^[éa]b", "(?i)^éb", "^K", "(?i)^k"}
var exoticNames = []string{"é", "éb", "aéb", "ab", "\xffb", "\xef\xbf\xbdb", "\xc3b", "\xe9b", "Éb", "K", "k", "K", "eb", "b"}
var brokenRegexes = []string{"(", "a{2,1}", "[", "a**", `\`, "(?P<x>a)(?P<x>b)", "a{1001}", `\8`, "(?z)", "[b-a]", "\xff"}

func (k *checker) runMatcher(idx int) {
	r := mon.NewRng(mon.Seed(), 10, uint64(idx))
	ncur := len(oracle.CuratedRegexes)
	var c fcase
	var names []string
	kind := "generated"
	switch {
	case idx < 2*ncur:
		kind = "curated"
		if idx%2 == 0 {
			c.Spec.Regex = oracle.CuratedRegexes[idx/2]
		} else {
			c.Spec.NotRegex = oracle.CuratedRegexes[idx/2]
		}
		names = append(append([]string{}, oracle.SmallNames("abc.", 3)...), oracle.CuratedNames...)
	case idx < 2*ncur+2*len(exoticRegexes):
		kind = "non-ascii"
		j := idx - 2*ncur
		if j%2 == 0 {
			c.Spec.Regex = exoticRegexes[j/2]
		} else {
			c.Spec.NotRegex = exoticRegexes[j/2]
		}
		names = exoticNames
	case idx < 2*ncur+2*len(exoticRegexes)+len(brokenRegexes):
		kind = "broken-regex"
		c.Spec.Regex = brokenRegexes[idx-2*ncur-2*len(exoticRegexes)]
		if r.Bool() {
			c.Spec.Regex, c.Spec.NotRegex = "", c.Spec.Regex
		}
	default:
		c = genFilter(r, false, false, false)
		names = c.names(r, 30, 0)
	}
	k.res.LogCase("matcher %d %s {%s}", idx, kind, c.Spec.cmdOpts())
	k.res.Eval(1)
	f, oerr := c.Spec.oracle()
	m, rerr := c.Spec.real()
	if (oerr != nil) != (rerr != nil) {
		k.res.Violate("matcher-compile-disagree", fmt.Sprintf("filter {%s}: stdlib regexp says %v, matcher.New says %v", c.Spec.cmdOpts(), oerr, rerr),
			witness{Place: "matcher", Case: idx, Filter: c.Spec})
		return
	}
	if oerr != nil {
		k.res.Count("matcher_compile_errors_agreed", 1)
		return
	}
	if idx == 2*ncur+2*len(exoticRegexes)+len(brokenRegexes) {
		k.res.Sample(map[string]interface{}{"place": "matcher", "filter": c.Spec, "names": names})
	}
	acc, rej := 0, 0
	for _, name := range names {
		b := []byte(name)
		orc := f.Accept(name)
		if orc {
			acc++
		} else {
			rej++
		}
		if !k.decideWith(orc, "matcher", idx, c.Spec, f, name, "", m.Match(b), "", nil) {
			continue
		}
		// the shortcuts the aggregations use instead of Match
		pre := m.PreMatch(b)
		if !pre && orc {
			k.res.Violate("matcher-prematch-rejects-match", fmt.Sprintf("filter {%s}: PreMatch(%q) is false although the conjunction accepts the name", f.String(), name),
				witness{Place: "matcher-prematch", Case: idx, Filter: c.Spec, Name: name, Oracle: orc, Real: pre})
			continue
		}
		if c.Spec.Regex != "" {
			_, ok := m.MatchRegexAndExpand(b, []byte("out"))
			k.decideWith(orc, "matcher-aggpath", idx, c.Spec, f, name, "", pre && ok, "PreMatch && MatchRegexAndExpand", nil)
		}
	}
	if acc > 0 && rej > 0 {
		k.res.NonTrivial("matcher|" + f.String())
	}
}

// ---------------------------------------------------------------- tables

type barrier struct {
	t  *table.Table
	ch chan struct{}
	n  int
}

// catchRoute returns a capture route that accepts only sentinel lines and
// signals the barrier from inside Dispatch.
func (b *barrier) catchRoute(key string) *mon.CaptureRoute {
	m, err := matcher.New(sentinel, "", "", "", "", "")
	if err != nil {
		panic(err)
	}
	cr := mon.NewCaptureRoute(key, m, nil)
	cr.Hook = func([]byte) { b.ch <- struct{}{} }
	return cr
}

// sync pushes a sentinel line through Table.In (the channel aggregators write
// to) and waits until the table's goroutine has dispatched it to the catch
// route, which is the last route: everything that entered Table.In before has
// been routed completely by then. Returns the sentinel line.
func (b *barrier) sync(res *mon.Result) (string, bool) {
	b.n++
	line := sentinel + " 1 1" // always the same text: what a route does with it is then a constant of the case
	b.t.In <- []byte(line)
	select {
	case <-b.ch:
		return line, true
	case <-time.After(120 * time.Second):
		res.Inconclusive("sentinel line sent into Table.In was not dispatched to the catch route within 120s")
		return line, false
	}
}

func newTable() *table.Table { return mon.NewTable("none", "none", false, "") }

func emptyMatcher() matcher.Matcher {
	m, err := matcher.New("", "", "", "", "", "")
	if err != nil {
		panic(err)
	}
	return m
}

// ---------------------------------------------------------------- place 2: blacklist

type blacklistPlace struct {
	k   *checker
	t   *table.Table
	cap *mon.CaptureRoute
}

func (k *checker) newBlacklistPlace() *blacklistPlace {
	p := &blacklistPlace{k: k, t: newTable()}
	p.cap = mon.NewCaptureRoute("c03-bl-all", emptyMatcher(), nil)
	p.t.AddRoute(p.cap)
	return p
}

func (p *blacklistPlace) run(idx int) {
	k := p.k
	r := mon.NewRng(mon.Seed(), 20, uint64(idx))
	viaCmd := r.Chance(1, 2)
	c := genFilter(r, false, viaCmd, true)
	config := "Table.AddBlacklist(matcher.New(six options))"
	if viaCmd {
		c.Spec = keepSome(r, c.Spec, 1)
		pr := c.Spec.pairs()[0]
		config = "addBlack " + pr[0] + " " + pr[1]
	}
	k.res.LogCase("blacklist %d %s {%s}", idx, config, c.Spec.cmdOpts())
	k.res.Eval(1)
	f, oerr := c.Spec.oracle()
	var aerr error
	if viaCmd {
		aerr = mon.Apply(p.t, config)
	} else {
		var m matcher.Matcher
		if m, aerr = c.Spec.real(); aerr == nil {
			p.t.AddBlacklist(&m)
		}
	}
	if (oerr != nil) != (aerr != nil) {
		if oerr != nil {
			k.res.Violate("blacklist-compile-disagree", fmt.Sprintf("%s accepted although the regex does not compile: %v", config, oerr), witness{Place: "blacklist", Case: idx, Filter: c.Spec, Config: config})
			p.t.DelBlacklist(0)
		} else {
			k.res.Inconclusive(fmt.Sprintf("blacklist case %d: %q was refused: %v", idx, config, aerr))
		}
		return
	}
	if oerr != nil {
		return
	}
	defer func() {
		if err := p.t.DelBlacklist(0); err != nil {
			panic(err)
		}
		p.cap.Take()
	}()
	if idx < 8 && idx%4 == 1 {
		k.res.Sample(map[string]interface{}{"place": "blacklist", "config": config, "filter": c.Spec})
	}
	acc, rej := 0, 0
	for _, name := range c.names(r, 12, 1) {
		for v := 0; v < 2; v++ {
			val, ts := tokens(r, c.Spec)
			line := name + " " + val + " " + ts
			d := mon.NewDeltas(mon.KeyBlacklist, mon.KeyInvalid, mon.KeyUnroutable)
			before := p.cap.Len()
			p.t.Dispatch([]byte(line))
			k.res.Count("lines_dispatched", 1)
			if d.Get(mon.KeyInvalid) != 0 {
				k.res.Inconclusive(fmt.Sprintf("blacklist case %d: generated line %q was counted invalid", idx, line))
				continue
			}
			blk, got := d.Get(mon.KeyBlacklist), int64(p.cap.Len()-before)
			if blk+got != 1 || d.Get(mon.KeyUnroutable) != 0 {
				k.res.Violate("blacklist-line-unaccounted", fmt.Sprintf("line %q: direction=blacklist moved by %d and the catch-all route received it %d times", line, blk, got),
					witness{Place: "blacklist", Case: idx, Filter: c.Spec, Name: name, Line: line, Config: config})
				continue
			}
			if f.Accept(name) {
				acc++
			} else {
				rej++
			}
			k.decide("blacklist", idx, c.Spec, f, name, line, blk == 1, config, nil)
		}
	}
	if acc > 0 && rej > 0 {
		k.res.NonTrivial("blacklist|" + f.String())
	}
}

// ---------------------------------------------------------------- places 3 and 4: carbon routes

type routePlace struct {
	k *checker
	t *table.Table
}

func (k *checker) destWord(i int, f fspec) (word, key string) {
	addr := fmt.Sprintf("%s:i%d", k.addr, i)
	word = addr
	if o := f.cmdOpts(); o != "" {
		word += " " + o
	}
	return word + " spool=false reconn=3600000", addr
}

// apiRoute builds a carbon route with the constructors the commands end up
// calling (parsing a command costs ~25 ms of CPU under the race detector, so not
// every route of places 3 and 6 is built by command; every route of place 4 is).
// The destinations have no filter, no spool and point at the refusing address.
func (k *checker) apiRoute(t *table.Table, typ, key string, spec fspec, ndest int) ([]string, error) {
	m, err := spec.real()
	if err != nil {
		return nil, err
	}
	var dests []*destination.Destination
	var dkeys []string
	for i := 0; i < ndest; i++ {
		addr := fmt.Sprintf("%s:i%d", k.addr, i)
		d, err := destination.New(key, emptyMatcher(), addr, "", false, false, time.Second, time.Hour, 30000, 2000000, 10000, 200*1024*1024, 10000, time.Second, 500*time.Microsecond, 10*time.Microsecond)
		if err != nil {
			panic(err)
		}
		dests = append(dests, d)
		dkeys = append(dkeys, mon.KeyDestDropNoConn(mon.DestKey(key, addr)))
	}
	var rt route.Route
	switch typ {
	case "sendAllMatch":
		rt, err = route.NewSendAllMatch(key, m, dests)
	case "sendFirstMatch":
		rt, err = route.NewSendFirstMatch(key, m, dests)
	default:
		rt, err = route.NewConsistentHashing(key, m, dests)
	}
	if err != nil {
		panic(err)
	}
	t.AddRoute(rt)
	return dkeys, nil
}

// place 3: the filter of the route itself.
func (p *routePlace) runRoute(idx int) {
	k := p.k
	r := mon.NewRng(mon.Seed(), 30, uint64(idx))
	viaCmd := r.Chance(1, 2)
	c := genFilter(r, false, viaCmd, true)
	typ := r.Pick([]string{"sendAllMatch", "sendAllMatch", "sendFirstMatch", "consistentHashing"})
	key := fmt.Sprintf("c03r%d", idx)
	ndest := 1
	if typ == "consistentHashing" {
		ndest = 2
	}
	var words, dkeys []string
	for i := 0; i < ndest; i++ {
		w, addr := k.destWord(i, fspec{})
		words = append(words, w)
		dkeys = append(dkeys, mon.KeyDestDropNoConn(mon.DestKey(key, addr)))
	}
	cmd := fmt.Sprintf("addRoute %s %s %s  %s", typ, key, c.Spec.cmdOpts(), strings.Join(words, "  "))
	if !viaCmd {
		cmd = fmt.Sprintf("route.New(%s, %s, matcher.New{%s}, %d destinations) + Table.AddRoute", typ, key, c.Spec.cmdOpts(), ndest)
	}
	k.res.LogCase("route %d %s", idx, cmd)
	k.res.Eval(1)
	f, oerr := c.Spec.oracle()
	var aerr error
	if viaCmd {
		aerr = mon.Apply(p.t, cmd)
	} else {
		_, aerr = k.apiRoute(p.t, typ, key, c.Spec, ndest)
	}
	if aerr == nil {
		defer func() {
			if err := p.t.DelRoute(key); err != nil {
				panic(err)
			}
		}()
	}
	if (oerr != nil) != (aerr != nil) {
		if oerr != nil {
			k.res.Violate("route-compile-disagree", fmt.Sprintf("%q accepted although the regex does not compile: %v", cmd, oerr), witness{Place: "route", Case: idx, Filter: c.Spec, Config: cmd})
		} else {
			k.res.Inconclusive(fmt.Sprintf("route case %d: %q was refused: %v", idx, cmd, aerr))
		}
		return
	}
	if oerr != nil {
		return
	}
	if idx < 8 && idx%4 == 2 {
		k.res.Sample(map[string]interface{}{"place": "route", "command": cmd})
	}
	rt := p.t.GetRoute(key)
	spec, config := c.Spec, cmd
	acc, rej := 0, 0
	pass := func(names []string) {
		for _, name := range names {
			for v := 0; v < 2; v++ {
				val, ts := tokens(r, spec)
				line := name + " " + val + " " + ts
				d := mon.NewDeltas(append([]string{mon.KeyUnroutable, mon.KeyInvalid}, dkeys...)...)
				p.t.Dispatch([]byte(line))
				k.res.Count("lines_dispatched", 1)
				rt.Flush() // goes through each destination's relay loop: a barrier behind the hand-off
				handed := func() int64 {
					var s int64
					for _, dk := range dkeys {
						s += d.Get(dk)
					}
					return s
				}
				if d.Get(mon.KeyInvalid) != 0 {
					k.res.Inconclusive(fmt.Sprintf("route case %d: generated line %q was counted invalid", idx, line))
					continue
				}
				if !settle(func() int64 { return handed() + d.Get(mon.KeyUnroutable) }, 1) {
					k.res.Violate("route-line-unaccounted", fmt.Sprintf("line %q: destinations of the route counted %d hand-offs and direction=unroutable moved by %d (must add up to 1)", line, handed(), d.Get(mon.KeyUnroutable)),
						witness{Place: "route", Case: idx, Filter: spec, Name: name, Line: line, Config: config})
					continue
				}
				k.res.Count("dest_handoffs_observed", int(handed()))
				if f.Accept(name) {
					acc++
				} else {
					rej++
				}
				k.decide("route", idx, spec, f, name, line, handed() == 1, config, nil)
			}
		}
	}
	pass(c.names(r, 8, 1))
	if acc > 0 && rej > 0 {
		k.res.NonTrivial("route|" + f.String())
	}
	// history: the operator changes some options with modRoute
	if r.Chance(1, 3) {
		c2 := genFilter(r, false, true, true)
		upd := keepSome(r, c2.Spec, 1+r.Intn(2))
		mod := "modRoute " + key + " " + upd.cmdOpts()
		k.res.LogCase("route %d %s", idx, mod)
		merged := spec.merged(upd)
		f2, oerr := merged.oracle()
		aerr := mon.Apply(p.t, mod)
		if (oerr != nil) != (aerr != nil) {
			if oerr == nil {
				k.res.Inconclusive(fmt.Sprintf("route case %d: %q was refused: %v", idx, mod, aerr))
			}
			return
		}
		if oerr != nil {
			return
		}
		k.res.Count("filters_modified_at_runtime", 1)
		spec, config, f = merged, cmd+" ; "+mod, f2
		c2.Spec = merged
		pass(append(c.names(r, 3, 1), c2.names(r, 3, 1)...))
	}
}

// place 4: the filters of the destinations inside a route.
func (p *routePlace) runDest(idx int) {
	k := p.k
	r := mon.NewRng(mon.Seed(), 40, uint64(idx))
	typ := r.Pick([]string{"sendAllMatch", "sendFirstMatch"})
	key := fmt.Sprintf("c03d%d", idx)
	nd := 1 + r.Intn(4)
	cases := make([]fcase, nd)
	specs := make([]fspec, nd)
	var words, dkeys []string
	for i := range cases {
		if r.Chance(12, 100) {
			cases[i] = fcase{seed: "abc"} // a destination without filter takes everything
		} else {
			cases[i] = genFilter(r, false, true, true)
		}
		specs[i] = cases[i].Spec
		w, addr := k.destWord(i, specs[i])
		words = append(words, w)
		dkeys = append(dkeys, mon.KeyDestDropNoConn(mon.DestKey(key, addr)))
	}
	cmd := fmt.Sprintf("addRoute %s %s  %s", typ, key, strings.Join(words, "  "))
	k.res.LogCase("dest %d %s", idx, cmd)
	k.res.Eval(1)
	fs := make([]*oracle.Filter, nd)
	var oerr error
	for i := range specs {
		var e error
		if fs[i], e = specs[i].oracle(); e != nil {
			oerr = e
		}
	}
	aerr := mon.Apply(p.t, cmd)
	if aerr == nil {
		defer func() {
			if err := p.t.DelRoute(key); err != nil {
				panic(err)
			}
		}()
	}
	if (oerr != nil) != (aerr != nil) {
		if oerr != nil {
			k.res.Violate("dest-compile-disagree", fmt.Sprintf("%q accepted although a regex does not compile: %v", cmd, oerr), witness{Place: "dest", Case: idx, Config: cmd})
		} else {
			k.res.Inconclusive(fmt.Sprintf("dest case %d: %q was refused: %v", idx, cmd, aerr))
		}
		return
	}
	if oerr != nil {
		return
	}
	if idx < 8 && idx%4 == 3 {
		k.res.Sample(map[string]interface{}{"place": "dest", "command": cmd})
	}
	rt := p.t.GetRoute(key)
	config := cmd
	seenAcc, seenRej := make([]int, nd), make([]int, nd)
	pass := func(names []string) {
		for _, name := range names {
			for v := 0; v < 2; v++ {
				val, ts := tokens(r, specs...)
				line := name + " " + val + " " + ts
				d := mon.NewDeltas(append([]string{mon.KeyUnroutable, mon.KeyInvalid}, dkeys...)...)
				p.t.Dispatch([]byte(line))
				k.res.Count("lines_dispatched", 1)
				rt.Flush()
				if d.Get(mon.KeyInvalid) != 0 {
					k.res.Inconclusive(fmt.Sprintf("dest case %d: generated line %q was counted invalid", idx, line))
					continue
				}
				// expected hand-offs
				expect := make([]int64, nd)
				var want int64
				for i := range fs {
					if fs[i].Accept(name) {
						expect[i] = 1
						want++
						if typ == "sendFirstMatch" {
							break
						}
					}
				}
				sum := func() int64 {
					var s int64
					for _, dk := range dkeys {
						s += d.Get(dk)
					}
					return s
				}
				settle(sum, want)
				got := make([]int64, nd)
				for i, dk := range dkeys {
					got[i] = d.Get(dk)
				}
				k.res.Count("dest_handoffs_observed", int(sum()))
				detail := map[string]interface{}{"route_type": typ, "handoffs_per_destination": got, "expected": expect}
				if d.Get(mon.KeyUnroutable) != 0 {
					k.res.Violate("dest-route-unroutable", fmt.Sprintf("line %q counted unroutable although the route has no filter", line), witness{Place: "dest", Case: idx, Name: name, Line: line, Config: config, Detail: detail})
					continue
				}
				for i := range fs {
					if got[i] > 1 {
						k.res.Violate("dest-duplicate-handoff", fmt.Sprintf("line %q handed to destination %d %d times", line, i, got[i]), witness{Place: "dest", Case: idx, Filter: specs[i], Name: name, Line: line, Config: config, Detail: detail})
						break
					}
					orc := fs[i].Accept(name)
					if orc {
						seenAcc[i]++
					} else {
						seenRej[i]++
					}
					if !k.decide("dest", idx, specs[i], fs[i], name, line, got[i] == 1, config, detail) {
						break
					}
					if typ == "sendFirstMatch" && got[i] == 1 {
						// the decisions of later destinations are not observable, but they must not get the line
						for j := i + 1; j < nd; j++ {
							if got[j] != 0 {
								k.res.Violate("dest-firstmatch-extra-handoff", fmt.Sprintf("line %q: sendFirstMatch handed it to destination %d and also to destination %d", line, i, j), witness{Place: "dest", Case: idx, Filter: specs[j], Name: name, Line: line, Config: config, Detail: detail})
								break
							}
						}
						break
					}
				}
			}
		}
	}
	var names []string
	for i := range cases {
		names = append(names, cases[i].names(r, 8/nd+2, 1)...)
	}
	pass(names)
	// history: modDest changes the filter of one destination
	if r.Chance(1, 3) {
		i := r.Intn(nd)
		c2 := genFilter(r, false, true, true)
		upd := keepSome(r, c2.Spec, 1+r.Intn(2))
		mod := fmt.Sprintf("modDest %s %d %s", key, i, upd.cmdOpts())
		k.res.LogCase("dest %d %s", idx, mod)
		merged := specs[i].merged(upd)
		f2, oerr := merged.oracle()
		aerr := mon.Apply(p.t, mod)
		if oerr == nil && aerr == nil {
			k.res.Count("filters_modified_at_runtime", 1)
			specs[i], fs[i], config = merged, f2, cmd+" ; "+mod
			c2.Spec = merged
			pass(append(cases[i].names(r, 3, 1), c2.names(r, 3, 1)...))
		} else if oerr == nil {
			k.res.Inconclusive(fmt.Sprintf("dest case %d: %q was refused: %v", idx, mod, aerr))
		}
	}
	for i := range fs {
		if seenAcc[i] > 0 && seenRej[i] > 0 {
			k.res.NonTrivial("dest|" + typ + "|" + fs[i].String())
		}
	}
}

// ---------------------------------------------------------------- place 5: aggregations

type clock struct{ s int64 }

func (c *clock) now() time.Time { return time.Unix(atomic.LoadInt64(&c.s), 0) }
func (c *clock) set(s int64)    { atomic.StoreInt64(&c.s, s) }
func (c *clock) get() int64     { return atomic.LoadInt64(&c.s) }

type aggPlace struct {
	k   *checker
	t   *table.Table // for the variant wired into a table: catch-all route + sentinel route
	cap *mon.CaptureRoute
	bar *barrier
}

func (k *checker) newAggPlace() *aggPlace {
	p := &aggPlace{k: k, t: newTable()}
	p.cap = mon.NewCaptureRoute("c03-agg-all", emptyMatcher(), nil)
	p.t.AddRoute(p.cap)
	p.bar = &barrier{t: p.t, ch: make(chan struct{})}
	p.t.AddRoute(p.bar.catchRoute("c03-agg-catch"))
	return p
}

type lookup struct {
	Phase  int    `json:"phase"`
	Name   string `json:"name"`
	Ts     int64  `json:"ts"`
	Clock  int64  `json:"clock"`
	Output bool   `json:"output_after_tick"`
	Oracle bool   `json:"oracle_accepts"`
}

const aggOutName = "zzagg"

func (p *aggPlace) run(idx int) {
	k := p.k
	r := mon.NewRng(mon.Seed(), 50, uint64(idx))
	c := genFilter(r, true, false, true)
	if idx == 0 { // the documented witness of an ignored notRegex
		c = fcase{Spec: fspec{Regex: "^foo", NotRegex: "bad"}, seed: "foo.bad"}
	}
	viaTable := r.Chance(1, 3)
	cache, dropRaw := r.Bool(), r.Bool()
	if idx == 0 {
		viaTable, dropRaw = true, true
	}
	wait := int64(r.PickInt([]int{1, 5, 30}))
	const interval = 10
	config := fmt.Sprintf("aggregator.NewMocked(sum, {%s}, fmt=%s, cache=%v, interval=%d, wait=%d, dropRaw=%v) wiredIntoTable=%v", c.Spec.cmdOpts(), aggOutName, cache, interval, wait, dropRaw, viaTable)
	k.res.LogCase("agg %d %s", idx, config)
	k.res.Eval(1)
	f, oerr := c.Spec.oracle()
	m, rerr := c.Spec.real()
	if (oerr != nil) != (rerr != nil) {
		k.res.Violate("agg-compile-disagree", fmt.Sprintf("filter {%s}: stdlib regexp says %v, matcher.New says %v", c.Spec.cmdOpts(), oerr, rerr), witness{Place: "agg", Case: idx, Filter: c.Spec})
		return
	}
	if oerr != nil {
		return
	}
	clk := &clock{}
	clk.set(1000000)
	tick := make(chan time.Time)
	var out chan []byte
	if viaTable {
		out = p.t.In
	} else {
		out = make(chan []byte, 4096)
	}
	agg, err := aggregator.NewMocked("sum", m, aggOutName, cache, interval, uint(wait), dropRaw, out, 0, clk.now, tick)
	if err != nil {
		panic(err)
	}
	inKey := mon.KeyAggIn(agg.Key)
	din := mon.NewDeltas(inKey)
	if viaTable {
		p.t.AddAggregator(agg)
		defer func() {
			if err := p.t.DelAggregator(0); err != nil {
				panic(err)
			}
			p.cap.Take()
		}()
	} else {
		defer agg.Shutdown()
	}
	if idx < 8 && idx%4 == 0 {
		k.res.Sample(map[string]interface{}{"place": "agg", "config": config})
	}
	forceTick := func(t int64) {
		tick <- time.Unix(t, 0) // accepted only when every lookup handed over before has been processed
		clk.set(t)              // (the clock moves afterwards: a lookup still in progress must not see the future)
		tick <- time.Unix(t, 0) // accepted only after the flush of the first one has finished
		k.res.Count("agg_ticks_forced", 2)
	}
	pool := c.names(r, 6+r.Intn(6), 1)
	if idx == 0 {
		pool = []string{"foo.bad", "foo.good", "bar", "foo.bad"}
	}
	phases := 2 + r.Intn(4)
	var hist []lookup
	first := map[string]bool{} // first observed decision per name
	var accepted int64
	acc, rej := 0, 0
	for ph := 0; ph < phases; ph++ {
		base := (clk.get()/interval + 1) * interval
		n := 3 + r.Intn(8)
		var evs []lookup
		rawPassed := map[int64]bool{}
		rawSent := map[string]int{}
		consumed := map[int64]bool{}
		for j := 0; j < n; j++ {
			name := pool[r.Intn(len(pool))]
			ts := base + int64(j+1)*interval
			val, _ := tokens(r, c.Spec)
			fv, _ := strconv.ParseFloat(val, 64)
			tss := strconv.FormatInt(ts, 10)
			evs = append(evs, lookup{Phase: ph, Name: name, Ts: ts, Clock: clk.get(), Oracle: f.Accept(name)})
			k.res.Count("agg_lookups", 1)
			if viaTable {
				before := p.cap.Len()
				rawSent[name+" "+val+" "+tss]++
				p.t.Dispatch([]byte(name + " " + val + " " + tss))
				rawPassed[ts] = p.cap.Len() > before
			} else {
				consumed[ts] = agg.AddMaybe([][]byte{[]byte(name), []byte(val), []byte(tss)}, fv, uint32(ts))
			}
		}
		forceTick(base + int64(n+2)*interval + wait + 1)
		outputs := map[int64]int{}
		record := func(line string) {
			fl := strings.Fields(line)
			if len(fl) != 3 || fl[0] != aggOutName || strings.HasPrefix(line, " ") {
				if rawSent[line] > 0 { // (wired into a table) a raw line that passed through
					rawSent[line]--
					return
				}
				if oracle.NameOf(line) == sentinel {
					return
				}
				k.res.Violate("agg-unexpected-output", fmt.Sprintf("aggregation {%s} (output name %q) emitted the line %q", f.String(), aggOutName, line), witness{Place: "agg", Case: idx, Filter: c.Spec, Line: line, Config: config, Detail: hist})
				return
			}
			t, _ := strconv.ParseInt(fl[2], 10, 64)
			outputs[t]++
			k.res.Count("agg_outputs_observed", 1)
		}
		if viaTable {
			if _, ok := p.bar.sync(k.res); !ok {
				return
			}
			for _, l := range p.cap.Lines() {
				record(l)
			}
			p.cap.Take()
		} else {
		drain:
			for {
				select {
				case b := <-out:
					record(string(b))
				default:
					break drain
				}
			}
		}
		for i := range evs {
			e := &evs[i]
			e.Output = outputs[e.Ts] > 0
			delete(outputs, e.Ts)
			hist = append(hist, *e)
		}
		for t := range outputs {
			k.res.Violate("agg-unexpected-output", fmt.Sprintf("aggregate output with timestamp %d that no lookup of this phase explains", t), witness{Place: "agg", Case: idx, Filter: c.Spec, Config: config, Detail: hist})
		}
		for _, e := range evs {
			if e.Output {
				accepted++
			}
			if e.Oracle {
				acc++
			} else {
				rej++
			}
			if prev, seen := first[e.Name]; seen && prev != e.Output && prev == e.Oracle {
				// it was right the first time and is wrong now: the decision changed over the history
				k.tally("agg", e.Oracle)
				sig := "agg-decision-changed"
				if cache {
					sig = "agg-cache-decision-changed"
				}
				k.res.Violate(sig, fmt.Sprintf("aggregation {%s}: name %q was decided accept=%v earlier and accept=%v in phase %d (oracle: %v)", f.String(), e.Name, prev, e.Output, e.Phase, e.Oracle),
					witness{"agg", idx, c.Spec, e.Name, "", e.Oracle, e.Output, config, hist})
			} else {
				k.decide("agg", idx, c.Spec, f, e.Name, "", e.Output, config, hist)
			}
			if _, seen := first[e.Name]; !seen {
				first[e.Name] = e.Output
			}
			// the consumed flag (dropRaw) is a second observation of the same decision
			if dropRaw {
				got := consumed[e.Ts]
				if viaTable {
					got = !rawPassed[e.Ts]
				}
				if got != e.Oracle {
					sig := label("agg", f, e.Name, "", got)
					k.res.Violate(sig+"-dropraw", fmt.Sprintf("aggregation {%s} dropRaw=true: raw metric %q consumed=%v, the documented conjunction says %v", f.String(), e.Name, got, e.Oracle),
						witness{"agg", idx, c.Spec, e.Name, "", e.Oracle, got, config, hist})
				}
			} else if viaTable && !rawPassed[e.Ts] {
				k.res.Violate("agg-raw-lost-without-dropraw", fmt.Sprintf("aggregation {%s} dropRaw=false: raw metric %q did not reach the catch-all route", f.String(), e.Name),
					witness{"agg", idx, c.Spec, e.Name, "", e.Oracle, e.Output, config, hist})
			}
		}
		// let time pass; beyond 100 x wait the match cache forgets the names (the cleaner runs on ticks)
		if ph+1 < phases {
			gap := int64(1 + r.Intn(int(wait)+1))
			if r.Chance(1, 2) {
				gap = 100*wait + wait + int64(5+r.Intn(50))
				if cache {
					k.res.Count("agg_cache_expiries_forced", 1)
				}
			}
			t := clk.get() + gap
			forceTick(t)
			forceTick(t + 1) // the cleaner stops at the first fresh entry it meets; give it more than one round
			forceTick(t + 2)
		}
	}
	if !settle(func() int64 { return din.Get(inKey) }, accepted) {
		k.res.Violate("agg-in-counter", fmt.Sprintf("aggregation {%s}: direction=in.aggregator counter moved by %d, %d lookups produced output", f.String(), din.Get(inKey), accepted),
			witness{Place: "agg", Case: idx, Filter: c.Spec, Config: config, Detail: hist})
	}
	if acc > 0 && rej > 0 {
		k.res.NonTrivial(fmt.Sprintf("agg|cache=%v|%s", cache, f.String()))
	}
	if idx == 1 {
		k.res.Sample(map[string]interface{}{"place": "agg", "config": config, "history": hist})
	}
}

// ---------------------------------------------------------------- place 6: routing of aggregation output

type aggRoutePlace struct {
	k *checker
	t *table.Table
}

type rtObs struct {
	spec fspec
	f    *oracle.Filter
	cap  *mon.CaptureRoute // nil for the real carbon route
	key  string
}

func (p *aggRoutePlace) run(idx int) {
	k := p.k
	r := mon.NewRng(mon.Seed(), 60, uint64(idx))
	interval := int64(r.PickInt([]int{5, 10, 60}))
	const wait = 10
	cache := r.Bool()
	var routes []rtObs
	var names []string
	ncap := 1 + r.Intn(3)
	var realCase fcase
	if idx == 0 { // the documented witness
		interval = 60
		ncap = 1
		realCase = fcase{Spec: fspec{Regex: "cpu$"}, seed: "agg.cpu"}
		names = []string{"agg.cpu", "agg.mem", "cpu", "agg.cpu5"}
	} else {
		realCase = genFilter(r, false, false, true)
		names = realCase.names(r, 3, 1)
	}
	for i := 0; i < ncap; i++ {
		c := genFilter(r, false, false, true)
		if idx == 0 {
			c = fcase{Spec: fspec{Regex: "cpu$"}, seed: "agg.cpu"}
		} else {
			names = append(names, c.names(r, 2, 1)...)
		}
		f, oe := c.Spec.oracle()
		m, re := c.Spec.real()
		if oe != nil || re != nil {
			continue // compile agreement is checked at the other places
		}
		key := fmt.Sprintf("c03ac%d-%d", idx, i)
		routes = append(routes, rtObs{spec: c.Spec, f: f, cap: mon.NewCaptureRoute(key, m, nil), key: key})
	}
	rkey := fmt.Sprintf("c03ar%d", idx)
	cmd := fmt.Sprintf("route.NewSendAllMatch(%s, matcher.New{%s}, 1 destination) + Table.AddRoute", rkey, realCase.Spec.cmdOpts())
	k.res.LogCase("aggregate-routing %d interval=%d cache=%v %s + %d capture routes", idx, interval, cache, cmd, len(routes))
	k.res.Eval(1)
	fr, oerr := realCase.Spec.oracle()
	dks, aerr := k.apiRoute(p.t, "sendAllMatch", rkey, realCase.Spec, 1)
	dkey := ""
	if aerr == nil {
		dkey = dks[0]
		defer p.t.DelRoute(rkey)
	}
	if oerr != nil || aerr != nil {
		if oerr == nil {
			k.res.Inconclusive(fmt.Sprintf("aggregate-routing case %d: %q was refused: %v", idx, cmd, aerr))
		}
		return
	}
	routes = append(routes, rtObs{spec: realCase.Spec, f: fr, key: rkey})
	for _, ro := range routes {
		if ro.cap != nil {
			p.t.AddRoute(ro.cap)
			defer p.t.DelRoute(ro.key)
		}
	}
	bar := &barrier{t: p.t, ch: make(chan struct{})}
	ckey := fmt.Sprintf("c03az%d", idx)
	p.t.AddRoute(bar.catchRoute(ckey)) // last route
	defer p.t.DelRoute(ckey)

	am, err := matcher.New("", "", "", "", `^raw\.(.*)`, "")
	if err != nil {
		panic(err)
	}
	clk := &clock{}
	clk.set(1000020)
	if idx == 0 {
		clk.set(50) // so that the bucket of the witness is 60
	}
	tick := make(chan time.Time)
	agg, err := aggregator.NewMocked("sum", am, "${1}", cache, uint(interval), wait, true, p.t.In, 0, clk.now, tick)
	if err != nil {
		panic(err)
	}
	p.t.AddAggregator(agg)
	defer func() {
		if err := p.t.DelAggregator(0); err != nil {
			panic(err)
		}
	}()
	outKey := mon.KeyAggOut(agg.Key)
	rt := p.t.GetRoute(rkey)
	var config []string
	for _, ro := range routes {
		kind := "capture route"
		if ro.cap == nil {
			kind = "sendAllMatch route"
		}
		config = append(config, fmt.Sprintf("%s %s {%s}", kind, ro.key, ro.spec.cmdOpts()))
	}
	cfg := strings.Join(config, " | ") + fmt.Sprintf(" | aggregation sum regex=^raw\\.(.*) fmt=${1} interval=%d wait=%d dropRaw=true cache=%v", interval, wait, cache)
	if idx < 2 {
		k.res.Sample(map[string]interface{}{"place": "aggregate-routing", "config": cfg, "aggregate_names": names})
	}
	// the sentinel alone: what the carbon route does with it is measured once
	// (the catch route is last, so when it signals the sentinel has been offered to every route)
	dcal := mon.NewDeltas(dkey)
	sline0, ok := bar.sync(k.res)
	if !ok {
		return
	}
	rt.Flush()
	sentinelHandoffs := dcal.Get(dkey)
	if sentinelHandoffs > 1 {
		k.res.Violate("aggregate-routing-handoff-count", fmt.Sprintf("route %s counted %d hand-offs for the single line %q", rkey, sentinelHandoffs, sline0),
			witness{Place: "aggregate-routing", Case: idx, Filter: realCase.Spec, Name: sentinel, Line: sline0, Config: cfg})
		return
	}
	k.decide("aggregate-routing", idx, realCase.Spec, fr, sentinel, sline0, sentinelHandoffs == 1, cfg, nil)
	for _, ro := range routes {
		if ro.cap != nil {
			ro.cap.Take()
		}
	}
	accs, rejs := make([]int, len(routes)), make([]int, len(routes))
	for e, name := range names {
		base := (clk.get()/interval + 1) * interval
		ts := base + interval
		if idx == 0 && e == 0 {
			ts = 60
		}
		val, _ := tokens(r, append([]fspec{realCase.Spec}, routes[0].spec)...)
		if idx == 0 {
			val = "1"
		}
		fv, _ := strconv.ParseFloat(val, 64)
		raw := fmt.Sprintf("raw.%s %s %d", name, val, ts)
		aggLine := fmt.Sprintf("%s %f %d", name, fv, ts)
		d := mon.NewDeltas(mon.KeyUnroutable, mon.KeyInvalid, dkey, outKey)
		p.t.Dispatch([]byte(raw))
		tt := ts + interval + wait + 1
		tick <- time.Unix(tt, 0) // accepted when the raw point has been added to its bucket
		clk.set(tt)
		tick <- time.Unix(tt, 0) // accepted when the flush has finished
		sline, ok := bar.sync(k.res)
		if !ok {
			return
		}
		rt.Flush()
		k.res.Count("lines_dispatched", 1)
		if d.Get(mon.KeyInvalid) != 0 {
			k.res.Inconclusive(fmt.Sprintf("aggregate-routing case %d: generated line %q was counted invalid", idx, raw))
			continue
		}
		if d.Get(outKey) != 1 {
			k.res.Violate("aggregate-routing-no-aggregate", fmt.Sprintf("raw line %q: the aggregation emitted %d points after the forced tick (expected 1)", raw, d.Get(outKey)),
				witness{Place: "aggregate-routing", Case: idx, Name: name, Line: raw, Config: cfg})
			for _, ro := range routes {
				if ro.cap != nil {
					ro.cap.Take()
				}
			}
			continue
		}
		k.res.Count("aggregates_observed", 1)
		// both the aggregate and the sentinel are lines that entered Table.In
		anyRoute := false
		for i, ro := range routes {
			orcN := ro.f.Accept(name)
			anyRoute = anyRoute || orcN
			var gotN, gotS, other int64
			var detail interface{}
			if ro.cap != nil {
				var lines []string
				for _, l := range ro.cap.Lines() {
					lines = append(lines, l)
					switch {
					case oracle.NameOf(l) == sentinel:
						gotS++
					case oracle.NameOf(l) == name && strings.HasSuffix(l, " "+strconv.FormatInt(ts, 10)):
						gotN++
					default:
						other++
					}
				}
				ro.cap.Take()
				detail = map[string]interface{}{"route": ro.key, "received": lines, "aggregate": aggLine, "event": e}
				if other > 0 || gotN > 1 || gotS > 1 {
					k.res.Violate("aggregate-routing-unexpected-line", fmt.Sprintf("capture route %s received %v while only %q and the sentinel were in flight", ro.key, lines, aggLine),
						witness{Place: "aggregate-routing", Case: idx, Filter: ro.spec, Name: name, Line: aggLine, Config: cfg, Detail: detail})
					continue
				}
			} else {
				want := b2i(orcN) + sentinelHandoffs
				settle(func() int64 { return d.Get(dkey) }, want)
				got := d.Get(dkey)
				detail = map[string]interface{}{"route": ro.key, "handoffs_counted": got, "of_which_sentinel": sentinelHandoffs, "aggregate": aggLine, "sentinel": sline, "event": e}
				k.res.Count("dest_handoffs_observed", int(got))
				gotN = got - sentinelHandoffs // what the route does with the sentinel alone was measured before
				if gotN < 0 || gotN > 1 {
					k.res.Violate("aggregate-routing-handoff-count", fmt.Sprintf("route %s counted %d hand-offs for aggregate %q + sentinel, expected %d", ro.key, got, aggLine, want),
						witness{Place: "aggregate-routing", Case: idx, Filter: ro.spec, Name: name, Line: aggLine, Config: cfg, Detail: detail})
					continue
				}
			}
			if orcN {
				accs[i]++
			} else {
				rejs[i]++
			}
			k.decide("aggregate-routing", idx, ro.spec, ro.f, name, aggLine, gotN == 1, cfg, detail)
			if ro.cap != nil {
				k.decide("aggregate-routing", idx, ro.spec, ro.f, sentinel, sline, gotS == 1, cfg, detail)
			}
		}
		if u := d.Get(mon.KeyUnroutable); u != b2i(!anyRoute) {
			k.res.Violate("aggregate-routing-unroutable-count", fmt.Sprintf("aggregate %q: direction=unroutable moved by %d, expected %d", aggLine, u, b2i(!anyRoute)),
				witness{Place: "aggregate-routing", Case: idx, Name: name, Line: aggLine, Config: cfg})
		}
	}
	for i, ro := range routes {
		if accs[i] > 0 && rejs[i] > 0 {
			k.res.NonTrivial("aggregate-routing|" + ro.f.String())
		}
	}
}

// ---------------------------------------------------------------- main

func main() {
	if pf := os.Getenv("C03_CPUPROFILE"); pf != "" {
		if fh, err := os.Create(pf); err == nil {
			pprof.StartCPUProfile(fh)
			defer pprof.StopCPUProfile()
		}
	}
	res := mon.NewResult("C03")
	res.Rule = "filters generated from (seed, place, index): each of the six options present with probability 18-60%, regexes from a tree generator over {literal, \\., ., class, \\d \\w, ?, *, +, {m,n}, lazy, group, alternation (bare at top level), ^, $, \\b, (?i) (?s) (?m) (?U)} over the alphabet {a,b,c,e,3,5,.} plus ~100 curated shapes (^ab?c, ^foo|bar, ^a\\.*b, ^a{0,2}b, ^(ab)?c, (?i)^abc, ^a|^b ...) each used as regex and as notRegex against every name of length <=3 over {a,b,c,.}; names = strings sampled from the regex trees, near misses, compositions of prefix/sub, curated and random names (length 0-10); each line is sent with 2 value/timestamp token pairs containing filter material. A (place, filter) is non-trivial when its names produced both accepts and rejects; distinct = distinct (place, filter)."
	res.Assume("the Go standard library regexp package implements RE2 search correctly (it is the reference for regex and notRegex)")
	res.Assume("a destination without connection and without spool counts every line handed to it exactly once in reason=conn_down_no_spool (the loopback port is held bound, not listening, for the whole run)")
	res.Assume("aggregator in-channel unbuffered (inBuf=0) so that a forced tick is ordered after the lookups; the production value 2000 only changes buffering")
	res.Assume("filter values that the admin command language cannot express (blanks, all-digit words) are exercised only at matcher.New / Table.AddBlacklist / NewMocked, not through commands")
	mon.InitRepo()
	debug.SetGCPercent(400) // regexp under -race allocates a backtracking table per match; memory is not scarce here
	k := &checker{res: res, addr: holdRefusingAddr(), accept: map[string]int{}, reject: map[string]int{}}

	nMatcher := mon.N(3000, 200000) + 2*len(oracle.CuratedRegexes) + 2*len(exoticRegexes) + len(brokenRegexes)
	nPlace := mon.N(300, 10000)

	// the table places read process-global counters and live on goroutine
	// hand-overs (relay loops, aggregator loop, Table.In): strictly one after
	// the other, and before the CPU-bound matcher place so that they are not
	// starved by it
	bl := k.newBlacklistPlace()
	rp := &routePlace{k: k, t: newTable()}
	dp := &routePlace{k: k, t: newTable()}
	ap := k.newAggPlace()
	arp := &aggRoutePlace{k: k, t: newTable()}
	spent := map[string]time.Duration{}
	timed := func(place string, f func()) {
		t0 := time.Now()
		f()
		spent[place] += time.Since(t0)
	}
	// one P for this phase: a hand-over between two goroutines is then a switch
	// on the same thread instead of a futex wake-up of another one (which costs
	// milliseconds on a busy machine); nothing here runs in parallel anyway
	procs := runtime.GOMAXPROCS(1)
	for i := 0; i < nPlace; i++ {
		if !mon.Mine(i) {
			continue
		}
		timed("blacklist", func() { bl.run(i) })
		timed("route", func() { rp.runRoute(i) })
		timed("dest", func() { dp.runDest(i) })
		timed("agg", func() { ap.run(i) })
		timed("aggregate-routing", func() { arp.run(i) })
	}

	runtime.GOMAXPROCS(procs)

	// place 1 touches no global counter: a few workers per shard (all shards together about one per core)
	_, nshards := mon.Shard()
	workers := (runtime.NumCPU() + nshards - 1) / nshards
	if workers < 1 {
		workers = 1
	}
	if workers > 8 {
		workers = 8
	}
	t0 := time.Now()
	var wg sync.WaitGroup
	var next int64 = -1
	for w := 0; w < workers; w++ {
		wg.Add(1)
		go func() {
			defer wg.Done()
			for {
				i := int(atomic.AddInt64(&next, 1))
				if i >= nMatcher {
					return
				}
				if mon.Mine(i) {
					k.runMatcher(i)
				}
			}
		}()
	}
	wg.Wait()
	spent["matcher (wall)"] = time.Since(t0)
	secs := map[string]float64{}
	for pl, d := range spent {
		secs[pl] = float64(d.Milliseconds()) / 1000
	}
	res.Set("seconds_per_place_summed_over_shards", secs)

	runExtras(res)
	places := []string{"matcher", "matcher-aggpath", "blacklist", "route", "dest", "agg", "aggregate-routing"}
	floorQuick := map[string]int{"matcher": 20000, "matcher-aggpath": 10000, "blacklist": 1500, "route": 1500, "dest": 1500, "agg": 1500, "aggregate-routing": 1500}
	for _, pl := range places {
		res.Count("decisions_"+pl+"_accept", k.accept[pl])
		res.Count("decisions_"+pl+"_reject", k.reject[pl])
		need := floorQuick[pl] / 10
		if mon.Thorough() {
			need *= 20
		}
		// both outcomes must have been observed often at every place
		res.Floor("accepts_"+pl, k.accept[pl], need)
		res.Floor("rejects_"+pl, k.reject[pl], need)
	}
	res.Write()
}
