package main

// Two targeted scenarios added after seeded changes C11-1 and C11-2 went unnoticed by the
// table-driven part of the check (which never enables validate_order and never stalls an aggregator):
//
//	orderValidated: validate_order=true and a drop-raw rule whose output name equals the input
//	  name. The raw point (newer timestamp) has been seen by the order validator; the aggregate
//	  (bucket start = older timestamp) must still be routed, because aggregation output bypasses
//	  validation, and the out_of_order counter must not move for it.
//	backPressure: a drop-raw aggregator whose worker is stalled (its flush is blocked because the
//	  route consuming aggregation output is held) and whose inbox is full. A raw line that its
//	  complete filter matches must still be withheld from the routes - the hand-over may block,
//	  it must not leak the line - and must be counted once it is taken in.

import (
	"fmt"
	"strings"
	"sync"
	"sync/atomic"
	"time"

	"github.com/grafana/carbon-relay-ng/aggregator"
	"github.com/grafana/carbon-relay-ng/matcher"

	"verifharness/mon"
)

var extraSeq int64

func waitUntil(steps int, cond func() bool) bool {
	for i := 0; i < steps; i++ {
		if cond() {
			return true
		}
		time.Sleep(time.Millisecond)
	}
	return cond()
}

func orderValidated(res *mon.Result, idx int) {
	r := mon.NewRng(mon.Seed(), 111, uint64(idx))
	tag := atomic.AddInt64(&extraSeq, 1)
	tbl := mon.NewTable("none", "none", true, "/nonexistent")
	interval := uint(r.PickInt([]int{10, 60}))
	fun := r.Pick([]string{"sum", "max", "last", "count"})
	var clock int64 = 1_000_000 + int64(interval)*int64(r.Range(1, 50)) + int64(r.Range(0, int(interval)-1))
	now := func() time.Time { return time.Unix(atomic.LoadInt64(&clock), 0) }
	tick := make(chan time.Time)
	prefix := fmt.Sprintf("c11o%d_%d", idx, tag)
	m, _ := matcher.New("", "", "", "", "^"+prefix+`\.(.*)$`, "")
	// output name == input name (self-matching, drop-raw): the documented use of dropRaw for quantizing
	ag, err := aggregator.NewMocked(fun, m, prefix+".$1", r.Bool(), interval, interval, true, tbl.GetIn(), 100, now, tick)
	if err != nil {
		panic(err)
	}
	tbl.AddAggregator(ag)
	all, _ := matcher.New("", "", "", "", "", "")
	capR := mon.NewCaptureRoute(fmt.Sprintf("cap%d", tag), all, nil)
	tbl.AddRoute(capR)
	d := mon.NewDeltas(mon.KeyOutOfOrder, mon.KeyInvalid, mon.KeyAggIn(ag.Key))
	bucket := (atomic.LoadInt64(&clock) / int64(interval)) * int64(interval)
	names := []string{prefix + ".a", prefix + ".b"}
	nraw := 0
	for _, n := range names {
		for k := 1; k <= r.Range(1, 3); k++ {
			// strictly increasing timestamps inside the bucket, all newer than the bucket start
			ts := bucket + int64(k)
			if ts >= bucket+int64(interval) {
				break
			}
			res.LogCase("orderValidated %d: raw %s ts=%d", idx, n, ts)
			tbl.Dispatch([]byte(fmt.Sprintf("%s %d %d", n, k, ts)))
			nraw++
		}
	}
	if !waitUntil(4000, func() bool { return d.Get(mon.KeyAggIn(ag.Key)) == int64(nraw) }) {
		res.Violate("ordervalidated:raw-not-taken", fmt.Sprintf("validate_order table, drop-raw rule %s -> same name: %d raw points dispatched, aggregation took in %d", prefix, nraw, d.Get(mon.KeyAggIn(ag.Key))), nil)
		return
	}
	// the bucket becomes due
	atomic.StoreInt64(&clock, bucket+int64(interval)+1)
	tick <- now()
	ag.Snapshot()
	ok := waitUntil(4000, func() bool { return capR.Len() >= len(names) })
	var got []string
	for _, l := range capR.Lines() {
		got = append(got, l)
	}
	w := map[string]interface{}{"aggregation": fmt.Sprintf("%s regex=^%s\\.(.*)$ -> %s.$1 interval=%d dropRaw=true", fun, prefix, prefix, interval), "validate_order": true, "raw_points": nraw, "bucket": bucket, "received_by_route": got}
	if !ok || capR.Len() != len(names) {
		res.Violate("aggregate-order-validated", fmt.Sprintf("with validate_order on, the aggregates of %d series (bucket %d, older than the raw points already accepted under the same names) must be routed: the route received %d lines %v; out_of_order moved by %d", len(names), bucket, capR.Len(), got, d.Get(mon.KeyOutOfOrder)), w)
		return
	}
	for _, l := range got {
		f := strings.Fields(l)
		if len(f) != 3 || f[2] != fmt.Sprint(bucket) {
			res.Violate("aggregate-order-validated", "route received something that is not an aggregate of the bucket: "+l, w)
			return
		}
	}
	if d.Get(mon.KeyOutOfOrder) != 0 || d.Get(mon.KeyInvalid) != 0 {
		res.Violate("aggregate-validated", fmt.Sprintf("aggregation output moved the out_of_order counter by %d and the invalid counter by %d", d.Get(mon.KeyOutOfOrder), d.Get(mon.KeyInvalid)), w)
		return
	}
	res.Count("order_validated_scenarios", 1)
	res.NonTrivial(fmt.Sprintf("ordervalidated/%d", idx))
	ag.Shutdown()
}

func backPressure(res *mon.Result, idx int) {
	r := mon.NewRng(mon.Seed(), 112, uint64(idx))
	tag := atomic.AddInt64(&extraSeq, 1)
	tbl := mon.NewTable("none", "none", false, "/nonexistent")
	var clock int64 = 2_000_000
	now := func() time.Time { return time.Unix(atomic.LoadInt64(&clock), 0) }
	tick := make(chan time.Time)
	prefix := fmt.Sprintf("c11b%d_%d", idx, tag)
	m, _ := matcher.New("", "", "", "", "^"+prefix+`\.raw\.(.*)$`, "")
	inBuf := r.Range(0, 2)
	ag, err := aggregator.NewMocked("sum", m, prefix+".agg.$1", r.Bool(), 10, 10, true, tbl.GetIn(), inBuf, now, tick)
	if err != nil {
		panic(err)
	}
	tbl.AddAggregator(ag)
	// a later aggregation that would also match the raw lines: must never see consumed ones
	m2, _ := matcher.New("", "", "", "", "^"+prefix+`\.raw\.`, "")
	tick2 := make(chan time.Time)
	ag2, _ := aggregator.NewMocked("count", m2, prefix+".later", false, 10, 10, false, tbl.GetIn(), 100, now, tick2)
	tbl.AddAggregator(ag2)
	all, _ := matcher.New("", "", "", "", "", "")
	capR := mon.NewCaptureRoute(fmt.Sprintf("cap%d", tag), all, nil)
	hold := make(chan struct{})
	var held int32
	capR.Hook = func(buf []byte) {
		if strings.HasPrefix(string(buf), prefix+".agg.") && atomic.CompareAndSwapInt32(&held, 0, 1) {
			<-hold // the consumer of aggregation output stalls on the first aggregate
		}
	}
	tbl.AddRoute(capR)
	d := mon.NewDeltas(mon.KeyAggIn(ag.Key), mon.KeyAggIn(ag2.Key))
	bucket := (atomic.LoadInt64(&clock) / 10) * 10
	// two series in the bucket so that the flush emits two lines: the second send blocks the worker
	tbl.Dispatch([]byte(fmt.Sprintf("%s.raw.a 1 %d", prefix, bucket+1)))
	tbl.Dispatch([]byte(fmt.Sprintf("%s.raw.b 1 %d", prefix, bucket+2)))
	if !waitUntil(4000, func() bool { return d.Get(mon.KeyAggIn(ag.Key)) == 2 }) {
		res.Inconclusive(fmt.Sprintf("backPressure %d: set-up points not taken in", idx))
		close(hold)
		return
	}
	atomic.StoreInt64(&clock, bucket+11)
	go func() { tick <- now() }()
	if !waitUntil(4000, func() bool { return atomic.LoadInt32(&held) == 1 }) {
		res.Inconclusive(fmt.Sprintf("backPressure %d: the route never saw the first aggregate", idx))
		close(hold)
		return
	}
	// the worker is now blocked sending its second line into the table: its inbox (inBuf slots) fills up
	nextBucket := bucket + 10
	nmore := inBuf + r.Range(2, 4)
	var wg sync.WaitGroup
	var returned int32
	for k := 0; k < nmore; k++ {
		line := fmt.Sprintf("%s.raw.c%d 1 %d", prefix, k, nextBucket+1)
		res.LogCase("backPressure %d: raw under back-pressure %s", idx, line)
		wg.Add(1)
		go func() {
			defer wg.Done()
			tbl.Dispatch([]byte(line))
			atomic.AddInt32(&returned, 1)
		}()
	}
	// give a leak every chance to show: a correct relay blocks these calls (or queues them), it never
	// hands a consumed line to a route. bounded steps, not a verdict by itself.
	leaked := func() []string {
		var l []string
		for _, x := range capR.Lines() {
			if strings.HasPrefix(x, prefix+".raw.") {
				l = append(l, x)
			}
		}
		return l
	}
	waitUntil(300, func() bool { return len(leaked()) > 0 || atomic.LoadInt32(&returned) == int32(nmore) })
	close(hold)
	wg.Wait()
	want := int64(2 + nmore)
	taken := waitUntil(4000, func() bool { return d.Get(mon.KeyAggIn(ag.Key)) == want })
	w := map[string]interface{}{"drop_raw_aggregation": fmt.Sprintf("sum regex=^%s\\.raw\\.(.*)$ inBuf=%d dropRaw=true", prefix, inBuf), "raw_lines_under_back_pressure": nmore, "leaked_to_route": leaked(), "taken_in": d.Get(mon.KeyAggIn(ag.Key)), "later_aggregation_in": d.Get(mon.KeyAggIn(ag2.Key))}
	if l := leaked(); len(l) > 0 {
		res.Violate("dropraw-leak-under-backpressure", fmt.Sprintf("while the drop-raw aggregation's worker was stalled and its inbox (%d slots) full, %d raw lines its filter completely matches were handed to a route: %v", inBuf, len(l), l), w)
		return
	}
	if d.Get(mon.KeyAggIn(ag2.Key)) != 0 {
		res.Violate("dropraw-leak-under-backpressure", fmt.Sprintf("a later aggregation took in %d raw lines that the drop-raw aggregation consumes", d.Get(mon.KeyAggIn(ag2.Key))), w)
		return
	}
	if !taken {
		res.Violate("dropraw-lost-under-backpressure", fmt.Sprintf("drop-raw aggregation took in %d of %d matching raw lines after the stall was released", d.Get(mon.KeyAggIn(ag.Key)), want), w)
		return
	}
	res.Count("back_pressure_scenarios", 1)
	res.NonTrivial(fmt.Sprintf("backpressure/%d", idx))
	go func() { // drain whatever the shutdown flushes
		ag.Shutdown()
		ag2.Shutdown()
	}()
}

func runExtras(res *mon.Result) {
	n := mon.N(12, 400)
	for i := 0; i < n; i++ {
		if !mon.Mine(i) {
			continue
		}
		orderValidated(res, i)
		backPressure(res, i)
		res.Eval(2)
	}
}
