// C11 — aggregation output bypasses the pipeline, cannot loop; drop-raw is exact.
//
// A real table (mon.NewTable) carries 2–4 real aggregators on a harness clock
// (aggregator.NewMocked writing to tbl.GetIn(), registered with
// tbl.AddAggregator): self-matching rules (the output name completely matches
// the rule's own filter), rules chained by name (the output of one matches
// another), drop-raw rules with prefix / sub / notSub / notPrefix / notRegex
// filters, cache on and off — plus blacklist entries and rewriters that match
// the aggregate names, and routes with filters (one of them without any filter,
// so every line the table routes is observed). The routes are real routes of the
// relay without destinations whose Dispatch is recorded (tapRoute): their filter
// is the relay's, and so is what modRoute / Table.UpdateRoute does to it.
//
// Raw lines carry timestamps in every position relative to the rules' mocked
// clock (current, on the edge of a wait window, older than every wait, years
// old, ahead of the clock, far ahead): drop-raw withholds what the complete
// filter matches whatever the timestamp. Between two flushes of the same rules
// the routing table is changed (filter options of a route modified or cleared,
// route added, route deleted) and every raw line and every aggregate is checked
// against the filter model of the table as it is at that moment.
//
// Oracle: the pipeline model of the documentation (blacklist → rewriters →
// aggregators in order, a drop-raw rule that completely matches ends the
// journey → routes by name) composed with the bucket model of C10
// (oracle.AggModel). Raw lines carry unique integer values; aggregate lines
// are told apart by their six-decimal value.
package main

import (
	"encoding/json"
	"fmt"
	"os"
	"path/filepath"
	"regexp"
	"sort"
	"strconv"
	"strings"
	"sync"
	"sync/atomic"
	"time"

	"github.com/grafana/carbon-relay-ng/aggregator"
	"github.com/grafana/carbon-relay-ng/matcher"
	"github.com/grafana/carbon-relay-ng/rewriter"
	"github.com/grafana/carbon-relay-ng/route"
	"github.com/grafana/carbon-relay-ng/table"

	"verifharness/mon"
	"verifharness/oracle"
)

// ---------------------------------------------------------------------------
// specifications (all plain data: they are the witness)

type MSpec struct {
	Prefix    string `json:"prefix,omitempty"`
	NotPrefix string `json:"notPrefix,omitempty"`
	Sub       string `json:"sub,omitempty"`
	NotSub    string `json:"notSub,omitempty"`
	Regex     string `json:"regex,omitempty"`
	NotRegex  string `json:"notRegex,omitempty"`
}

type AggSpec struct {
	Fun      string `json:"fun"`
	M        MSpec  `json:"filter"`
	Fmt      string `json:"fmt"`
	Cache    bool   `json:"cache"`
	Interval uint   `json:"interval"`
	Wait     uint   `json:"wait"`
	DropRaw  bool   `json:"dropRaw"`
	InBuf    int    `json:"inBuf"`
}

type RWSpec struct {
	Old string `json:"old"`
	New string `json:"new"`
	Not string `json:"not,omitempty"`
	Max int    `json:"max"`
}

type Raw struct {
	Name string `json:"name"`
	ID   int    `json:"id"` // the value field: unique per case
	Ts   uint32 `json:"ts"`
}

// RouteOp is one change of the routing table between two flushes, applied the way an operator would
// (Table.UpdateRoute = the admin command modRoute, Table.AddRoute, Table.DelRoute).
type RouteOp struct {
	Op    string            `json:"op"`             // mod | add | del
	Route int               `json:"route"`          // slot in Case.Routes
	Opts  map[string]string `json:"opts,omitempty"` // mod: filter option -> new value ("" clears it)
	Cmd   bool              `json:"viaAdminCommand,omitempty"`
}

func (o RouteOp) String() string {
	switch o.Op {
	case "mod":
		var kv []string
		for _, k := range sortedKeys(o.Opts) {
			kv = append(kv, k+"="+o.Opts[k])
		}
		return fmt.Sprintf("modRoute r%d %s", o.Route, strings.Join(kv, " "))
	case "add":
		return fmt.Sprintf("addRoute r%d", o.Route)
	}
	return fmt.Sprintf("delRoute r%d", o.Route)
}

func sortedKeys(m map[string]string) []string {
	var ks []string
	for k := range m {
		ks = append(ks, k)
	}
	sort.Strings(ks)
	return ks
}

type Case struct {
	Index      int       `json:"index"`
	Legacy     string    `json:"validation_level_legacy"`
	Aggs       []AggSpec `json:"aggregators"`
	Blacklist  []MSpec   `json:"blacklist"`
	Rewriters  []RWSpec  `json:"rewriters"`
	Routes     []MSpec   `json:"routes"`                     // one slot per route that ever exists in the case: its first filter
	RouteTypes []string  `json:"routeTypes,omitempty"`       // per slot: sendAllMatch | sendFirstMatch | consistentHashing
	AddedLater []int     `json:"routesAddedLater,omitempty"` // slots that are not in the table at the start
	Start      int64     `json:"startClock"`
	Rounds     [][]Raw   `json:"rounds"` // raw lines dispatched before each round of ticks
	Concurrent bool      `json:"concurrentTicks"`
	// table changes per round: before the raw lines of the round, and between the raw lines and the ticks
	OpsBeforeRaw   [][]RouteOp `json:"routeOpsBeforeRaw,omitempty"`
	OpsBeforeTicks [][]RouteOp `json:"routeOpsBeforeTicks,omitempty"`

	jm map[string]journey // memo of journey()
}

// routeState is the model of the routing table as it is at one moment of the case.
type routeState struct {
	present []bool
	spec    []MSpec
}

func (c *Case) initRoutes() *routeState {
	s := &routeState{present: make([]bool, len(c.Routes)), spec: append([]MSpec(nil), c.Routes...)}
	for i := range s.present {
		s.present[i] = true
	}
	for _, i := range c.AddedLater {
		s.present[i] = false
	}
	return s
}

func (m *MSpec) set(opt, val string) {
	switch opt {
	case "prefix":
		m.Prefix = val
	case "notPrefix":
		m.NotPrefix = val
	case "sub":
		m.Sub = val
	case "notSub":
		m.NotSub = val
	case "regex":
		m.Regex = val
	case "notRegex":
		m.NotRegex = val
	default:
		panic("harness: route option " + opt)
	}
}

func (m MSpec) get(opt string) string {
	switch opt {
	case "prefix":
		return m.Prefix
	case "notPrefix":
		return m.NotPrefix
	case "sub":
		return m.Sub
	case "notSub":
		return m.NotSub
	case "regex":
		return m.Regex
	case "notRegex":
		return m.NotRegex
	}
	panic("harness: route option " + opt)
}

// apply: the documentation of modRoute ("modify route by updating one or more option strings"): the named
// options take the new values, the others stay; addRoute / delRoute add and remove the route.
func (s *routeState) apply(op RouteOp) {
	switch op.Op {
	case "mod":
		for k, v := range op.Opts {
			s.spec[op.Route].set(k, v)
		}
	case "add":
		s.present[op.Route] = true
	case "del":
		s.present[op.Route] = false
	}
}

func (s *routeState) match(i int, name string) bool { return s.present[i] && s.spec[i].match(name) }

func (s *routeState) describe(i int) string {
	if !s.present[i] {
		return "not in the table"
	}
	return fmt.Sprintf("%+v", s.spec[i])
}

// ---------------------------------------------------------------------------
// filter model: "incoming data must match all of the options that are set", on the name

var reCache = map[string]*regexp.Regexp{}
var reMu sync.Mutex

func re(s string) *regexp.Regexp {
	reMu.Lock()
	defer reMu.Unlock()
	if x, ok := reCache[s]; ok {
		return x
	}
	x := regexp.MustCompile(s)
	reCache[s] = x
	return x
}

type matchKey struct {
	m    MSpec
	name string
}

var matchMemo = map[matchKey]bool{}

// match is memoised: the model asks the same (filter, name) question many times.
func (m MSpec) match(name string) bool {
	k := matchKey{m, name}
	reMu.Lock()
	v, ok := matchMemo[k]
	reMu.Unlock()
	if ok {
		return v
	}
	v = m.match1(name)
	reMu.Lock()
	if len(matchMemo) > 300000 {
		matchMemo = map[matchKey]bool{}
	}
	matchMemo[k] = v
	reMu.Unlock()
	return v
}

func (m MSpec) match1(name string) bool {
	if m.Prefix != "" && !strings.HasPrefix(name, m.Prefix) {
		return false
	}
	if m.NotPrefix != "" && strings.HasPrefix(name, m.NotPrefix) {
		return false
	}
	if m.Sub != "" && !strings.Contains(name, m.Sub) {
		return false
	}
	if m.NotSub != "" && strings.Contains(name, m.NotSub) {
		return false
	}
	if m.Regex != "" && !re(m.Regex).MatchString(name) {
		return false
	}
	if m.NotRegex != "" && re(m.NotRegex).MatchString(name) {
		return false
	}
	return true
}

// preOnly: the cheap filters (prefix, notPrefix, sub, notSub) accept the name.
func (m MSpec) preOnly(name string) bool {
	x := m
	x.Regex, x.NotRegex = "", ""
	return x.match(name)
}

func (m MSpec) real() matcher.Matcher {
	x, err := matcher.New(m.Prefix, m.NotPrefix, m.Sub, m.NotSub, m.Regex, m.NotRegex)
	if err != nil {
		panic(err)
	}
	return x
}

type outKey struct{ regex, fmt, name string }

var outMemo = map[outKey]string{}

func (a AggSpec) outName(name string) string {
	k := outKey{a.M.Regex, a.Fmt, name}
	reMu.Lock()
	v, ok := outMemo[k]
	reMu.Unlock()
	if ok {
		return v
	}
	v = a.outName1(name)
	reMu.Lock()
	if len(outMemo) > 300000 {
		outMemo = map[outKey]string{}
	}
	outMemo[k] = v
	reMu.Unlock()
	return v
}

func (a AggSpec) outName1(name string) string {
	r := re(a.M.Regex)
	idx := r.FindStringSubmatchIndex(name)
	return string(r.ExpandString(nil, a.Fmt, name, idx))
}

func (w RWSpec) do(name string) string {
	if w.Not != "" && strings.Contains(name, w.Not) {
		return name
	}
	if len(w.Old) > 1 && w.Old[0] == '/' && w.Old[len(w.Old)-1] == '/' {
		return re(w.Old[1:len(w.Old)-1]).ReplaceAllString(name, w.New)
	}
	return strings.Replace(name, w.Old, w.New, w.Max)
}

func (c *Case) rewrite(name string) string {
	for _, w := range c.Rewriters {
		name = w.do(name)
	}
	return name
}

func (c *Case) blacklisted(name string) bool {
	for _, b := range c.Blacklist {
		if b.match(name) {
			return true
		}
	}
	return false
}

// journey of a raw name through the documented pipeline
type journey struct {
	Blacklisted bool
	Name        string // after the rewriters
	Consumed    []int  // aggregators that consume it, in order
	DroppedBy   int    // index of the drop-raw rule that ended the journey, -1
	NearMiss    bool   // some drop-raw rule's cheap filters accepted it, but the complete filter did not
}

func (c *Case) journey(name string) journey {
	if j, ok := c.jm[name]; ok {
		return j
	}
	if c.jm == nil {
		c.jm = map[string]journey{}
	}
	j := c.journey1(name)
	c.jm[name] = j
	return j
}

func (c *Case) journey1(name string) journey {
	j := journey{DroppedBy: -1}
	if c.blacklisted(name) {
		j.Blacklisted = true
		return j
	}
	j.Name = c.rewrite(name)
	for i, a := range c.Aggs {
		if a.M.match(j.Name) {
			j.Consumed = append(j.Consumed, i)
			if a.DropRaw {
				j.DroppedBy = i
				return j
			}
		} else if a.DropRaw && a.M.preOnly(j.Name) {
			j.NearMiss = true
		}
	}
	return j // which routes take it depends on the routing table of the moment (routeState)
}

// ---------------------------------------------------------------------------
// generator

type tmpl struct {
	Regex string
	Fmts  []string
}

var templates = []tmpl{
	{`^svc\.(dc[0-9])\.[a-z0-9]+\.([a-z]+)$`, []string{`agg.$1.$2`, `stage1.$1.$2`, `svc.$1.all.$2`, `agg.svc.all`, `agg.$1.$2:sum`}},
	{`^svc\.(.*)$`, []string{`svc.$1`, `agg.${1}.r`, `svc.total.$1`}},
	{`^stage1\.(dc[0-9])\.([a-z]+)$`, []string{`stage2.$2`, `stage1.$1.$2`, `agg.st.$1`, `stage1.dc9.$2`}},
	{`^self\.([a-z0-9]+)\.(.*)$`, []string{`self.total.$2`, `self.$1.$2`, `agg.self.$2`, `self.total.$2:x`}},
	{`(cpu|mem)$`, []string{`agg.bytype.$1`, `misc.all.$1`, `all.cpu`}},
	{`^misc\.([a-z0-9]+)\.`, []string{`misc.$1.rollup`, `agg.misc`, `misc.agg.total`}},
	{`^(agg|stage1)\.`, []string{`agg.second.$1`, `stage1.dc1.cpu`}},
}

var (
	aggPrefixes    = []string{"svc.", "svc.dc1", "s", "stage1.", "self.", "misc.", "a"}
	aggSubs        = []string{"web", "cpu", "dc2", ".", "e", "1."}
	aggNotSubs     = []string{"db", "req", "web2", "total"}
	aggNotPrefixes = []string{"svc.dc2", "self.b", "misc.w", "agg."}
	aggNotRegexes  = []string{`mem$`, `\.db[0-9]\.`, `^s.*q$`, `[0-9]$`, `^agg\.`}
)

var routePool = []MSpec{
	{Prefix: "agg."}, {Prefix: "svc."}, {Prefix: "s"}, {Sub: "cpu"}, {Sub: "total"}, {Sub: "."},
	{Regex: `cpu$`}, {Regex: `[a-z]$`}, {Regex: `^[a-zA-Z0-9_.:-]+$`}, {Regex: `^(agg|stage[12])\.`},
	{Sub: "000"}, {Sub: " "}, {Sub: ".0"}, {NotSub: "000000"}, {NotSub: " "}, {NotRegex: `[0-9]$`}, {NotRegex: ` `},
	{NotPrefix: "self."}, {NotPrefix: "agg."}, {Prefix: "self.", Regex: `l\.[a-z]+(:x)?$`}, {Sub: "dc1", NotRegex: `mem$`},
	{Regex: `\.p(25|50|75|90|95|99)$`}, {NotRegex: `\.[0-9]+ [0-9]+$`},
}

var blacklistPool = []MSpec{
	{Prefix: "agg."}, {Sub: "stage"}, {Regex: `^self\.total`}, {Regex: `\.all\.`}, {Sub: "rollup"},
	{Prefix: "misc.bad"}, {Sub: ":"}, {Regex: `^agg\.bytype`}, {Regex: `\.p[0-9]+$`}, {Prefix: "svc.total"}, {Sub: "second"},
}

var rewriterPool = []RWSpec{
	{"agg.", "REWR.", "", -1}, {"stage1", "stageX", "", -1}, {"total", "TOT", "", -1}, {`/\.all\./`, ".ALL.", "", -1},
	{"rollup", "ROLLUP", "", -1}, {"cpu", "CPU", "", 1}, {"dc1", "dcone", "self", -1}, {":", "_", "", -1},
	{`/^(svc|self)\./`, "re.$1.", "", -1}, {"second", "2nd", "", -1}, {"bytype", "BT", "", -1},
}

func universe() []string {
	var u []string
	for _, dc := range []string{"dc1", "dc2"} {
		for _, h := range []string{"web1", "web2", "db1"} {
			for _, m := range []string{"cpu", "mem", "req"} {
				u = append(u, "svc."+dc+"."+h+"."+m)
			}
		}
	}
	u = append(u, "svc.dc1.web1.cpu_9", "svc.dc1.web1", "svc.dc3x.web1.cpu", "svcx.dc1.web1.cpu", "svc.dc1.web1.mem7",
		"self.a.cpu", "self.b.mem", "self.a.req", "self.total.cpu", "self.b.cpu",
		"stage1.dc1.cpu", "stage1.dc2.mem", "stage1.dc1.req", "stage1.dc2.cpu.x",
		"agg.dc1.cpu", "agg.raw.x", "agg.svc.all",
		"misc.web1.cpu", "misc.db1.mem", "misc.web2.rollup", "misc.bad.cpu", "other.thing.mem")
	return u
}

var uni = universe()

func genAgg(r *mon.Rng, fun string) AggSpec {
	t := templates[r.Intn(len(templates))]
	a := AggSpec{Fun: fun, Fmt: r.Pick(t.Fmts), Cache: r.Bool(), DropRaw: r.Chance(2, 5), InBuf: r.PickInt([]int{64, 2000, 2000})}
	a.Interval = uint(r.PickInt([]int{1, 5, 10}))
	a.Wait = a.Interval + uint(r.PickInt([]int{0, 3, 20}))
	for try := 0; try < 6; try++ {
		m := MSpec{Regex: t.Regex}
		if r.Chance(1, 3) {
			m.Prefix = r.Pick(aggPrefixes)
		}
		if r.Chance(1, 3) {
			m.Sub = r.Pick(aggSubs)
		}
		if r.Chance(1, 4) {
			m.NotSub = r.Pick(aggNotSubs)
		}
		if r.Chance(1, 5) {
			m.NotPrefix = r.Pick(aggNotPrefixes)
		}
		if r.Chance(1, 3) {
			m.NotRegex = r.Pick(aggNotRegexes)
		}
		n := 0
		for _, name := range uni {
			if m.match(name) {
				n++
			}
		}
		a.M = m
		if n >= 2 {
			return a
		}
	}
	a.M = MSpec{Regex: t.Regex}
	return a
}

func aggKeyOf(a AggSpec) string {
	return a.Fun + "\x00" + a.M.Regex + "\x00" + a.M.NotRegex + "\x00" + a.M.Prefix + "\x00" + a.M.NotPrefix + "\x00" + a.M.Sub + "\x00" + a.M.NotSub + "\x00" + a.Fmt
}

// what a generated case offers (computed from the model only)
type offer struct {
	loop, blOrRw, invalidIfValidated, dropped, nearMiss, filteredDeliveries, rejections int
}

func (c *Case) offers() offer {
	var o offer
	outs := map[string]bool{}
	for _, rd := range c.Rounds {
		for _, raw := range rd {
			j := c.journey(raw.Name)
			if j.Blacklisted {
				continue
			}
			if j.DroppedBy >= 0 {
				o.dropped++
			}
			if j.NearMiss {
				o.nearMiss++
			}
			for _, i := range j.Consumed {
				outs[c.Aggs[i].outName(j.Name)] = true
			}
		}
	}
	for name := range outs {
		for _, a := range c.Aggs {
			if a.M.match(name) {
				o.loop++
				break
			}
		}
		if c.blacklisted(name) || c.rewrite(name) != name {
			o.blOrRw++
		}
		if c.Legacy == "strict" && strings.ContainsAny(name, ":") {
			o.invalidIfValidated++
		}
		rs := c.initRoutes()
		for i := range c.Routes {
			if i == 0 || !rs.present[i] {
				continue
			}
			if rs.match(i, name) {
				o.filteredDeliveries++
			} else {
				o.rejections++
			}
		}
	}
	return o
}

func (o offer) nontrivial() bool {
	return o.loop > 0 && o.blOrRw > 0 && o.dropped > 0 && o.nearMiss > 0 && o.filteredDeliveries > 0 && o.rejections > 0
}

func gen(seed uint64, idx int) Case {
	var c Case
	for attempt := 0; attempt < 30; attempt++ {
		c = gen1(seed, idx, attempt)
		if c.offers().nontrivial() {
			break
		}
	}
	return c
}

func gen1(seed uint64, idx int, attempt int) Case {
	var c Case
	{
		r := mon.NewRng(seed, 11, uint64(idx)*64+uint64(attempt))
		c = Case{Index: idx, Legacy: r.Pick([]string{"strict", "medium", "strict"}), Concurrent: r.Bool()}
		nAgg := r.Range(2, 4)
		keys := map[string]bool{}
		for len(c.Aggs) < nAgg {
			fun := oracle.AggFunctions[(idx+len(c.Aggs)*3+attempt)%len(oracle.AggFunctions)]
			a := genAgg(r, fun)
			if keys[aggKeyOf(a)] {
				continue
			}
			keys[aggKeyOf(a)] = true
			c.Aggs = append(c.Aggs, a)
		}
		hasDrop := false
		for _, a := range c.Aggs {
			hasDrop = hasDrop || a.DropRaw
		}
		if !hasDrop {
			c.Aggs[r.Intn(len(c.Aggs))].DropRaw = true
		}
		// names the rules can emit (before considering blacklist and rewriters): the blacklist
		// entries, rewriters and route filters are drawn with a bias towards hitting them
		var outs []string
		for _, a := range c.Aggs {
			for _, name := range uni {
				if a.M.match(name) {
					outs = append(outs, a.outName(name))
				}
			}
		}
		hitsBl := func(b MSpec) bool {
			for _, o := range outs {
				if b.match(o) {
					return true
				}
			}
			return false
		}
		hitsRw := func(w RWSpec) bool {
			for _, o := range outs {
				if w.do(o) != o {
					return true
				}
			}
			return false
		}
		for n := r.Range(0, 2); n > 0; n-- {
			b := blacklistPool[r.Intn(len(blacklistPool))]
			for try := 0; try < 6 && !hitsBl(b) && r.Chance(4, 5); try++ {
				b = blacklistPool[r.Intn(len(blacklistPool))]
			}
			c.Blacklist = append(c.Blacklist, b)
		}
		nrw := r.Range(0, 2)
		if len(c.Blacklist) == 0 && nrw == 0 {
			nrw = 1
		}
		for n := nrw; n > 0; n-- {
			w := rewriterPool[r.Intn(len(rewriterPool))]
			for try := 0; try < 6 && !hitsRw(w) && r.Chance(4, 5); try++ {
				w = rewriterPool[r.Intn(len(rewriterPool))]
			}
			c.Rewriters = append(c.Rewriters, w)
		}
		c.Routes = []MSpec{{}} // route 0 has no filter and is never changed: sees everything the table routes
		for n := r.Range(1, 4); n > 0; n-- {
			c.Routes = append(c.Routes, routePool[r.Intn(len(routePool))])
		}
		for n := r.PickInt([]int{0, 1, 1, 2}); n > 0; n-- { // routes that an operator adds while the relay runs
			c.Routes = append(c.Routes, routePool[r.Intn(len(routePool))])
			c.AddedLater = append(c.AddedLater, len(c.Routes)-1)
		}
		for range c.Routes {
			c.RouteTypes = append(c.RouteTypes, r.Pick([]string{"sendAllMatch", "sendAllMatch", "sendFirstMatch", "consistentHashing"}))
		}
		c.Start = 1600000000 + int64(r.Intn(100000))
		// every raw point must land in an open bucket of every rule: bucket > now − wait
		slack := int64(1 << 30)
		maxW, maxIv := int64(0), int64(0)
		for _, a := range c.Aggs {
			if s := int64(a.Wait) - int64(a.Interval); s < slack {
				slack = s
			}
			if w := int64(a.Wait + a.Interval); w > maxW {
				maxW = w
			}
			if int64(a.Interval) > maxIv {
				maxIv = int64(a.Interval)
			}
		}
		now := c.Start
		id := 1000
		nRounds := r.PickInt([]int{1, 2, 2, 3, 3})
		for rd := 0; rd < nRounds; rd++ {
			var lines []Raw
			for n := r.Range(25, 60); n > 0; n-- {
				id++
				// timestamp relative to the rules' clock: most lines are current (a bucket that is open for
				// every rule), the others are backfilled / late data or run ahead of the clock
				var ts int64
				switch r.Intn(14) {
				case 0: // on and behind the edge of one rule's wait window (may still be current for a rule with a longer wait)
					a := c.Aggs[r.Intn(len(c.Aggs))]
					ts = now - int64(a.Wait) + int64(r.Range(-int(a.Interval), int(a.Interval)))
				case 1: // older than every rule's wait
					ts = now - maxW - int64(r.Intn(60))
				case 2: // much older
					ts = now - int64(r.PickInt([]int{600, 3600, 86400, 1000000, 500000000})) - int64(r.Intn(100))
				case 3: // ahead of the clock, becomes due with this or the next round of ticks
					ts = now + int64(r.Range(1, int(2*maxIv+maxW)))
				case 4: // far in the future: never due within the case
					ts = now + int64(r.PickInt([]int{3600, 1000000, 100000000}))
				default:
					ts = now - int64(r.Intn(int(slack)+1)) + int64(r.Intn(4))
				}
				lines = append(lines, Raw{Name: uni[r.Intn(len(uni))], ID: id, Ts: uint32(ts)})
			}
			c.Rounds = append(c.Rounds, lines)
			now += maxW + 20
		}
		c.Rounds = append(c.Rounds, nil) // a last round of ticks without new input: only what ran ahead of the clock may still come out
		genOps(r, &c, outs)
	}
	return c
}

var routeOptions = []string{"prefix", "notPrefix", "sub", "notSub", "regex", "notRegex"}

// values an operator could give a route option: those of the route pool
func optionValues(opt string) []string {
	var vs []string
	for _, m := range routePool {
		if v := m.get(opt); v != "" {
			vs = append(vs, v)
		}
	}
	return vs
}

var safeForCommand = regexp.MustCompile(`^[a-z.][a-z0-9.]*$`)

// genOps draws the changes of the routing table between the flushes: modRoute on one or two filter options,
// a route added, a route deleted. Candidates that change which of the rules' possible output names
// (outs) the route takes are preferred, so that an aggregate name emitted before the change and again
// after it has to follow the table of the moment.
func genOps(r *mon.Rng, c *Case, outs []string) {
	st := c.initRoutes()
	everPresent := append([]bool(nil), st.present...)
	accepts := func(s *routeState, slot int) string {
		var b strings.Builder
		for _, o := range outs {
			if s.match(slot, o) {
				b.WriteByte('1')
			} else {
				b.WriteByte('0')
			}
		}
		return b.String()
	}
	pickSlot := func(want bool) int {
		var cand []int
		for i := 1; i < len(c.Routes); i++ {
			if st.present[i] == want && (want || !everPresent[i]) {
				cand = append(cand, i)
			}
		}
		if len(cand) == 0 {
			return -1
		}
		return cand[r.Intn(len(cand))]
	}
	genOp := func() (RouteOp, bool) {
		var op RouteOp
		for try := 0; try < 10; try++ {
			switch x := r.Intn(10); {
			case x < 6:
				slot := pickSlot(true)
				if slot < 0 {
					continue
				}
				op = RouteOp{Op: "mod", Route: slot, Opts: map[string]string{}}
				for n := r.PickInt([]int{1, 1, 2}); n > 0; n-- {
					opt := r.Pick(routeOptions)
					if st.spec[slot].get(opt) != "" && r.Chance(1, 3) {
						op.Opts[opt] = "" // the operator removes this condition
					} else {
						op.Opts[opt] = r.Pick(optionValues(opt))
					}
				}
				op.Cmd = r.Chance(1, 2)
				for _, v := range op.Opts {
					if !safeForCommand.MatchString(v) || strings.Contains(v, "true") || strings.Contains(v, "false") {
						op.Cmd = false // the command scanner has its own ideas about such words; C11 is not about it
					}
				}
			case x < 8:
				slot := pickSlot(false)
				if slot < 0 {
					continue
				}
				op = RouteOp{Op: "add", Route: slot}
			default:
				slot := pickSlot(true)
				if slot < 0 {
					continue
				}
				op = RouteOp{Op: "del", Route: slot}
			}
			after := &routeState{present: append([]bool(nil), st.present...), spec: append([]MSpec(nil), st.spec...)}
			after.apply(op)
			if accepts(st, op.Route) != accepts(after, op.Route) || (try >= 7 && r.Bool()) {
				return op, true
			}
		}
		return op, false
	}
	c.OpsBeforeRaw = make([][]RouteOp, len(c.Rounds))
	c.OpsBeforeTicks = make([][]RouteOp, len(c.Rounds))
	for rd := range c.Rounds {
		for phase := 0; phase < 2; phase++ {
			n := r.PickInt([]int{0, 1, 1, 2})
			if phase == 1 {
				n = r.PickInt([]int{0, 0, 1})
			}
			if rd == 0 && phase == 0 {
				n = 0 // nothing has happened yet: the table of the start is the table
			}
			for ; n > 0; n-- {
				op, ok := genOp()
				if !ok {
					continue
				}
				st.apply(op)
				if op.Op == "add" {
					everPresent[op.Route] = true
				}
				if phase == 0 {
					c.OpsBeforeRaw[rd] = append(c.OpsBeforeRaw[rd], op)
				} else {
					c.OpsBeforeTicks[rd] = append(c.OpsBeforeTicks[rd], op)
				}
			}
		}
	}
}

// ---------------------------------------------------------------------------
// execution

type stats struct {
	raw, rawBlacklisted, rawDropped, rawNearMiss, rawConsumed, rawRouteDeliveries   int
	aggExpected, aggDeliveries, aggRejections, ticks, tables                        int
	loop, blOrRw, invalidIfValidated                                                int
	rawClosed, rawClosedDropped, rawAhead, rawAheadDropped, tooOldModel, tooOldSeen int
	routeOps, routeMods, routeModsCmd, routeAdds, routeDels, aggAgainAfterFlip      int
}

// tapRoute is a real route of the relay (its own filter, its own Update: what modRoute changes) without
// destinations, whose Dispatch records what the table hands to it.
type tapRoute struct {
	route.Route
	cap *mon.CaptureRoute
}

func (t *tapRoute) Dispatch(buf []byte) { t.cap.Dispatch(buf) }

func newTap(key, typ string, m MSpec) *tapRoute {
	var r route.Route
	var err error
	switch typ {
	case "sendFirstMatch":
		r, err = route.NewSendFirstMatch(key, m.real(), nil)
	case "consistentHashing":
		r, err = route.NewConsistentHashing(key, m.real(), nil)
	default:
		r, err = route.NewSendAllMatch(key, m.real(), nil)
	}
	if err != nil {
		panic(err)
	}
	return &tapRoute{Route: r, cap: mon.NewCaptureRoute(key, m.real(), nil)}
}

type expAgg struct {
	oracle.ExpLine
	From int
}

func stepBound() int { return 4000 }

// A table.Table can never be released (table.New starts goroutines that live as
// long as the process and a 100000-slot channel), so one real table per
// validation level is reused: every case removes what it added through the
// table's own Del* methods, as an operator would on the admin port.
var tables = map[string]*table.Table{}

func getTable(legacy, scratch string) *table.Table {
	t, ok := tables[legacy]
	if !ok {
		t = mon.NewTable(legacy, "", false, scratch)
		tables[legacy] = t
	}
	snap := t.Snapshot()
	if len(snap.Aggregators)+len(snap.Routes)+len(snap.Blacklist)+len(snap.Rewriters) != 0 {
		panic("harness: reused table is not empty")
	}
	return t
}

func runCase(res *mon.Result, c Case, st *stats, scratch string) {
	viol := func(sig, f string, a ...interface{}) { res.Violate(sig, fmt.Sprintf(f, a...), c) }

	var clock int64 = c.Start
	now := func() time.Time { return time.Unix(atomic.LoadInt64(&clock), 0) }
	tbl := getTable(c.Legacy, scratch)
	for _, w := range c.Rewriters {
		rw, err := rewriter.New(w.Old, w.New, w.Not, w.Max)
		if err != nil {
			panic(err)
		}
		tbl.AddRewriter(rw)
	}
	for _, b := range c.Blacklist {
		m := b.real()
		tbl.AddBlacklist(&m)
	}
	aggs := make([]*aggregator.Aggregator, len(c.Aggs))
	ticks := make([]chan time.Time, len(c.Aggs))
	models := make([]*oracle.AggModel, len(c.Aggs))
	var keys []string
	for i, a := range c.Aggs {
		ticks[i] = make(chan time.Time)
		ag, err := aggregator.NewMocked(a.Fun, a.M.real(), a.Fmt, a.Cache, a.Interval, a.Wait, a.DropRaw, tbl.GetIn(), a.InBuf, now, ticks[i])
		if err != nil {
			panic(err)
		}
		aggs[i] = ag
		tbl.AddAggregator(ag)
		models[i] = oracle.NewAggModel(a.Fun, a.Interval, a.Wait)
		keys = append(keys, mon.KeyAggIn(ag.Key), mon.KeyAggOut(ag.Key))
	}
	rs := c.initRoutes()
	taps := make([]*tapRoute, len(c.Routes))
	routes := make([]*mon.CaptureRoute, len(c.Routes))
	for i, r := range c.Routes {
		typ := ""
		if i < len(c.RouteTypes) {
			typ = c.RouteTypes[i]
		}
		taps[i] = newTap(fmt.Sprintf("c11-%d-r%d", c.Index, i), typ, r)
		routes[i] = taps[i].cap
		if rs.present[i] {
			tbl.AddRoute(taps[i])
		}
	}
	var recentOps []string // table changes since the last flush (for messages)
	applyOps := func(rd int, when string, ops []RouteOp) {
		for _, op := range ops {
			res.LogCase("table %d round %d %s: %s", c.Index, rd, when, op)
			key := taps[op.Route].Key()
			switch op.Op {
			case "mod":
				var err error
				if op.Cmd {
					cmd := "modRoute " + key
					for _, k := range sortedKeys(op.Opts) {
						cmd += " " + k + "=" + op.Opts[k]
					}
					err = mon.Apply(tbl, cmd)
					st.routeModsCmd++
				} else {
					err = tbl.UpdateRoute(key, op.Opts)
				}
				if err != nil {
					panic(fmt.Sprintf("harness: case %d: %s refused: %v", c.Index, op, err))
				}
				st.routeMods++
			case "add":
				tbl.AddRoute(taps[op.Route])
				st.routeAdds++
			case "del":
				if err := tbl.DelRoute(key); err != nil {
					panic(fmt.Sprintf("harness: case %d: %s refused: %v", c.Index, op, err))
				}
				st.routeDels++
			}
			rs.apply(op)
			st.routeOps++
			recentOps = append(recentOps, fmt.Sprintf("%s (round %d, %s)", op, rd, when))
		}
	}
	changed := func() string {
		if len(recentOps) == 0 {
			return ""
		}
		return fmt.Sprintf("; routing table changes since the previous flush: %v", recentOps)
	}
	lastAccept := map[string]string{} // aggregate name -> which routes took it when it was last emitted
	keys = append(keys, mon.KeyInvalid, mon.KeyBlacklist, mon.KeyOutOfOrder, mon.KeyAggTooOld)
	d := mon.NewDeltas(keys...)
	expIn := make([]int64, len(aggs))  // model: raw points consumed per rule so far
	expOut := make([]int64, len(aggs)) // model: aggregate lines emitted per rule so far
	expBlack := int64(0)
	st.tables++

	tableBarrier := func() {
		// Table.In is unbuffered and served by one goroutine: when the second sentinel
		// has been taken, the first (and everything before it) has been routed completely.
		tbl.In <- []byte("c11sentinel 0 0")
		tbl.In <- []byte("c11sentinel 0 0")
	}
	aggBarrier := func(n int) {
		for k := 0; k < n; k++ {
			for _, ag := range aggs {
				ag.Snapshot()
			}
		}
	}
	take := func() [][]string {
		out := make([][]string, len(routes))
		for i, r := range routes {
			for _, g := range r.Take() {
				s := string(g.Copy)
				if strings.HasPrefix(s, "c11sentinel ") {
					continue
				}
				out[i] = append(out[i], s)
			}
		}
		return out
	}

	// a first tick at the start of the case: from here on every bucket is either open (bucket start > now − wait)
	// or closed by a tick (tick − wait ≥ bucket start) when a raw line arrives; nothing is pending, nothing may come out
	for i := range aggs {
		ticks[i] <- time.Unix(c.Start, 0)
		aggs[i].Snapshot()
		if e := models[i].Expected(c.Start); len(e) != 0 {
			panic("harness: model emits at the first tick")
		}
	}
	opsOf := func(l [][]RouteOp, rd int) []RouteOp {
		if rd < len(l) {
			return l[rd]
		}
		return nil
	}

	for rd, lines := range c.Rounds {
		applyOps(rd, "before the raw lines", opsOf(c.OpsBeforeRaw, rd))
		// ---------------- raw phase
		nowS := atomic.LoadInt64(&clock)
		expRaw := make([]map[string]bool, len(routes))
		for i := range expRaw {
			expRaw[i] = map[string]bool{}
		}
		why := map[string]string{} // rewritten raw line → why it must not show up anywhere
		rawByID := map[string]Raw{}
		for _, raw := range lines {
			line := fmt.Sprintf("%s %d %d", raw.Name, raw.ID, raw.Ts)
			j := c.journey(raw.Name)
			rawByID[strconv.Itoa(raw.ID)] = raw
			st.raw++
			if j.Blacklisted {
				expBlack++
				st.rawBlacklisted++
				why[line] = "it is blacklisted"
			} else {
				outLine := fmt.Sprintf("%s %d %d", j.Name, raw.ID, raw.Ts)
				age := "" // where the timestamp stands for the drop-raw rule that consumes the line
				for _, i := range j.Consumed {
					expIn[i]++
					st.rawConsumed++
					// a consumed line counts as taken in whatever its timestamp; what it contributes to is the bucket model's business
					switch cl := models[i].Classify(raw.Ts, nowS); cl {
					case oracle.Open:
						models[i].Point(c.Aggs[i].outName(j.Name), float64(raw.ID), raw.Ts, nowS, false)
						if int64(raw.Ts) > nowS {
							st.rawAhead++
						}
					case oracle.Closed: // too old for this rule: contributes to nothing
						st.rawClosed++
						st.tooOldModel++
					default:
						panic(fmt.Sprintf("harness generator: case %d raw %v is %v for rule %d although a tick was delivered at the current clock", c.Index, raw, cl, i))
					}
					if i == j.DroppedBy {
						a := c.Aggs[i]
						switch {
						case models[i].Classify(raw.Ts, nowS) == oracle.Closed:
							st.rawClosedDropped++
							age = fmt.Sprintf("; its timestamp %d is older than the rule's wait window (clock %d, interval %d, wait %d: bucket %d ≤ %d), which makes the point too old to be aggregated but does not exempt the line from drop-raw", raw.Ts, nowS, a.Interval, a.Wait, oracle.Bucket(raw.Ts, a.Interval), nowS-int64(a.Wait))
						case int64(raw.Ts) > nowS:
							st.rawAheadDropped++
							age = fmt.Sprintf("; its timestamp %d is ahead of the clock %d", raw.Ts, nowS)
						}
					}
				}
				if j.NearMiss {
					st.rawNearMiss++
				}
				if j.DroppedBy >= 0 {
					st.rawDropped++
					why[outLine] = fmt.Sprintf("drop-raw rule %d (%+v) completely matches it%s", j.DroppedBy, c.Aggs[j.DroppedBy].M, age)
				} else {
					for i := range routes {
						if rs.match(i, j.Name) {
							expRaw[i][outLine] = true
							st.rawRouteDeliveries++
						}
					}
				}
			}
			tbl.Dispatch([]byte(line))
		}
		// quiescence by steps: the rules' own in-counters reach what the model says
		for s := 0; s < stepBound(); s++ {
			done := true
			for i, ag := range aggs {
				if d.Get(mon.KeyAggIn(ag.Key)) < expIn[i] {
					done = false
				}
			}
			if done {
				break
			}
			aggBarrier(1)
		}
		aggBarrier(3)
		tableBarrier()
		for i, ag := range aggs {
			if got := d.Get(mon.KeyAggIn(ag.Key)); got != expIn[i] {
				viol("raw-consumption", "round %d: rule %d (%+v dropRaw=%v) has consumed %d raw points so far, the model says %d (complete filter matches not withheld by an earlier drop-raw rule)", rd, i, c.Aggs[i].M, c.Aggs[i].DropRaw, got, expIn[i])
				expIn[i] = got // report once
			}
		}
		if got := d.Get(mon.KeyBlacklist); got != expBlack {
			viol("blacklist-count", "round %d: direction=blacklist moved by %d, the model says %d raw lines are blacklisted", rd, got, expBlack)
			expBlack = got
		}
		got := take()
		for i := range routes {
			seen := map[string]bool{}
			for _, s := range got[i] {
				f := strings.Split(s, " ")
				if len(f) == 3 {
					if _, isRaw := rawByID[f[1]]; !isRaw {
						viol("aggregate-without-tick", "round %d: route %d received %q while only raw lines were being dispatched", rd, i, s)
						continue
					}
				}
				if seen[s] {
					viol("raw-duplicated", "round %d: route %d (%s) received raw line %q twice", rd, i, rs.describe(i), s)
				}
				seen[s] = true
				if !expRaw[i][s] {
					if w, ok := why[s]; ok && strings.HasPrefix(w, "drop-raw") {
						viol("dropraw-leak", "round %d: route %d received raw line %q although %s", rd, i, s, w)
					} else {
						viol("raw-unexpected", "round %d: route %d (%s) received %q which the pipeline model does not send there%s", rd, i, rs.describe(i), s, changed())
					}
				}
			}
			for s := range expRaw[i] {
				if !seen[s] {
					viol("raw-withheld", "round %d: raw line %q is not completely matched by any drop-raw rule and route %d (%s) accepts its name, but it did not arrive%s", rd, s, i, rs.describe(i), changed())
				}
			}
		}

		// ---------------- tick phase: everything that is not ahead of the clock becomes due
		applyOps(rd, "between the raw lines and the ticks", opsOf(c.OpsBeforeTicks, rd))
		maxW := int64(0)
		for _, a := range c.Aggs {
			if w := int64(a.Wait + a.Interval); w > maxW {
				maxW = w
			}
		}
		atomic.AddInt64(&clock, maxW+20)
		tickS := atomic.LoadInt64(&clock)
		in0 := make([]int64, len(aggs))
		for i, ag := range aggs {
			in0[i] = d.Get(mon.KeyAggIn(ag.Key))
		}
		inv0, bl0, ooo0 := d.Get(mon.KeyInvalid), d.Get(mon.KeyBlacklist), d.Get(mon.KeyOutOfOrder)
		var all []expAgg
		for i := range aggs {
			for _, e := range models[i].Expected(tickS) {
				all = append(all, expAgg{e, i})
				expOut[i]++
			}
		}
		order := mon.NewRng(mon.Seed(), 12, uint64(c.Index*8+rd)).Perm(len(aggs))
		if c.Concurrent {
			var wg sync.WaitGroup
			for _, i := range order {
				wg.Add(1)
				go func(i int) {
					defer wg.Done()
					ticks[i] <- time.Unix(tickS, 0)
					aggs[i].Snapshot()
				}(i)
			}
			wg.Wait()
		} else {
			for _, i := range order {
				ticks[i] <- time.Unix(tickS, 0)
				aggs[i].Snapshot()
			}
		}
		st.ticks += len(aggs)
		// quiescence by steps on the capture route without filter
		for s := 0; s < stepBound() && routes[0].Len() < len(all); s++ {
			tableBarrier()
		}
		tableBarrier()
		aggBarrier(3) // a point fed back into a rule would be consumed (and counted) by now
		tableBarrier()

		for i, ag := range aggs {
			if dlt := d.Get(mon.KeyAggIn(ag.Key)) - in0[i]; dlt != 0 {
				viol("feedback", "round %d: while only ticks were delivered, direction=in.aggregator=%s of rule %d (%+v) moved by %d: aggregation output went into an aggregation", rd, ag.Key, i, c.Aggs[i].M, dlt)
			}
			if got := d.Get(mon.KeyAggOut(ag.Key)); got != expOut[i] {
				viol("amplification", "round %d: rule %d has emitted %d aggregate lines so far (direction=out counter), the model says %d", rd, i, got, expOut[i])
				expOut[i] = got
			}
		}
		if x := d.Get(mon.KeyInvalid) - inv0; x != 0 {
			viol("aggregate-validated", "round %d: unit=Err.type=invalid moved by %d while only aggregation output was travelling", rd, x)
		}
		if x := d.Get(mon.KeyOutOfOrder) - ooo0; x != 0 {
			viol("aggregate-validated", "round %d: unit=Err.type=out_of_order moved by %d while only aggregation output was travelling", rd, x)
		}
		if x := d.Get(mon.KeyBlacklist) - bl0; x != 0 {
			viol("aggregate-blacklisted", "round %d: direction=blacklist moved by %d while only aggregation output was travelling", rd, x)
		}

		got = take()
		st.aggExpected += len(all)
		for _, e := range all {
			var acc strings.Builder
			for ri := range routes {
				if rs.match(ri, e.Name) {
					acc.WriteByte('1')
				} else {
					acc.WriteByte('0')
				}
			}
			if prev, ok := lastAccept[e.Name]; ok && prev != acc.String() {
				st.aggAgainAfterFlip++ // emitted before, and the set of routes that must take it has changed since
			}
			lastAccept[e.Name] = acc.String()
		}
		for _, e := range all {
			loop := false
			for _, a := range c.Aggs {
				if a.M.match(e.Name) {
					loop = true
				}
			}
			if loop {
				st.loop++
			}
			if c.blacklisted(e.Name) || c.rewrite(e.Name) != e.Name {
				st.blOrRw++
			}
			if c.Legacy == "strict" && strings.Contains(e.Name, ":") {
				st.invalidIfValidated++
			}
		}
		for ri := range routes {
			used := make([]bool, len(all))
			var exp []int
			for k, e := range all {
				if rs.match(ri, e.Name) {
					exp = append(exp, k)
				} else if rs.present[ri] {
					st.aggRejections++
				}
			}
			var surplus []oracle.AggLine
			for _, s := range got[ri] {
				f := strings.Split(s, " ")
				if len(f) == 3 {
					if raw, isRaw := rawByID[f[1]]; isRaw {
						viol("raw-late", "round %d: raw line %q (%v) reached route %d during the tick phase", rd, s, raw, ri)
						continue
					}
				}
				l, err := oracle.ParseAggLine(s)
				if err != nil {
					viol("aggregate-format", "round %d: route %d received %q: %v", rd, ri, s, err)
					continue
				}
				hit := -1
				for _, k := range exp {
					if !used[k] && all[k].Name == l.Name && all[k].Ts == l.Ts && closeAny(l.Val, all[k].Vals) {
						hit = k
						break
					}
				}
				if hit >= 0 {
					used[hit] = true
					st.aggDeliveries++
					continue
				}
				surplus = append(surplus, l)
			}
			// second pass: same name and bucket, other value
			var rest []oracle.AggLine
			for _, l := range surplus {
				hit := -1
				for _, k := range exp {
					if !used[k] && all[k].Name == l.Name && all[k].Ts == l.Ts {
						hit = k
						break
					}
				}
				if hit >= 0 {
					used[hit] = true
					e := all[hit]
					viol("aggregate-value", "round %d: route %d received %q: the model expects %s %v %d (rule %d, %s over the raw points it consumes)", rd, ri, l.Raw, e.Name, e.Vals, e.Ts, e.From, c.Aggs[e.From].Fun)
					continue
				}
				rest = append(rest, l)
			}
			for _, l := range rest {
				sig, msg := "aggregate-unexpected", fmt.Sprintf("the model has no such aggregate (expected in total: %d lines)", len(all))
				for k, e := range all {
					same := e.Ts == l.Ts && closeAny(l.Val, e.Vals)
					switch {
					case same && e.Name == l.Name && !rs.match(ri, e.Name):
						sig, msg = "aggregate-misrouted", fmt.Sprintf("the route (now: %s) does not accept the name %q%s", rs.describe(ri), e.Name, changed())
					case same && e.Name == l.Name && used[k] && sig == "aggregate-unexpected":
						sig, msg = "aggregate-duplicated", "it was already delivered to this route once"
					case same && e.Name != l.Name && c.rewrite(e.Name) == l.Name:
						sig, msg = "aggregate-rewritten", fmt.Sprintf("rule %d emitted %q; the rewriters %+v turn that into %q", e.From, e.Name, c.Rewriters, l.Name)
					}
				}
				viol(sig, "round %d: route %d received %q: %s", rd, ri, l.Raw, msg)
			}
			for _, k := range exp {
				if !used[k] {
					e := all[k]
					emitted := false
					for _, s := range got[0] {
						if l, err := oracle.ParseAggLine(s); err == nil && l.Name == e.Name && l.Ts == e.Ts {
							emitted = true
						}
					}
					if ri != 0 && emitted {
						viol("aggregate-not-routed", "round %d: aggregate %s %v %d of rule %d reached the route without filter but not route %d whose filter (now: %s) accepts the name%s", rd, e.Name, e.Vals, e.Ts, e.From, ri, rs.describe(ri), changed())
					} else {
						bl := ""
						if c.blacklisted(e.Name) {
							bl = " (the name matches a blacklist entry)"
						}
						viol("aggregate-missing", "round %d: aggregate %s %v %d of rule %d (%s over the consumed raw points) did not reach route %d%s", rd, e.Name, e.Vals, e.Ts, e.From, c.Aggs[e.From].Fun, ri, bl)
					}
				}
			}
		}
		recentOps = nil
	}
	st.tooOldSeen += int(d.Get(mon.KeyAggTooOld))
	// DelAggregator shuts the rule down (one more flush with now − wait: nothing that is due is pending)
	for range aggs {
		if err := tbl.DelAggregator(0); err != nil {
			panic(err)
		}
	}
	tableBarrier()
	for ri, lines := range take() {
		for _, s := range lines {
			viol("aggregate-unexpected", "after the last round, at shutdown: route %d received %q", ri, s)
		}
	}
	for i, t := range taps {
		if rs.present[i] {
			if err := tbl.DelRoute(t.Key()); err != nil {
				panic(err)
			}
		}
	}
	for range c.Blacklist {
		tbl.DelBlacklist(0)
	}
	for range c.Rewriters {
		tbl.DelRewriter(0)
	}
}

func closeAny(v float64, refs []float64) bool {
	for _, r := range refs {
		if oracle.ValueClose(v, r) {
			return true
		}
	}
	return false
}

func main() {
	res := mon.NewResult("C11")
	res.Rule = "tables generated from (seed,index): 2-4 aggregators (7 regex/format templates incl. self-matching, identity and chained outputs; random prefix/sub/notSub/notPrefix/notRegex; drop-raw 40%; cache on/off; all ten functions in rotation), 0-2 blacklist entries and 0-2 rewriters chosen to hit aggregate names, 2-5 routes plus 0-2 added later (real routes of the three kinds without destinations whose Dispatch is recorded; one without filter that is never changed; others incl. filters that only differ between name and whole line), strict or medium validation with ':' in some aggregate names; 1-3 rounds of 25-60 raw lines from a 45-name universe, their timestamps relative to the rules' mocked clock: ~64% in a bucket open for every rule, the rest on/behind the edge of one rule's wait window, older than every wait, much older (10 min .. 16 years), ahead of the clock (due with this or the next ticks) and far ahead (never due); each round followed by ticks that make every bucket that is not ahead of the clock due, plus a final round of ticks only; between the flushes the routing table is changed (0-2 ops before a round's raw lines, 0-1 between raw lines and ticks: modRoute/UpdateRoute of 1-2 of prefix/notPrefix/sub/notSub/regex/notRegex incl. clearing one, route added, route deleted; candidates that change which possible aggregate names the route takes are preferred; half of the mods whose values are plain words go through the admin command modRoute) and raw and aggregate routing is checked against the filter model on the table as it is at that moment; regenerated (<=30 attempts) until non-trivial = some aggregate name completely matches a rule's filter AND some aggregate name is blacklisted or changed by a rewriter AND >=1 raw line is consumed by a drop-raw rule AND >=1 raw line passes a drop-raw rule's cheap filters but not its complete filter AND a filtered route accepts one aggregate and rejects another; distinct = table index"
	res.Assume("filter semantics = the documented conjunction on the metric name, evaluated with the standard library (regexp, strings); that the relay's matcher agrees is property C03")
	res.Assume("rewriters = plain replace (max occurrences) or /regex/ replace-all, skipped when 'not' is a substring of the name (C04 checks the rewriter itself)")
	res.Assume("Table.In is unbuffered and served by one goroutine, so two harness sentinels through it are a barrier; Snapshot() is a barrier for an aggregator")
	res.Assume("a tick is delivered to every rule at the start and the clock only moves right before ticks: when a raw line arrives, its bucket is either open for a rule (bucket > now - wait: it contributes) or was closed by a tick (it contributes to nothing); late-but-unflushed points are C10's subject. Either way a consumed line counts in direction=in and, for a drop-raw rule, is withheld")
	res.Assume("modRoute semantics = the named filter options take the new values, the other options stay (docs/tcp-admin-interface.md); a route taken out of the table receives nothing any more")
	mon.InitRepo()
	scratch := filepath.Join(mon.Scratch(), "c11")
	os.MkdirAll(scratch, 0755)

	n := mon.N(120, 6000)
	// replay: the witness of a violation is the complete case; run exactly that
	var replayC *Case
	if p := os.Getenv("VERIF_REPLAY"); p != "" {
		var rp struct {
			Replay *Case `json:"replay"`
		}
		b, err := os.ReadFile(p)
		if err != nil || json.Unmarshal(b, &rp) != nil || rp.Replay == nil || len(rp.Replay.Aggs) == 0 {
			panic("C11: cannot read a case from replay file " + p)
		}
		replayC = rp.Replay
		n = 1
	}
	var st stats
	ran := 0
	for idx := 0; idx < n; idx++ {
		if replayC == nil && !mon.Mine(idx) {
			continue
		}
		var c Case
		if replayC != nil {
			c = *replayC
		} else {
			c = gen(mon.Seed(), idx)
		}
		nops := 0
		for rd := range c.Rounds {
			if rd < len(c.OpsBeforeRaw) {
				nops += len(c.OpsBeforeRaw[rd])
			}
			if rd < len(c.OpsBeforeTicks) {
				nops += len(c.OpsBeforeTicks[rd])
			}
		}
		res.LogCase("table %d: %d aggregators %d blacklist %d rewriters %d routes %d rounds %d route table changes", idx, len(c.Aggs), len(c.Blacklist), len(c.Rewriters), len(c.Routes), len(c.Rounds), nops)
		done := make(chan struct{})
		go func() {
			runCase(res, c, &st, scratch)
			close(done)
		}()
		select {
		case <-done:
		case <-time.After(3 * time.Minute): // >1000x the normal duration of a case (tens of ms)
			res.Inconclusive(fmt.Sprintf("table %d did not reach quiescence: a barrier never returned (aggregator or table goroutine stuck); run abandoned", idx))
			res.Write()
			os.Exit(0)
		}
		res.Eval(1)
		if c.offers().nontrivial() {
			res.NonTrivial(strconv.Itoa(idx))
		}
		if ran < 2 {
			cc := c
			cc.Rounds = nil
			res.Sample(map[string]interface{}{"table": cc, "rounds": len(c.Rounds), "first_raw": c.Rounds[0][:5]})
		}
		ran++
	}
	if replayC == nil {
		runExtras(res)
	}
	res.Count("tables", st.tables)
	res.Count("raw_lines", st.raw)
	res.Count("raw_blacklisted", st.rawBlacklisted)
	res.Count("raw_consumptions_by_a_rule", st.rawConsumed)
	res.Count("raw_dropped_by_dropraw", st.rawDropped)
	res.Count("raw_passing_cheap_filters_of_a_dropraw_rule_only", st.rawNearMiss)
	res.Count("raw_route_deliveries", st.rawRouteDeliveries)
	res.Count("raw_consumptions_for_a_closed_bucket_(too_old)", st.rawClosed)
	res.Count("raw_too_old_yet_dropped_by_dropraw", st.rawClosedDropped)
	res.Count("raw_consumptions_ahead_of_the_clock", st.rawAhead)
	res.Count("raw_ahead_of_the_clock_dropped_by_dropraw", st.rawAheadDropped)
	res.Count("too_old_counter_model", st.tooOldModel)
	res.Count("too_old_counter_observed", st.tooOldSeen)
	res.Count("route_table_changes", st.routeOps)
	res.Count("route_filter_changes_(modRoute)", st.routeMods)
	res.Count("route_filter_changes_through_the_admin_command", st.routeModsCmd)
	res.Count("routes_added_between_flushes", st.routeAdds)
	res.Count("routes_deleted_between_flushes", st.routeDels)
	res.Count("aggregate_names_emitted_again_after_their_routing_changed", st.aggAgainAfterFlip)
	res.Count("ticks", st.ticks)
	res.Count("aggregate_lines", st.aggExpected)
	res.Count("aggregate_route_deliveries", st.aggDeliveries)
	res.Count("aggregate_route_rejections", st.aggRejections)
	res.Count("aggregates_matching_a_rule_filter", st.loop)
	res.Count("aggregates_blacklist_or_rewriter_would_hit", st.blOrRw)
	res.Count("aggregates_invalid_if_validated", st.invalidIfValidated)
	if replayC == nil {
		res.Floor("tables", ran, n)
		res.Floor("aggregate_lines", st.aggExpected, n*5)
		res.Floor("aggregates_matching_a_rule_filter", st.loop, n)
		res.Floor("raw_dropped_by_dropraw", st.rawDropped, n)
		res.Floor("raw_too_old_yet_dropped_by_dropraw", st.rawClosedDropped, n)
		res.Floor("raw_ahead_of_the_clock_dropped_by_dropraw", st.rawAheadDropped, n/2)
		res.Floor("route_filter_changes_(modRoute)", st.routeMods, n/2)
		res.Floor("routes_added_between_flushes", st.routeAdds, n/8)
		res.Floor("routes_deleted_between_flushes", st.routeDels, n/8)
		res.Floor("aggregate_names_emitted_again_after_their_routing_changed", st.aggAgainAfterFlip, n/2)
	}
	res.Write()
}
