// C11 — aggregation output bypasses the pipeline, cannot loop; drop-raw is exact.
//
// A real table (mon.NewTable) carries 2–4 real aggregators on a harness clock
// (aggregator.NewMocked writing to tbl.GetIn(), registered with
// tbl.AddAggregator): self-matching rules (the output name completely matches
// the rule's own filter), rules chained by name (the output of one matches
// another), drop-raw rules with prefix / sub / notSub / notPrefix / notRegex
// filters, cache on and off — plus blacklist entries and rewriters that match
// the aggregate names, and capture routes with filters (one of them without any
// filter, so every line the table routes is observed).
//
// Oracle: the pipeline model of the documentation (blacklist → rewriters →
// aggregators in order, a drop-raw rule that completely matches ends the
// journey → routes by name) composed with the bucket model of C10
// (oracle.AggModel). Raw lines carry unique integer values; aggregate lines
// are told apart by their six-decimal value.
package main

import (
	"encoding/json"
	"fmt"
	"os"
	"path/filepath"
	"regexp"
	"strconv"
	"strings"
	"sync"
	"sync/atomic"
	"time"

	"github.com/grafana/carbon-relay-ng/aggregator"
	"github.com/grafana/carbon-relay-ng/matcher"
	"github.com/grafana/carbon-relay-ng/rewriter"
	"github.com/grafana/carbon-relay-ng/table"

	"verifharness/mon"
	"verifharness/oracle"
)

// ---------------------------------------------------------------------------
// specifications (all plain data: they are the witness)

type MSpec struct {
	Prefix    string `json:"prefix,omitempty"`
	NotPrefix string `json:"notPrefix,omitempty"`
	Sub       string `json:"sub,omitempty"`
	NotSub    string `json:"notSub,omitempty"`
	Regex     string `json:"regex,omitempty"`
	NotRegex  string `json:"notRegex,omitempty"`
}

type AggSpec struct {
	Fun      string `json:"fun"`
	M        MSpec  `json:"filter"`
	Fmt      string `json:"fmt"`
	Cache    bool   `json:"cache"`
	Interval uint   `json:"interval"`
	Wait     uint   `json:"wait"`
	DropRaw  bool   `json:"dropRaw"`
	InBuf    int    `json:"inBuf"`
}

type RWSpec struct {
	Old string `json:"old"`
	New string `json:"new"`
	Not string `json:"not,omitempty"`
	Max int    `json:"max"`
}

type Raw struct {
	Name string `json:"name"`
	ID   int    `json:"id"` // the value field: unique per case
	Ts   uint32 `json:"ts"`
}

type Case struct {
	Index      int       `json:"index"`
	Legacy     string    `json:"validation_level_legacy"`
	Aggs       []AggSpec `json:"aggregators"`
	Blacklist  []MSpec   `json:"blacklist"`
	Rewriters  []RWSpec  `json:"rewriters"`
	Routes     []MSpec   `json:"routes"`
	Start      int64     `json:"startClock"`
	Rounds     [][]Raw   `json:"rounds"` // raw lines dispatched before each round of ticks
	Concurrent bool      `json:"concurrentTicks"`

	jm map[string]journey // memo of journey()
}

// ---------------------------------------------------------------------------
// filter model: "incoming data must match all of the options that are set", on the name

var reCache = map[string]*regexp.Regexp{}
var reMu sync.Mutex

func re(s string) *regexp.Regexp {
	reMu.Lock()
	defer reMu.Unlock()
	if x, ok := reCache[s]; ok {
		return x
	}
	x := regexp.MustCompile(s)
	reCache[s] = x
	return x
}

type matchKey struct {
	m    MSpec
	name string
}

var matchMemo = map[matchKey]bool{}

// match is memoised: the model asks the same (filter, name) question many times.
func (m MSpec) match(name string) bool {
	k := matchKey{m, name}
	reMu.Lock()
	v, ok := matchMemo[k]
	reMu.Unlock()
	if ok {
		return v
	}
	v = m.match1(name)
	reMu.Lock()
	if len(matchMemo) > 300000 {
		matchMemo = map[matchKey]bool{}
	}
	matchMemo[k] = v
	reMu.Unlock()
	return v
}

func (m MSpec) match1(name string) bool {
	if m.Prefix != "" && !strings.HasPrefix(name, m.Prefix) {
		return false
	}
	if m.NotPrefix != "" && strings.HasPrefix(name, m.NotPrefix) {
		return false
	}
	if m.Sub != "" && !strings.Contains(name, m.Sub) {
		return false
	}
	if m.NotSub != "" && strings.Contains(name, m.NotSub) {
		return false
	}
	if m.Regex != "" && !re(m.Regex).MatchString(name) {
		return false
	}
	if m.NotRegex != "" && re(m.NotRegex).MatchString(name) {
		return false
	}
	return true
}

// preOnly: the cheap filters (prefix, notPrefix, sub, notSub) accept the name.
func (m MSpec) preOnly(name string) bool {
	x := m
	x.Regex, x.NotRegex = "", ""
	return x.match(name)
}

func (m MSpec) real() matcher.Matcher {
	x, err := matcher.New(m.Prefix, m.NotPrefix, m.Sub, m.NotSub, m.Regex, m.NotRegex)
	if err != nil {
		panic(err)
	}
	return x
}

type outKey struct{ regex, fmt, name string }

var outMemo = map[outKey]string{}

func (a AggSpec) outName(name string) string {
	k := outKey{a.M.Regex, a.Fmt, name}
	reMu.Lock()
	v, ok := outMemo[k]
	reMu.Unlock()
	if ok {
		return v
	}
	v = a.outName1(name)
	reMu.Lock()
	if len(outMemo) > 300000 {
		outMemo = map[outKey]string{}
	}
	outMemo[k] = v
	reMu.Unlock()
	return v
}

func (a AggSpec) outName1(name string) string {
	r := re(a.M.Regex)
	idx := r.FindStringSubmatchIndex(name)
	return string(r.ExpandString(nil, a.Fmt, name, idx))
}

func (w RWSpec) do(name string) string {
	if w.Not != "" && strings.Contains(name, w.Not) {
		return name
	}
	if len(w.Old) > 1 && w.Old[0] == '/' && w.Old[len(w.Old)-1] == '/' {
		return re(w.Old[1:len(w.Old)-1]).ReplaceAllString(name, w.New)
	}
	return strings.Replace(name, w.Old, w.New, w.Max)
}

func (c *Case) rewrite(name string) string {
	for _, w := range c.Rewriters {
		name = w.do(name)
	}
	return name
}

func (c *Case) blacklisted(name string) bool {
	for _, b := range c.Blacklist {
		if b.match(name) {
			return true
		}
	}
	return false
}

// journey of a raw name through the documented pipeline
type journey struct {
	Blacklisted bool
	Name        string // after the rewriters
	Consumed    []int  // aggregators that consume it, in order
	DroppedBy   int    // index of the drop-raw rule that ended the journey, -1
	NearMiss    bool   // some drop-raw rule's cheap filters accepted it, but the complete filter did not
	Routes      []int
}

func (c *Case) journey(name string) journey {
	if j, ok := c.jm[name]; ok {
		return j
	}
	if c.jm == nil {
		c.jm = map[string]journey{}
	}
	j := c.journey1(name)
	c.jm[name] = j
	return j
}

func (c *Case) journey1(name string) journey {
	j := journey{DroppedBy: -1}
	if c.blacklisted(name) {
		j.Blacklisted = true
		return j
	}
	j.Name = c.rewrite(name)
	for i, a := range c.Aggs {
		if a.M.match(j.Name) {
			j.Consumed = append(j.Consumed, i)
			if a.DropRaw {
				j.DroppedBy = i
				return j
			}
		} else if a.DropRaw && a.M.preOnly(j.Name) {
			j.NearMiss = true
		}
	}
	for i, r := range c.Routes {
		if r.match(j.Name) {
			j.Routes = append(j.Routes, i)
		}
	}
	return j
}

// ---------------------------------------------------------------------------
// generator

type tmpl struct {
	Regex string
	Fmts  []string
}

var templates = []tmpl{
	{`^svc\.(dc[0-9])\.[a-z0-9]+\.([a-z]+)$`, []string{`agg.$1.$2`, `stage1.$1.$2`, `svc.$1.all.$2`, `agg.svc.all`, `agg.$1.$2:sum`}},
	{`^svc\.(.*)$`, []string{`svc.$1`, `agg.${1}.r`, `svc.total.$1`}},
	{`^stage1\.(dc[0-9])\.([a-z]+)$`, []string{`stage2.$2`, `stage1.$1.$2`, `agg.st.$1`, `stage1.dc9.$2`}},
	{`^self\.([a-z0-9]+)\.(.*)$`, []string{`self.total.$2`, `self.$1.$2`, `agg.self.$2`, `self.total.$2:x`}},
	{`(cpu|mem)$`, []string{`agg.bytype.$1`, `misc.all.$1`, `all.cpu`}},
	{`^misc\.([a-z0-9]+)\.`, []string{`misc.$1.rollup`, `agg.misc`, `misc.agg.total`}},
	{`^(agg|stage1)\.`, []string{`agg.second.$1`, `stage1.dc1.cpu`}},
}

var (
	aggPrefixes    = []string{"svc.", "svc.dc1", "s", "stage1.", "self.", "misc.", "a"}
	aggSubs        = []string{"web", "cpu", "dc2", ".", "e", "1."}
	aggNotSubs     = []string{"db", "req", "web2", "total"}
	aggNotPrefixes = []string{"svc.dc2", "self.b", "misc.w", "agg."}
	aggNotRegexes  = []string{`mem$`, `\.db[0-9]\.`, `^s.*q$`, `[0-9]$`, `^agg\.`}
)

var routePool = []MSpec{
	{Prefix: "agg."}, {Prefix: "svc."}, {Prefix: "s"}, {Sub: "cpu"}, {Sub: "total"}, {Sub: "."},
	{Regex: `cpu$`}, {Regex: `[a-z]$`}, {Regex: `^[a-zA-Z0-9_.:-]+$`}, {Regex: `^(agg|stage[12])\.`},
	{Sub: "000"}, {Sub: " "}, {Sub: ".0"}, {NotSub: "000000"}, {NotSub: " "}, {NotRegex: `[0-9]$`}, {NotRegex: ` `},
	{NotPrefix: "self."}, {NotPrefix: "agg."}, {Prefix: "self.", Regex: `l\.[a-z]+(:x)?$`}, {Sub: "dc1", NotRegex: `mem$`},
	{Regex: `\.p(25|50|75|90|95|99)$`}, {NotRegex: `\.[0-9]+ [0-9]+$`},
}

var blacklistPool = []MSpec{
	{Prefix: "agg."}, {Sub: "stage"}, {Regex: `^self\.total`}, {Regex: `\.all\.`}, {Sub: "rollup"},
	{Prefix: "misc.bad"}, {Sub: ":"}, {Regex: `^agg\.bytype`}, {Regex: `\.p[0-9]+$`}, {Prefix: "svc.total"}, {Sub: "second"},
}

var rewriterPool = []RWSpec{
	{"agg.", "REWR.", "", -1}, {"stage1", "stageX", "", -1}, {"total", "TOT", "", -1}, {`/\.all\./`, ".ALL.", "", -1},
	{"rollup", "ROLLUP", "", -1}, {"cpu", "CPU", "", 1}, {"dc1", "dcone", "self", -1}, {":", "_", "", -1},
	{`/^(svc|self)\./`, "re.$1.", "", -1}, {"second", "2nd", "", -1}, {"bytype", "BT", "", -1},
}

func universe() []string {
	var u []string
	for _, dc := range []string{"dc1", "dc2"} {
		for _, h := range []string{"web1", "web2", "db1"} {
			for _, m := range []string{"cpu", "mem", "req"} {
				u = append(u, "svc."+dc+"."+h+"."+m)
			}
		}
	}
	u = append(u, "svc.dc1.web1.cpu_9", "svc.dc1.web1", "svc.dc3x.web1.cpu", "svcx.dc1.web1.cpu", "svc.dc1.web1.mem7",
		"self.a.cpu", "self.b.mem", "self.a.req", "self.total.cpu", "self.b.cpu",
		"stage1.dc1.cpu", "stage1.dc2.mem", "stage1.dc1.req", "stage1.dc2.cpu.x",
		"agg.dc1.cpu", "agg.raw.x", "agg.svc.all",
		"misc.web1.cpu", "misc.db1.mem", "misc.web2.rollup", "misc.bad.cpu", "other.thing.mem")
	return u
}

var uni = universe()

func genAgg(r *mon.Rng, fun string) AggSpec {
	t := templates[r.Intn(len(templates))]
	a := AggSpec{Fun: fun, Fmt: r.Pick(t.Fmts), Cache: r.Bool(), DropRaw: r.Chance(2, 5), InBuf: r.PickInt([]int{64, 2000, 2000})}
	a.Interval = uint(r.PickInt([]int{1, 5, 10}))
	a.Wait = a.Interval + uint(r.PickInt([]int{0, 3, 20}))
	for try := 0; try < 6; try++ {
		m := MSpec{Regex: t.Regex}
		if r.Chance(1, 3) {
			m.Prefix = r.Pick(aggPrefixes)
		}
		if r.Chance(1, 3) {
			m.Sub = r.Pick(aggSubs)
		}
		if r.Chance(1, 4) {
			m.NotSub = r.Pick(aggNotSubs)
		}
		if r.Chance(1, 5) {
			m.NotPrefix = r.Pick(aggNotPrefixes)
		}
		if r.Chance(1, 3) {
			m.NotRegex = r.Pick(aggNotRegexes)
		}
		n := 0
		for _, name := range uni {
			if m.match(name) {
				n++
			}
		}
		a.M = m
		if n >= 2 {
			return a
		}
	}
	a.M = MSpec{Regex: t.Regex}
	return a
}

func aggKeyOf(a AggSpec) string {
	return a.Fun + "\x00" + a.M.Regex + "\x00" + a.M.NotRegex + "\x00" + a.M.Prefix + "\x00" + a.M.NotPrefix + "\x00" + a.M.Sub + "\x00" + a.M.NotSub + "\x00" + a.Fmt
}

// what a generated case offers (computed from the model only)
type offer struct {
	loop, blOrRw, invalidIfValidated, dropped, nearMiss, filteredDeliveries, rejections int
}

func (c *Case) offers() offer {
	var o offer
	outs := map[string]bool{}
	for _, rd := range c.Rounds {
		for _, raw := range rd {
			j := c.journey(raw.Name)
			if j.Blacklisted {
				continue
			}
			if j.DroppedBy >= 0 {
				o.dropped++
			}
			if j.NearMiss {
				o.nearMiss++
			}
			for _, i := range j.Consumed {
				outs[c.Aggs[i].outName(j.Name)] = true
			}
		}
	}
	for name := range outs {
		for _, a := range c.Aggs {
			if a.M.match(name) {
				o.loop++
				break
			}
		}
		if c.blacklisted(name) || c.rewrite(name) != name {
			o.blOrRw++
		}
		if c.Legacy == "strict" && strings.ContainsAny(name, ":") {
			o.invalidIfValidated++
		}
		for i, r := range c.Routes {
			if i == 0 {
				continue
			}
			if r.match(name) {
				o.filteredDeliveries++
			} else {
				o.rejections++
			}
		}
	}
	return o
}

func (o offer) nontrivial() bool {
	return o.loop > 0 && o.blOrRw > 0 && o.dropped > 0 && o.nearMiss > 0 && o.filteredDeliveries > 0 && o.rejections > 0
}

func gen(seed uint64, idx int) Case {
	var c Case
	for attempt := 0; attempt < 30; attempt++ {
		c = gen1(seed, idx, attempt)
		if c.offers().nontrivial() {
			break
		}
	}
	return c
}

func gen1(seed uint64, idx int, attempt int) Case {
	var c Case
	{
		r := mon.NewRng(seed, 11, uint64(idx)*64+uint64(attempt))
		c = Case{Index: idx, Legacy: r.Pick([]string{"strict", "medium", "strict"}), Concurrent: r.Bool()}
		nAgg := r.Range(2, 4)
		keys := map[string]bool{}
		for len(c.Aggs) < nAgg {
			fun := oracle.AggFunctions[(idx+len(c.Aggs)*3+attempt)%len(oracle.AggFunctions)]
			a := genAgg(r, fun)
			if keys[aggKeyOf(a)] {
				continue
			}
			keys[aggKeyOf(a)] = true
			c.Aggs = append(c.Aggs, a)
		}
		hasDrop := false
		for _, a := range c.Aggs {
			hasDrop = hasDrop || a.DropRaw
		}
		if !hasDrop {
			c.Aggs[r.Intn(len(c.Aggs))].DropRaw = true
		}
		// names the rules can emit (before considering blacklist and rewriters): the blacklist
		// entries, rewriters and route filters are drawn with a bias towards hitting them
		var outs []string
		for _, a := range c.Aggs {
			for _, name := range uni {
				if a.M.match(name) {
					outs = append(outs, a.outName(name))
				}
			}
		}
		hitsBl := func(b MSpec) bool {
			for _, o := range outs {
				if b.match(o) {
					return true
				}
			}
			return false
		}
		hitsRw := func(w RWSpec) bool {
			for _, o := range outs {
				if w.do(o) != o {
					return true
				}
			}
			return false
		}
		for n := r.Range(0, 2); n > 0; n-- {
			b := blacklistPool[r.Intn(len(blacklistPool))]
			for try := 0; try < 6 && !hitsBl(b) && r.Chance(4, 5); try++ {
				b = blacklistPool[r.Intn(len(blacklistPool))]
			}
			c.Blacklist = append(c.Blacklist, b)
		}
		nrw := r.Range(0, 2)
		if len(c.Blacklist) == 0 && nrw == 0 {
			nrw = 1
		}
		for n := nrw; n > 0; n-- {
			w := rewriterPool[r.Intn(len(rewriterPool))]
			for try := 0; try < 6 && !hitsRw(w) && r.Chance(4, 5); try++ {
				w = rewriterPool[r.Intn(len(rewriterPool))]
			}
			c.Rewriters = append(c.Rewriters, w)
		}
		c.Routes = []MSpec{{}} // route 0 has no filter: sees everything the table routes
		for n := r.Range(1, 4); n > 0; n-- {
			c.Routes = append(c.Routes, routePool[r.Intn(len(routePool))])
		}
		c.Start = 1600000000 + int64(r.Intn(100000))
		// every raw point must land in an open bucket of every rule: bucket > now − wait
		slack := int64(1 << 30)
		maxW := int64(0)
		for _, a := range c.Aggs {
			if s := int64(a.Wait) - int64(a.Interval); s < slack {
				slack = s
			}
			if w := int64(a.Wait + a.Interval); w > maxW {
				maxW = w
			}
		}
		now := c.Start
		id := 1000
		nRounds := r.Range(1, 3)
		for rd := 0; rd < nRounds; rd++ {
			var lines []Raw
			for n := r.Range(25, 60); n > 0; n-- {
				id++
				ts := now - int64(r.Intn(int(slack)+1)) + int64(r.Intn(4))
				lines = append(lines, Raw{Name: uni[r.Intn(len(uni))], ID: id, Ts: uint32(ts)})
			}
			c.Rounds = append(c.Rounds, lines)
			now += maxW + 20
		}
		c.Rounds = append(c.Rounds, nil) // a last round of ticks without new input: nothing more may come out
	}
	return c
}

// ---------------------------------------------------------------------------
// execution

type stats struct {
	raw, rawBlacklisted, rawDropped, rawNearMiss, rawConsumed, rawRouteDeliveries int
	aggExpected, aggDeliveries, aggRejections, ticks, tables                      int
	loop, blOrRw, invalidIfValidated                                              int
}

type expAgg struct {
	oracle.ExpLine
	From int
}

func stepBound() int { return 4000 }

// A table.Table can never be released (table.New starts goroutines that live as
// long as the process and a 100000-slot channel), so one real table per
// validation level is reused: every case removes what it added through the
// table's own Del* methods, as an operator would on the admin port.
var tables = map[string]*table.Table{}

func getTable(legacy, scratch string) *table.Table {
	t, ok := tables[legacy]
	if !ok {
		t = mon.NewTable(legacy, "", false, scratch)
		tables[legacy] = t
	}
	snap := t.Snapshot()
	if len(snap.Aggregators)+len(snap.Routes)+len(snap.Blacklist)+len(snap.Rewriters) != 0 {
		panic("harness: reused table is not empty")
	}
	return t
}

func runCase(res *mon.Result, c Case, st *stats, scratch string) {
	viol := func(sig, f string, a ...interface{}) { res.Violate(sig, fmt.Sprintf(f, a...), c) }

	var clock int64 = c.Start
	now := func() time.Time { return time.Unix(atomic.LoadInt64(&clock), 0) }
	tbl := getTable(c.Legacy, scratch)
	for _, w := range c.Rewriters {
		rw, err := rewriter.New(w.Old, w.New, w.Not, w.Max)
		if err != nil {
			panic(err)
		}
		tbl.AddRewriter(rw)
	}
	for _, b := range c.Blacklist {
		m := b.real()
		tbl.AddBlacklist(&m)
	}
	aggs := make([]*aggregator.Aggregator, len(c.Aggs))
	ticks := make([]chan time.Time, len(c.Aggs))
	models := make([]*oracle.AggModel, len(c.Aggs))
	var keys []string
	for i, a := range c.Aggs {
		ticks[i] = make(chan time.Time)
		ag, err := aggregator.NewMocked(a.Fun, a.M.real(), a.Fmt, a.Cache, a.Interval, a.Wait, a.DropRaw, tbl.GetIn(), a.InBuf, now, ticks[i])
		if err != nil {
			panic(err)
		}
		aggs[i] = ag
		tbl.AddAggregator(ag)
		models[i] = oracle.NewAggModel(a.Fun, a.Interval, a.Wait)
		keys = append(keys, mon.KeyAggIn(ag.Key), mon.KeyAggOut(ag.Key))
	}
	routes := make([]*mon.CaptureRoute, len(c.Routes))
	for i, r := range c.Routes {
		routes[i] = mon.NewCaptureRoute(fmt.Sprintf("c11-%d-r%d", c.Index, i), r.real(), nil)
		tbl.AddRoute(routes[i])
	}
	keys = append(keys, mon.KeyInvalid, mon.KeyBlacklist, mon.KeyOutOfOrder)
	d := mon.NewDeltas(keys...)
	expIn := make([]int64, len(aggs))  // model: raw points consumed per rule so far
	expOut := make([]int64, len(aggs)) // model: aggregate lines emitted per rule so far
	expBlack := int64(0)
	st.tables++

	tableBarrier := func() {
		// Table.In is unbuffered and served by one goroutine: when the second sentinel
		// has been taken, the first (and everything before it) has been routed completely.
		tbl.In <- []byte("c11sentinel 0 0")
		tbl.In <- []byte("c11sentinel 0 0")
	}
	aggBarrier := func(n int) {
		for k := 0; k < n; k++ {
			for _, ag := range aggs {
				ag.Snapshot()
			}
		}
	}
	take := func() [][]string {
		out := make([][]string, len(routes))
		for i, r := range routes {
			for _, g := range r.Take() {
				s := string(g.Copy)
				if strings.HasPrefix(s, "c11sentinel ") {
					continue
				}
				out[i] = append(out[i], s)
			}
		}
		return out
	}

	for rd, lines := range c.Rounds {
		// ---------------- raw phase
		nowS := atomic.LoadInt64(&clock)
		expRaw := make([]map[string]bool, len(routes))
		for i := range expRaw {
			expRaw[i] = map[string]bool{}
		}
		why := map[string]string{} // rewritten raw line → why it must not show up anywhere
		rawByID := map[string]Raw{}
		for _, raw := range lines {
			line := fmt.Sprintf("%s %d %d", raw.Name, raw.ID, raw.Ts)
			j := c.journey(raw.Name)
			rawByID[strconv.Itoa(raw.ID)] = raw
			st.raw++
			if j.Blacklisted {
				expBlack++
				st.rawBlacklisted++
				why[line] = "it is blacklisted"
			} else {
				outLine := fmt.Sprintf("%s %d %d", j.Name, raw.ID, raw.Ts)
				for _, i := range j.Consumed {
					expIn[i]++
					st.rawConsumed++
					cl, _, _ := models[i].Point(c.Aggs[i].outName(j.Name), float64(raw.ID), raw.Ts, nowS, false)
					if cl != oracle.Open {
						panic(fmt.Sprintf("harness generator: case %d raw %v is %v for rule %d", c.Index, raw, cl, i))
					}
				}
				if j.NearMiss {
					st.rawNearMiss++
				}
				if j.DroppedBy >= 0 {
					st.rawDropped++
					why[outLine] = fmt.Sprintf("drop-raw rule %d (%+v) completely matches it", j.DroppedBy, c.Aggs[j.DroppedBy].M)
				} else {
					for _, i := range j.Routes {
						expRaw[i][outLine] = true
						st.rawRouteDeliveries++
					}
				}
			}
			tbl.Dispatch([]byte(line))
		}
		// quiescence by steps: the rules' own in-counters reach what the model says
		for s := 0; s < stepBound(); s++ {
			done := true
			for i, ag := range aggs {
				if d.Get(mon.KeyAggIn(ag.Key)) < expIn[i] {
					done = false
				}
			}
			if done {
				break
			}
			aggBarrier(1)
		}
		aggBarrier(3)
		tableBarrier()
		for i, ag := range aggs {
			if got := d.Get(mon.KeyAggIn(ag.Key)); got != expIn[i] {
				viol("raw-consumption", "round %d: rule %d (%+v dropRaw=%v) has consumed %d raw points so far, the model says %d (complete filter matches not withheld by an earlier drop-raw rule)", rd, i, c.Aggs[i].M, c.Aggs[i].DropRaw, got, expIn[i])
				expIn[i] = got // report once
			}
		}
		if got := d.Get(mon.KeyBlacklist); got != expBlack {
			viol("blacklist-count", "round %d: direction=blacklist moved by %d, the model says %d raw lines are blacklisted", rd, got, expBlack)
			expBlack = got
		}
		got := take()
		for i := range routes {
			seen := map[string]bool{}
			for _, s := range got[i] {
				f := strings.Split(s, " ")
				if len(f) == 3 {
					if _, isRaw := rawByID[f[1]]; !isRaw {
						viol("aggregate-without-tick", "round %d: route %d received %q while only raw lines were being dispatched", rd, i, s)
						continue
					}
				}
				if seen[s] {
					viol("raw-duplicated", "round %d: route %d (%+v) received raw line %q twice", rd, i, c.Routes[i], s)
				}
				seen[s] = true
				if !expRaw[i][s] {
					if w, ok := why[s]; ok && strings.HasPrefix(w, "drop-raw") {
						viol("dropraw-leak", "round %d: route %d received raw line %q although %s", rd, i, s, w)
					} else {
						viol("raw-unexpected", "round %d: route %d (%+v) received %q which the pipeline model does not send there", rd, i, c.Routes[i], s)
					}
				}
			}
			for s := range expRaw[i] {
				if !seen[s] {
					viol("raw-withheld", "round %d: raw line %q is not completely matched by any drop-raw rule and route %d (%+v) accepts its name, but it did not arrive", rd, s, i, c.Routes[i])
				}
			}
		}

		// ---------------- tick phase: everything becomes due
		maxW := int64(0)
		for _, a := range c.Aggs {
			if w := int64(a.Wait + a.Interval); w > maxW {
				maxW = w
			}
		}
		atomic.AddInt64(&clock, maxW+20)
		tickS := atomic.LoadInt64(&clock)
		in0 := make([]int64, len(aggs))
		for i, ag := range aggs {
			in0[i] = d.Get(mon.KeyAggIn(ag.Key))
		}
		inv0, bl0, ooo0 := d.Get(mon.KeyInvalid), d.Get(mon.KeyBlacklist), d.Get(mon.KeyOutOfOrder)
		var all []expAgg
		for i := range aggs {
			for _, e := range models[i].Expected(tickS) {
				all = append(all, expAgg{e, i})
				expOut[i]++
			}
		}
		order := mon.NewRng(mon.Seed(), 12, uint64(c.Index*8+rd)).Perm(len(aggs))
		if c.Concurrent {
			var wg sync.WaitGroup
			for _, i := range order {
				wg.Add(1)
				go func(i int) {
					defer wg.Done()
					ticks[i] <- time.Unix(tickS, 0)
					aggs[i].Snapshot()
				}(i)
			}
			wg.Wait()
		} else {
			for _, i := range order {
				ticks[i] <- time.Unix(tickS, 0)
				aggs[i].Snapshot()
			}
		}
		st.ticks += len(aggs)
		// quiescence by steps on the capture route without filter
		for s := 0; s < stepBound() && routes[0].Len() < len(all); s++ {
			tableBarrier()
		}
		tableBarrier()
		aggBarrier(3) // a point fed back into a rule would be consumed (and counted) by now
		tableBarrier()

		for i, ag := range aggs {
			if dlt := d.Get(mon.KeyAggIn(ag.Key)) - in0[i]; dlt != 0 {
				viol("feedback", "round %d: while only ticks were delivered, direction=in.aggregator=%s of rule %d (%+v) moved by %d: aggregation output went into an aggregation", rd, ag.Key, i, c.Aggs[i].M, dlt)
			}
			if got := d.Get(mon.KeyAggOut(ag.Key)); got != expOut[i] {
				viol("amplification", "round %d: rule %d has emitted %d aggregate lines so far (direction=out counter), the model says %d", rd, i, got, expOut[i])
				expOut[i] = got
			}
		}
		if x := d.Get(mon.KeyInvalid) - inv0; x != 0 {
			viol("aggregate-validated", "round %d: unit=Err.type=invalid moved by %d while only aggregation output was travelling", rd, x)
		}
		if x := d.Get(mon.KeyOutOfOrder) - ooo0; x != 0 {
			viol("aggregate-validated", "round %d: unit=Err.type=out_of_order moved by %d while only aggregation output was travelling", rd, x)
		}
		if x := d.Get(mon.KeyBlacklist) - bl0; x != 0 {
			viol("aggregate-blacklisted", "round %d: direction=blacklist moved by %d while only aggregation output was travelling", rd, x)
		}

		got = take()
		st.aggExpected += len(all)
		for _, e := range all {
			loop := false
			for _, a := range c.Aggs {
				if a.M.match(e.Name) {
					loop = true
				}
			}
			if loop {
				st.loop++
			}
			if c.blacklisted(e.Name) || c.rewrite(e.Name) != e.Name {
				st.blOrRw++
			}
			if c.Legacy == "strict" && strings.Contains(e.Name, ":") {
				st.invalidIfValidated++
			}
		}
		for ri := range routes {
			used := make([]bool, len(all))
			var exp []int
			for k, e := range all {
				if c.Routes[ri].match(e.Name) {
					exp = append(exp, k)
				} else {
					st.aggRejections++
				}
			}
			var surplus []oracle.AggLine
			for _, s := range got[ri] {
				f := strings.Split(s, " ")
				if len(f) == 3 {
					if raw, isRaw := rawByID[f[1]]; isRaw {
						viol("raw-late", "round %d: raw line %q (%v) reached route %d during the tick phase", rd, s, raw, ri)
						continue
					}
				}
				l, err := oracle.ParseAggLine(s)
				if err != nil {
					viol("aggregate-format", "round %d: route %d received %q: %v", rd, ri, s, err)
					continue
				}
				hit := -1
				for _, k := range exp {
					if !used[k] && all[k].Name == l.Name && all[k].Ts == l.Ts && closeAny(l.Val, all[k].Vals) {
						hit = k
						break
					}
				}
				if hit >= 0 {
					used[hit] = true
					st.aggDeliveries++
					continue
				}
				surplus = append(surplus, l)
			}
			// second pass: same name and bucket, other value
			var rest []oracle.AggLine
			for _, l := range surplus {
				hit := -1
				for _, k := range exp {
					if !used[k] && all[k].Name == l.Name && all[k].Ts == l.Ts {
						hit = k
						break
					}
				}
				if hit >= 0 {
					used[hit] = true
					e := all[hit]
					viol("aggregate-value", "round %d: route %d received %q: the model expects %s %v %d (rule %d, %s over the raw points it consumes)", rd, ri, l.Raw, e.Name, e.Vals, e.Ts, e.From, c.Aggs[e.From].Fun)
					continue
				}
				rest = append(rest, l)
			}
			for _, l := range rest {
				sig, msg := "aggregate-unexpected", fmt.Sprintf("the model has no such aggregate (expected in total: %d lines)", len(all))
				for k, e := range all {
					same := e.Ts == l.Ts && closeAny(l.Val, e.Vals)
					switch {
					case same && e.Name == l.Name && !c.Routes[ri].match(e.Name):
						sig, msg = "aggregate-misrouted", fmt.Sprintf("the route's filter %+v does not accept the name %q", c.Routes[ri], e.Name)
					case same && e.Name == l.Name && used[k] && sig == "aggregate-unexpected":
						sig, msg = "aggregate-duplicated", "it was already delivered to this route once"
					case same && e.Name != l.Name && c.rewrite(e.Name) == l.Name:
						sig, msg = "aggregate-rewritten", fmt.Sprintf("rule %d emitted %q; the rewriters %+v turn that into %q", e.From, e.Name, c.Rewriters, l.Name)
					}
				}
				viol(sig, "round %d: route %d received %q: %s", rd, ri, l.Raw, msg)
			}
			for _, k := range exp {
				if !used[k] {
					e := all[k]
					emitted := false
					for _, s := range got[0] {
						if l, err := oracle.ParseAggLine(s); err == nil && l.Name == e.Name && l.Ts == e.Ts {
							emitted = true
						}
					}
					if ri != 0 && emitted {
						viol("aggregate-not-routed", "round %d: aggregate %s %v %d of rule %d reached the route without filter but not route %d whose filter %+v accepts the name", rd, e.Name, e.Vals, e.Ts, e.From, ri, c.Routes[ri])
					} else {
						bl := ""
						if c.blacklisted(e.Name) {
							bl = " (the name matches a blacklist entry)"
						}
						viol("aggregate-missing", "round %d: aggregate %s %v %d of rule %d (%s over the consumed raw points) did not reach route %d%s", rd, e.Name, e.Vals, e.Ts, e.From, c.Aggs[e.From].Fun, ri, bl)
					}
				}
			}
		}
	}
	// DelAggregator shuts the rule down (one more flush with now − wait: nothing is pending)
	for range aggs {
		if err := tbl.DelAggregator(0); err != nil {
			panic(err)
		}
	}
	tableBarrier()
	for ri, lines := range take() {
		for _, s := range lines {
			viol("aggregate-unexpected", "after the last round, at shutdown: route %d received %q", ri, s)
		}
	}
	for _, r := range routes {
		tbl.DelRoute(r.Key())
	}
	for range c.Blacklist {
		tbl.DelBlacklist(0)
	}
	for range c.Rewriters {
		tbl.DelRewriter(0)
	}
}

func closeAny(v float64, refs []float64) bool {
	for _, r := range refs {
		if oracle.ValueClose(v, r) {
			return true
		}
	}
	return false
}

func main() {
	res := mon.NewResult("C11")
	res.Rule = "tables generated from (seed,index): 2-4 aggregators (7 regex/format templates incl. self-matching, identity and chained outputs; random prefix/sub/notSub/notPrefix/notRegex; drop-raw 40%; cache on/off; all ten functions in rotation), 0-2 blacklist entries and 0-2 rewriters chosen to hit aggregate names, 2-5 capture routes (one without filter; others incl. filters that only differ between name and whole line), strict or medium validation with ':' in some aggregate names; 1-3 rounds of 25-60 raw lines from a 45-name universe followed by ticks that make every bucket due, plus a final round of ticks only; regenerated (<=30 attempts) until non-trivial = some aggregate name completely matches a rule's filter AND some aggregate name is blacklisted or changed by a rewriter AND >=1 raw line is consumed by a drop-raw rule AND >=1 raw line passes a drop-raw rule's cheap filters but not its complete filter AND a filtered route accepts one aggregate and rejects another; distinct = table index"
	res.Assume("filter semantics = the documented conjunction on the metric name, evaluated with the standard library (regexp, strings); that the relay's matcher agrees is property C03")
	res.Assume("rewriters = plain replace (max occurrences) or /regex/ replace-all, skipped when 'not' is a substring of the name (C04 checks the rewriter itself)")
	res.Assume("Table.In is unbuffered and served by one goroutine, so two harness sentinels through it are a barrier; Snapshot() is a barrier for an aggregator")
	res.Assume("all raw points are generated into open buckets (bucket > now - wait), so the bucket contents are fixed; late points are C10's subject")
	mon.InitRepo()
	scratch := filepath.Join(mon.Scratch(), "c11")
	os.MkdirAll(scratch, 0755)

	n := mon.N(120, 6000)
	// replay: the witness of a violation is the complete case; run exactly that
	var replayC *Case
	if p := os.Getenv("VERIF_REPLAY"); p != "" {
		var rp struct {
			Replay *Case `json:"replay"`
		}
		b, err := os.ReadFile(p)
		if err != nil || json.Unmarshal(b, &rp) != nil || rp.Replay == nil || len(rp.Replay.Aggs) == 0 {
			panic("C11: cannot read a case from replay file " + p)
		}
		replayC = rp.Replay
		n = 1
	}
	var st stats
	ran := 0
	for idx := 0; idx < n; idx++ {
		if replayC == nil && !mon.Mine(idx) {
			continue
		}
		var c Case
		if replayC != nil {
			c = *replayC
		} else {
			c = gen(mon.Seed(), idx)
		}
		res.LogCase("table %d: %d aggregators %d blacklist %d rewriters %d routes %d rounds", idx, len(c.Aggs), len(c.Blacklist), len(c.Rewriters), len(c.Routes), len(c.Rounds))
		done := make(chan struct{})
		go func() {
			runCase(res, c, &st, scratch)
			close(done)
		}()
		select {
		case <-done:
		case <-time.After(3 * time.Minute): // >1000x the normal duration of a case (tens of ms)
			res.Inconclusive(fmt.Sprintf("table %d did not reach quiescence: a barrier never returned (aggregator or table goroutine stuck); run abandoned", idx))
			res.Write()
			os.Exit(0)
		}
		res.Eval(1)
		if c.offers().nontrivial() {
			res.NonTrivial(strconv.Itoa(idx))
		}
		if ran < 2 {
			cc := c
			cc.Rounds = nil
			res.Sample(map[string]interface{}{"table": cc, "rounds": len(c.Rounds), "first_raw": c.Rounds[0][:5]})
		}
		ran++
	}
	if replayC == nil {
		runExtras(res)
	}
	res.Count("tables", st.tables)
	res.Count("raw_lines", st.raw)
	res.Count("raw_blacklisted", st.rawBlacklisted)
	res.Count("raw_consumptions_by_a_rule", st.rawConsumed)
	res.Count("raw_dropped_by_dropraw", st.rawDropped)
	res.Count("raw_passing_cheap_filters_of_a_dropraw_rule_only", st.rawNearMiss)
	res.Count("raw_route_deliveries", st.rawRouteDeliveries)
	res.Count("ticks", st.ticks)
	res.Count("aggregate_lines", st.aggExpected)
	res.Count("aggregate_route_deliveries", st.aggDeliveries)
	res.Count("aggregate_route_rejections", st.aggRejections)
	res.Count("aggregates_matching_a_rule_filter", st.loop)
	res.Count("aggregates_blacklist_or_rewriter_would_hit", st.blOrRw)
	res.Count("aggregates_invalid_if_validated", st.invalidIfValidated)
	if replayC == nil {
		res.Floor("tables", ran, n)
		res.Floor("aggregate_lines", st.aggExpected, n*5)
		res.Floor("aggregates_matching_a_rule_filter", st.loop, n)
		res.Floor("raw_dropped_by_dropraw", st.rawDropped, n)
	}
	res.Write()
}
