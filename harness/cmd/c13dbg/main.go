package main

import (
	"bytes"
	"fmt"
	"io"
	"os"

	"github.com/grafana/carbon-relay-ng/input"
	ogorek "github.com/kisielk/og-rek"
	"verifharness/mon"
)

func main() {
	data, _ := io.ReadAll(os.Stdin)
	d := &mon.CaptureDispatcher{}
	err := input.NewPickle(d).Handle(bytes.NewReader(data))
	lines, inv := d.Snapshot()
	for _, l := range lines {
		fmt.Printf("%q\n", l)
	}
	fmt.Println("invalid", inv, "err", err)
	v, err := ogorek.NewDecoder(bytes.NewReader(data[4:])).Decode()
	fmt.Printf("%#v %v\n", v, err)
}
