package main

// Tables modified at run time (added after the seeded changes C01-w4-1 / C01-w4-2 went unnoticed: a filter option
// CLEARED through Table.UpdateRoute / UpdateDestination kept filtering, and DelDestination disturbed the configured
// order of the remaining destinations - neither shows on a table that is only built and then used).
//
// A generated table (blacklist, rewriters and never-flushing aggregations from the generator of the main part;
// 2-4 routes generated here: capture routes and carbon routes of the three types with mostly 3-5 refusing
// destinations whose filters overlap, usually closed by a catch-all destination, so that the order of the
// destinations decides where send-first-match hands a line) is built as in the main part. Then a generated
// sequence of operations is applied to the running table:
//
//	updRoute   Table.UpdateRoute(key, {option: value}) - one or two of the six filter options set to a new value
//	           or cleared to "" (a share of the non-empty updates goes through the modRoute command)
//	updDest    Table.UpdateDestination(key, index, {...}) on sendAllMatch / sendFirstMatch routes, same values
//	           (modDest command for a share of the non-empty ones)
//	delDest    Table.DelDestination(key, index), any index, at least one destination stays
//	addDest    route.Add(destination.New(...)) - the addDest command answers "not implemented yet", the method of
//	           the three carbon route types is the only API that adds a destination to a running route
//	delRoute   Table.DelRoute(key) (or the delRoute command)
//	addRoute   a new route at the end (addRoute command or constructors + Table.AddRoute)
//
// The same operation is applied to the model (oracle.C01Table): an update replaces just the named options, "" means
// the option imposes nothing; a delete removes that entry and keeps the order of the others; an add appends.
// After the build and after every operation a batch of lines is dispatched one by one (Dispatch + Table.Flush as
// barrier) and attributed exactly as in the sequential phase of the main part (realTable.attribute). Half of a
// batch's lines are picked among generated candidates so that the model before and after the operation send them
// to different places (the operation matters for them).
//
// Not demanded: anything about the aggregations' input counters (main part), which destination of a
// consistentHashing route takes a line (C15), the content of Snapshot() (C18).

import (
	"fmt"
	"sort"
	"strings"
	"time"

	"github.com/grafana/carbon-relay-ng/destination"

	"verifharness/mon"
	"verifharness/oracle"
)

const rtGenBase = 1000000 // generator indexes used for the static part (blacklist, rewriters, aggregations)

var optNames = []string{"prefix", "notPrefix", "sub", "notSub", "regex", "notRegex"}

func getOpt(f *oracle.C01Filter, opt string) string {
	switch opt {
	case "prefix":
		return f.Prefix
	case "notPrefix":
		return f.NotPrefix
	case "sub":
		return f.Sub
	case "notSub":
		return f.NotSub
	case "regex":
		return f.Regex
	case "notRegex":
		return f.NotRegex
	}
	panic("getOpt " + opt)
}

// setOpt is the model's side of an update: the named option takes the value, "" = the option is not set.
func setOpt(f *oracle.C01Filter, opt, val string) {
	switch opt {
	case "prefix":
		f.Prefix = val
	case "notPrefix":
		f.NotPrefix = val
	case "sub":
		f.Sub = val
	case "notSub":
		f.NotSub = val
	case "regex":
		f.Regex = val
	case "notRegex":
		f.NotRegex = val
	default:
		panic("setOpt " + opt)
	}
	if err := f.C01Compile(); err != nil {
		panic(err)
	}
}

func oneLetter(r *mon.Rng) string { return string(letters[r.Intn(len(letters))]) }

// overlapFilter: weakly selective filters, so that several destinations of a route accept the same name.
func overlapFilter(r *mon.Rng) oracle.C01Filter {
	var f oracle.C01Filter
	switch r.Intn(9) {
	case 0:
		f.Prefix = oneLetter(r)
	case 1:
		f.Sub = oneLetter(r)
	case 2:
		f.Regex = r.Pick(regexPool)
	case 3:
		f.NotSub = oneLetter(r)
	case 4:
		f.NotRegex = r.Pick(regexPool)
	case 5:
		f.NotPrefix = oneLetter(r)
	case 6:
		f.Regex = r.Pick(regexPool)
		f.NotRegex = r.Pick(regexPool)
	case 7:
		f.Sub = piece(r, 1, 2)
		f.Regex = r.Pick(regexPool)
	default:
		f.Prefix = oneLetter(r)
		f.NotRegex = r.Pick(regexPool)
	}
	return f
}

func newOptValue(r *mon.Rng, opt, cur string) string {
	for {
		v := ""
		switch opt {
		case "prefix", "notPrefix":
			v = prefixPiece(r, 1, 2)
		case "sub", "notSub":
			v = piece(r, 1, 2)
		default:
			v = r.Pick(regexPool)
		}
		if v != cur {
			return v
		}
	}
}

// rtGen hands out route keys and destination addresses that are never reused inside a case (the hand-off counters
// are found by route key + address).
type rtGen struct {
	seed     uint64
	idx      int
	nRoutes  int
	nDests   map[string]int
	routeNos map[string]int
}

func (g *rtGen) dest(r *mon.Rng, rt *oracle.C01Route, catchAll bool) oracle.C01Dest {
	g.nDests[rt.Key]++
	d := oracle.C01Dest{Addr: fmt.Sprintf("127.1.%d.%d:%d", g.routeNos[rt.Key], 1+g.nDests[rt.Key], 1+r.Intn(5))}
	if rt.Type != oracle.C01ConsistentHashing && !catchAll && !r.Chance(1, 7) {
		d.Filter = overlapFilter(r)
	}
	if err := d.Filter.C01Compile(); err != nil {
		panic(err)
	}
	return d
}

func (g *rtGen) route(r *mon.Rng, typ string) oracle.C01Route {
	g.nRoutes++
	rt := oracle.C01Route{Key: fmt.Sprintf("c01rt%ds%dr%d", g.idx, g.seed, g.nRoutes), Type: typ}
	g.routeNos[rt.Key] = g.nRoutes
	switch x := r.Intn(10); {
	case x < 4:
	case x < 8:
		rt.Filter = overlapFilter(r)
	default:
		rt.Filter = genFilter(r, 1, 4, 1, 2)
	}
	if err := rt.Filter.C01Compile(); err != nil {
		panic(err)
	}
	if typ != oracle.C01Capture {
		nd := r.Range(3, 5)
		if r.Chance(1, 4) {
			nd = r.Range(1, 2)
		}
		if typ == oracle.C01ConsistentHashing && nd < 2 {
			nd = 2 // the addRoute command wants two; DelDestination may go down to one later
		}
		catchAll := r.Chance(3, 4)
		for j := 0; j < nd; j++ {
			rt.Dests = append(rt.Dests, g.dest(r, &rt, catchAll && j == nd-1 && nd > 1))
		}
	}
	return rt
}

func pickRouteType(r *mon.Rng) string {
	switch x := r.Intn(20); {
	case x < 4:
		return oracle.C01Capture
	case x < 11:
		return oracle.C01SendFirstMatch
	case x < 16:
		return oracle.C01SendAllMatch
	}
	return oracle.C01ConsistentHashing
}

// routesOnly evaluates where the routes of a table send an (already rewritten) name: the keys of the accepting
// routes with the addresses of the destinations that must be handed it.
func routeSig(routes []oracle.C01Route, name string) string {
	t := oracle.C01Table{Routes: routes}
	o := t.C01Eval(name+" 1 1", true)
	var b strings.Builder
	for i, rt := range routes {
		if !o.Routes[i] {
			continue
		}
		b.WriteString(rt.Key)
		b.WriteByte('(')
		for j, d := range rt.Dests {
			if o.Dests[i][j] == 1 {
				b.WriteString(d.Addr)
				b.WriteByte(',')
			}
		}
		b.WriteByte(')')
	}
	return b.String()
}

func copyRoutes(in []oracle.C01Route) []oracle.C01Route {
	out := make([]oracle.C01Route, len(in))
	for i, rt := range in {
		out[i] = rt
		out[i].Dests = append([]oracle.C01Dest(nil), rt.Dests...)
	}
	return out
}

func genRuntime(seed uint64, idx int, r *mon.Rng) (tcase, *rtGen) {
	base := gen(seed, rtGenBase+idx)
	c := tcase{Index: idx, Aggs: base.Aggs}
	m := &c.Model
	m.Blacklist, m.Rewriters, m.Aggs = base.Model.Blacklist, base.Model.Rewriters, base.Model.Aggs
	// the static part must leave most names for the routes: entries are taken away (last blacklist entry, then
	// last aggregation, alternating) until at least half of a sample of names gets as far as the routes
	sample := make([]string, 200)
	for i := range sample {
		sample[i] = genName(r) + " 1 1600000000"
	}
	for turn := 0; ; turn++ {
		through := 0
		for _, l := range sample {
			if o := m.C01Eval(l, true); !o.Blacklisted && o.Consumed < 0 {
				through++
			}
		}
		if through*2 >= len(sample) || len(m.Blacklist)+len(m.Aggs) == 0 {
			break
		}
		if (turn%2 == 0 && len(m.Blacklist) > 0) || len(m.Aggs) == 0 {
			m.Blacklist = m.Blacklist[:len(m.Blacklist)-1]
		} else {
			m.Aggs = m.Aggs[:len(m.Aggs)-1]
			c.Aggs = c.Aggs[:len(c.Aggs)-1]
		}
	}
	g := &rtGen{seed: seed, idx: idx, nDests: map[string]int{}, routeNos: map[string]int{}}
	nr := r.Range(2, 4)
	first := r.Intn(nr) // at least one sendFirstMatch route
	for i := 0; i < nr; i++ {
		typ := pickRouteType(r)
		if i == first {
			typ = oracle.C01SendFirstMatch
		}
		m.Routes = append(m.Routes, g.route(r, typ))
	}
	return c, g
}

type rtStats struct {
	tables, lines, rerouted, ops, cleared, clearedRegex, firstMultiAfterDel, byCommand int
	destHand, capHand, hashHand, unroutable, black, consumed                           int
	kinds                                                                              map[string]int
	dur                                                                                time.Duration
}

// runtimeCase returns false when the run must stop (table teardown hung).
func runtimeCase(res *mon.Result, idx int, st *rtStats) bool {
	t0 := time.Now()
	defer func() { st.dur += time.Since(t0) }()
	r := mon.NewRng(mon.Seed(), 1201, uint64(idx))
	c, g := genRuntime(mon.Seed(), idx, r)
	m := &c.Model
	nSteps, nLines := mon.N(8, 14), mon.N(10, 16)
	res.LogCase("runtime table %d: %d blacklist %d rewriters %d aggregations %d routes, %d operations, %d lines after each", idx, len(m.Blacklist), len(m.Rewriters), len(m.Aggs), len(m.Routes), nSteps, nLines)
	rt := build(&c, mon.NewRng(mon.Seed(), 1202, uint64(idx)))
	t := rt.t
	var vs []viol
	add := func(sig, msg string, w interface{}) {
		if len(vs) < 12 {
			vs = append(vs, viol{"runtime:" + sig, msg, w})
		}
	}
	hadDel := map[string]bool{}
	ts := 1700000000
	failed := ""

	batch := func(step int, opDesc string, old []oracle.C01Route) {
		hints := filterHints(m)
		prev := rt.read()
		for li := 0; li < nLines; li++ {
			line := ""
			if old != nil && li%2 == 0 {
				// a line the operation matters for: the routes before and after it treat the name differently
				for k := 0; k < 12 && line == ""; k++ {
					cand := fmt.Sprintf("%s %d.%d %d", hintedName(r, hints), r.Intn(1000), r.Intn(10), ts+1)
					if o := m.C01Eval(cand, true); !o.Blacklisted && o.Consumed < 0 && routeSig(old, o.Name) != routeSig(m.Routes, o.Name) {
						line = cand
						ts++
					}
				}
			}
			if line == "" {
				line = genLine(r, hints, &ts)
			}
			valid := oracle.C02DocValidate([]byte(line), "medium", "medium")
			if !valid.Confident {
				panic("harness: C01 generated a line whose validity the documentation does not decide: " + line)
			}
			o := m.C01Eval(line, valid.Valid)
			st.lines++
			switch {
			case !o.Valid:
			case o.Blacklisted:
				st.black++
			case o.Consumed >= 0:
				st.consumed++
			case o.Unroutable:
				st.unroutable++
			}
			if o.Valid && !o.Blacklisted && o.Consumed < 0 {
				if old != nil {
					if now := routeSig(m.Routes, o.Name); now != routeSig(old, o.Name) {
						st.rerouted++
						res.NonTrivial(fmt.Sprintf("rt|%d|%d|%s", idx, step, now))
					}
				}
				for i, mr := range m.Routes {
					if !o.Routes[i] {
						continue
					}
					switch mr.Type {
					case oracle.C01Capture:
						st.capHand++
					case oracle.C01ConsistentHashing:
						st.hashHand++
					default:
						n := 0
						for j := range mr.Dests {
							st.destHand += o.Dests[i][j]
							if mr.Dests[j].Filter.C01Accept(o.Name) {
								n++
							}
						}
						if mr.Type == oracle.C01SendFirstMatch && n >= 2 && hadDel[mr.Key] {
							st.firstMultiAfterDel++
						}
					}
				}
			}
			t.Dispatch([]byte(line))
			if err := t.Flush(); err != nil {
				panic(err)
			}
			cur := rt.read()
			w := func(observed interface{}) interface{} {
				return map[string]interface{}{"runtime_table": idx, "built_with_then_operations": c.Cmds, "step": step, "last_operation": opDesc,
					"routes_now": copyRoutes(m.Routes), "line": line, "expected": o, "observed": observed}
			}
			label := fmt.Sprintf("runtime table %d, after %d operations (last: %s), line %d %q", idx, step, opDesc, li, line)
			rt.attribute(m, label, &o, prev, cur, add, w)
			prev = cur
		}
	}

	batch(0, "none, table as built", nil)
	for step := 1; step <= nSteps && failed == ""; step++ {
		old := copyRoutes(m.Routes)
		desc, err := rtOperation(r, &c, rt, g, st, hadDel, func(d string) {
			res.LogCase("runtime table %d step %d: %s", idx, step, d)
		})
		if err != nil {
			failed = fmt.Sprintf("runtime table %d step %d: %s was rejected: %v", idx, step, desc, err)
			break
		}
		st.ops++
		batch(step, desc, old)
	}

	online := rt.anyOnline(m)
	if !shutdownTable(res, t, fmt.Sprintf("runtime table %d", idx)) {
		return false
	}
	switch {
	case failed != "":
		// whether the admin operations work is not this property (C18 / C03): the model cannot follow, stop here
		res.Inconclusive(failed)
	case online:
		res.Inconclusive(fmt.Sprintf("runtime table %d: a destination pointed at a refusing port reports online; %d observations of this table discarded", idx, len(vs)))
	default:
		for _, v := range vs {
			res.Violate(v.sig, v.msg, v.w)
		}
		st.tables++
	}
	return true
}

// rtOperation picks one operation, announces it, applies it to the real table and then to the model (and to the
// observation handles of rt). An error of the real operation is returned with nothing else changed.
func rtOperation(r *mon.Rng, c *tcase, rt *realTable, g *rtGen, st *rtStats, hadDel map[string]bool, announce func(string)) (string, error) {
	m := &c.Model
	t := rt.t
	var carbon, filtered, deletable []int
	for i, mr := range m.Routes {
		if mr.Type == oracle.C01Capture {
			continue
		}
		carbon = append(carbon, i)
		if mr.Type != oracle.C01ConsistentHashing && len(mr.Dests) > 0 {
			filtered = append(filtered, i)
		}
		if len(mr.Dests) >= 2 {
			deletable = append(deletable, i)
		}
	}
	kind := ""
	for kind == "" {
		switch x := r.Intn(100); {
		case x < 22:
			if len(carbon) > 0 {
				kind = "updRoute"
			}
		case x < 50:
			if len(filtered) > 0 {
				kind = "updDest"
			}
		case x < 72:
			if len(deletable) > 0 {
				kind = "delDest"
			}
		case x < 82:
			if len(carbon) > 0 {
				kind = "addDest"
			}
		case x < 90:
			if len(m.Routes) >= 2 {
				kind = "delRoute"
			}
		default:
			if len(m.Routes) < 6 {
				kind = "addRoute"
			}
		}
	}
	st.kinds[kind]++
	record := func(s string) {
		c.Cmds = append(c.Cmds, s)
		announce(s)
	}
	command := func(s string) error {
		st.byCommand++
		nByCommand++
		return mon.Apply(t, s)
	}
	// options of an update: one or two options, each cleared (if it is set) or given a new value
	pickOpts := func(f *oracle.C01Filter) (map[string]string, []string, bool) {
		opts := map[string]string{}
		var order []string
		allSet := true
		for n := 1 + b2iInt(r.Chance(1, 4)); n > 0; n-- {
			var set []string
			for _, o := range optNames {
				if getOpt(f, o) != "" {
					set = append(set, o)
				}
			}
			opt, val := "", ""
			if len(set) > 0 && r.Chance(1, 2) {
				opt = r.Pick(set)
				if r.Chance(1, 2) { // the two regular expressions are compiled state: clear them more often
					var res []string
					for _, o := range set {
						if o == "regex" || o == "notRegex" {
							res = append(res, o)
						}
					}
					if len(res) > 0 {
						opt = r.Pick(res)
					}
				}
			} else {
				opt = r.Pick(optNames)
				val = newOptValue(r, opt, getOpt(f, opt))
			}
			if _, dup := opts[opt]; dup {
				continue
			}
			opts[opt] = val
			order = append(order, opt)
			if val == "" {
				allSet = false
				st.cleared++
				if opt == "regex" || opt == "notRegex" {
					st.clearedRegex++
				}
			}
		}
		sort.Strings(order)
		return opts, order, allSet
	}
	optWords := func(opts map[string]string, order []string) string {
		var p []string
		for _, o := range order {
			p = append(p, o+"="+opts[o])
		}
		return strings.Join(p, " ")
	}
	optLit := func(opts map[string]string, order []string) string {
		var p []string
		for _, o := range order {
			p = append(p, fmt.Sprintf("%q: %q", o, opts[o]))
		}
		return "{" + strings.Join(p, ", ") + "}"
	}

	switch kind {
	case "updRoute":
		i := carbon[r.Intn(len(carbon))]
		mr := &m.Routes[i]
		opts, order, allSet := pickOpts(&mr.Filter)
		var desc string
		var err error
		if allSet && r.Chance(1, 8) {
			desc = "modRoute " + mr.Key + " " + optWords(opts, order)
			record(desc)
			err = command(desc)
		} else {
			desc = fmt.Sprintf("Table.UpdateRoute(%q, %s)", mr.Key, optLit(opts, order))
			record(desc)
			err = t.UpdateRoute(mr.Key, opts)
		}
		if err != nil {
			return desc, err
		}
		for _, o := range order {
			setOpt(&mr.Filter, o, opts[o])
		}
		return desc + fmt.Sprintf(" [%s route, filter now {%s}]", mr.Type, mr.Filter.C01Opts()), nil

	case "updDest":
		i := filtered[r.Intn(len(filtered))]
		mr := &m.Routes[i]
		j := r.Intn(len(mr.Dests))
		opts, order, allSet := pickOpts(&mr.Dests[j].Filter)
		var desc string
		var err error
		if allSet && r.Chance(1, 8) {
			desc = fmt.Sprintf("modDest %s %d %s", mr.Key, j, optWords(opts, order))
			record(desc)
			err = command(desc)
		} else {
			desc = fmt.Sprintf("Table.UpdateDestination(%q, %d, %s)", mr.Key, j, optLit(opts, order))
			record(desc)
			err = t.UpdateDestination(mr.Key, j, opts)
		}
		if err != nil {
			return desc, err
		}
		for _, o := range order {
			setOpt(&mr.Dests[j].Filter, o, opts[o])
		}
		return desc + fmt.Sprintf(" [%s route, destination %s of %d, filter now {%s}]", mr.Type, mr.Dests[j].Addr, len(mr.Dests), mr.Dests[j].Filter.C01Opts()), nil

	case "delDest":
		i := deletable[r.Intn(len(deletable))]
		mr := &m.Routes[i]
		j := r.Intn(len(mr.Dests))
		desc := fmt.Sprintf("Table.DelDestination(%q, %d)", mr.Key, j)
		record(desc)
		if err := t.DelDestination(mr.Key, j); err != nil {
			return desc, err
		}
		desc += fmt.Sprintf(" [%s route, destination %s, #%d of %d]", mr.Type, mr.Dests[j].Addr, j, len(mr.Dests))
		mr.Dests = append(mr.Dests[:j:j], mr.Dests[j+1:]...)
		rt.destKeys[i] = append(rt.destKeys[i][:j:j], rt.destKeys[i][j+1:]...)
		hadDel[mr.Key] = true
		return desc, nil

	case "addDest":
		i := carbon[r.Intn(len(carbon))]
		mr := &m.Routes[i]
		d := g.dest(r, mr, r.Chance(1, 5))
		desc := fmt.Sprintf("route.Add(destination.New(%q, {%s}, %q, spool=false, reconn=1h, the addRoute command's defaults)) on %s route %s with %d destinations", mr.Key, d.Filter.C01Opts(), d.Addr, mr.Type, mr.Key, len(mr.Dests))
		record(desc)
		adder, ok := t.GetRoute(mr.Key).(interface {
			Add(*destination.Destination)
		})
		if !ok {
			return desc, fmt.Errorf("the %s route has no Add method", mr.Type)
		}
		x, err := destination.New(mr.Key, toMatcher(d.Filter), d.Addr, t.GetSpoolDir(), false, false, time.Second, time.Hour, 30000, 2000000, 10000, 200*1024*1024, 10000, time.Second, 500*time.Microsecond, 10*time.Microsecond)
		if err != nil {
			panic(err)
		}
		adder.Add(x)
		mr.Dests = append(mr.Dests, d)
		rt.destKeys[i] = append(rt.destKeys[i], mon.KeyDestDropNoConn(mon.DestKey(mr.Key, d.Addr)))
		return desc, nil

	case "delRoute":
		i := r.Intn(len(m.Routes))
		key := m.Routes[i].Key
		var desc string
		var err error
		if r.Chance(1, 8) {
			desc = "delRoute " + key
			record(desc)
			err = command(desc)
		} else {
			desc = fmt.Sprintf("Table.DelRoute(%q)", key)
			record(desc)
			err = t.DelRoute(key)
		}
		if err != nil {
			return desc, err
		}
		desc += fmt.Sprintf(" [%s route, #%d of %d]", m.Routes[i].Type, i, len(m.Routes))
		m.Routes = append(m.Routes[:i:i], m.Routes[i+1:]...)
		rt.caps = append(rt.caps[:i:i], rt.caps[i+1:]...)
		rt.destKeys = append(rt.destKeys[:i:i], rt.destKeys[i+1:]...)
		return desc, nil

	default: // addRoute
		mr := g.route(r, pickRouteType(r))
		announce(fmt.Sprintf("addRoute %s %s {%s} with %d destinations", mr.Type, mr.Key, mr.Filter.C01Opts(), len(mr.Dests)))
		rt.addRoute(c, mr, mr.Type != oracle.C01Capture && r.Chance(1, 5)) // records the command in c.Cmds
		m.Routes = append(m.Routes, mr)
		return c.Cmds[len(c.Cmds)-1], nil
	}
}

func b2iInt(b bool) int {
	if b {
		return 1
	}
	return 0
}

// runRuntime runs the runtime-modified tables of this shard (only >= 0: just that one, for a replay).
func runRuntime(res *mon.Result, only int) {
	n := mon.N(40, 1000)
	st := rtStats{kinds: map[string]int{}}
	for i := 0; i < n; i++ {
		if only >= 0 && i != only {
			continue
		}
		if only < 0 && !mon.Mine(i) {
			continue
		}
		if !runtimeCase(res, i, &st) {
			break
		}
		res.Eval(1)
	}
	res.Count("runtime_tables", st.tables)
	res.Count("runtime_operations", st.ops)
	for _, k := range []string{"updRoute", "updDest", "delDest", "addDest", "delRoute", "addRoute"} {
		res.Count("runtime_op_"+k, st.kinds[k])
	}
	res.Count("runtime_operations_by_command_string", st.byCommand)
	res.Count("runtime_options_cleared", st.cleared)
	res.Count("runtime_regex_options_cleared", st.clearedRegex)
	res.Count("runtime_lines_dispatched", st.lines)
	res.Count("runtime_lines_the_last_operation_sends_elsewhere", st.rerouted)
	res.Count("runtime_firstmatch_lines_with_2plus_matching_destinations_after_a_deldest", st.firstMultiAfterDel)
	res.Count("runtime_handoffs_real_destinations", st.destHand)
	res.Count("runtime_handoffs_capture_routes", st.capHand)
	res.Count("runtime_handoffs_consistent_hashing", st.hashHand)
	res.Count("runtime_lines_unroutable", st.unroutable)
	res.Count("runtime_lines_blacklisted", st.black)
	res.Count("runtime_lines_consumed_by_dropraw", st.consumed)
	res.Count("ms_runtime_tables", int(st.dur/time.Millisecond))
	if only < 0 {
		per := mon.N(8, 14) * mon.N(10, 16)
		res.Floor("runtime_tables", st.tables, n*9/10)
		res.Floor("runtime_lines_the_last_operation_sends_elsewhere", st.rerouted, n*per/20)
		res.Floor("runtime_firstmatch_lines_with_2plus_matching_destinations_after_a_deldest", st.firstMultiAfterDel, n*per/100)
		res.Floor("runtime_regex_options_cleared", st.clearedRegex, n/4)
	}
}
