// C01 — every accepted metric reaches exactly the matching routes and
// destinations; unroutable and blacklisted metrics are counted.
//
// Generated routing tables (blacklist entries, rewriters, mocked aggregations
// that never flush — some drop-raw —, capture routes and real carbon routes of
// all three types) are driven with generated lines over a small alphabet so
// that filters overlap. A share of the blacklist entries, rewriters and real
// routes is created from admin command strings (imperatives.Apply), the rest
// through the constructors those commands call with the commands' defaults
// (every command recompiles the whole token grammar, ~0.1-1 s under -race).
// Real destinations point at refusing loopback ports (127.0.x.y, ports 1-5:
// below the ephemeral range, so no other process can be handed the port and a
// connect() cannot meet itself) with spool=false and a one-hour reconnect
// period, so each hand-off shows exactly once in the destination's
// action=drop.reason=conn_down_no_spool counter.
//
// Observation points: Route.Dispatch calls on capture routes (registered with
// Table.AddRoute), per-destination counters, the table counters direction=in /
// type=invalid / direction=blacklist / direction=unroutable and the aggregations'
// own input counters. Table.Flush() after a Dispatch is a true barrier for the
// destination counters (the relay loop serves the flush request only after it
// has accounted for the line it took from its unbuffered input channel); the
// aggregation counters are read behind a FIFO sentinel pushed into the
// aggregation's input.
//
// Oracle: oracle.C01Table (reference pipeline written from the property text
// and the docs). Sequential phase: exact attribution per line. Concurrent
// phase: 8 dispatchers, multisets / totals compared after the barrier.
package main

import (
	"encoding/json"
	"fmt"
	"os"
	"runtime"
	"sort"
	"strings"
	"sync"
	"time"

	metrics "github.com/Dieterbe/go-metrics"
	"github.com/grafana/carbon-relay-ng/aggregator"
	"github.com/grafana/carbon-relay-ng/destination"
	"github.com/grafana/carbon-relay-ng/matcher"
	"github.com/grafana/carbon-relay-ng/rewriter"
	"github.com/grafana/carbon-relay-ng/route"
	"github.com/grafana/carbon-relay-ng/table"

	"verifharness/mon"
	"verifharness/oracle"
)

// ---------------------------------------------------------------- generation

const letters = "abcdef"

func genNode(r *mon.Rng) string {
	n := r.Range(1, 3)
	b := make([]byte, n)
	for i := range b {
		b[i] = letters[r.Intn(len(letters))]
	}
	return string(b)
}

func genName(r *mon.Rng) string {
	n := r.PickInt([]int{1, 2, 2, 3, 3, 4})
	p := make([]string, n)
	for i := range p {
		p[i] = genNode(r)
	}
	return strings.Join(p, ".")
}

// piece returns a short substring of a random name (may contain a dot).
func piece(r *mon.Rng, lo, hi int) string {
	for {
		s := genName(r)
		l := r.Range(lo, hi)
		if len(s) < l {
			continue
		}
		o := r.Intn(len(s) - l + 1)
		return s[o : o+l]
	}
}

func prefixPiece(r *mon.Rng, lo, hi int) string {
	for {
		s := genName(r)
		l := r.Range(lo, hi)
		if len(s) >= l {
			return s[:l]
		}
	}
}

var regexPool = []string{
	`^a`, `^[ab]`, `b$`, `[ef]$`, `a.*f`, `\.c`, `^[a-c]+\.`, `d|e`, `^ab?c`, `^(a|b)c`, `(?i)A`, `e{2}`,
	`^a\.*b`, `f+`, `^.\.`, `^..\.`, `^[^.]+$`, `^[^.]+\.[^.]+$`, `\.[a-c]+$`, `c.?d`, `^ab|cd`, `(ab|cd)\.`,
	`[^a]$`, `^[d-f]`, `\.[d-f]`, `^[a-f]{2,}`, `b\.`, `^c?d`, `a`, `\.`,
}

// genFilter sets each of the six options with probability num/den.
func genFilter(r *mon.Rng, num, den int, plo, phi int) oracle.C01Filter {
	var f oracle.C01Filter
	if r.Chance(num, den) {
		f.Prefix = prefixPiece(r, plo, phi)
	}
	if r.Chance(num, den) {
		f.NotPrefix = prefixPiece(r, plo, phi)
	}
	if r.Chance(num, den) {
		f.Sub = piece(r, 1, 2)
	}
	if r.Chance(num, den) {
		f.NotSub = piece(r, 1, 2)
	}
	if r.Chance(num, den) {
		f.Regex = r.Pick(regexPool)
	}
	if r.Chance(num, den) {
		f.NotRegex = r.Pick(regexPool)
	}
	return f
}

type aggMeta struct {
	Fun      string `json:"fun"`
	OutFmt   string `json:"format"`
	Cache    bool   `json:"cache"`
	Sentinel string `json:"sentinel_name"` // a name the aggregation's filter accepts (harness barrier)
}

type tcase struct {
	Index    int             `json:"table"`
	Model    oracle.C01Table `json:"model"`
	Cmds     []string        `json:"built_with"`
	Aggs     []aggMeta       `json:"agg_meta"`
	SeqLines []string        `json:"-"`
	ConLines []string        `json:"-"`
}

func genRewriter(r *mon.Rng) oracle.C01Rewriter {
	var rw oracle.C01Rewriter
	if r.Chance(2, 5) {
		re := [][2]string{
			{`/a(.)/`, `${1}a`}, {`/^/`, `ab.`}, {`/\.[a-c]$/`, `.f`}, {`/([a-c])\.([d-f])/`, `${2}.${1}`},
			{`/b+/`, `b`}, {`/$/`, `.e`}, {`/^[d-f]/`, `a`}, {`/\./`, `.c.`}, {`/^(.)(.)/`, `${2}${1}`},
		}
		p := re[r.Intn(len(re))]
		rw.Old, rw.New, rw.Max = p[0], p[1], -1
	} else {
		rw.Old = piece(r, 1, 2)
		rw.New = piece(r, 1, 3)
		rw.Max = r.PickInt([]int{-1, -1, 1, 1, 2, 0})
	}
	switch r.Intn(6) {
	case 0:
		rw.Not = piece(r, 1, 2)
	case 1:
		rw.Not = "/" + r.Pick(regexPool) + "/"
	}
	return rw
}

// filterHints collects material from the table's own filters, so that selective filters are hit.
func filterHints(m *oracle.C01Table) []string {
	var hints []string
	addHints := func(f oracle.C01Filter) {
		for _, s := range []string{f.Prefix, f.NotPrefix, f.Sub, f.NotSub} {
			if s != "" {
				hints = append(hints, s)
			}
		}
	}
	for _, f := range m.Blacklist {
		addHints(f)
	}
	for _, a := range m.Aggs {
		addHints(a.Filter)
	}
	for _, rt := range m.Routes {
		addHints(rt.Filter)
		for _, d := range rt.Dests {
			addHints(d.Filter)
		}
	}
	return hints
}

// hintedName is a generated name, a third of the time combined with one of the hints.
func hintedName(r *mon.Rng, hints []string) string {
	name := genName(r)
	if len(hints) > 0 && r.Chance(1, 3) {
		h := r.Pick(hints)
		switch r.Intn(3) {
		case 0:
			name = h + name
		case 1:
			name = name + h
		default:
			name = h + "." + name
		}
		name = strings.Trim(strings.Replace(name, "..", ".", -1), ".")
		if name == "" {
			name = "a"
		}
	}
	return name
}

// genLine makes one line (about 10% invalid ones) with the next timestamp.
func genLine(r *mon.Rng, hints []string, ts *int) string {
	*ts++
	name := hintedName(r, hints)
	val := fmt.Sprintf("%d.%d", r.Intn(1000), r.Intn(10))
	switch x := r.Intn(100); {
	case x < 2:
		return fmt.Sprintf("%s %s", name, val) // two fields
	case x < 4:
		return fmt.Sprintf("%s %s %d extra", name, val, *ts)
	case x < 6:
		return fmt.Sprintf("%s abc %d", name, *ts)
	case x < 8:
		return fmt.Sprintf("%s %s t%d", name, val, *ts)
	case x < 10:
		return fmt.Sprintf("%s\x00%s %s %d", name, genNode(r), val, *ts)
	case x < 13:
		return fmt.Sprintf("%s\t%s  %d", name, val, *ts)
	case x < 15:
		return fmt.Sprintf(" %s %s %d ", name, val, *ts)
	}
	return fmt.Sprintf("%s %s %d", name, val, *ts)
}

func gen(seed uint64, idx int) tcase {
	r := mon.NewRng(seed, 1, uint64(idx))
	c := tcase{Index: idx}
	m := &c.Model
	for i, n := 0, r.PickInt([]int{0, 0, 1, 1, 2, 3, 4}); i < n; i++ {
		var f oracle.C01Filter
		if r.Chance(7, 10) { // single option, as the addBlack command allows
			switch r.Intn(6) {
			case 0:
				f.Prefix = prefixPiece(r, 2, 3)
			case 1:
				f.Sub = piece(r, 2, 3)
			case 2:
				f.Regex = r.Pick(regexPool[4:])
			case 3:
				f.NotPrefix = prefixPiece(r, 1, 1) // drops everything that does not start with it: harsh on purpose, rare
				if r.Chance(2, 3) {
					f.NotPrefix = ""
					f.Sub = piece(r, 2, 2)
				}
			case 4:
				f.Prefix = prefixPiece(r, 1, 2)
			default:
				f.Sub = piece(r, 2, 2)
			}
		} else {
			f = genFilter(r, 1, 3, 1, 2)
			if f.Prefix == "" && f.Sub == "" && f.Regex == "" { // keep it from swallowing everything
				f.Sub = piece(r, 2, 2)
			}
		}
		m.Blacklist = append(m.Blacklist, f)
	}
	for i, n := 0, r.PickInt([]int{0, 0, 1, 1, 2, 3}); i < n; i++ {
		m.Rewriters = append(m.Rewriters, genRewriter(r))
	}
	for i, n := 0, r.PickInt([]int{0, 0, 1, 1, 2, 3}); i < n; i++ {
		var a oracle.C01Agg
		var meta aggMeta
		for try := 0; ; try++ {
			a.Filter = genFilter(r, 1, 6, 1, 2)
			a.Filter.Regex = r.Pick(regexPool)
			if try > 20 {
				a.Filter = oracle.C01Filter{Regex: `.`}
			}
			if err := a.Filter.C01Compile(); err != nil {
				panic(err)
			}
			meta.Sentinel = ""
			for k := 0; k < 300 && meta.Sentinel == ""; k++ {
				if nm := genName(r); a.Filter.C01Accept(nm) {
					meta.Sentinel = nm
				}
			}
			if meta.Sentinel != "" {
				break
			}
		}
		a.DropRaw = r.Chance(2, 5)
		meta.Fun = r.Pick([]string{"sum", "avg", "max", "min", "last", "count"})
		meta.Cache = r.Bool()
		meta.OutFmt = fmt.Sprintf("c01agg.s%d.t%d.a%d", seed, idx, i)
		m.Aggs = append(m.Aggs, a)
		c.Aggs = append(c.Aggs, meta)
	}
	nr := r.PickInt([]int{1, 2, 2, 3, 3, 4, 5, 6})
	for i := 0; i < nr; i++ {
		rt := oracle.C01Route{Key: fmt.Sprintf("c01s%dt%dr%d", seed, idx, i)}
		switch x := r.Intn(20); {
		case x < 7:
			rt.Type = oracle.C01Capture
		case x < 12:
			rt.Type = oracle.C01SendAllMatch
		case x < 17:
			rt.Type = oracle.C01SendFirstMatch
		default:
			rt.Type = oracle.C01ConsistentHashing
		}
		if !r.Chance(1, 4) {
			rt.Filter = genFilter(r, 1, 5, 1, 2)
		}
		if rt.Type != oracle.C01Capture {
			nd := r.Range(1, 4)
			if rt.Type == oracle.C01ConsistentHashing && nd < 2 {
				nd = 2
			}
			for j := 0; j < nd; j++ {
				// refusing loopback ports below the ephemeral range: nothing listens there, no
				// other process can be handed the port, and a connect() can not meet itself
				d := oracle.C01Dest{Addr: fmt.Sprintf("127.0.%d.%d:%d", 1+i, 2+j, 1+r.Intn(5))}
				if rt.Type != oracle.C01ConsistentHashing && !r.Chance(1, 4) {
					d.Filter = genFilter(r, 1, 4, 1, 2)
				}
				rt.Dests = append(rt.Dests, d)
			}
		}
		m.Routes = append(m.Routes, rt)
	}
	if err := m.C01Compile(); err != nil {
		panic(err)
	}
	// lines
	nSeq, nCon := mon.N(36, 120), mon.N(24, 80)
	ts := 1600000000
	hints := filterHints(m)
	mk := func() string { return genLine(r, hints, &ts) }
	for i := 0; i < nSeq; i++ {
		c.SeqLines = append(c.SeqLines, mk())
	}
	for i := 0; i < nCon; i++ {
		c.ConLines = append(c.ConLines, mk())
	}
	return c
}

// ---------------------------------------------------------------- building the real table

type realTable struct {
	t        *table.Table
	caps     []*mon.CaptureRoute // per route (nil for real routes)
	aggs     []*aggregator.Aggregator
	destKeys [][]string // per route per dest: counter key
	aggKeys  []string
}

var usedAggKeys = map[string]bool{}

func toMatcher(f oracle.C01Filter) matcher.Matcher {
	m, err := matcher.New(f.Prefix, f.NotPrefix, f.Sub, f.NotSub, f.Regex, f.NotRegex)
	if err != nil {
		panic(fmt.Sprintf("matcher.New(%+v): %v", f, err))
	}
	return m
}

// Building a fresh table costs ~7 MB that is never released (the bad-metrics
// goroutine of a table cannot be stopped) and every admin command compiles the
// whole token grammar again, so: a real table is reused for up to tableReuse
// cases — emptied through the table's own delete operations and verified empty
// through Snapshot() — and only a share of the entries is created through
// command strings (the rest through the same constructors the commands call).
const tableReuse = 40

var (
	curTable     *table.Table
	curTableUses int
	nTablesMade  int
	nByCommand   int
	nByAPI       int
)

func getTable() *table.Table {
	if curTable != nil && curTableUses < tableReuse {
		curTableUses++
		return curTable
	}
	if curTable != nil {
		close(curTable.In)
	}
	curTable = mon.NewTable("medium", "medium", false, mon.Scratch())
	curTableUses = 1
	nTablesMade++
	return curTable
}

// releaseTable empties the table after Table.Shutdown() (which removed the
// routes); the aggregations are shut down by DelAggregator.
func releaseTable(t *table.Table) {
	ok := true
	for i := 0; i < 64 && len(t.Snapshot().Blacklist) > 0; i++ {
		ok = ok && t.DelBlacklist(0) == nil
	}
	for i := 0; i < 64 && len(t.Snapshot().Rewriters) > 0; i++ {
		ok = ok && t.DelRewriter(0) == nil
	}
	for i := 0; i < 64 && len(t.Snapshot().Aggregators) > 0; i++ {
		ok = ok && t.DelAggregator(0) == nil
	}
	sn := t.Snapshot()
	if !ok || len(sn.Blacklist)+len(sn.Rewriters)+len(sn.Aggregators)+len(sn.Routes) != 0 {
		// not our property (C18): just do not build on it
		close(t.In)
		curTable = nil
	}
}

func build(c *tcase, r *mon.Rng) *realTable {
	rt := &realTable{}
	rt.t = getTable()
	t := rt.t
	cmd := func(s string) {
		c.Cmds = append(c.Cmds, s)
		nByCommand++
		if err := mon.Apply(t, s); err != nil {
			panic(fmt.Sprintf("command %q: %v", s, err))
		}
	}
	api := func(format string, a ...interface{}) {
		c.Cmds = append(c.Cmds, fmt.Sprintf(format, a...))
		nByAPI++
	}
	for _, f := range c.Model.Blacklist {
		f := f
		single := ""
		n := 0
		for _, kv := range [][2]string{{"prefix", f.Prefix}, {"notPrefix", f.NotPrefix}, {"sub", f.Sub}, {"notSub", f.NotSub}, {"regex", f.Regex}, {"notRegex", f.NotRegex}} {
			if kv[1] != "" {
				n++
				single = kv[0] + " " + kv[1]
			}
		}
		if n == 1 && r.Chance(1, 3) {
			cmd("addBlack " + single)
		} else {
			m := toMatcher(f)
			api("Table.AddBlacklist(matcher.New(%q,%q,%q,%q,%q,%q))", f.Prefix, f.NotPrefix, f.Sub, f.NotSub, f.Regex, f.NotRegex)
			t.AddBlacklist(&m)
		}
	}
	for _, rw := range c.Model.Rewriters {
		if rw.Not == "" && r.Chance(1, 3) {
			cmd(fmt.Sprintf("addRewriter %s %s %d", rw.Old, rw.New, rw.Max))
		} else {
			x, err := rewriter.New(rw.Old, rw.New, rw.Not, rw.Max)
			if err != nil {
				panic(fmt.Sprintf("rewriter.New(%+v): %v", rw, err))
			}
			api("Table.AddRewriter(rewriter.New(%q,%q,%q,%d))", rw.Old, rw.New, rw.Not, rw.Max)
			t.AddRewriter(x)
		}
	}
	for i, a := range c.Model.Aggs {
		meta := &c.Aggs[i]
		var ag *aggregator.Aggregator
		for try := 0; ; try++ {
			tick := make(chan time.Time) // never fires: the aggregation never flushes
			var err error
			ag, err = aggregator.NewMocked(meta.Fun, toMatcher(a.Filter), meta.OutFmt, meta.Cache, 10, 20, a.DropRaw, t.In, 2000, time.Now, tick)
			if err != nil {
				panic(err)
			}
			if !usedAggKeys[ag.Key] {
				break
			}
			ag.Shutdown() // counter name collision (7 hex digits of an md5): pick another format
			meta.OutFmt += "x"
		}
		usedAggKeys[ag.Key] = true
		api("Table.AddAggregator(aggregator.NewMocked(%s, {%s}, %s, cache=%v, 10, 20, dropRaw=%v, never-ticking))", meta.Fun, a.Filter.C01Opts(), meta.OutFmt, meta.Cache, a.DropRaw)
		t.AddAggregator(ag)
		rt.aggs = append(rt.aggs, ag)
		rt.aggKeys = append(rt.aggKeys, mon.KeyAggIn(ag.Key))
	}
	for _, mr := range c.Model.Routes {
		rt.addRoute(c, mr, mr.Type != oracle.C01Capture && r.Chance(1, 5))
	}
	return rt
}

// addRoute creates the route mr at the end of the real table (by an addRoute command or by the constructors that
// command ends up calling) and appends its observation handles to rt.caps / rt.destKeys.
func (rt *realTable) addRoute(c *tcase, mr oracle.C01Route, byCommand bool) {
	t := rt.t
	cmd := func(s string) {
		c.Cmds = append(c.Cmds, s)
		nByCommand++
		if err := mon.Apply(t, s); err != nil {
			panic(fmt.Sprintf("command %q: %v", s, err))
		}
	}
	api := func(format string, a ...interface{}) {
		c.Cmds = append(c.Cmds, fmt.Sprintf(format, a...))
		nByAPI++
	}
	var keys []string
	if mr.Type == oracle.C01Capture {
		cr := mon.NewCaptureRoute(mr.Key, toMatcher(mr.Filter), nil)
		api("Table.AddRoute(capture %s {%s})", mr.Key, mr.Filter.C01Opts())
		t.AddRoute(cr)
		rt.caps = append(rt.caps, cr)
		rt.destKeys = append(rt.destKeys, nil)
		return
	}
	s := "addRoute " + mr.Type + " " + mr.Key
	if o := mr.Filter.C01Opts(); o != "" {
		s += " " + o
	}
	for _, d := range mr.Dests {
		s += "  " + d.Addr
		if o := d.Filter.C01Opts(); o != "" {
			s += " " + o
		}
		s += " spool=false reconn=3600000"
		keys = append(keys, mon.KeyDestDropNoConn(mon.DestKey(mr.Key, d.Addr)))
	}
	if byCommand {
		cmd(s)
	} else {
		// the constructors the command ends up calling, with the command's defaults
		var ds []*destination.Destination
		for _, d := range mr.Dests {
			x, err := destination.New(mr.Key, toMatcher(d.Filter), d.Addr, t.GetSpoolDir(), false, false, time.Second, time.Hour, 30000, 2000000, 10000, 200*1024*1024, 10000, time.Second, 500*time.Microsecond, 10*time.Microsecond)
			if err != nil {
				panic(err)
			}
			ds = append(ds, x)
		}
		var rr route.Route
		var err error
		switch mr.Type {
		case oracle.C01SendAllMatch:
			rr, err = route.NewSendAllMatch(mr.Key, toMatcher(mr.Filter), ds)
		case oracle.C01SendFirstMatch:
			rr, err = route.NewSendFirstMatch(mr.Key, toMatcher(mr.Filter), ds)
		default:
			rr, err = route.NewConsistentHashing(mr.Key, toMatcher(mr.Filter), ds)
		}
		if err != nil {
			panic(err)
		}
		api("Table.AddRoute(route.New<type>(destination.New ...)) equivalent of: %s", s)
		t.AddRoute(rr)
	}
	rt.caps = append(rt.caps, nil)
	rt.destKeys = append(rt.destKeys, keys)
}

// ---------------------------------------------------------------- observation

// ctr caches the go-metrics counter objects behind the keys (the registry
// lookup by name is the expensive part of reading a counter).
var ctrCache = map[string]metrics.Counter{}

func ctr(key string) int64 {
	if c, ok := ctrCache[key]; ok {
		return c.Count()
	}
	if c, ok := metrics.DefaultRegistry.Get(mon.CounterName(key)).(metrics.Counter); ok {
		ctrCache[key] = c
		return c.Count()
	}
	return 0
}

// waitCtr waits, by steps, until the counter has reached target: 2000 yields,
// then 4000 half-millisecond sleeps (the aggregation loop normally needs
// microseconds, so the bound is > 10^4 x the normal latency).
func waitCtr(key string, target int64) bool {
	for step := 0; step < 6000; step++ {
		if ctr(key) >= target {
			return true
		}
		if step < 2000 {
			runtime.Gosched()
		} else {
			time.Sleep(500 * time.Microsecond)
		}
	}
	return ctr(key) >= target
}

type obs struct {
	in, invalid, black, unroutable int64
	dests                          [][]int64
	aggs                           []int64
}

func (rt *realTable) read() obs {
	o := obs{in: ctr(mon.KeyIn), invalid: ctr(mon.KeyInvalid), black: ctr(mon.KeyBlacklist), unroutable: ctr(mon.KeyUnroutable)}
	o.dests = make([][]int64, len(rt.destKeys))
	for i, ks := range rt.destKeys {
		o.dests[i] = make([]int64, len(ks))
		for j, k := range ks {
			o.dests[i][j] = ctr(k)
		}
	}
	o.aggs = make([]int64, len(rt.aggKeys))
	for i, k := range rt.aggKeys {
		o.aggs[i] = ctr(k)
	}
	return o
}

// aggBarrier pushes one sentinel into every aggregation (its filter accepts the
// sentinel name, the input channel is FIFO and has one consumer) and waits, by
// steps, until each input counter has reached `want[i]` + number of sentinels so far.
func (rt *realTable) aggBarrier(c *tcase, want []int64, sentinels *int) bool {
	*sentinels++
	for i, ag := range rt.aggs {
		f := [][]byte{[]byte(c.Aggs[i].Sentinel), []byte("1"), []byte("1600000000")}
		ag.AddMaybe(f, 1, 1600000000)
	}
	for i, k := range rt.aggKeys {
		if !waitCtr(k, want[i]+int64(*sentinels)) {
			return false
		}
	}
	return true
}

type viol struct {
	sig, msg string
	w        interface{}
}

func sameFields(got string, want []string) bool {
	g := strings.Fields(got)
	if len(g) != len(want) {
		return false
	}
	for i := range g {
		if g[i] != want[i] {
			return false
		}
	}
	return true
}

// attribute compares what one dispatched line did - the table counters and the per-destination hand-off counters
// between prev and cur, and what the capture routes were handed (taken here) - with the model's outcome o.
// rt.caps / rt.destKeys are parallel to m.Routes. label names the case and the line in the messages.
func (rt *realTable) attribute(m *oracle.C01Table, label string, o *oracle.C01Outcome, prev, cur obs, add func(sig, msg string, w interface{}), w func(observed interface{}) interface{}) {
	cause, why := "", fmt.Sprintf("its filter rejects the name after rewriting %q", o.Name)
	switch {
	case !o.Valid:
		cause, why = "invalid-", "the line is invalid"
	case o.Blacklisted:
		cause, why = "blacklisted-", "the name is blacklisted"
	case o.Consumed >= 0:
		cause, why = "dropraw-consumed-", fmt.Sprintf("drop-raw aggregation #%d consumed it", o.Consumed)
	}
	if d := cur.in - prev.in; d != 1 {
		add("in-count", fmt.Sprintf("%s: direction=in moved by %d", label, d), w(d))
	}
	if d, e := cur.invalid-prev.invalid, b2i(!o.Valid); d != e {
		add("invalid-count", fmt.Sprintf("%s: type=invalid moved by %d, expected %d", label, d, e), w(d))
	}
	if d, e := cur.black-prev.black, b2i(o.Blacklisted); d != e {
		add("blacklist-count", fmt.Sprintf("%s: direction=blacklist moved by %d, expected %d", label, d, e), w(d))
	}
	if d, e := cur.unroutable-prev.unroutable, b2i(o.Unroutable); d != e {
		add("unroutable-count", fmt.Sprintf("%s (name after rewriting %q, accepted by %d routes): direction=unroutable moved by %d, expected %d", label, o.Name, o.NRoutes, d, e), w(d))
	}
	for i, mr := range m.Routes {
		if cr := rt.caps[i]; cr != nil {
			got := cr.Take()
			lines := make([]string, len(got))
			for k := range got {
				lines[k] = string(got[k].Copy)
			}
			switch {
			case o.Routes[i] && len(got) == 0:
				add("route-missed", fmt.Sprintf("%s: route %s {%s} accepts name %q but was not handed the line", label, mr.Key, mr.Filter.C01Opts(), o.Name), w(lines))
			case o.Routes[i] && len(got) > 1:
				add("route-duplicate", fmt.Sprintf("%s: route %s handed the line %d times", label, mr.Key, len(got)), w(lines))
			case !o.Routes[i] && len(got) > 0:
				add(cause+"route-extra", fmt.Sprintf("%s: route %s {%s} must not receive it (%s) but was handed %q", label, mr.Key, mr.Filter.C01Opts(), why, lines), w(lines))
			case o.Routes[i] && !sameFields(lines[0], o.Fields):
				add("route-wrong-line", fmt.Sprintf("%s: route %s was handed %q, expected fields %q", label, mr.Key, lines[0], o.Fields), w(lines))
			}
			continue
		}
		deltas := make([]int64, len(mr.Dests))
		var sum int64
		for j := range mr.Dests {
			deltas[j] = cur.dests[i][j] - prev.dests[i][j]
			sum += deltas[j]
		}
		if mr.Type == oracle.C01ConsistentHashing {
			if e := b2i(o.Routes[i]); sum != e {
				sig := "hash-not-exactly-one"
				if e == 0 {
					sig = cause + "dest-extra:" + mr.Type
				}
				add(sig, fmt.Sprintf("%s (name after rewriting %q): consistentHashing route %s {%s}: %d destinations account for the line (per destination %v), expected %d", label, o.Name, mr.Key, mr.Filter.C01Opts(), sum, deltas, e), w(deltas))
			}
			continue
		}
		for j, d := range mr.Dests {
			e := int64(o.Dests[i][j])
			switch {
			case deltas[j] < e:
				add("dest-missed:"+mr.Type, fmt.Sprintf("%s: %s route %s destination #%d %s {%s} must be handed name %q, hand-off counter moved by %d (route destinations %v)", label, mr.Type, mr.Key, j, d.Addr, d.Filter.C01Opts(), o.Name, deltas[j], deltas), w(deltas))
			case deltas[j] > e:
				add(cause+"dest-extra:"+mr.Type, fmt.Sprintf("%s: %s route %s destination #%d %s {%s} must not be handed it (%s; expected per destination %v), hand-off counter moved by %d (observed %v)", label, mr.Type, mr.Key, j, d.Addr, d.Filter.C01Opts(), destWhy(why, *o), o.Dests[i], deltas[j], deltas), w(deltas))
			}
		}
	}
}

type stats struct {
	tables, lines, valid, invalid, black, consumed, unroutable, rewritten, rewriteChangesRouting int
	capHand, destHand, hashHand, firstMatchMulti, destRejected, aggIn, concLines, multiRoute     int
	blackBeforeRewrite                                                                           int
	tBuild, tSeq, tConc, tDown                                                                   time.Duration
}

func runCase(res *mon.Result, c *tcase, st *stats) (ok bool) {
	r := mon.NewRng(mon.Seed(), 2, uint64(c.Index))
	t0 := time.Now()
	rt := build(c, r)
	st.tBuild += time.Since(t0)
	t0 = time.Now()
	t := rt.t
	m := &c.Model
	var vs []viol
	witness := func(line string, o *oracle.C01Outcome, observed interface{}) interface{} {
		return map[string]interface{}{"table": c.Index, "built_with": c.Cmds, "line": line, "expected": o, "observed": observed}
	}
	add := func(sig, msg string, w interface{}) {
		if len(vs) < 12 {
			vs = append(vs, viol{sig, msg, w})
		}
	}
	aggWant := make([]int64, len(rt.aggs)) // absolute expected counter values (without sentinels)
	base := rt.read()
	copy(aggWant, base.aggs)
	sentinels := 0
	aggLagging := false

	account := func(line string, o *oracle.C01Outcome) {
		st.lines++
		switch {
		case !o.Valid:
			st.invalid++
		case o.Blacklisted:
			st.black++
		case o.Consumed >= 0:
			st.consumed++
		case o.Unroutable:
			st.unroutable++
		}
		if o.Valid && !o.Blacklisted {
			orig := strings.Fields(line)[0]
			if o.Name != orig {
				st.rewritten++
				if o.Consumed < 0 {
					for i := range m.Routes {
						if m.Routes[i].Filter.C01Accept(orig) != o.Routes[i] {
							st.rewriteChangesRouting++
							break
						}
					}
				}
				for i := range m.Blacklist {
					if m.Blacklist[i].C01Accept(o.Name) {
						st.blackBeforeRewrite++ // rewritten name would be blacklisted, original is not
						break
					}
				}
			}
		}
		rej := false
		for i, rr := range m.Routes {
			if !o.Routes[i] {
				continue
			}
			switch rr.Type {
			case oracle.C01Capture:
				st.capHand++
			case oracle.C01ConsistentHashing:
				st.hashHand++
			default:
				n := 0
				for j := range rr.Dests {
					if rr.Dests[j].Filter.C01Accept(o.Name) {
						n++
					} else {
						rej = true
						st.destRejected++
					}
					st.destHand += o.Dests[i][j]
				}
				if rr.Type == oracle.C01SendFirstMatch && n >= 2 {
					st.firstMatchMulti++
				}
			}
		}
		for _, b := range o.AggIn {
			if b {
				st.aggIn++
			}
		}
		if o.NRoutes >= 2 {
			st.multiRoute++
			if rej {
				pat := fmt.Sprintf("%d|%v|%v", c.Index, o.Routes, o.Dests)
				res.NonTrivial(pat)
			}
		}
	}

	// ---- sequential phase: exact attribution per line
	prev := base
	for li, line := range c.SeqLines {
		valid := oracle.C02DocValidate([]byte(line), "medium", "medium")
		if !valid.Confident {
			panic("harness: C01 generated a line whose validity the documentation does not decide: " + line)
		}
		o := m.C01Eval(line, valid.Valid)
		account(line, &o)
		t.Dispatch([]byte(line))
		if err := t.Flush(); err != nil {
			panic(err)
		}
		cur := rt.read()
		w := func(observed interface{}) interface{} { return witness(line, &o, observed) }
		rt.attribute(m, fmt.Sprintf("table %d line %d %q", c.Index, li, line), &o, prev, cur, add, w)
		// aggregations: lower bound by steps, upper bound immediately (exact at the barrier below)
		for i := range rt.aggs {
			if o.AggIn[i] {
				aggWant[i]++
			}
			target := aggWant[i] + int64(sentinels)
			if !aggLagging {
				aggLagging = !waitCtr(rt.aggKeys[i], target) // after one expired bound, do not wait per line any more in this table
			}
			if got := ctr(rt.aggKeys[i]); got != target {
				add("agg-in-count", fmt.Sprintf("table %d line %d %q: aggregation #%d {%s} input counter is at %d after this line, expected %d (this line counts: %v)", c.Index, li, line, i, m.Aggs[i].Filter.C01Opts(), got-base.aggs[i]-int64(sentinels), aggWant[i]-base.aggs[i], o.AggIn[i]), w(got))
				aggWant[i] = got - int64(sentinels) // resynchronise
			}
		}
		prev = cur
	}
	rt.aggBarrier(c, aggWant, &sentinels)
	for i, k := range rt.aggKeys {
		if got, e := ctr(k), aggWant[i]+int64(sentinels); got != e {
			add("agg-in-count", fmt.Sprintf("table %d: after the sequential phase aggregation #%d {%s} counted %d inputs, expected %d", c.Index, i, m.Aggs[i].Filter.C01Opts(), got-base.aggs[i]-int64(sentinels), aggWant[i]-base.aggs[i]), witness("(sequential phase total)", nil, got))
			aggWant[i] = got - int64(sentinels)
		}
	}

	st.tSeq += time.Since(t0)
	t0 = time.Now()
	// ---- concurrent phase: 8 dispatchers, totals and multisets
	const G = 8
	pre := rt.read()
	type exp struct {
		in, invalid, black, unroutable int64
		caps                           []map[string]int
		dests                          [][]int64
		hash                           []int64
	}
	e := exp{caps: make([]map[string]int, len(m.Routes)), dests: make([][]int64, len(m.Routes)), hash: make([]int64, len(m.Routes))}
	for i, mr := range m.Routes {
		e.caps[i] = map[string]int{}
		e.dests[i] = make([]int64, len(mr.Dests))
	}
	for _, line := range c.ConLines {
		valid := oracle.C02DocValidate([]byte(line), "medium", "medium")
		if !valid.Confident {
			panic("harness: C01 generated a line whose validity the documentation does not decide: " + line)
		}
		o := m.C01Eval(line, valid.Valid)
		account(line, &o)
		st.concLines++
		e.in++
		e.invalid += b2i(!o.Valid)
		e.black += b2i(o.Blacklisted)
		e.unroutable += b2i(o.Unroutable)
		for i, mr := range m.Routes {
			if !o.Routes[i] {
				continue
			}
			switch mr.Type {
			case oracle.C01Capture:
				e.caps[i][strings.Join(o.Fields, " ")]++
			case oracle.C01ConsistentHashing:
				e.hash[i]++
			default:
				for j := range mr.Dests {
					e.dests[i][j] += int64(o.Dests[i][j])
				}
			}
		}
		for i := range rt.aggs {
			if o.AggIn[i] {
				aggWant[i]++
			}
		}
	}
	var wg sync.WaitGroup
	for g := 0; g < G; g++ {
		wg.Add(1)
		go func(g int) {
			defer wg.Done()
			for i := g; i < len(c.ConLines); i += G {
				t.Dispatch([]byte(c.ConLines[i]))
			}
		}(g)
	}
	wg.Wait()
	if err := t.Flush(); err != nil {
		panic(err)
	}
	post := rt.read()
	cw := func(observed interface{}) interface{} {
		return map[string]interface{}{"table": c.Index, "built_with": c.Cmds, "concurrent_lines": c.ConLines, "observed": observed}
	}
	chk := func(sig, what string, got, want int64) {
		if got != want {
			add("conc:"+sig, fmt.Sprintf("table %d, %d lines from 8 dispatchers: %s moved by %d, expected %d", c.Index, len(c.ConLines), what, got, want), cw(got))
		}
	}
	chk("in-count", "direction=in", post.in-pre.in, e.in)
	chk("invalid-count", "type=invalid", post.invalid-pre.invalid, e.invalid)
	chk("blacklist-count", "direction=blacklist", post.black-pre.black, e.black)
	chk("unroutable-count", "direction=unroutable", post.unroutable-pre.unroutable, e.unroutable)
	for i, mr := range m.Routes {
		if cr := rt.caps[i]; cr != nil {
			got := map[string]int{}
			for _, g := range cr.Take() {
				got[strings.Join(strings.Fields(string(g.Copy)), " ")]++
			}
			var diff []string
			for k, n := range e.caps[i] {
				if got[k] != n {
					diff = append(diff, fmt.Sprintf("%q expected %d got %d", k, n, got[k]))
				}
			}
			for k, n := range got {
				if _, ok := e.caps[i][k]; !ok {
					diff = append(diff, fmt.Sprintf("%q expected 0 got %d", k, n))
				}
			}
			if len(diff) > 0 {
				sort.Strings(diff)
				add("conc:route-multiset", fmt.Sprintf("table %d: capture route %s {%s} after 8-way dispatch: %s", c.Index, mr.Key, mr.Filter.C01Opts(), strings.Join(diff, "; ")), cw(diff))
			}
			continue
		}
		var sum int64
		for j := range mr.Dests {
			d := post.dests[i][j] - pre.dests[i][j]
			sum += d
			if mr.Type != oracle.C01ConsistentHashing {
				chk("dest-count:"+mr.Type, fmt.Sprintf("%s route %s destination #%d %s {%s} hand-off counter", mr.Type, mr.Key, j, mr.Dests[j].Addr, mr.Dests[j].Filter.C01Opts()), d, e.dests[i][j])
			}
		}
		if mr.Type == oracle.C01ConsistentHashing {
			chk("hash-total", fmt.Sprintf("consistentHashing route %s: sum of its destinations' hand-off counters", mr.Key), sum, e.hash[i])
		}
	}
	rt.aggBarrier(c, aggWant, &sentinels)
	for i, k := range rt.aggKeys {
		if got, ex := ctr(k), aggWant[i]+int64(sentinels); got != ex {
			add("conc:agg-in-count", fmt.Sprintf("table %d: after 8-way dispatch aggregation #%d {%s} counted %d inputs in total, expected %d", c.Index, i, m.Aggs[i].Filter.C01Opts(), got-base.aggs[i]-int64(sentinels), aggWant[i]-base.aggs[i]), cw(got))
		}
	}

	// ---- guard: every destination must still be offline (otherwise the hand-off counter is blind)
	online := rt.anyOnline(m)
	st.tConc += time.Since(t0)
	t0 = time.Now()
	defer func() { st.tDown += time.Since(t0) }()
	// ---- teardown
	if !shutdownTable(res, t, fmt.Sprintf("table %d", c.Index)) {
		return false
	}
	if online {
		res.Inconclusive(fmt.Sprintf("table %d: a destination pointed at a refusing port reports online; %d observations of this table discarded", c.Index, len(vs)))
		return true
	}
	for _, v := range vs {
		res.Violate(v.sig, v.msg, v.w)
	}
	st.tables++
	return true
}

// anyOnline tells whether a destination of a carbon route reports online (the hand-off counter is blind then).
func (rt *realTable) anyOnline(m *oracle.C01Table) bool {
	online := false
	for i, mr := range m.Routes {
		if rt.caps[i] != nil {
			continue
		}
		if rr := rt.t.GetRoute(mr.Key); rr != nil {
			for _, d := range rr.Snapshot().Dests {
				if d.Online {
					online = true
				}
			}
		}
	}
	return online
}

// shutdownTable shuts the table's routes down and empties it for the next case; false = stop the run.
func shutdownTable(res *mon.Result, t *table.Table, label string) bool {
	done := make(chan error, 1)
	go func() { done <- t.Shutdown() }()
	select {
	case err := <-done:
		if err != nil {
			res.Inconclusive(fmt.Sprintf("%s: Table.Shutdown: %v", label, err))
		}
	case <-time.After(5 * time.Minute):
		res.Inconclusive(fmt.Sprintf("%s: Table.Shutdown() did not return within 5 minutes; stopping", label))
		return false
	}
	releaseTable(t)
	return true
}

func destWhy(why string, o oracle.C01Outcome) string {
	if o.Valid && !o.Blacklisted && o.Consumed < 0 {
		return fmt.Sprintf("name after rewriting %q", o.Name)
	}
	return why
}

func b2i(b bool) int64 {
	if b {
		return 1
	}
	return 0
}

func main() {
	replayTable, replayRuntime := -1, -1
	if p := os.Getenv("VERIF_REPLAY"); p != "" {
		// a replay file names seed, tier and the table index; everything else is regenerated
		var rp struct {
			Seed   int64  `json:"seed"`
			Tier   string `json:"tier"`
			Replay struct {
				Table   *int `json:"table"`
				Runtime *int `json:"runtime_table"`
			} `json:"replay"`
		}
		b, err := os.ReadFile(p)
		if err != nil || json.Unmarshal(b, &rp) != nil || (rp.Replay.Table == nil && rp.Replay.Runtime == nil) {
			fmt.Println("C01: cannot use replay file", p)
			os.Exit(2)
		}
		os.Setenv("VERIF_SEED", fmt.Sprint(rp.Seed))
		os.Setenv("VERIF_TIER", rp.Tier)
		if rp.Replay.Runtime != nil {
			replayRuntime = *rp.Replay.Runtime
		} else {
			replayTable = *rp.Replay.Table
		}
	}
	res := mon.NewResult("C01")
	res.Rule = "tables generated from (seed,index): 0-4 blacklist entries, 0-3 rewriters (literal with max / regex / not-clause), 0-3 never-flushing aggregations (40% drop-raw), 1-6 routes (capture, sendAllMatch, sendFirstMatch, consistentHashing; 1-4 refusing destinations each), all six filter options over the alphabet a-f and '.'; lines over the same alphabet (a third seeded with the table's own filter material, 10% invalid); 60% of a table's lines dispatched one by one with exact per-line attribution, 40% from 8 concurrent dispatchers compared as multisets/totals; non-trivial = the line is accepted by >= 2 routes and rejected by >= 1 destination filter inside an accepting route; distinct = (table, routes accepting, per-destination expectation); tables modified at run time: 2-4 routes (>= 1 sendFirstMatch; carbon routes mostly with 3-5 destinations with overlapping filters and a trailing catch-all), a sequence of UpdateRoute / UpdateDestination (options set or cleared to \"\"), DelDestination, route.Add, DelRoute, AddRoute, a batch of lines with exact per-line attribution after each operation against the model changed by the same operation; non-trivial there = a line that the routes before and after the last operation send to different places, distinct = (table, step, where it goes)"
	res.Assume("validity of the generated lines is decided by the documentation-derived validator on classes it is confident about (validation itself is property C02)")
	res.Assume("a destination whose address refuses connections, with spool=false, accounts for each line it is handed exactly once in action=drop.reason=conn_down_no_spool (checked by reading destination.relay); Table.Flush() orders that count before the harness reads it")
	res.Assume("which destination of a consistentHashing route takes a line is property C15; here exactly one must")

	n := mon.N(150, 4000)
	var st stats
	only := replayTable
	want := 0
	for i := 0; i < n && replayRuntime < 0; i++ {
		if only >= 0 && i != only {
			continue
		}
		if only < 0 && !mon.Mine(i) {
			continue
		}
		want++
		c := gen(mon.Seed(), i)
		res.LogCase("table %d: %d blacklist %d rewriters %d aggregations %d routes, %d+%d lines", i, len(c.Model.Blacklist), len(c.Model.Rewriters), len(c.Model.Aggs), len(c.Model.Routes), len(c.SeqLines), len(c.ConLines))
		if !runCase(res, &c, &st) {
			break
		}
		res.Eval(1)
		if i%37 == 0 {
			res.Sample(map[string]interface{}{"table": i, "built_with": c.Cmds, "first_lines": c.SeqLines[:4]})
		}
	}
	res.Count("tables", st.tables)
	res.Count("goroutines_alive_at_end", runtime.NumGoroutine())
	res.Count("real_tables_created", nTablesMade)
	res.Count("entries_built_by_command_string", nByCommand)
	res.Count("entries_built_by_constructor", nByAPI)
	res.Count("ms_building_tables", int(st.tBuild/time.Millisecond))
	res.Count("ms_sequential_phase", int(st.tSeq/time.Millisecond))
	res.Count("ms_concurrent_phase", int(st.tConc/time.Millisecond))
	res.Count("ms_teardown", int(st.tDown/time.Millisecond))
	if only < 0 {
		runRuntime(res, replayRuntime)
	}
	if only < 0 && replayRuntime < 0 {
		runExtras(res)
	}
	res.Count("lines_dispatched", st.lines)
	res.Count("lines_concurrent_phase", st.concLines)
	res.Count("lines_invalid", st.invalid)
	res.Count("lines_blacklisted", st.black)
	res.Count("lines_consumed_by_dropraw", st.consumed)
	res.Count("lines_unroutable", st.unroutable)
	res.Count("lines_rewritten", st.rewritten)
	res.Count("lines_where_rewriting_changes_the_route_set", st.rewriteChangesRouting)
	res.Count("lines_whose_rewritten_name_matches_the_blacklist", st.blackBeforeRewrite)
	res.Count("lines_accepted_by_2plus_routes", st.multiRoute)
	res.Count("handoffs_capture_routes", st.capHand)
	res.Count("handoffs_real_destinations", st.destHand)
	res.Count("handoffs_consistent_hashing", st.hashHand)
	res.Count("destination_filter_rejections", st.destRejected)
	res.Count("firstmatch_lines_with_2plus_matching_destinations", st.firstMatchMulti)
	res.Count("aggregation_inputs", st.aggIn)
	if only < 0 && replayRuntime < 0 {
		res.Floor("tables", st.tables, n)
		per := mon.N(60, 200)
		res.Floor("lines_dispatched", st.lines, n*per)
		res.Floor("handoffs_capture_routes", st.capHand, n*per/20)
		res.Floor("handoffs_real_destinations", st.destHand, n*per/20)
		res.Floor("handoffs_consistent_hashing", st.hashHand, n*per/100)
		res.Floor("lines_unroutable", st.unroutable, n*per/100)
		res.Floor("lines_blacklisted", st.black, n*per/100)
		res.Floor("lines_consumed_by_dropraw", st.consumed, n*per/100)
		res.Floor("lines_where_rewriting_changes_the_route_set", st.rewriteChangesRouting, n*per/400)
		res.Floor("firstmatch_lines_with_2plus_matching_destinations", st.firstMatchMulti, n*per/200)
		res.Floor("destination_filter_rejections", st.destRejected, n*per/50)
	}
	res.Write()
}
