package main

// Scenario added after seeded changes C01-2 / C06-2 (send-first-match "failing over" to a later
// destination when the first matching one is down) went unnoticed: in the table-driven part all
// destinations are down and none spools, so there is never a later destination that could take
// the line instead. Here the first matching destination is down without spool while a LATER
// matching destination is healthy (connected to a loopback endpoint) or spooling. The property:
// send-first-match forwards only to the first destination in configured order whose filter
// accepts the metric - whether or not that destination can deliver right now.

import (
	"bytes"
	"fmt"
	"os"
	"path/filepath"
	"strings"
	"time"

	"github.com/grafana/carbon-relay-ng/matcher"

	"verifharness/mon"
)

func firstMatchHealth(res *mon.Result, idx int, scratch string) {
	r := mon.NewRng(mon.Seed(), 1101, uint64(idx))
	spoolDir := filepath.Join(scratch, fmt.Sprintf("fmh%d", idx))
	os.MkdirAll(spoolDir, 0755)
	defer os.RemoveAll(spoolDir)
	t := mon.NewTable("none", "none", false, spoolDir)
	key := fmt.Sprintf("c01fm%ds%d", idx, mon.Seed())
	downAddr := mon.ReservedAddr()
	laterSpools := r.Bool()
	var ep *mon.Endpoint
	laterAddr := ""
	laterOpts := "spool=false flush=10 reconn=30"
	if laterSpools {
		laterAddr = mon.ReservedAddr() // down as well, but it spools: it "can take" the line
		laterOpts = "spool=true reconn=3600000 spoolsyncevery=100000"
	} else {
		ep = mon.NewEndpoint(mon.Mode{})
		defer ep.Close()
		laterAddr = ep.Addr
	}
	firstFilter := r.Pick([]string{"prefix=a.", "sub=.x.", "regex=^a\\."})
	cmd := fmt.Sprintf("addRoute sendFirstMatch %s  %s %s spool=false reconn=3600000  %s %s", key, downAddr, firstFilter, laterAddr, laterOpts)
	w := map[string]interface{}{"route_cmd": cmd, "later_destination": map[bool]string{true: "down but spooling", false: "connected to a healthy endpoint"}[laterSpools]}
	res.LogCase("firstMatchHealth %d: %s", idx, cmd)
	if err := mon.Apply(t, cmd); err != nil {
		res.Violate("harness-setup", err.Error(), w)
		return
	}
	defer func() {
		done := make(chan struct{})
		go func() { t.DelRoute(key); close(done) }()
		select {
		case <-done:
		case <-time.After(10 * time.Second):
		}
	}()
	k1 := mon.KeyDestDropNoConn(mon.DestKey(key, downAddr))
	laterKey := mon.DestKey(key, laterAddr)
	kSpoolIn := "spool=" + laterKey + ".unit=Metric.status=incomingRT"
	kSpoolDrop := mon.KeyDestDropSlowSpool(laterKey)
	kLaterDown := mon.KeyDestDropNoConn(laterKey)
	if ep != nil {
		// lines that only the later destination accepts: wait until it carries traffic
		if !mon.ProbeOnline(t.Dispatch, ep, fmt.Sprintf("c01fm%d", idx), 600) {
			res.Inconclusive(fmt.Sprintf("firstMatchHealth %d: later destination never came online", idx))
			return
		}
	}
	d := mon.NewDeltas(k1, kSpoolIn, kSpoolDrop, kLaterDown)
	n := r.Range(20, 80)
	var mine [][]byte
	for i := 0; i < n; i++ {
		// every line matches the first destination's filter (and the later one, which has none)
		l := []byte(fmt.Sprintf("a.x.c01fm%d.n%d %d 1500000000", idx, i, i))
		mine = append(mine, l)
		t.Dispatch(l)
	}
	// the down destination counts each hand-off once
	for step := 0; step < 4000 && d.Get(k1) < int64(n); step++ {
		time.Sleep(time.Millisecond)
	}
	got1 := d.Get(k1)
	// what did the later destination get?
	var laterGot int64
	if ep != nil {
		time.Sleep(60 * time.Millisecond) // several flush periods of the later destination
		for _, c := range ep.Conns() {
			laterGot += int64(bytes.Count(c.Data(), []byte(fmt.Sprintf("a.x.c01fm%d.n", idx))))
		}
	} else {
		laterGot = d.Get(kSpoolIn) + d.Get(kSpoolDrop) + d.Get(kLaterDown)
	}
	w["lines"], w["first_destination_handoffs"], w["later_destination_got"] = n, got1, laterGot
	if got1 != int64(n) || laterGot != 0 {
		res.Violate("firstmatch-skipped-down-destination", fmt.Sprintf("send-first-match route: %d lines accepted by the first destination (down, no spool) and by a later one (%s): the first destination was handed %d, the later one got %d", n, w["later_destination"], got1, laterGot), w)
		return
	}
	res.Count("firstmatch_health_scenarios", 1)
	res.Count("firstmatch_health_lines", n)
	res.NonTrivial(fmt.Sprintf("firstmatch-health/%d/%v", idx, laterSpools))
}

// routeListChange (added after seeded change C01-w2-1): a line is in the middle of its walk over the table's
// routes - held inside the Dispatch of the route at position p - while a route is deleted from or added to the
// table. Every route that is in the table before AND after the change and whose filter accepts the line must
// still receive it exactly once (the deleted / added route itself: at most once); a line dispatched after the
// change goes to exactly the matching routes of the new table.
func routeListChange(res *mon.Result, idx int) {
	r := mon.NewRng(mon.Seed(), 1102, uint64(idx))
	t := mon.NewTable("none", "none", false, "/nonexistent")
	n := r.Range(3, 6)
	type rt struct {
		key    string
		prefix string
		cap    *mon.CaptureRoute
	}
	var routes []*rt
	hold := make(chan struct{})
	entered := make(chan struct{}, 1)
	p := r.Intn(n)
	inflight := fmt.Sprintf("a.c01rl%d.inflight 1 1500000000", idx)
	for i := 0; i < n; i++ {
		prefix := r.Pick([]string{"", "", "a.", "b."})
		if i == p {
			prefix = r.Pick([]string{"", "a."}) // the holding route must accept the line
		}
		m, err := matcher.New(prefix, "", "", "", "", "")
		if err != nil {
			panic(err)
		}
		x := &rt{fmt.Sprintf("c01rl%d_%d_s%d", idx, i, mon.Seed()), prefix, nil}
		x.cap = mon.NewCaptureRoute(x.key, m, nil)
		if i == p {
			x.cap.Hook = func(buf []byte) {
				if string(buf) == inflight {
					entered <- struct{}{}
					<-hold
				}
			}
		}
		routes = append(routes, x)
		t.AddRoute(x.cap)
	}
	del := r.Chance(2, 3)
	q := r.Intn(n)
	desc := ""
	var added *rt
	go t.Dispatch([]byte(inflight))
	select {
	case <-entered:
	case <-time.After(20 * time.Second):
		res.Inconclusive(fmt.Sprintf("routeListChange %d: the dispatcher never reached route %d", idx, p))
		close(hold)
		return
	}
	changed := make(chan struct{})
	go func() {
		if del {
			t.DelRoute(routes[q].key)
		} else {
			m, _ := matcher.New("", "", "", "", "", "")
			added = &rt{fmt.Sprintf("c01rl%d_new_s%d", idx, mon.Seed()), "", mon.NewCaptureRoute(fmt.Sprintf("c01rl%d_new_s%d", idx, mon.Seed()), m, nil)}
			t.AddRoute(added.cap)
		}
		close(changed)
	}()
	select {
	case <-changed:
	case <-time.After(20 * time.Second):
		res.Inconclusive(fmt.Sprintf("routeListChange %d: the table change did not return while a dispatcher was inside a route", idx))
		close(hold)
		return
	}
	if del {
		desc = fmt.Sprintf("delRoute of route #%d of %d", q, n)
	} else {
		desc = fmt.Sprintf("addRoute of a %dth route", n+1)
	}
	close(hold)
	res.LogCase("routeListChange %d: dispatcher held in route #%d, %s", idx, p, desc)
	after := fmt.Sprintf("a.c01rl%d.after 2 1500000000", idx)
	// the in-flight Dispatch returns on its own goroutine: wait (bounded steps) until the last matching route has it
	settle := func() {
		for step := 0; step < 2000; step++ {
			okAll := true
			for i, x := range routes {
				if del && i == q {
					continue
				}
				if strings.HasPrefix(inflight, x.prefix) && countLine(x.cap, inflight) == 0 {
					okAll = false
				}
			}
			if okAll {
				return
			}
			time.Sleep(time.Millisecond)
		}
	}
	settle()
	t.Dispatch([]byte(after))
	var layout []string
	for i, x := range routes {
		layout = append(layout, fmt.Sprintf("#%d prefix=%q", i, x.prefix))
	}
	w := map[string]interface{}{"routes": layout, "dispatcher_held_in_route": p, "change": desc, "in_flight_line": inflight}
	for i, x := range routes {
		wantIn := 0
		if strings.HasPrefix(inflight, x.prefix) {
			wantIn = 1
		}
		gotIn, gotAfter := countLine(x.cap, inflight), countLine(x.cap, after)
		if del && i == q {
			if gotIn > wantIn || gotAfter != 0 {
				res.Violate("routelist-change:deleted-route", fmt.Sprintf("%s while a line was being dispatched: the deleted route received the in-flight line %d times and the later line %d times", desc, gotIn, gotAfter), w)
				return
			}
			continue
		}
		if gotIn != wantIn {
			res.Violate("routelist-change:inflight-line", fmt.Sprintf("%s while a dispatcher was inside route #%d: route #%d (prefix %q, in the table before and after) received the in-flight line %d times, expected %d", desc, p, i, x.prefix, gotIn, wantIn), w)
			return
		}
		if gotAfter != wantIn {
			res.Violate("routelist-change:later-line", fmt.Sprintf("after %s: route #%d (prefix %q) received the next line %d times, expected %d", desc, i, x.prefix, gotAfter, wantIn), w)
			return
		}
	}
	if added != nil {
		if c := countLine(added.cap, inflight); c > 1 {
			res.Violate("routelist-change:inflight-line", fmt.Sprintf("the route added during the dispatch received the in-flight line %d times", c), w)
			return
		}
		if c := countLine(added.cap, after); c != 1 {
			res.Violate("routelist-change:later-line", fmt.Sprintf("the route added during the dispatch received the next line %d times, expected 1", c), w)
			return
		}
	}
	res.Count("routelist_change_scenarios", 1)
	res.NonTrivial(fmt.Sprintf("routelist-change/%d/%v/%d/%d", idx, del, p, q))
}

func countLine(c *mon.CaptureRoute, line string) int {
	n := 0
	for _, l := range c.Lines() {
		if l == line {
			n++
		}
	}
	return n
}

func runExtras(res *mon.Result) {
	n := mon.N(10, 300)
	scratch := mon.Scratch()
	for i := 0; i < n; i++ {
		if !mon.Mine(i) {
			continue
		}
		firstMatchHealth(res, i, scratch)
		res.Eval(1)
		for k := 0; k < 4; k++ {
			routeListChange(res, i*4+k)
			res.Eval(1)
		}
	}
}
