package main

// Scenario added after seeded changes C01-2 / C06-2 (send-first-match "failing over" to a later
// destination when the first matching one is down) went unnoticed: in the table-driven part all
// destinations are down and none spools, so there is never a later destination that could take
// the line instead. Here the first matching destination is down without spool while a LATER
// matching destination is healthy (connected to a loopback endpoint) or spooling. The property:
// send-first-match forwards only to the first destination in configured order whose filter
// accepts the metric - whether or not that destination can deliver right now.

import (
	"bytes"
	"fmt"
	"os"
	"path/filepath"
	"time"

	"verifharness/mon"
)

func firstMatchHealth(res *mon.Result, idx int, scratch string) {
	r := mon.NewRng(mon.Seed(), 1101, uint64(idx))
	spoolDir := filepath.Join(scratch, fmt.Sprintf("fmh%d", idx))
	os.MkdirAll(spoolDir, 0755)
	defer os.RemoveAll(spoolDir)
	t := mon.NewTable("none", "none", false, spoolDir)
	key := fmt.Sprintf("c01fm%ds%d", idx, mon.Seed())
	downAddr := mon.ReservedAddr()
	laterSpools := r.Bool()
	var ep *mon.Endpoint
	laterAddr := ""
	laterOpts := "spool=false flush=10 reconn=30"
	if laterSpools {
		laterAddr = mon.ReservedAddr() // down as well, but it spools: it "can take" the line
		laterOpts = "spool=true reconn=3600000 spoolsyncevery=100000"
	} else {
		ep = mon.NewEndpoint(mon.Mode{})
		defer ep.Close()
		laterAddr = ep.Addr
	}
	firstFilter := r.Pick([]string{"prefix=a.", "sub=.x.", "regex=^a\\."})
	cmd := fmt.Sprintf("addRoute sendFirstMatch %s  %s %s spool=false reconn=3600000  %s %s", key, downAddr, firstFilter, laterAddr, laterOpts)
	w := map[string]interface{}{"route_cmd": cmd, "later_destination": map[bool]string{true: "down but spooling", false: "connected to a healthy endpoint"}[laterSpools]}
	res.LogCase("firstMatchHealth %d: %s", idx, cmd)
	if err := mon.Apply(t, cmd); err != nil {
		res.Violate("harness-setup", err.Error(), w)
		return
	}
	defer func() {
		done := make(chan struct{})
		go func() { t.DelRoute(key); close(done) }()
		select {
		case <-done:
		case <-time.After(10 * time.Second):
		}
	}()
	k1 := mon.KeyDestDropNoConn(mon.DestKey(key, downAddr))
	laterKey := mon.DestKey(key, laterAddr)
	kSpoolIn := "spool=" + laterKey + ".unit=Metric.status=incomingRT"
	kSpoolDrop := mon.KeyDestDropSlowSpool(laterKey)
	kLaterDown := mon.KeyDestDropNoConn(laterKey)
	if ep != nil {
		// lines that only the later destination accepts: wait until it carries traffic
		if !mon.ProbeOnline(t.Dispatch, ep, fmt.Sprintf("c01fm%d", idx), 600) {
			res.Inconclusive(fmt.Sprintf("firstMatchHealth %d: later destination never came online", idx))
			return
		}
	}
	d := mon.NewDeltas(k1, kSpoolIn, kSpoolDrop, kLaterDown)
	n := r.Range(20, 80)
	var mine [][]byte
	for i := 0; i < n; i++ {
		// every line matches the first destination's filter (and the later one, which has none)
		l := []byte(fmt.Sprintf("a.x.c01fm%d.n%d %d 1500000000", idx, i, i))
		mine = append(mine, l)
		t.Dispatch(l)
	}
	// the down destination counts each hand-off once
	for step := 0; step < 4000 && d.Get(k1) < int64(n); step++ {
		time.Sleep(time.Millisecond)
	}
	got1 := d.Get(k1)
	// what did the later destination get?
	var laterGot int64
	if ep != nil {
		time.Sleep(60 * time.Millisecond) // several flush periods of the later destination
		for _, c := range ep.Conns() {
			laterGot += int64(bytes.Count(c.Data(), []byte(fmt.Sprintf("a.x.c01fm%d.n", idx))))
		}
	} else {
		laterGot = d.Get(kSpoolIn) + d.Get(kSpoolDrop) + d.Get(kLaterDown)
	}
	w["lines"], w["first_destination_handoffs"], w["later_destination_got"] = n, got1, laterGot
	if got1 != int64(n) || laterGot != 0 {
		res.Violate("firstmatch-skipped-down-destination", fmt.Sprintf("send-first-match route: %d lines accepted by the first destination (down, no spool) and by a later one (%s): the first destination was handed %d, the later one got %d", n, w["later_destination"], got1, laterGot), w)
		return
	}
	res.Count("firstmatch_health_scenarios", 1)
	res.Count("firstmatch_health_lines", n)
	res.NonTrivial(fmt.Sprintf("firstmatch-health/%d/%v", idx, laterSpools))
}

func runExtras(res *mon.Result) {
	n := mon.N(10, 300)
	scratch := mon.Scratch()
	for i := 0; i < n; i++ {
		if !mon.Mine(i) {
			continue
		}
		firstMatchHealth(res, i, scratch)
		res.Eval(1)
	}
}
