//go:build !noaccess

package main

import "github.com/grafana/carbon-relay-ng/route"

// white-box path: the overlay accessor access/route/hasher.go.txt
const haveAccessor = true

func hashDestination(rt route.Route, name []byte) (int, string, int, bool) {
	return route.VerifHashDestination(rt, name)
}
