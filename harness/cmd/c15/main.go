// C15 — consistent hashing agrees with Carbon and moves only the keys it must.
//
// Reference: oracle/ring.go (independent re-implementation of carbon 0.9.x ConsistentHashRing:
// MD5 -> 16-bit position, 100 replicas "('host', 'inst'|None):i", ring ordered as Python 2 orders
// (position, (server, instance)) tuples, bisect_left, wrap-around), cross-checked on every run
// against py/carbon_ring.py (a transcription of carbon's class run by CPython) — a disagreement
// between the two is a harness failure (exit 2), never a verdict.
//
// Real code: consistentHashing routes on one real table. The first listing order of every case is
// built with the admin command "addRoute consistentHashing <key> prefix=<p>  <dest>
// reconn=3600000  <dest>…"; the other listing orders call what that command ends in
// (destination.New + route.NewConsistentHashing + Table.AddRoute) because the command tokenizer
// costs about half a CPU second per route under -race. Membership changes go through
// route.Add(*Destination) (first step: destination parsed by imperatives.ParseDestinations) and
// Table.DelDestination(key, i). Every destination points at a loopback address that refuses
// connections (or has no port at all), spool=false, reconn=1h, so each line handed to a
// destination is counted exactly once in that destination's
// dest=<key>.unit=Metric.action=drop.reason=conn_down_no_spool counter (the hand-off is an
// unbuffered channel send; Route.Flush() is served by the same relay loop, so after Flush() every
// earlier hand-off has been counted: quiescence by steps, no deadline). Lines go to
// Route.Dispatch; a sample also goes through Table.Dispatch (route filter prefix=c15v<case>.).
//
// Observations per route (= one listing order of one destination set, or one step of an
// add/remove sequence):
//
//	black-box, grouped   names are dispatched grouped by the destination the oracle predicts; after
//	                     each group the per-destination counter deltas must be (len(group), 0, 0…):
//	                     exactly one destination accounts for every line and it is the predicted one.
//	                     A group that does not come out that way is replayed line by line for the witness.
//	black-box, per line  a sample (targeted names first) is dispatched one line at a time: exactly
//	                     one counter moves by one; that destination is the observed owner.
//	white-box (volume)   route.VerifHashDestination (overlay accessor calling the route's own
//	                     hasher) for every name; reported under hasher-* signatures of its own, so
//	                     what the counters saw is always visible separately.
//
// Across listing orders the observed owner (a (host, instance) pair) of every name must be the
// same. After route.Add(d) a name whose owner changed must now be owned by d; after
// DelDestination(i) a name not owned by the removed destination must keep its owner.
package main

import (
	"bytes"
	"encoding/hex"
	"encoding/json"
	"fmt"
	"net"
	"os"
	"os/exec"
	"path/filepath"
	"runtime"
	"sort"
	"strconv"
	"strings"
	"sync"
	"time"

	"github.com/grafana/carbon-relay-ng/destination"
	"github.com/grafana/carbon-relay-ng/imperatives"
	"github.com/grafana/carbon-relay-ng/matcher"
	"github.com/grafana/carbon-relay-ng/route"
	"github.com/grafana/carbon-relay-ng/table"

	"verifharness/mon"
	"verifharness/oracle"
)

// ---------------------------------------------------------------- case description

type dspec struct {
	Addr string          `json:"addr"` // as written in the command: host | host:port | host:port:instance
	Node oracle.RingNode `json:"node"`
}

type mutation struct {
	Kind string `json:"kind"` // add | del
	ID   int    `json:"id"`   // index into rcase.All
}

type rcase struct {
	Index   int        `json:"index"`
	All     []dspec    `json:"destinations"` // initial ones first, then the ones added later
	Initial int        `json:"initial"`      // All[:Initial] is the initial set
	Perms   [][]int    `json:"-"`
	Muts    []mutation `json:"mutations"`
	names   [][]byte
	pos     []uint16 // oracle ring position of each name
	nTarget int      // names[:nTarget] are the targeted ones (ties, boundaries, wrap-around, collisions, exotic)
	plainOK []bool
}

// prefix is the route filter of every route of this case: the table is shared by all workers, so a
// line given to Table.Dispatch must reach this case's route only (Route.Dispatch ignores the filter).
func (c *rcase) prefix() string { return fmt.Sprintf("c15v%d.", c.Index) }

func (c *rcase) describe(cur []int) []string {
	out := make([]string, len(cur))
	for i, id := range cur {
		out[i] = c.All[id].Addr
	}
	return out
}

var instancePool = []string{"a", "b", "c", "d", "1", "2", "10", "A", "B", "aa", "ab", "b1", "carbon-a", "carbon_b", "z", "0"}

// refusing reports whether a connection to hostport is refused right now.
var (
	refuseMu    sync.Mutex
	refuseCache = map[string]bool{}
)

func refusing(hostport string) bool {
	refuseMu.Lock()
	defer refuseMu.Unlock()
	if v, ok := refuseCache[hostport]; ok {
		return v
	}
	if h, _, err := net.SplitHostPort(hostport); err == nil && net.ParseIP(h) == nil {
		refuseCache[hostport] = true // a name under .invalid: nothing to connect to
		return true
	}
	c, err := net.DialTimeout("tcp", hostport, 2*time.Second)
	if err == nil {
		c.Close()
	}
	refuseCache[hostport] = err != nil
	return err != nil
}

func randHost(r *mon.Rng) string {
	switch r.Intn(10) {
	case 0:
		return fmt.Sprintf("127.%d.%d.%d", r.Range(0, 255), r.Range(0, 255), r.Range(1, 254))
	case 1:
		return fmt.Sprintf("127.0.%d.%d", r.Range(0, 9), r.Range(1, 254))
	case 2:
		// a host name, short or as long as cloud-provider names get (the reserved .invalid TLD never resolves)
		al := "abcdefghijklmnopqrstuvwxyz0123456789-"
		if r.Bool() {
			// carbon hashes the server string exactly as it is configured: capitalisation is part of it
			al = "abcdefghijklmnopqrstuvwxyzABCDEFGHIJKLMNOPQRSTUVWXYZ0123456789-"
		}
		want := r.PickInt([]int{12, 30, 54, 64, 70, 100, 180})
		h := ""
		for len(h) < want {
			if h != "" {
				h += "."
			}
			for k := r.Range(3, 24); k > 0; k-- {
				h += string(al[r.Intn(len(al)-1)])
			}
		}
		return h + ".invalid"
	default:
		return fmt.Sprintf("127.0.0.%d", r.Range(1, 254))
	}
}

// newSpec draws a destination whose (host, instance) pair and counter key are not in use.
func newSpec(r *mon.Rng, hosts []string, usedNode map[oracle.RingNode]bool, usedKey map[string]bool) dspec {
	for try := 0; ; try++ {
		var host string
		if len(hosts) > 0 && (try < 50) {
			host = r.Pick(hosts)
		} else {
			host = randHost(r)
		}
		var d dspec
		switch x := r.Intn(10); {
		case x < 5: // host:port:instance
			inst := r.Pick(instancePool)
			port := portFor(r, host)
			d = dspec{fmt.Sprintf("%s:%d:%s", host, port, inst), oracle.RingNode{Host: host, Instance: inst, HasInstance: true}}
		case x < 8: // host:port
			port := portFor(r, host)
			d = dspec{fmt.Sprintf("%s:%d", host, port), oracle.RingNode{Host: host}}
		default: // bare host: no port, no instance (dial fails with "missing port": never online)
			d = dspec{host, oracle.RingNode{Host: host}}
		}
		k := mon.DestKey("", d.Addr)
		if usedNode[d.Node] || usedKey[k] {
			continue
		}
		usedNode[d.Node] = true
		usedKey[k] = true
		return d
	}
}

// portFor picks a port below the ephemeral range on which host refuses connections.
func portFor(r *mon.Rng, host string) int {
	for {
		p := r.PickInt([]int{2003, 2004, 2103, 2104, 2203, 12003, 2003, 2004, 0, 0, 0})
		if p == 0 {
			p = r.Range(1100, 29999)
		}
		if refusing(fmt.Sprintf("%s:%d", host, p)) {
			return p
		}
	}
}

func allPerms(n int) [][]int {
	var out [][]int
	p := make([]int, n)
	for i := range p {
		p[i] = i
	}
	var rec func(k int)
	rec = func(k int) {
		if k == n {
			out = append(out, append([]int(nil), p...))
			return
		}
		for i := k; i < n; i++ {
			p[k], p[i] = p[i], p[k]
			rec(k + 1)
			p[k], p[i] = p[i], p[k]
		}
	}
	rec(0)
	return out
}

// position index: for every 16-bit ring position a plain metric name "c15.t<n>" that hashes onto
// it, and for most positions a second one (found with the oracle's position function). Only n is
// stored (n+1; 0 = none): no pointers for the garbage collector to follow.
var posN [65536][2]uint32

func posName(p uint16, k int) string {
	n := posN[p][k]
	if n == 0 {
		return ""
	}
	return "c15.t" + strconv.Itoa(int(n-1))
}

func buildPosIdx() {
	missing := 65536 // positions without a first name
	buf := make([]byte, 0, 24)
	for n := 0; missing > 0 && n < 6000000; n++ {
		buf = strconv.AppendInt(append(buf[:0], "c15.t"...), int64(n), 10)
		p := oracle.RingPosition(buf)
		switch {
		case posN[p][0] == 0:
			posN[p][0] = uint32(n + 1)
			missing--
		case posN[p][1] == 0:
			posN[p][1] = uint32(n + 1)
		}
	}
	if missing > 0 {
		panic("buildPosIdx: could not cover all ring positions")
	}
}

func nodesOf(c *rcase, cur []int) []oracle.RingNode {
	out := make([]oracle.RingNode, len(cur))
	for i, id := range cur {
		out[i] = c.All[id].Node
	}
	return out
}

func genCase(seed uint64, idx int, nNames int) *rcase {
	r := mon.NewRng(seed, 15, uint64(idx))
	c := &rcase{Index: idx}
	nd := r.PickInt([]int{2, 2, 3, 3, 4, 4, 5, 6, 7, 8, 9, 10, 11, 12, 12})
	var hosts []string
	switch r.Intn(10) {
	case 0, 1, 2: // few hosts, told apart by instance: position ties between replicas of one host possible
		for i := r.Range(1, 2); i > 0; i-- {
			hosts = append(hosts, randHost(r))
		}
	case 3, 4: // small pool
		for i := r.Range(2, 4); i > 0; i-- {
			hosts = append(hosts, randHost(r))
		}
	}
	usedNode := map[oracle.RingNode]bool{}
	usedKey := map[string]bool{}
	for i := 0; i < nd; i++ {
		c.All = append(c.All, newSpec(r, hosts, usedNode, usedKey))
	}
	c.Initial = nd
	if nd <= 4 {
		c.Perms = allPerms(nd)
	} else {
		c.Perms = [][]int{r.Perm(nd), r.Perm(nd), r.Perm(nd)}
		if mon.Thorough() {
			c.Perms = append(c.Perms, r.Perm(nd))
		}
		rev := make([]int, nd) // sorted ascending / descending by address text are the orders people write
		for i := range rev {
			rev[i] = i
		}
		sort.Slice(rev, func(a, b int) bool { return c.All[rev[a]].Addr > c.All[rev[b]].Addr })
		c.Perms = append(c.Perms, rev)
	}
	// add/remove sequence applied to the route built from the last listing order
	cur := append([]int(nil), c.Perms[len(c.Perms)-1]...)
	var removed []int
	rings := []*oracle.Ring{oracle.NewRing(nodesOf(c, cur))}
	nm := r.Range(1, 6)
	for s := 0; s < nm; s++ {
		doAdd := r.Bool()
		if len(cur) <= 1 {
			doAdd = true
		}
		if len(cur) >= 12 {
			doAdd = false
		}
		if doAdd {
			if len(removed) > 0 && r.Chance(1, 3) { // the same destination comes back
				k := r.Intn(len(removed))
				id := removed[k]
				removed = append(removed[:k], removed[k+1:]...)
				cur = append(cur, id)
				c.Muts = append(c.Muts, mutation{"add", id})
			} else {
				c.All = append(c.All, newSpec(r, hosts, usedNode, usedKey))
				cur = append(cur, len(c.All)-1)
				c.Muts = append(c.Muts, mutation{"add", len(c.All) - 1})
			}
		} else {
			k := r.Intn(len(cur))
			id := cur[k]
			cur = append(append([]int(nil), cur[:k]...), cur[k+1:]...)
			removed = append(removed, id)
			c.Muts = append(c.Muts, mutation{"del", id})
		}
		rings = append(rings, oracle.NewRing(nodesOf(c, cur)))
	}

	// names
	seen := map[string]bool{}
	add := func(s string, plain bool) {
		if s == "" || seen[s] || len(c.names) >= nNames {
			return
		}
		seen[s] = true
		c.names = append(c.names, []byte(s))
		c.pos = append(c.pos, oracle.RingPosition([]byte(s)))
		c.plainOK = append(c.plainOK, plain)
	}
	for _, rg := range rings {
		// positions where two different nodes tie: keys in (previous entry, tie] go to the smaller node
		for _, p := range rg.TiedPositions() {
			for d := uint16(0); d < 3; d++ {
				add(posName(p-d, 0), true)
			}
			add(posName(p, 1), true)
			add(posName(p+1, 0), true)
		}
		// wrap-around: beyond the last entry, and the very first positions
		last := rg.Entries[len(rg.Entries)-1].Pos
		first := rg.Entries[0].Pos
		for _, p := range []uint16{last, last + 1, 65535, 0, first, first + 1, first - 1} {
			add(posName(p, 0), true)
			add(posName(p, 1), true)
		}
		if last < 65535 {
			add(posName(last+uint16(r.Range(1, int(65535-last))), 0), true)
		}
	}
	// entry boundaries of the initial and the final ring (a sample)
	for _, rg := range []*oracle.Ring{rings[0], rings[len(rings)-1]} {
		b := rg.Boundaries()
		for i := 0; i < 250 && i < len(b); i++ {
			add(posName(b[r.Intn(len(b))], r.Intn(2)), true)
		}
	}
	// pairs of names colliding on one 16-bit position
	for i := 0; i < 40; i++ {
		p := uint16(r.Intn(65536))
		add(posName(p, 0), true)
		add(posName(p, 1), true)
	}
	// exotic names (route level only: the table's validator may refuse them)
	for _, s := range []string{
		"x", "a.b", fmt.Sprintf("metric=%d;host=db%d;unit=B", idx, r.Intn(100)),
		fmt.Sprintf("srv.ü%d.cpu", r.Intn(1000)), fmt.Sprintf("c15.%d.%s", idx, strings.Repeat("verylongnode.", 30)),
		fmt.Sprintf(".leading.dot.%d", idx), fmt.Sprintf("UPPER.Case.%d", r.Intn(1e6)), fmt.Sprintf("tab\there.%d", idx),
		fmt.Sprintf("('127.0.0.1',None):%d", r.Intn(100)),
	} {
		add(s, false)
	}
	c.nTarget = len(c.names)
	words := []string{"cpu", "mem", "disk", "net", "load", "requests", "latency.p99", "gc.pause", "queue_depth", "errors"}
	for len(c.names) < nNames {
		switch r.Intn(4) {
		case 0:
			add(fmt.Sprintf("c15.%d.%d", idx, r.Intn(1<<30)), true)
		case 1:
			add(fmt.Sprintf("servers.web%03d.%s.%d", r.Intn(1000), r.Pick(words), r.Intn(64)), true)
		case 2:
			add(fmt.Sprintf("stats.timers.app%d.%s.upper_90", r.Intn(1<<20), r.Pick(words)), true)
		default:
			add(fmt.Sprintf("%s.%x", r.Pick(words), r.U64()), true)
		}
	}
	return c
}

// ---------------------------------------------------------------- driving the real route

type routeUnderTest struct {
	c       *rcase
	key     string
	tab     *table.Table
	rt      route.Route
	cur     []int // ids in the route's destination order
	ckeys   []string
	dkeys   []string
	viaTab  bool
	lineSeq int
}

func (u *routeUnderTest) refreshKeys() {
	u.ckeys = u.ckeys[:0]
	u.dkeys = u.dkeys[:0]
	for _, id := range u.cur {
		dk := mon.DestKey(u.key, u.c.All[id].Addr)
		u.dkeys = append(u.dkeys, dk)
		u.ckeys = append(u.ckeys, mon.KeyDestDropNoConn(dk))
	}
}

func (u *routeUnderTest) send(name []byte, plain bool) { u.sendVia(name, false) }

func (u *routeUnderTest) sendVia(name []byte, viaTable bool) {
	u.lineSeq++
	line := make([]byte, 0, len(name)+24)
	line = append(line, name...)
	line = append(line, ' ')
	line = strconv.AppendInt(line, int64(u.lineSeq), 10)
	line = append(line, ' ')
	line = strconv.AppendInt(line, int64(1500000000+u.lineSeq%1000), 10)
	if viaTable {
		tabMu.RLock()
		u.tab.Dispatch(line)
		tabMu.RUnlock()
	} else {
		u.rt.Dispatch(line)
	}
}

// settle makes every earlier hand-off visible in the counters: each destination's relay loop serves
// Flush after the lines it received before.
func (u *routeUnderTest) settle() { u.rt.Flush() }

func (u *routeUnderTest) counters() []int64 {
	out := make([]int64, len(u.ckeys))
	for i, k := range u.ckeys {
		out[i] = mon.Counter(k)
	}
	return out
}

func (u *routeUnderTest) anyOnline() bool {
	for _, d := range u.rt.Snapshot().Dests {
		if d.Online {
			return true
		}
	}
	return false
}

type params struct{ bbFirst, bbOther, bbMut, wbOther, nSample int }

type verifier struct {
	res *mon.Result
}

// newDestination builds a destination that can never connect and does not spool, either from the
// text an operator would write or with destination.New and the same settings.
func newDestination(tab *table.Table, routeKey, addr string, viaParser bool) *destination.Destination {
	if viaParser {
		applyMu.Lock()
		ds, err := imperatives.ParseDestinations([]string{addr + " spool=false reconn=3600000"}, tab, false, routeKey)
		applyMu.Unlock()
		if err != nil || len(ds) != 1 {
			panic(fmt.Sprintf("ParseDestinations(%q): %v", addr, err))
		}
		return ds[0]
	}
	m, _ := matcher.New("", "", "", "", "", "")
	d, err := destination.New(routeKey, m, addr, tab.GetSpoolDir(), false, false, time.Second, time.Hour, 30000, 2000000, 10000, 200*1024*1024, 10000, time.Second, 500*time.Microsecond, 10*time.Microsecond)
	if err != nil {
		panic(fmt.Sprintf("destination.New(%q): %v", addr, err))
	}
	return d
}

func buildRoute(tab *table.Table, c *rcase, key string, order []int, viaCommand bool) route.Route {
	if viaCommand {
		var cmd bytes.Buffer
		fmt.Fprintf(&cmd, "addRoute consistentHashing %s prefix=%s", key, c.prefix())
		for _, id := range order {
			// spool=false is the default; leaving it out saves 40% of the (slow) tokenizing
			fmt.Fprintf(&cmd, "  %s reconn=3600000", c.All[id].Addr)
		}
		applyMu.Lock()
		tabMu.Lock()
		err := mon.Apply(tab, cmd.String())
		tabMu.Unlock()
		applyMu.Unlock()
		if err != nil {
			panic(fmt.Sprintf("case %d: %q: %v", c.Index, cmd.String(), err))
		}
	} else {
		var ds []*destination.Destination
		for _, id := range order {
			ds = append(ds, newDestination(tab, key, c.All[id].Addr, false))
		}
		m, _ := matcher.New(c.prefix(), "", "", "", "", "")
		rt, err := route.NewConsistentHashing(key, m, ds)
		if err != nil {
			panic(err)
		}
		tabMu.Lock()
		tab.AddRoute(rt)
		tabMu.Unlock()
	}
	tabMu.RLock()
	rt := tab.GetRoute(key)
	tabMu.RUnlock()
	if rt == nil {
		panic("route not found after it was added: " + key)
	}
	for _, d := range rt.Snapshot().Dests {
		if d.Spool {
			panic("destination " + d.Key + " spools: its counters would not show the hand-offs")
		}
	}
	return rt
}

// The table is shared by the workers. Adding/removing a route while another goroutine is inside
// Table.Dispatch is property C18's subject (removing a route shifts the slice dispatchers iterate:
// a line is then handed to a route twice, which this check would report as not-exactly-one), so
// route-list changes and Table.Dispatch calls are kept apart here.
var tabMu sync.RWMutex

func delRoute(tab *table.Table, key string) {
	tabMu.Lock()
	err := tab.DelRoute(key)
	tabMu.Unlock()
	if err != nil {
		panic(err)
	}
}

// the command parser keeps its token table in a package variable: commands are applied one at a time
var applyMu sync.Mutex

func (u *routeUnderTest) witness(extra map[string]interface{}) map[string]interface{} {
	w := map[string]interface{}{
		"case":                  u.c.Index,
		"route":                 u.key,
		"destinations_in_order": u.c.describe(u.cur),
		"initial_listing":       u.c.describe(u.c.Perms[len(u.c.Perms)-1]),
		"mutations":             u.c.Muts,
	}
	for k, v := range extra {
		w[k] = v
	}
	return w
}

// sendOne dispatches one line and returns the index (in route order) of the destination whose
// counter moved; -1 and a violation if not exactly one counter moved by exactly one.
func (v *verifier) sendOne(u *routeUnderTest, ni int) int {
	return v.sendOneName(u, u.c.names[ni], false)
}

func (v *verifier) sendOneName(u *routeUnderTest, name []byte, viaTable bool) int {
	before := u.counters()
	u.sendVia(name, viaTable)
	var after []int64
	hit, sum := -1, int64(0)
	for step := 0; step < 50; step++ {
		u.settle()
		after = u.counters()
		hit, sum = -1, 0
		for i := range after {
			d := after[i] - before[i]
			sum += d
			if d != 0 {
				hit = i
			}
		}
		if sum >= 1 {
			break
		}
		runtime.Gosched()
	}
	v.res.Count("lines_attributed_one_by_one", 1)
	if sum != 1 || after[hit]-before[hit] != 1 {
		if sum < 1 && u.anyOnline() {
			v.res.Inconclusive(fmt.Sprintf("case %d: a destination of route %s came online (something listens on a port chosen as refusing)", u.c.Index, u.key))
			return -1
		}
		deltas := map[string]int64{}
		for i := range after {
			deltas[u.c.All[u.cur[i]].Addr] = after[i] - before[i]
		}
		if viaTable {
			deltas["(given to Table.Dispatch)"] = 1
		}
		v.res.Violate("not-exactly-one", fmt.Sprintf("one line for %q: the destinations' hand-off counters moved by %d in total (per destination %v), expected exactly one destination to account for it", name, sum, deltas),
			u.witness(map[string]interface{}{"name": string(name), "name_hex": hex.EncodeToString(name), "deltas": deltas}))
		return -1
	}
	return hit
}

// verify observes the owner of every name on the route as it is now. It returns the observed owner
// ids (index into c.All; -1 unknown) from the white-box path for all names and from the one-by-one
// black-box path for the sample.
func (v *verifier) verify(u *routeUnderTest, wbNames, bbNames int, sample []int, what string) (wb []int32, bb map[int]int32) {
	c := u.c
	u.refreshKeys()
	ring := oracle.NewRing(nodesOf(c, u.cur))
	n := len(c.names)
	pred := make([]int, n) // index in route order
	for i := range c.names {
		pred[i] = ring.GetPos(c.pos[i])
	}
	keyToIdx := map[string]int{}
	for i, k := range u.dkeys {
		keyToIdx[k] = i
	}
	mismatch := func(path string, ni int, got int) {
		sig := "wrong-destination"
		if strings.Contains(path, "accessor") {
			sig = "hasher-wrong-destination"
		}
		nm := c.names[ni]
		gotAddr := "?"
		if got >= 0 && got < len(u.cur) {
			gotAddr = c.All[u.cur[got]].Addr
		}
		v.res.Violate(sig, fmt.Sprintf("%s, %s: %q (ring position %d) is handled by %s, carbon's ring over the same (host, instance) set gives %s",
			what, path, nm, oracle.RingPosition(nm), gotAddr, c.All[u.cur[pred[ni]]].Addr),
			u.witness(map[string]interface{}{"name": string(nm), "name_hex": hex.EncodeToString(nm), "position": oracle.RingPosition(nm),
				"observed": gotAddr, "expected": c.All[u.cur[pred[ni]]].Addr, "observed_by": path, "ring_nodes": fmt.Sprint(ring.Nodes)}))
	}

	// white-box, all names
	wb = make([]int32, n)
	for i := range wb {
		wb[i] = -1
	}
	if wbNames > n {
		wbNames = n
	}
	if !haveAccessor {
		// built without the white-box accessor (it does not compile against this tree): the counter paths decide alone
		wbNames = 0
	}
	for i, nm := range c.names[:wbNames] {
		idx, dkey, nd, ok := hashDestination(u.rt, nm)
		if !ok {
			panic("route under test is not a consistentHashing route")
		}
		if nd != len(u.cur) {
			v.res.Violate("destination-count", fmt.Sprintf("%s: route has %d destinations, %d expected", what, nd, len(u.cur)), u.witness(nil))
			return wb, nil
		}
		j, known := keyToIdx[dkey]
		if !known {
			v.res.Violate("hasher-wrong-destination", fmt.Sprintf("%s, hasher: %q -> destination index %d (key %q) which is not one of the route's destinations", what, nm, idx, dkey),
				u.witness(map[string]interface{}{"name": string(nm)}))
			continue
		}
		wb[i] = int32(u.cur[j])
		if j != pred[i] {
			mismatch("route's hasher (accessor)", i, j)
		}
	}
	v.res.Count("whitebox_lookups", wbNames)

	// black-box, grouped by predicted destination
	if bbNames > n {
		bbNames = n
	}
	groups := make([][]int, len(u.cur))
	for i := 0; i < bbNames; i++ {
		groups[pred[i]] = append(groups[pred[i]], i)
	}
	for g, members := range groups {
		if len(members) == 0 {
			continue
		}
		before := u.counters()
		for _, ni := range members {
			u.send(c.names[ni], c.plainOK[ni])
		}
		var after []int64
		var sum int64
		for step := 0; step < 50; step++ {
			u.settle()
			after = u.counters()
			sum = 0
			for i := range after {
				sum += after[i] - before[i]
			}
			if sum >= int64(len(members)) {
				break
			}
			runtime.Gosched()
		}
		v.res.Count("lines_dispatched_grouped", len(members))
		okGroup := sum == int64(len(members))
		for i := range after {
			want := int64(0)
			if i == g {
				want = int64(len(members))
			}
			if after[i]-before[i] != want {
				okGroup = false
			}
		}
		if okGroup {
			v.res.Count("lines_attributed_grouped", len(members))
			continue
		}
		deltas := map[string]int64{}
		for i := range after {
			deltas[c.All[u.cur[i]].Addr] = after[i] - before[i]
		}
		if sum != int64(len(members)) {
			if sum < int64(len(members)) && u.anyOnline() {
				v.res.Inconclusive(fmt.Sprintf("case %d: a destination of route %s came online (something listens on a port chosen as refusing)", c.Index, u.key))
				continue
			}
			v.res.Violate("not-exactly-one", fmt.Sprintf("%s: %d lines dispatched, the destinations' hand-off counters moved by %d in total (%v)", what, len(members), sum, deltas),
				u.witness(map[string]interface{}{"deltas": deltas, "lines": len(members)}))
		}
		// narrow the group down by halves (grouped sends), then one line at a time for the witness
		found := 0
		cand := members
		for len(cand) > 16 {
			half := cand[:len(cand)/2]
			b0 := u.counters()
			for _, ni := range half {
				u.send(c.names[ni], c.plainOK[ni])
			}
			u.settle()
			a0 := u.counters()
			clean := true
			for i := range a0 {
				want := int64(0)
				if i == g {
					want = int64(len(half))
				}
				if a0[i]-b0[i] != want {
					clean = false
				}
			}
			if clean {
				cand = cand[len(cand)/2:]
			} else {
				cand = half
			}
		}
		for _, ni := range cand {
			got := v.sendOne(u, ni)
			if got >= 0 && got != g {
				mismatch("hand-off counters (one line at a time)", ni, got)
				found++
			}
		}
		if found == 0 && sum == int64(len(members)) {
			v.res.Violate("wrong-destination", fmt.Sprintf("%s: a group of %d names predicted for %s was counted as %v, but no single name reproduced it", what, len(members), c.All[u.cur[g]].Addr, deltas),
				u.witness(map[string]interface{}{"deltas": deltas}))
		}
	}

	// black-box, one line at a time
	bb = map[int]int32{}
	for _, ni := range sample {
		got := v.sendOne(u, ni)
		if got < 0 {
			continue
		}
		bb[ni] = int32(u.cur[got])
		if got != pred[ni] {
			mismatch("hand-off counters (one line at a time)", ni, got)
		}
	}
	// the same through Table.Dispatch: names carrying the route's prefix, so other names than above
	if u.viaTab {
		k := 0
		for _, ni := range sample {
			if !c.plainOK[ni] || k >= 40 {
				continue
			}
			k++
			nm := append([]byte(c.prefix()), c.names[ni]...)
			want := ring.Get(nm)
			got := v.sendOneName(u, nm, true)
			v.res.Count("lines_attributed_through_table_dispatch", 1)
			if got >= 0 && got != want {
				v.res.Violate("wrong-destination", fmt.Sprintf("%s, Table.Dispatch + hand-off counters: %q (ring position %d) is handled by %s, carbon's ring over the same (host, instance) set gives %s",
					what, nm, oracle.RingPosition(nm), c.All[u.cur[got]].Addr, c.All[u.cur[want]].Addr),
					u.witness(map[string]interface{}{"name": string(nm), "position": oracle.RingPosition(nm), "observed": c.All[u.cur[got]].Addr, "expected": c.All[u.cur[want]].Addr, "observed_by": "Table.Dispatch + hand-off counters"}))
			}
		}
	}
	return wb, bb
}

func (v *verifier) runCase(c *rcase, tab *table.Table, p params) {
	bbFirst, bbOther, nSample := p.bbFirst, p.bbOther, p.nSample
	res := v.res
	// sample for one-by-one attribution: targeted names first, then random ones
	var sample []int
	rs := mon.NewRng(mon.Seed(), 151, uint64(c.Index))
	for i := 0; i < c.nTarget && len(sample) < nSample*2/3; i++ {
		sample = append(sample, i)
	}
	for len(sample) < nSample && len(sample) < len(c.names) {
		sample = append(sample, c.nTarget+rs.Intn(len(c.names)-c.nTarget))
	}

	var refWB []int32
	var refBB map[int]int32
	var refOrder []int
	var u *routeUnderTest
	var lastWB []int32
	var lastBB map[int]int32
	for pi, perm := range c.Perms {
		key := fmt.Sprintf("c15c%dp%d", c.Index, pi)
		// the first listing order goes through the admin command; the others call the constructors the
		// command itself ends in (the command tokenizer costs ~0.5 s CPU per route under -race)
		viaCommand := pi == 0
		rt := buildRoute(tab, c, key, perm, viaCommand)
		if viaCommand {
			res.Count("routes_built_by_admin_command", 1)
		}
		u = &routeUnderTest{c: c, key: key, tab: tab, rt: rt, cur: append([]int(nil), perm...), viaTab: pi <= 1}
		res.Count("routes_built", 1)
		bbN, wbN := bbOther, p.wbOther
		if pi == 0 {
			bbN = bbFirst
		}
		if pi == 0 || pi == len(c.Perms)-1 {
			wbN = len(c.names)
		}
		wb, bb := v.verify(u, wbN, bbN, sample, fmt.Sprintf("listing order %d of %d", pi+1, len(c.Perms)))
		lastWB, lastBB = wb, bb
		if pi == 0 {
			refWB, refBB, refOrder = wb, bb, perm
		} else {
			res.Count("listing_orders_compared", 1)
			report := func(ni int, a, b int32, path string) {
				nm := c.names[ni]
				sig := "order-dependent"
				if strings.Contains(path, "accessor") {
					sig = "hasher-order-dependent"
				}
				res.Violate(sig, fmt.Sprintf("%q goes to %s when the destinations are listed as %v and to %s when listed as %v (%s)",
					nm, c.All[a].Addr, c.describe(refOrder), c.All[b].Addr, c.describe(perm), path),
					u.witness(map[string]interface{}{"name": string(nm), "position": oracle.RingPosition(nm), "order_a": c.describe(refOrder), "order_b": c.describe(perm), "owner_a": c.All[a].Addr, "owner_b": c.All[b].Addr, "observed_by": path}))
			}
			for ni := range wb {
				if wb[ni] >= 0 && refWB[ni] >= 0 && wb[ni] != refWB[ni] {
					report(ni, refWB[ni], wb[ni], "route's hasher (accessor)")
				}
			}
			for ni, b := range bb {
				if a, ok := refBB[ni]; ok && a != b {
					report(ni, a, b, "hand-off counters")
				}
			}
		}
		if pi != len(c.Perms)-1 {
			delRoute(tab, key)
		}
	}

	// add/remove sequence on the last route
	prevWB, prevBB := lastWB, lastBB // the last route's own observation is the baseline
	moved := 0
	for si, m := range c.Muts {
		spec := c.All[m.ID]
		what := fmt.Sprintf("after step %d of the add/remove sequence (%s %s)", si+1, m.Kind, spec.Addr)
		if m.Kind == "add" {
			d := newDestination(tab, u.key, spec.Addr, si == 0)
			adder, ok := u.rt.(interface {
				Add(*destination.Destination)
			})
			if !ok {
				panic("consistentHashing route offers no Add method")
			}
			adder.Add(d)
			u.cur = append(u.cur, m.ID)
			res.Count("add_steps", 1)
		} else {
			k := -1
			for i, id := range u.cur {
				if id == m.ID {
					k = i
				}
			}
			tabMu.RLock()
			err := tab.DelDestination(u.key, k) // the operator's path (web UI): table -> route
			tabMu.RUnlock()
			if err != nil {
				res.Violate("del-error", fmt.Sprintf("DelDestination(%d) on a route with %d destinations: %v", k, len(u.cur), err), u.witness(nil))
				break
			}
			u.cur = append(append([]int(nil), u.cur[:k]...), u.cur[k+1:]...)
			res.Count("del_steps", 1)
		}
		wb, bb := v.verify(u, len(c.names), p.bbMut, sample, what)
		check := func(ni int, before, after int32, path string) {
			if before < 0 || after < 0 {
				return
			}
			pre := ""
			if strings.Contains(path, "accessor") {
				pre = "hasher-"
			}
			nm := c.names[ni]
			if m.Kind == "add" {
				if after != before {
					moved++
					if int(after) != m.ID {
						res.Violate(pre+"moved-on-add", fmt.Sprintf("%s: %q moved from %s to %s, which is not the destination that was added (%s)", what, nm, c.All[before].Addr, c.All[after].Addr, path),
							u.witness(map[string]interface{}{"name": string(nm), "position": oracle.RingPosition(nm), "before": c.All[before].Addr, "after": c.All[after].Addr, "step": si + 1, "observed_by": path}))
					}
				}
			} else {
				if int(before) != m.ID && after != before {
					res.Violate(pre+"moved-on-del", fmt.Sprintf("%s: %q was on %s (not the removed destination) and moved to %s (%s)", what, nm, c.All[before].Addr, c.All[after].Addr, path),
						u.witness(map[string]interface{}{"name": string(nm), "position": oracle.RingPosition(nm), "before": c.All[before].Addr, "after": c.All[after].Addr, "step": si + 1, "observed_by": path}))
				}
				if int(before) == m.ID {
					moved++
				}
			}
		}
		for ni := range wb {
			check(ni, prevWB[ni], wb[ni], "route's hasher (accessor)")
		}
		for ni, a := range bb {
			if b, ok := prevBB[ni]; ok {
				check(ni, b, a, "hand-off counters")
			}
		}
		prevWB, prevBB = wb, bb
	}
	res.Count("keys_moved_by_add_or_remove", moved)
	delRoute(tab, u.key)

	// non-triviality of the case, judged on the oracle's view of what was sent
	ring := oracle.NewRing(nodesOf(c, c.Perms[0]))
	owners := map[int]bool{}
	onEntry, wrapped, tied := 0, 0, 0
	entryPos := map[uint16]bool{}
	for _, e := range ring.Entries {
		entryPos[e.Pos] = true
	}
	tiePos := map[uint16]bool{}
	for _, p := range ring.TiedPositions() {
		tiePos[p] = true
	}
	last := ring.Entries[len(ring.Entries)-1].Pos
	for ni := range c.names {
		p := c.pos[ni]
		owners[ring.GetPos(p)] = true
		if entryPos[p] {
			onEntry++
		}
		if p > last {
			wrapped++
		}
		if tiePos[p] {
			tied++
		}
	}
	res.Count("names_exactly_on_a_ring_entry", onEntry)
	res.Count("names_wrapping_past_last_entry", wrapped)
	res.Count("names_on_a_position_shared_by_two_destinations", tied)
	if len(tiePos) > 0 {
		res.Count("rings_with_position_ties_between_destinations", 1)
	}
	if len(owners) == len(c.Perms[0]) && onEntry > 0 && wrapped > 0 && len(c.Perms) >= 2 && moved > 0 {
		reprs := []string{}
		for _, n := range ring.Nodes {
			reprs = append(reprs, n.PyRepr())
		}
		sort.Strings(reprs)
		res.NonTrivial(strings.Join(reprs, ",") + fmt.Sprint(c.Muts))
	}
}

// ---------------------------------------------------------------- python cross-check of the oracle

type pyRing struct {
	Nodes [][]interface{} `json:"nodes"`
	Ops   [][]interface{} `json:"ops"`
	Names []string        `json:"names"`
	c     *rcase
}

func pyNode(n oracle.RingNode) []interface{} {
	if n.HasInstance {
		return []interface{}{n.Host, n.Instance}
	}
	return []interface{}{n.Host, nil}
}

// crossCheck runs py/carbon_ring.py on the given cases (first nNames names each) and compares every
// answer with the Go oracle. Returns the number of lookups compared; panics on disagreement.
func crossCheck(cases []*rcase, nNames int) int {
	type req struct {
		Rings []pyRing `json:"rings"`
	}
	var rq req
	for _, c := range cases {
		pr := pyRing{c: c}
		// python numbers nodes in order of first appearance: listing order first, then additions
		first := c.Perms[len(c.Perms)-1]
		for _, id := range first {
			pr.Nodes = append(pr.Nodes, pyNode(c.All[id].Node))
		}
		for _, m := range c.Muts {
			pr.Ops = append(pr.Ops, []interface{}{m.Kind, pyNode(c.All[m.ID].Node)})
		}
		k := nNames
		if k > len(c.names) {
			k = len(c.names)
		}
		for _, nm := range c.names[:k] {
			pr.Names = append(pr.Names, hex.EncodeToString(nm))
		}
		rq.Rings = append(rq.Rings, pr)
	}
	in, _ := json.Marshal(rq)
	cmd := exec.Command("python3", filepath.Join(os.Getenv("VERIF_DIR"), "py", "carbon_ring.py"))
	if os.Getenv("VERIF_DIR") == "" {
		cmd = exec.Command("python3", "/verif/py/carbon_ring.py")
	}
	cmd.Stdin = bytes.NewReader(in)
	var stderr bytes.Buffer
	cmd.Stderr = &stderr
	out, err := cmd.Output()
	if err != nil {
		panic(fmt.Sprintf("py/carbon_ring.py failed: %v\n%s", err, stderr.String()))
	}
	var resp struct {
		Rings []struct {
			Steps [][]int `json:"steps"`
		} `json:"rings"`
	}
	if err := json.Unmarshal(out, &resp); err != nil {
		panic("py/carbon_ring.py: bad output: " + err.Error())
	}
	if len(resp.Rings) != len(rq.Rings) {
		panic("py/carbon_ring.py: wrong number of rings in the answer")
	}
	compared := 0
	for ri, pr := range rq.Rings {
		c := pr.c
		// python's node numbering -> id in c.All
		pyIDs := append([]int(nil), c.Perms[len(c.Perms)-1]...)
		have := map[int]bool{}
		for _, id := range pyIDs {
			have[id] = true
		}
		for _, m := range c.Muts {
			if !have[m.ID] {
				have[m.ID] = true
				pyIDs = append(pyIDs, m.ID)
			}
		}
		cur := append([]int(nil), c.Perms[len(c.Perms)-1]...)
		steps := resp.Rings[ri].Steps
		if len(steps) != len(c.Muts)+1 {
			panic("py/carbon_ring.py: wrong number of steps")
		}
		for s := 0; s <= len(c.Muts); s++ {
			if s > 0 {
				m := c.Muts[s-1]
				if m.Kind == "add" {
					cur = append(cur, m.ID)
				} else {
					for k, id := range cur {
						if id == m.ID {
							cur = append(append([]int(nil), cur[:k]...), cur[k+1:]...)
							break
						}
					}
				}
			}
			// the Go oracle is fed the nodes in a shuffled order: it must not matter
			sh := append([]int(nil), cur...)
			rr := mon.NewRng(mon.Seed(), 152, uint64(c.Index*16+s))
			for i := len(sh) - 1; i > 0; i-- {
				j := rr.Intn(i + 1)
				sh[i], sh[j] = sh[j], sh[i]
			}
			ring := oracle.NewRing(nodesOf(c, sh))
			for ni := range pr.Names {
				goID := sh[ring.Get(c.names[ni])]
				pyID := pyIDs[steps[s][ni]]
				if goID != pyID {
					panic(fmt.Sprintf("oracle/ring.go disagrees with py/carbon_ring.py: case %d step %d nodes %v name %q: go=%v python=%v",
						c.Index, s, ring.Nodes, c.names[ni], c.All[goID].Node, c.All[pyID].Node))
				}
				compared++
			}
		}
	}
	return compared
}

// ---------------------------------------------------------------- main

func main() {
	res := mon.NewResult("C15")
	res.Rule = "one case = a set of 2..12 destinations 127.x.y.z[:port[:instance]] with distinct (host, instance) pairs (few shared hosts told apart by instance, or many hosts), built as a real consistentHashing route in every listing order (<=4 destinations) or 4-5 orders (more), then an add/remove sequence of 1..6 steps (down to 1, up to 12 destinations, re-adding removed ones); names: targeted ones found with the oracle (on/around ring positions shared by two destinations, on entry positions, wrap-around, pairs colliding on one 16-bit position, exotic bytes) plus random ones; non-trivial = every destination owned a name AND a name sat exactly on an entry position AND a name wrapped past the last entry AND >=2 listing orders compared AND a membership change moved a key; distinct = different destination set or add/remove sequence; concurrent phase (counted separately, concurrent_*): on every 4th/5th ring 8 goroutines call Route.Dispatch at the same time with groups of names that collide modulo 65536 on cheap hashes and belong to different destinations, then with a few thousand names, and the per-destination hand-off totals must be those of the oracle"
	res.Assume("a destination that cannot connect, with spool=false, counts every line it is handed exactly once in its conn_down_no_spool counter, after the hand-off and before it serves a later Flush (read in destination.relay)")
	res.Assume("py/carbon_ring.py is a faithful transcription of carbon 0.9.x hashing.py; Python 2's None-before-everything order is supplied explicitly because CPython 3 runs it")
	res.Assume("carbon-relay.py uses the ring with REPLICATION_FACTOR=1 and nodes (server, instance); ports are not part of a node")
	mon.InitRepo()
	buildPosIdx()

	nCases := mon.N(40, 250)
	nNames := mon.N(5000, 20000)
	p := params{
		bbFirst: mon.N(4000, 10000), // grouped black-box lines on the first listing order
		bbOther: mon.N(400, 1000),   // ... on every other listing order
		bbMut:   mon.N(1200, 3000),  // ... after every add/remove step
		wbOther: mon.N(2000, 5000),  // accessor lookups on the listing orders between the first and the last (all names on those two and after every step)
		nSample: mon.N(40, 80),      // lines attributed one at a time per route state
	}
	pyEvery := mon.N(1, 10)
	pyNames := mon.N(600, 600)

	var mine []int
	for i := 0; i < nCases; i++ {
		if mon.Mine(i) {
			mine = append(mine, i)
		}
	}

	// python cross-check of the reference, concurrently with the run
	pyDone := make(chan int, 1)
	go func() {
		var sel []*rcase
		for _, i := range mine {
			if i%pyEvery == 0 {
				sel = append(sel, genCase(mon.Seed(), i, pyNames))
			}
		}
		total := 0
		for lo := 0; lo < len(sel); lo += 50 {
			hi := lo + 50
			if hi > len(sel) {
				hi = len(sel)
			}
			total += crossCheck(sel[lo:hi], pyNames)
		}
		pyDone <- total
	}()

	workers := runtime.NumCPU() - 2
	if workers > 12 {
		workers = 12
	}
	if _, k := mon.Shard(); k > 1 { // should the driver ever shard this check: share the cores
		workers = workers / k
	}
	if workers < 2 {
		workers = 2
	}
	// a worker and the relay loops it hands lines to ping-pong on unbuffered channels: with no idle
	// P around, the hand-off stays on the worker's P instead of waking another thread
	runtime.GOMAXPROCS(workers)
	jobs := make(chan int)
	tab := mon.NewTable("", "", false, filepath.Join(mon.Scratch(), "c15-spool")) // one real table shared by all workers
	var wg sync.WaitGroup
	var sampleMu sync.Mutex
	sampled := 0
	for w := 0; w < workers; w++ {
		wg.Add(1)
		go func(w int) {
			defer wg.Done()
			v := &verifier{res: res}
			for i := range jobs {
				c := genCase(mon.Seed(), i, nNames)
				res.LogCase("case %d destinations=%v orders=%d mutations=%v names=%d", i, c.describe(c.Perms[0]), len(c.Perms), c.Muts, len(c.names))
				v.runCase(c, tab, p)
				res.Eval(1)
				res.Count("rings", 1)
				sampleMu.Lock()
				if sampled < 4 {
					sampled++
					muts := []string{}
					for _, m := range c.Muts {
						muts = append(muts, m.Kind+" "+c.All[m.ID].Addr)
					}
					res.Sample(map[string]interface{}{"case": i, "destinations": c.describe(c.Perms[0]), "listing_orders": len(c.Perms), "add_remove": muts, "names": len(c.names), "targeted_names": c.nTarget})
				}
				sampleMu.Unlock()
			}
		}(w)
	}
	for _, i := range mine {
		jobs <- i
	}
	close(jobs)
	wg.Wait()

	// concurrent phase (concurrent.go): one ring at a time, nDisp dispatchers on the same route
	cp := concParams{
		gp:              buildGroupPool(mon.NewRng(mon.Seed(), 154, 0), 30000),
		perHash:         mon.N(2, 3),
		rounds:          mon.N(256, 512),
		wbRounds:        mon.N(1024, 2048),
		manyNames:       mon.N(3000, 6000),
		manyPerDispatch: mon.N(3000, 12000),
	}
	concEvery := mon.N(4, 5) // every 4th (5th) ring: 10 (50) rings
	if procs := runtime.NumCPU(); procs > workers {
		runtime.GOMAXPROCS(procs) // the dispatchers and the relay loops they hand lines to run side by side
	}
	nConc := 0
	tConc := time.Now()
	for _, i := range mine {
		if i%concEvery != 0 {
			continue
		}
		c := genCase(mon.Seed(), i, cp.manyNames+1000)
		res.LogCase("case %d concurrent phase: %d dispatchers, destinations=%v mutations=%v (applied first when %d is odd)", i, nDisp, c.describe(c.Perms[0]), c.Muts, nConc)
		(&verifier{res: res}).runConcurrent(c, tab, nConc, cp)
		nConc++
	}
	res.Set("concurrent_phase_wall_ms", int(time.Since(tConc).Milliseconds()))
	res.Floor("concurrent_rings", nConc, nCases/concEvery)
	ca, _ := res.Extra["concurrent_lines_attributed"].(int)
	res.Floor("concurrent_lines_attributed", ca, (nCases/concEvery)*nDisp*cp.manyPerDispatch)

	n := <-pyDone
	res.Count("oracle_lookups_crosschecked_with_cpython", n)
	res.Floor("oracle_lookups_crosschecked_with_cpython", n, 1)
	res.Floor("rings", len(mine), nCases)
	g, _ := res.Extra["lines_attributed_grouped"].(int)
	o, _ := res.Extra["lines_attributed_one_by_one"].(int)
	res.Floor("lines_attributed_blackbox", g+o, nCases*(p.bbFirst+p.bbOther+p.bbMut))
	res.Write()
}
