// C15, concurrent phase — the destination of a name must not depend on what other connection
// handlers dispatch at the same moment.
//
// Route.Dispatch is called from the goroutine of every input connection. The property names two
// inputs for the choice of the destination, the metric name and the configured (host, instance)
// set; "what another goroutine is looking up right now" is not one of them. For some rings of the
// run, after the single-dispatcher part, nDisp goroutines send through the real route's Dispatch at
// the same time:
//
//	collision groups   2..8 names that collide modulo 65536 (hence also modulo 4096, 1024, 256, …)
//	                   on a cheap non-cryptographic hash of the name (FNV-1a/FNV-1 64 and 32, CRC-32,
//	                   djb2, the Java string hash) and that carbon's ring puts on pairwise different
//	                   destinations: whatever small table keyed by such a hash sits in front of the
//	                   ring search sees all of them in one slot. Every dispatcher keeps sending one
//	                   name of the group (or rotates through them); the dispatchers start together
//	                   and meet again every 64 lines, so that they stay side by side even when the
//	                   machine is loaded (measured: meeting before every line costs 10x the time
//	                   and shows no more than this does).
//	many names         the dispatchers cycle, unsynchronised, through a few thousand names from
//	                   different offsets (any direct-mapped table of a few thousand slots sees
//	                   collisions; the race detector sees unordered accesses).
//
// Oracle: the multiset each phase sends is fixed beforehand, so oracle/ring gives the number of
// lines every destination must account for; at quiescence (all dispatchers returned, then
// Route.Flush, which every relay loop serves after the lines handed to it before) the deltas of the
// per-destination hand-off counters must be exactly those numbers. No deadline is involved.
// With the accessor overlay the same groups are also looked up concurrently through the route's own
// hasher, which attributes every single lookup (hasher-* signature).
package main

import (
	"fmt"
	"hash/crc32"
	"hash/fnv"
	"runtime"
	"sort"
	"strconv"
	"sync"
	"sync/atomic"
	"time"

	"github.com/grafana/carbon-relay-ng/destination"
	"github.com/grafana/carbon-relay-ng/table"

	"verifharness/mon"
	"verifharness/oracle"
)

const (
	nDisp   = 8   // dispatcher goroutines (= input connections delivering at the same time)
	bbBatch = 64  // the dispatchers meet every bbBatch lines
	wbBatch = 256 // ... every wbBatch lookups through the accessor
)

// ---------------------------------------------------------------- cheap hashes

type cheapHash struct {
	Name  string
	low16 func([]byte) uint16
}

var cheapHashes = []cheapHash{
	{"fnv1a-64", func(b []byte) uint16 { h := fnv.New64a(); h.Write(b); return uint16(h.Sum64()) }},
	{"fnv1a-32", func(b []byte) uint16 { h := fnv.New32a(); h.Write(b); return uint16(h.Sum32()) }},
	{"fnv1-64", func(b []byte) uint16 { h := fnv.New64(); h.Write(b); return uint16(h.Sum64()) }},
	{"fnv1-32", func(b []byte) uint16 { h := fnv.New32(); h.Write(b); return uint16(h.Sum32()) }},
	{"crc32", func(b []byte) uint16 { return uint16(crc32.ChecksumIEEE(b)) }},
	{"djb2", func(b []byte) uint16 {
		h := uint32(5381)
		for _, c := range b {
			h = h*33 + uint32(c)
		}
		return uint16(h)
	}},
	{"java31", func(b []byte) uint16 {
		h := uint32(0)
		for _, c := range b {
			h = h*31 + uint32(c)
		}
		return uint16(h)
	}},
}

// cgroup: names that share the low 16 bits of one cheap hash and have pairwise different owners.
type cgroup struct {
	Hash   string
	Low16  uint16
	names  [][]byte
	owners []int // index in route order
}

func (g *cgroup) describe(u *routeUnderTest) []string {
	out := make([]string, len(g.names))
	for i, nm := range g.names {
		out[i] = fmt.Sprintf("%s -> %s", nm, u.c.All[u.cur[g.owners[i]]].Addr)
	}
	return out
}

// groupPool: plain metric names (the same for every ring of the run) and, per cheap hash, the
// buckets (hash mod 65536) that hold at least three of them.
type groupPool struct {
	names [][]byte
	pos   []uint16    // oracle ring position of each name
	runs  [][][]int32 // per hash: buckets, as indices into names
}

func buildGroupPool(r *mon.Rng, size int) *groupPool {
	if size > 65536 {
		panic("buildGroupPool: size")
	}
	words := []string{"cpu.user", "cpu.idle", "mem.free", "disk.used", "net.rx", "net.tx", "load.avg", "gc.pause"}
	gp := &groupPool{names: make([][]byte, size), pos: make([]uint16, size)}
	salt := r.Intn(1 << 20)
	for i := range gp.names {
		gp.names[i] = []byte(fmt.Sprintf("servers.c15x%05x.web%06d.%s", salt, i, words[i%len(words)]))
		gp.pos[i] = oracle.RingPosition(gp.names[i])
	}
	keys := make([]int, size)
	for _, h := range cheapHashes {
		for i, nm := range gp.names {
			keys[i] = int(h.low16(nm))<<16 | i
		}
		sort.Ints(keys)
		var runs [][]int32
		for lo := 0; lo < len(keys); {
			hi := lo
			for hi < len(keys) && keys[hi]>>16 == keys[lo]>>16 {
				hi++
			}
			if hi-lo >= 3 {
				run := make([]int32, 0, hi-lo)
				for _, k := range keys[lo:hi] {
					run = append(run, int32(k&0xffff))
				}
				runs = append(runs, run)
			}
			lo = hi
		}
		gp.runs = append(gp.runs, runs)
	}
	return gp
}

// findGroups picks the collision groups for one ring: per hash the perHash buckets with the most
// different owners (2..nDisp names each, pairwise different owners).
func (gp *groupPool) findGroups(ring *oracle.Ring, r *mon.Rng, perHash int) []cgroup {
	var out []cgroup
	for hi, h := range cheapHashes {
		var cands []cgroup
		for _, run := range gp.runs[hi] {
			g := cgroup{Hash: h.Name, Low16: h.low16(gp.names[run[0]])}
			seen := map[int]bool{}
			for _, i := range run {
				o := ring.GetPos(gp.pos[i])
				if !seen[o] && len(g.names) < nDisp {
					seen[o] = true
					g.names = append(g.names, gp.names[i])
					g.owners = append(g.owners, o)
				}
			}
			if len(g.names) >= 2 {
				cands = append(cands, g)
			}
		}
		// most different owners first; among equals the draw decides
		for i := len(cands) - 1; i > 0; i-- {
			j := r.Intn(i + 1)
			cands[i], cands[j] = cands[j], cands[i]
		}
		sort.SliceStable(cands, func(a, b int) bool { return len(cands[a].names) > len(cands[b].names) })
		if len(cands) > perHash {
			cands = cands[:perHash]
		}
		out = append(out, cands...)
	}
	return out
}

// ---------------------------------------------------------------- releasing the dispatchers together

// barrier: nDisp goroutines meet, the last one to arrive releases the others. Waiting is spinning,
// then yielding, then short sleeps (the machine may be heavily loaded); it only paces the
// dispatchers and decides nothing.
type barrier struct {
	n     int32
	count int32
	gen   uint32
}

func (b *barrier) wait() {
	g := atomic.LoadUint32(&b.gen)
	if atomic.AddInt32(&b.count, 1) == b.n {
		atomic.StoreInt32(&b.count, 0)
		atomic.AddUint32(&b.gen, 1)
		return
	}
	for i := 0; atomic.LoadUint32(&b.gen) == g; i++ {
		switch {
		case i < 256:
		case i < 8192:
			runtime.Gosched()
		default:
			time.Sleep(50 * time.Microsecond)
		}
	}
}

// ---------------------------------------------------------------- the phases

type concParams struct {
	gp              *groupPool
	perHash         int
	rounds          int // lines per dispatcher and group
	wbRounds        int // accessor lookups per goroutine and group
	manyNames       int // names cycled through in the unsynchronised phase
	manyPerDispatch int // lines per dispatcher in the unsynchronised phase
}

func mkLine(name []byte, seq int) []byte {
	line := make([]byte, 0, len(name)+24)
	line = append(line, name...)
	line = append(line, ' ')
	line = strconv.AppendInt(line, int64(seq), 10)
	line = append(line, ' ')
	line = strconv.AppendInt(line, int64(1500000000+seq%1000), 10)
	return line
}

// attribute waits for quiescence (by steps: Route.Flush) and compares the per-destination counter
// deltas with what the oracle predicts for the multiset that was sent. Returns true if they agree.
func (v *verifier) attribute(u *routeUnderTest, before []int64, expect []int64, what string, extra map[string]interface{}) bool {
	var total int64
	for _, e := range expect {
		total += e
	}
	var after []int64
	var sum int64
	for step := 0; step < 50; step++ {
		u.settle()
		after = u.counters()
		sum = 0
		for i := range after {
			sum += after[i] - before[i]
		}
		if sum >= total {
			break
		}
		runtime.Gosched()
	}
	v.res.Count("concurrent_lines_dispatched", int(total))
	ok := sum == total
	for i := range after {
		if after[i]-before[i] != expect[i] {
			ok = false
		}
	}
	if ok {
		v.res.Count("concurrent_lines_attributed", int(total))
		return true
	}
	if sum < total && u.anyOnline() {
		v.res.Inconclusive(fmt.Sprintf("case %d: a destination of route %s came online (something listens on a port chosen as refusing)", u.c.Index, u.key))
		return false
	}
	v.res.Count("concurrent_phases_not_as_oracle", 1)
	got := map[string]int64{}
	want := map[string]int64{}
	for i := range after {
		got[u.c.All[u.cur[i]].Addr] = after[i] - before[i]
		want[u.c.All[u.cur[i]].Addr] = expect[i]
	}
	w := map[string]interface{}{"dispatchers": nDisp, "lines": total, "handed_to": got, "carbon_ring_gives": want}
	for k, x := range extra {
		w[k] = x
	}
	if sum != total {
		v.res.Violate("concurrent-not-exactly-one", fmt.Sprintf("%s: %d dispatchers sent %d lines at the same time, the destinations' hand-off counters moved by %d in total (%v)", what, nDisp, total, sum, got), u.witness(w))
		return false
	}
	v.res.Violate("concurrent-wrong-destination", fmt.Sprintf("%s: %d dispatchers sent %d lines at the same time; lines handed to each destination %v, carbon's ring over the same (host, instance) set gives %v for the names sent (one dispatcher at a time, the same names are routed as carbon does)",
		what, nDisp, total, got, want), u.witness(w))
	return false
}

// groupBB: the dispatchers send the names of one collision group through Route.Dispatch, side by side.
func (v *verifier) groupBB(u *routeUnderTest, g *cgroup, rounds int, rotate bool, what string) {
	m := len(g.names)
	lines := make([][][]byte, nDisp) // per dispatcher, per name: an immutable line of its own
	for w := range lines {
		lines[w] = make([][]byte, m)
		for j := range lines[w] {
			lines[w][j] = mkLine(g.names[j], w*1000+j)
		}
	}
	pick := func(w, t int) int {
		if rotate {
			return (w + t) % m
		}
		return w % m
	}
	expect := make([]int64, len(u.cur))
	for w := 0; w < nDisp; w++ {
		for t := 0; t < rounds; t++ {
			expect[g.owners[pick(w, t)]]++
		}
	}
	before := u.counters()
	bar := &barrier{n: nDisp}
	var wg sync.WaitGroup
	for w := 0; w < nDisp; w++ {
		wg.Add(1)
		go func(w int) {
			defer wg.Done()
			for t := 0; t < rounds; t++ {
				if t%bbBatch == 0 {
					bar.wait()
				}
				u.rt.Dispatch(lines[w][pick(w, t)])
			}
		}(w)
	}
	wg.Wait()
	v.res.Count("concurrent_collision_groups", 1)
	v.res.Count("concurrent_collision_groups_"+g.Hash, 1)
	v.attribute(u, before, expect, what, map[string]interface{}{
		"phase": "collision group", "hash": g.Hash, "hash_mod_65536": g.Low16, "names": g.describe(u), "rounds": rounds, "rotate": rotate})
}

// groupWB: the same group looked up through the route's own hasher (accessor) by nDisp goroutines
// side by side; every answer is compared.
func (v *verifier) groupWB(u *routeUnderTest, g *cgroup, rounds int, what string) {
	m := len(g.names)
	bar := &barrier{n: nDisp}
	var wg sync.WaitGroup
	var mu sync.Mutex
	reported := false
	for w := 0; w < nDisp; w++ {
		wg.Add(1)
		go func(w int) {
			defer wg.Done()
			for t := 0; t < rounds; t++ {
				j := (w + t/16) % m
				if t%wbBatch == 0 {
					bar.wait()
				}
				idx, dkey, _, ok := hashDestination(u.rt, g.names[j])
				if !ok {
					panic("route under test is not a consistentHashing route")
				}
				if dkey == u.dkeys[g.owners[j]] {
					continue
				}
				mu.Lock()
				if !reported {
					reported = true
					gotAddr := fmt.Sprintf("destination index %d (key %q)", idx, dkey)
					for i, k := range u.dkeys {
						if k == dkey {
							gotAddr = u.c.All[u.cur[i]].Addr
						}
					}
					wantAddr := u.c.All[u.cur[g.owners[j]]].Addr
					v.res.Violate("hasher-concurrent-wrong-destination", fmt.Sprintf("%s, route's hasher (accessor) asked by %d goroutines at the same time: %q (ring position %d) is handled by %s, carbon's ring over the same (host, instance) set gives %s (names looked up at the same time: %v)",
						what, nDisp, g.names[j], oracle.RingPosition(g.names[j]), gotAddr, wantAddr, g.describe(u)),
						u.witness(map[string]interface{}{"name": string(g.names[j]), "observed": gotAddr, "expected": wantAddr, "hash": g.Hash, "hash_mod_65536": g.Low16, "names": g.describe(u), "round": t}))
				}
				mu.Unlock()
			}
		}(w)
	}
	wg.Wait()
	v.res.Count("concurrent_hasher_lookups", nDisp*rounds)
}

// manyBB: every dispatcher cycles through the same few thousand names from an offset of its own,
// not synchronised with the others.
func (v *verifier) manyBB(u *routeUnderTest, ring *oracle.Ring, names [][]byte, perDisp int, what string) {
	n := len(names)
	pred := make([]int, n)
	for i, nm := range names {
		pred[i] = ring.Get(nm)
	}
	expect := make([]int64, len(u.cur))
	for w := 0; w < nDisp; w++ {
		for k := 0; k < perDisp; k++ {
			expect[pred[(w*n/nDisp+k)%n]]++
		}
	}
	before := u.counters()
	var wg sync.WaitGroup
	for w := 0; w < nDisp; w++ {
		wg.Add(1)
		go func(w int) {
			defer wg.Done()
			for k := 0; k < perDisp; k++ {
				u.rt.Dispatch(mkLine(names[(w*n/nDisp+k)%n], w*perDisp+k))
			}
		}(w)
	}
	wg.Wait()
	v.attribute(u, before, expect, what, map[string]interface{}{"phase": "many names", "names_cycled": n, "lines_per_dispatcher": perDisp})
}

// applyMuts takes the route through the case's add/remove sequence (as runCase does).
func applyMuts(u *routeUnderTest, tab *table.Table) error {
	for _, m := range u.c.Muts {
		if m.Kind == "add" {
			d := newDestination(tab, u.key, u.c.All[m.ID].Addr, false)
			u.rt.(interface {
				Add(*destination.Destination)
			}).Add(d)
			u.cur = append(u.cur, m.ID)
			continue
		}
		k := -1
		for i, id := range u.cur {
			if id == m.ID {
				k = i
			}
		}
		tabMu.RLock()
		err := tab.DelDestination(u.key, k)
		tabMu.RUnlock()
		if err != nil {
			return err
		}
		u.cur = append(append([]int(nil), u.cur[:k]...), u.cur[k+1:]...)
	}
	return nil
}

// runConcurrent is the concurrent phase for one case. ord alternates what the ring is: the first
// listing order as configured, or the last listing order taken through the add/remove sequence.
func (v *verifier) runConcurrent(c *rcase, tab *table.Table, ord int, p concParams) {
	key := fmt.Sprintf("c15k%d", c.Index)
	perm := c.Perms[0]
	mutated := ord%2 == 1
	if mutated {
		perm = c.Perms[len(c.Perms)-1]
		// the ring after the sequence must still have two destinations to tell apart
		n := len(perm)
		for _, m := range c.Muts {
			if m.Kind == "add" {
				n++
			} else {
				n--
			}
		}
		if n < 2 {
			mutated = false
			perm = c.Perms[0]
		}
	}
	rt := buildRoute(tab, c, key, perm, false)
	u := &routeUnderTest{c: c, key: key, tab: tab, rt: rt, cur: append([]int(nil), perm...)}
	defer delRoute(tab, key)
	state := "as configured"
	if mutated {
		if err := applyMuts(u, tab); err != nil {
			v.res.Violate("del-error", fmt.Sprintf("DelDestination on route %s: %v", key, err), u.witness(nil))
			return
		}
		state = "after the add/remove sequence"
	}
	u.refreshKeys()
	ring := oracle.NewRing(nodesOf(c, u.cur))
	r := mon.NewRng(mon.Seed(), 153, uint64(c.Index))
	groups := p.gp.findGroups(ring, r, p.perHash)
	what := fmt.Sprintf("%d destinations %s, %d dispatchers at the same time", len(u.cur), state, nDisp)
	maxOwners := 0
	for gi := range groups {
		g := &groups[gi]
		if len(g.names) > maxOwners {
			maxOwners = len(g.names)
		}
		v.groupBB(u, g, p.rounds, gi%2 == 1, what)
		if haveAccessor {
			v.groupWB(u, g, p.wbRounds, what)
		}
	}
	nm := c.names
	if len(nm) > p.manyNames {
		nm = nm[len(nm)-p.manyNames:] // the random ones; the targeted ones come first
	}
	v.manyBB(u, ring, nm, p.manyPerDispatch, what)
	v.res.Count("concurrent_rings", 1)
	if mutated {
		v.res.Count("concurrent_rings_after_add_remove", 1)
	}
	if maxOwners >= 4 || maxOwners == len(u.cur) {
		v.res.Count("concurrent_rings_with_group_of_4_owners_or_all", 1)
	}
}
