//go:build noaccess

package main

import "github.com/grafana/carbon-relay-ng/route"

// The driver builds with -tags noaccess (and without the overlay) when the accessor does not compile against the
// tree under test, e.g. after an internal refactoring of the route package. The black-box counter paths remain.
const haveAccessor = false

func hashDestination(rt route.Route, name []byte) (int, string, int, bool) { return -1, "", 0, false }
