// C07 — with spooling on, an endpoint outage loses nothing that is not counted.
//
// A real carbon route (spool=true) sends to a loopback endpoint that follows an
// up/down schedule while a sender hands unique lines to Route.Dispatch before,
// during and after each transition. After the last recovery the backlog is
// awaited (bounded steps on spool backlog + received set). Oracle, per schedule:
//
//	|{handed lines received by no incarnation}|  <=  slow_conn + slow_spool deltas
//	every complete line received is a handed line, byte for byte
//	once the endpoint stays up the backlog drains (backlog 0, nothing owed)
//
// Duplicates are legal (at-least-once), order is not required. Tag-guarded hook
// points in the destination inject seeded 0-3 ms scheduling delays between the
// conn writer's dequeue and its keep-safe insertion, before the redo collector
// empties keep-safe, and after a dead connection is detected, so the hand-over
// between conn writer, redo collector and spool writer is interleaved on every
// run instead of once in a million.
package main

import (
	"bytes"
	"fmt"
	"os"
	"path/filepath"
	"strings"
	"sync"
	"sync/atomic"
	"time"

	"github.com/grafana/carbon-relay-ng/destination"

	"verifharness/mon"
)

type step struct {
	Op    string `json:"op"` // "up", "down", "send"
	Lines int    `json:"lines,omitempty"`
	// for "down": whether the sender keeps sending while the endpoint goes down
}

type ccase struct {
	Index      int    `json:"index"`
	Schedule   string `json:"schedule"`
	Abortive   bool   `json:"abortive_close"`
	Reconn     int    `json:"reconn_ms"`
	Flush      int    `json:"flush_ms"`
	ConnBuf    int    `json:"connbuf"`
	IoBuf      int    `json:"iobuf"`
	SpoolBuf   int    `json:"spoolbuf"`
	SyncEvery  int    `json:"spoolsyncevery"`
	SpoolSleep int    `json:"spoolsleep_us"`
	Unspool    int    `json:"unspoolsleep_us"`
	PerPhase   int    `json:"lines_per_phase"`
	PaceEvery  int    `json:"pace_every"`
	HookDelay  bool   `json:"hook_delays"`
	// Aligned: fixed-width lines and a spool segment limit that is a multiple of the record size, so that
	// records end exactly on the segment limit (the disk queue's rollover boundary)
	Aligned  bool `json:"aligned_records"`
	MaxBytes int  `json:"spoolmaxbytesperfile"`
}

// schedules: U = endpoint up, D = down; traffic flows during every letter and across every transition.
var schedules = []string{"DU", "UDU", "UDUDU", "DDU", "UDuDU", "UDUU", "DUDU", "UDDU"}

func gen(idx int) ccase {
	r := mon.NewRng(mon.Seed(), 7, uint64(idx))
	c := ccase{Index: idx, Schedule: schedules[idx%len(schedules)]}
	c.Abortive = r.Bool()
	c.Reconn = r.PickInt([]int{20, 50, 200})
	c.Flush = r.PickInt([]int{5, 20, 50})
	c.ConnBuf = r.PickInt([]int{100, 1000, 30000})
	c.IoBuf = r.PickInt([]int{256, 4096, 2000000})
	c.SpoolBuf = r.PickInt([]int{100, 10000})
	c.SyncEvery = r.PickInt([]int{10, 1000, 10000})
	c.SpoolSleep = r.PickInt([]int{0, 10, 100})
	c.Unspool = r.PickInt([]int{0, 10, 100})
	c.PerPhase = mon.N(2500, 6000)
	c.PaceEvery = r.PickInt([]int{20, 50, 200})
	c.HookDelay = !r.Chance(1, 5)
	c.MaxBytes = 200000
	if r.Chance(1, 3) {
		c.Aligned = true
	}
	return c
}

// ---- hook delays ------------------------------------------------------------

var (
	hookMu     sync.Mutex
	hookRng    = mon.NewRng(mon.Seed(), 77, 0)
	hookOn     int32
	lastOutage int64 // unix nano of the last endpoint Down()
	lastGetAll int64 // unix nano of the last time a connection's keep-safe buffer was about to be collected
	hookFired  = map[string]int{}
	hookSlept  = map[string]int{}
)

func hook(p string) {
	if p == "getredo-before-getall" {
		atomic.StoreInt64(&lastGetAll, time.Now().UnixNano())
	}
	hookMu.Lock()
	hookFired[p]++
	if atomic.LoadInt32(&hookOn) == 0 {
		hookMu.Unlock()
		return
	}
	var d time.Duration
	recent := time.Now().UnixNano()-atomic.LoadInt64(&lastOutage) < int64(150*time.Millisecond)
	switch p {
	case "handledata-dequeued":
		if recent {
			d = time.Duration(hookRng.Range(0, 3000)) * time.Microsecond
		} else if hookRng.Chance(1, 200) {
			d = time.Duration(hookRng.Range(0, 2000)) * time.Microsecond
		}
	case "getredo-start", "getredo-before-getall", "relay-conn-dead", "collectredo-start":
		d = time.Duration(hookRng.Range(0, 3000)) * time.Microsecond
	}
	if d > 0 {
		hookSlept[p]++
	}
	hookMu.Unlock()
	if d > 0 {
		time.Sleep(d)
	}
}

// ---- one case ----------------------------------------------------------------

func runCase(res *mon.Result, c ccase, dir string) {
	os.RemoveAll(dir)
	os.MkdirAll(dir, 0755)
	defer os.RemoveAll(dir)
	mode := mon.Mode{Abortive: c.Abortive}
	startUp := c.Schedule[0] == 'U'
	var ep *mon.Endpoint
	if startUp {
		ep = mon.NewEndpoint(mode)
	} else {
		ep = mon.NewEndpointDown(mode)
	}
	defer ep.Close()
	t := mon.NewTable("none", "none", false, dir)
	if c.Aligned {
		lineLen := len(fmt.Sprintf("c07.%d.m%07d %07d %d", c.Index, 1, 1, 1600000000))
		c.MaxBytes = (4 + lineLen) * (3 + c.Index%40) // every k-th record ends exactly on the segment limit
	}
	key := fmt.Sprintf("c07r%ds%d", c.Index, mon.Seed())
	cmd := fmt.Sprintf("addRoute sendAllMatch %s  %s spool=true flush=%d reconn=%d connbuf=%d iobuf=%d spoolbuf=%d spoolsyncevery=%d spoolsyncperiod=200 spoolsleep=%d unspoolsleep=%d spoolmaxbytesperfile=%d",
		key, ep.Addr, c.Flush, c.Reconn, c.ConnBuf, c.IoBuf, c.SpoolBuf, c.SyncEvery, c.SpoolSleep, c.Unspool, c.MaxBytes)
	w := map[string]interface{}{"case": c, "route_cmd": cmd}
	if err := mon.Apply(t, cmd); err != nil {
		res.Violate("harness-setup", err.Error(), w)
		return
	}
	rt := t.GetRoute(key)
	dest, _ := rt.GetDestination(0)
	dkey := mon.DestKey(key, ep.Addr)
	d := mon.NewDeltas(mon.KeyDestDropSlowConn(dkey), mon.KeyDestDropSlowSpool(dkey), mon.KeyDestDropNoConn(dkey))
	lag := startLag()
	lagStopped := false
	defer func() {
		if !lagStopped {
			lag.Stop()
		}
	}()
	if c.HookDelay {
		atomic.StoreInt32(&hookOn, 1)
	} else {
		atomic.StoreInt32(&hookOn, 0)
	}
	if startUp {
		if !mon.ProbeOnline(rt.Dispatch, ep, fmt.Sprintf("c07.%d", c.Index), 600) {
			res.Inconclusive(fmt.Sprintf("case %d: destination never came online", c.Index))
			t.DelRoute(key)
			return
		}
	}
	// sender
	var seq int64
	prefix := fmt.Sprintf("c07.%d.", c.Index)
	sendN := func(n int) {
		for i := 0; i < n; i++ {
			id := atomic.AddInt64(&seq, 1)
			line := []byte(fmt.Sprintf("%sm%d %d %d", prefix, id, id, 1600000000+id%50000))
			if c.Aligned {
				line = []byte(fmt.Sprintf("%sm%07d %07d %d", prefix, id, id, 1600000000+id%50000))
			}
			rt.Dispatch(line)
			if i%c.PaceEvery == 0 {
				time.Sleep(200 * time.Microsecond)
			}
		}
	}
	// walk the schedule: traffic during every state, transitions in the middle of traffic
	up := startUp
	outages := 0
	for i := 0; i < len(c.Schedule); i++ {
		want := c.Schedule[i] == 'U' || c.Schedule[i] == 'u'
		var wg sync.WaitGroup
		wg.Add(1)
		go func() { defer wg.Done(); sendN(c.PerPhase) }()
		// flip the endpoint while the sender is busy
		if want != up {
			time.Sleep(time.Duration(2+i) * time.Millisecond)
			if want {
				ep.Up()
			} else {
				atomic.StoreInt64(&lastOutage, time.Now().UnixNano())
				ep.Down()
				outages++
			}
			up = want
		}
		wg.Wait()
		if c.Schedule[i] == 'u' {
			// a short recovery: go down again while the spool is being replayed
			time.Sleep(time.Duration(c.Reconn+30) * time.Millisecond)
		} else if up {
			time.Sleep(time.Duration(c.Reconn) * time.Millisecond)
		}
	}
	handed := int(atomic.LoadInt64(&seq))
	// the endpoint now stays up: wait for the backlog to drain (bounded steps)
	want := make(map[string]bool, handed)
	var recvSet map[string]bool
	col := newCollector(prefix)
	stable := 0
	lastRecv, lastBacklog := -1, int64(-2)
	drained := false
	var malformed string
	steps := 0
	for steps = 0; steps < 6000; steps++ {
		if steps%5 == 0 {
			done := make(chan struct{})
			go func() { dest.Flush(); close(done) }()
			select {
			case <-done:
			case <-time.After(3 * time.Second):
			}
		}
		recvSet, malformed = col.collect(ep)
		bl := dest.VerifSpoolBacklog()
		owed := handed - len(recvSet) - int(d.Get(mon.KeyDestDropSlowConn(dkey))+d.Get(mon.KeyDestDropSlowSpool(dkey)))
		if bl == 0 && owed <= 0 {
			drained = true
			break
		}
		if len(recvSet) == lastRecv && bl == lastBacklog {
			stable++
		} else {
			stable = 0
		}
		lastRecv, lastBacklog = len(recvSet), bl
		if stable >= 500 {
			break // nothing moved for 500 consecutive steps: not draining any further
		}
		time.Sleep(10 * time.Millisecond)
	}
	atomic.StoreInt32(&hookOn, 0)
	_ = want
	slowConn := d.Get(mon.KeyDestDropSlowConn(dkey))
	slowSpool := d.Get(mon.KeyDestDropSlowSpool(dkey))
	noConn := d.Get(mon.KeyDestDropNoConn(dkey))
	missing := handed - len(recvSet)
	res.Count("lines_handed", handed)
	res.Count("distinct_lines_received", len(recvSet))
	res.Count("lines_missing_counted", missing)
	res.Count("slow_conn_drops", int(slowConn))
	res.Count("slow_spool_drops", int(slowSpool))
	res.Count("outages", outages)
	res.Count("connections_accepted", ep.Accepted())
	w["handed"], w["distinct_received"], w["slow_conn"], w["slow_spool"], w["conn_down_no_spool"] = handed, len(recvSet), slowConn, slowSpool, noConn
	w["spool_backlog_at_end"], w["incarnations"], w["drain_steps"] = dest.VerifSpoolBacklog(), ep.Accepted(), steps
	if malformed != "" {
		w["line"] = malformed
		res.Violate("torn-or-foreign-line", "an incarnation received a complete line that was never handed off: "+malformed, w)
	} else if int64(missing) > slowConn+slowSpool {
		// which ids are missing (first few)
		var miss []string
		for id := 1; id <= handed && len(miss) < 10; id++ {
			if !recvSet[fmt.Sprintf("m%d", id)] {
				miss = append(miss, fmt.Sprintf("m%d", id))
			}
		}
		w["first_missing_ids"] = miss
		sig := "lost-uncounted"
		if !drained && dest.VerifSpoolBacklog() > 0 {
			sig = "backlog-not-draining"
		}
		lagStopped = true
		if worst := lag.Stop(); sig == "lost-uncounted" && worst > maxLag {
			res.Inconclusive(fmt.Sprintf("case %d: %d lines never received with drops %d, but goroutines of this process were not scheduled for up to %v (keep-safe period shortened to %v): not a verdict", c.Index, missing, slowConn+slowSpool, worst, keepPeriod))
			return
		}
		res.Violate(sig, fmt.Sprintf("schedule %s: handed %d, %d never received by any incarnation, but slow_conn+slow_spool drops are only %d (backlog at end %d)", c.Schedule, handed, missing, slowConn+slowSpool, dest.VerifSpoolBacklog()), w)
	} else if noConn != 0 {
		res.Violate("conn-down-drop-with-spool", fmt.Sprintf("spooling is on but conn_down_no_spool moved by %d", noConn), w)
	} else if outages > 0 && len(recvSet) > handed/4 {
		res.NonTrivial(fmt.Sprintf("%s/%v/%d/%d/%d/%d/%d", c.Schedule, c.Abortive, c.Reconn, c.ConnBuf, c.IoBuf, c.SpoolBuf, c.SyncEvery))
	}
	done := make(chan struct{})
	go func() { t.DelRoute(key); close(done) }()
	select {
	case <-done:
	case <-time.After(20 * time.Second):
		res.Inconclusive(fmt.Sprintf("case %d: route shutdown did not return within 20s", c.Index))
	}
}

// ---- scheduling lag ------------------------------------------------------------
//
// The keep-safe buffer's guarantee is time based ("at least the last period's worth of data"), and this check
// shortens the period from 10s to keepPeriod so that rotations happen inside its scenarios. A line can only be
// lost legitimately if it stays unflushed / unread for longer than a period, i.e. if goroutines of this process
// are not scheduled for that long. lagMonitor measures exactly that (a 5ms sleeper recording its worst
// oversleep); a loss seen in a case whose worst lag exceeds maxLag is reported as inconclusive.
const keepPeriod = 2 * time.Second
const maxLag = 400 * time.Millisecond

var rotDecided int

type lagMonitor struct {
	stop chan struct{}
	done chan struct{}
	max  int64
}

func startLag() *lagMonitor {
	l := &lagMonitor{stop: make(chan struct{}), done: make(chan struct{})}
	go func() {
		defer close(l.done)
		for {
			select {
			case <-l.stop:
				return
			default:
			}
			t0 := time.Now()
			time.Sleep(5 * time.Millisecond)
			if over := int64(time.Since(t0) - 5*time.Millisecond); over > atomic.LoadInt64(&l.max) {
				atomic.StoreInt64(&l.max, over)
			}
		}
	}()
	return l
}

func (l *lagMonitor) Stop() time.Duration {
	close(l.stop)
	<-l.done
	return time.Duration(atomic.LoadInt64(&l.max))
}

// rotationCase (added after seeded change C07-w2-1): the lines in flight when the outage is detected straddle a
// rotation of the connection's keep-safe generations. The endpoint stops reading shortly before the first
// rotation tick of the connection, batch A is handed off, the tick passes, batch B is handed off, and the
// endpoint resets the connection: nothing of A or B was received, all of it is younger than one period, all of
// it must be replayed to the next incarnation.
func rotationCase(res *mon.Result, idx int, dir string, attempt int) (bracketed bool) {
	r := mon.NewRng(mon.Seed(), 71, uint64(idx))
	os.RemoveAll(dir)
	os.MkdirAll(dir, 0755)
	defer os.RemoveAll(dir)
	ep := mon.NewEndpoint(mon.Mode{Abortive: true})
	defer ep.Close()
	t := mon.NewTable("none", "none", false, dir)
	key := fmt.Sprintf("c07rot%da%ds%d", idx, attempt, mon.Seed())
	flushMs, reconnMs := r.PickInt([]int{5, 20}), r.PickInt([]int{50, 200, 5000})
	cmd := fmt.Sprintf("addRoute sendAllMatch %s  %s spool=true flush=%d reconn=%d connbuf=%d iobuf=%d spoolbuf=1000 spoolsyncevery=1000 spoolsyncperiod=200 spoolsleep=0 unspoolsleep=0",
		key, ep.Addr, flushMs, reconnMs, r.PickInt([]int{1000, 30000}), r.PickInt([]int{256, 4096, 2000000})) // reconn 5000: longer than two keep-safe periods
	nA := r.Range(50, 600)
	nB := r.Range(20, nA)
	w := map[string]interface{}{"route_cmd": cmd, "keep_safe_period_ms": keepPeriod / time.Millisecond, "lines_before_rotation": nA, "lines_after_rotation": nB}
	res.LogCase("rotationCase %d: %s A=%d B=%d", idx, cmd, nA, nB)
	lag := startLag()
	tUp := time.Now()
	if err := mon.Apply(t, cmd); err != nil {
		lag.Stop()
		res.Violate("harness-setup", err.Error(), w)
		return true
	}
	rt := t.GetRoute(key)
	dest, _ := rt.GetDestination(0)
	dkey := mon.DestKey(key, ep.Addr)
	d := mon.NewDeltas(mon.KeyDestDropSlowConn(dkey), mon.KeyDestDropSlowSpool(dkey), mon.KeyDestDropNoConn(dkey))
	defer func() {
		done := make(chan struct{})
		go func() { t.DelRoute(key); close(done) }()
		select {
		case <-done:
		case <-time.After(20 * time.Second):
		}
	}()
	prefix := fmt.Sprintf("c07rot.%d.", idx)
	online := mon.ProbeOnline(rt.Dispatch, ep, fmt.Sprintf("c07rot%d", idx), 600)
	tOn := time.Now()
	if cs := ep.Conns(); len(cs) > 0 && cs[0].At.Before(tOn) {
		// the connection object (and its keep-safe ticker) exists once the dial returned, which is before the endpoint
		// saw the connection in its accept loop
		tOn = cs[0].At
	}
	if !online || tOn.Sub(tUp) > 800*time.Millisecond || time.Since(tUp) > keepPeriod-500*time.Millisecond {
		lag.Stop()
		if attempt >= 2 {
			res.Inconclusive(fmt.Sprintf("rotationCase %d: the destination took %v to come online (third attempt); the first rotation tick cannot be bracketed", idx, tOn.Sub(tUp)))
		}
		return false
	}
	// the connection (and its keep-safe ticker) was created between tUp and tOn: its first tick falls in [tUp+P, tOn+P]
	var seq int64
	send := func(n int) {
		for i := 0; i < n; i++ {
			id := atomic.AddInt64(&seq, 1)
			rt.Dispatch([]byte(fmt.Sprintf("%sm%d %d %d", prefix, id, id, 1600000000+id%50000)))
		}
	}
	time.Sleep(time.Until(tUp.Add(keepPeriod - 400*time.Millisecond)))
	ep.SetMode(mon.Mode{Abortive: true, NoRead: true})
	time.Sleep(40 * time.Millisecond) // the reader looks at the mode every 20ms at most
	before := 0
	for _, c := range ep.Conns() {
		before += c.Len()
	}
	send(nA)
	time.Sleep(time.Until(tOn.Add(keepPeriod + 150*time.Millisecond)))
	send(nB)
	time.Sleep(time.Duration(r.Range(0, 30)) * time.Millisecond)
	atomic.StoreInt64(&lastOutage, time.Now().UnixNano())
	atomic.StoreInt64(&lastGetAll, 0)
	tKill := time.Now()
	ep.CloseConns() // RST; keeps listening
	ep.SetMode(mon.Mode{Abortive: true})
	// the destination looks at the state of its connection when it handles its next event: keep a trickle going
	// (for longer than the scheduling lag this check tolerates, so that an event certainly follows the moment the
	// relay's reader goroutine has seen the reset)
	for i := 0; i < 100; i++ {
		send(1)
		time.Sleep(10 * time.Millisecond)
	}
	handed := int(atomic.LoadInt64(&seq))
	col := newCollector(prefix)
	var recvSet map[string]bool
	var malformed string
	stable, lastRecv := 0, -1
	for steps := 0; steps < 3000; steps++ {
		if steps%5 == 0 {
			done := make(chan struct{})
			go func() { dest.Flush(); close(done) }()
			select {
			case <-done:
			case <-time.After(3 * time.Second):
			}
		}
		recvSet, malformed = col.collect(ep)
		if len(recvSet) >= handed {
			break
		}
		if len(recvSet) == lastRecv && dest.VerifSpoolBacklog() == 0 {
			stable++
		} else {
			stable = 0
		}
		lastRecv = len(recvSet)
		if stable >= 300 {
			break
		}
		time.Sleep(10 * time.Millisecond)
	}
	worst := lag.Stop()
	collected := atomic.LoadInt64(&lastGetAll)
	slow := d.Get(mon.KeyDestDropSlowConn(dkey)) + d.Get(mon.KeyDestDropSlowSpool(dkey))
	missing := handed - len(recvSet)
	// how much of A and B the first incarnation received although it had stopped reading (should be nothing)
	firstGot := 0
	if cs := ep.Conns(); len(cs) > 0 {
		firstGot = cs[0].Len() - before
	}
	w["handed"], w["distinct_received_by_later_incarnations"], w["slow_drops"], w["worst_scheduling_lag_ms"], w["first_incarnation_read_bytes_after_it_stopped_reading"] = handed, len(recvSet), slow, worst/time.Millisecond, firstGot
	res.Count("rotation_cases", 1)
	res.Count("rotation_lines_in_flight", handed)
	switch {
	case malformed != "":
		w["line"] = malformed
		res.Violate("torn-or-foreign-line", "an incarnation received a complete line that was never handed off: "+malformed, w)
	case int64(missing) > slow:
		var miss []string
		for id := 1; id <= handed && len(miss) < 10; id++ {
			if !recvSet[fmt.Sprintf("m%d", id)] {
				miss = append(miss, fmt.Sprintf("m%d", id))
			}
		}
		w["first_missing_ids"] = miss
		msg := fmt.Sprintf("in-flight lines straddling a keep-safe rotation: %d lines handed off before and %d after the connection's first rotation tick, none read by the endpoint, connection reset %v after the first of them: %d were never replayed, slow drops %d", nA, nB, tKill.Sub(tUp.Add(keepPeriod-400*time.Millisecond)).Round(time.Millisecond), missing, slow)
		// The connection is reset at most 3.0s after it was made and lines keep arriving for a second after that; a
		// relay whose goroutines are scheduled within maxLag sees the reset and collects the redo well before the
		// second rotation tick (4s). Only a starved process excuses the loss - a relay that is late on its own does not.
		w["redo_collected_after_route_creation"] = "never"
		if collected != 0 {
			w["redo_collected_after_route_creation"] = time.Unix(0, collected).Sub(tUp).String()
		}
		if worst > maxLag {
			res.Inconclusive(fmt.Sprintf("rotationCase %d: %s - but worst scheduling lag was %v (period %v): the time-based retention cannot be assumed", idx, msg, worst, keepPeriod))
			return true
		}
		// With reconn <= 200ms every relay design has an occasion to notice the reset within a second of it: lines
		// keep arriving for more than a second (event-driven detection) and the reconnect ticker fires five times
		// (tick-driven detection). A redo collected more than 1.5s after the reset can then only be a process that
		// did not get the CPU (seen once, seed 9, load average 90: collected 2.0s after the reset, the 5ms sleeper
		// measured 192ms), and with the retention shortened five-fold by the accessor that is enough to run into
		// the second rotation tick. With reconn=5000 the excuse does not apply: there a late relay is late by design.
		if late := time.Unix(0, collected).Sub(tKill); collected != 0 && reconnMs <= 200 && late > 1500*time.Millisecond {
			res.Inconclusive(fmt.Sprintf("rotationCase %d: %s - but the redo was collected %v after the reset although reconn=%dms and lines kept arriving (starved process; worst measured lag %v)", idx, msg, late, reconnMs, worst))
			return true
		}
		rotDecided++
		res.Violate("lost-uncounted-across-rotation", msg, w)
	case d.Get(mon.KeyDestDropNoConn(dkey)) != 0:
		res.Violate("conn-down-drop-with-spool", fmt.Sprintf("spooling is on but conn_down_no_spool moved by %d", d.Get(mon.KeyDestDropNoConn(dkey))), w)
	default:
		rotDecided++
		res.NonTrivial(fmt.Sprintf("rotation/%d/%d/%d", idx, nA, nB))
	}
	return true
}

// collector accumulates the set of ids of complete, well-formed lines over all
// incarnations; every connection's stream is parsed only once.
type collector struct {
	prefix    string
	set       map[string]bool
	malformed string
	off       map[*mon.ConnRec]int
	tail      map[*mon.ConnRec][]byte
}

func newCollector(prefix string) *collector {
	return &collector{prefix: prefix, set: map[string]bool{}, off: map[*mon.ConnRec]int{}, tail: map[*mon.ConnRec][]byte{}}
}

func (cl *collector) collect(ep *mon.Endpoint) (map[string]bool, string) {
	pb := []byte(cl.prefix)
	for _, cr := range ep.Conns() {
		nd := cr.DataFrom(cl.off[cr])
		cl.off[cr] += len(nd)
		data := append(cl.tail[cr], nd...)
		for len(data) > 0 {
			nl := bytes.IndexByte(data, '\n')
			if nl < 0 {
				break // cut connection: trailing partial line
			}
			l := data[:nl]
			data = data[nl+1:]
			if bytes.HasPrefix(l, []byte("verifprobe.")) {
				continue
			}
			// must be "<prefix>m<id> <id> <ts>"
			f := strings.Fields(string(l))
			ok := bytes.HasPrefix(l, pb) && len(f) == 3 && bytes.Count(l, []byte(" ")) == 2
			if ok {
				id := strings.TrimPrefix(f[0], cl.prefix)
				var n int64
				var v int64
				_, e2 := fmt.Sscanf(f[1], "%d", &v)
				if _, err := fmt.Sscanf(id, "m%d", &n); err != nil || e2 != nil || v != n || f[2] != fmt.Sprint(1600000000+n%50000) {
					ok = false
				} else {
					cl.set[fmt.Sprintf("m%d", n)] = true
				}
			}
			if !ok && cl.malformed == "" {
				cl.malformed = fmt.Sprintf("%.120q", l)
			}
		}
		cl.tail[cr] = append([]byte(nil), data...)
	}
	return cl.set, cl.malformed
}

func main() {
	res := mon.NewResult("C07")
	res.Rule = "up/down schedules {DU, UDU, UDUDU, DDU, UDuDU (outage during unspooling), UDUU, DUDU, UDDU} x graceful/abortive close x generated reconn/flush/connbuf/iobuf/spoolbuf/syncevery/spoolsleep/unspoolsleep, traffic running across every transition, seeded 0-3ms delays at the destination hook points (4 of 5 cases); non-trivial = at least one outage happened mid-traffic and more than a quarter of the lines were received; distinct = (schedule, close kind, tuning values); plus rotation cases: the endpoint stops reading before the connection's first keep-safe rotation tick, lines are handed off before and after the tick, then the connection is reset"
	res.Assume("duplicates are legal (at-least-once); order is not checked; loopback endpoints detect outages immediately, so the >2x keep-safe-period outage is not reproduced")
	res.Assume("the keep-safe period is shortened from 10s to 2s (overlay accessor, set once before any destination exists) so that generation rotations happen inside the scenarios; a loss is a verdict only if no goroutine of the process was starved for more than 400ms during the case (5ms sleeper), otherwise inconclusive")
	res.Assume("drained = spool backlog (disk queue depth + spool buffers, read through an overlay accessor) is 0 and nothing is owed, or nothing moved for 500 consecutive 10ms steps")
	destination.VerifPoint = hook
	destination.VerifSetKeepSafePeriod(keepPeriod)
	n := mon.N(16, 600)
	ran := 0
	base := mon.Scratch()
	for i := 0; i < n; i++ {
		if !mon.Mine(i) {
			continue
		}
		if o := os.Getenv("VERIF_ONLY"); o != "" && o != fmt.Sprint(i) {
			continue
		}
		c := gen(i)
		res.LogCase("case %+v", c)
		if ran < 3 {
			res.Sample(c)
		}
		ran++
		runCase(res, c, filepath.Join(base, fmt.Sprintf("spool%d", i)))
		res.Eval(1)
	}
	nrot := mon.N(8, 160)
	rotMine := 0
	for i := 0; i < nrot; i++ {
		if !mon.Mine(i) {
			continue
		}
		if o := os.Getenv("VERIF_ONLY"); o != "" && o != fmt.Sprintf("rot%d", i) {
			continue
		}
		for attempt := 0; attempt < 3; attempt++ {
			if rotationCase(res, i, filepath.Join(base, fmt.Sprintf("rot%d", i)), attempt) {
				break
			}
		}
		res.Eval(1)
		rotMine++
	}
	if os.Getenv("VERIF_ONLY") == "" {
		res.Floor("rotation_cases_decided", rotDecided, rotMine/4)
	}
	hookMu.Lock()
	res.Set("hook_points_fired", hookFired)
	res.Set("hook_delays_injected", hookSlept)
	hookMu.Unlock()
	res.Floor("cases", ran, n)
	rcv, _ := res.Extra["distinct_lines_received"].(int)
	res.Floor("distinct_lines_received", rcv, n*500)
	res.Write()
}
