// C07 — with spooling on, an endpoint outage loses nothing that is not counted.
//
// A real carbon route (spool=true) sends to a loopback endpoint that follows an
// up/down schedule while a sender hands unique lines to Route.Dispatch before,
// during and after each transition. After the last recovery the backlog is
// awaited (bounded steps on spool backlog + received set). Oracle, per schedule:
//
//	|{handed lines received by no incarnation}|  <=  slow_conn + slow_spool deltas
//	every complete line received is a handed line, byte for byte
//	once the endpoint stays up the backlog drains (backlog 0, nothing owed)
//
// Duplicates are legal (at-least-once), order is not required. Tag-guarded hook
// points in the destination inject seeded 0-3 ms scheduling delays between the
// conn writer's dequeue and its keep-safe insertion, before the redo collector
// empties keep-safe, and after a dead connection is detected, so the hand-over
// between conn writer, redo collector and spool writer is interleaved on every
// run instead of once in a million.
package main

import (
	"bytes"
	"fmt"
	"os"
	"path/filepath"
	"strings"
	"sync"
	"sync/atomic"
	"time"

	"github.com/grafana/carbon-relay-ng/destination"

	"verifharness/mon"
)

type step struct {
	Op    string `json:"op"` // "up", "down", "send"
	Lines int    `json:"lines,omitempty"`
	// for "down": whether the sender keeps sending while the endpoint goes down
}

type ccase struct {
	Index      int    `json:"index"`
	Schedule   string `json:"schedule"`
	Abortive   bool   `json:"abortive_close"`
	Reconn     int    `json:"reconn_ms"`
	Flush      int    `json:"flush_ms"`
	ConnBuf    int    `json:"connbuf"`
	IoBuf      int    `json:"iobuf"`
	SpoolBuf   int    `json:"spoolbuf"`
	SyncEvery  int    `json:"spoolsyncevery"`
	SpoolSleep int    `json:"spoolsleep_us"`
	Unspool    int    `json:"unspoolsleep_us"`
	PerPhase   int    `json:"lines_per_phase"`
	PaceEvery  int    `json:"pace_every"`
	HookDelay  bool   `json:"hook_delays"`
	// Aligned: fixed-width lines and a spool segment limit that is a multiple of the record size, so that
	// records end exactly on the segment limit (the disk queue's rollover boundary)
	Aligned  bool `json:"aligned_records"`
	MaxBytes int  `json:"spoolmaxbytesperfile"`
}

// schedules: U = endpoint up, D = down; traffic flows during every letter and across every transition.
var schedules = []string{"DU", "UDU", "UDUDU", "DDU", "UDuDU", "UDUU", "DUDU", "UDDU"}

func gen(idx int) ccase {
	r := mon.NewRng(mon.Seed(), 7, uint64(idx))
	c := ccase{Index: idx, Schedule: schedules[idx%len(schedules)]}
	c.Abortive = r.Bool()
	c.Reconn = r.PickInt([]int{20, 50, 200})
	c.Flush = r.PickInt([]int{5, 20, 50})
	c.ConnBuf = r.PickInt([]int{100, 1000, 30000})
	c.IoBuf = r.PickInt([]int{256, 4096, 2000000})
	c.SpoolBuf = r.PickInt([]int{100, 10000})
	c.SyncEvery = r.PickInt([]int{10, 1000, 10000})
	c.SpoolSleep = r.PickInt([]int{0, 10, 100})
	c.Unspool = r.PickInt([]int{0, 10, 100})
	c.PerPhase = mon.N(2500, 6000)
	c.PaceEvery = r.PickInt([]int{20, 50, 200})
	c.HookDelay = !r.Chance(1, 5)
	c.MaxBytes = 200000
	if r.Chance(1, 3) {
		c.Aligned = true
	}
	return c
}

// ---- hook delays ------------------------------------------------------------

var (
	hookMu     sync.Mutex
	hookRng    = mon.NewRng(mon.Seed(), 77, 0)
	hookOn     int32
	lastOutage int64 // unix nano of the last endpoint Down()
	hookFired  = map[string]int{}
	hookSlept  = map[string]int{}
)

func hook(p string) {
	hookMu.Lock()
	hookFired[p]++
	if atomic.LoadInt32(&hookOn) == 0 {
		hookMu.Unlock()
		return
	}
	var d time.Duration
	recent := time.Now().UnixNano()-atomic.LoadInt64(&lastOutage) < int64(150*time.Millisecond)
	switch p {
	case "handledata-dequeued":
		if recent {
			d = time.Duration(hookRng.Range(0, 3000)) * time.Microsecond
		} else if hookRng.Chance(1, 200) {
			d = time.Duration(hookRng.Range(0, 2000)) * time.Microsecond
		}
	case "getredo-start", "getredo-before-getall", "relay-conn-dead", "collectredo-start":
		d = time.Duration(hookRng.Range(0, 3000)) * time.Microsecond
	}
	if d > 0 {
		hookSlept[p]++
	}
	hookMu.Unlock()
	if d > 0 {
		time.Sleep(d)
	}
}

// ---- one case ----------------------------------------------------------------

func runCase(res *mon.Result, c ccase, dir string) {
	os.RemoveAll(dir)
	os.MkdirAll(dir, 0755)
	defer os.RemoveAll(dir)
	mode := mon.Mode{Abortive: c.Abortive}
	startUp := c.Schedule[0] == 'U'
	var ep *mon.Endpoint
	if startUp {
		ep = mon.NewEndpoint(mode)
	} else {
		ep = mon.NewEndpointDown(mode)
	}
	defer ep.Close()
	t := mon.NewTable("none", "none", false, dir)
	if c.Aligned {
		lineLen := len(fmt.Sprintf("c07.%d.m%07d %07d %d", c.Index, 1, 1, 1600000000))
		c.MaxBytes = (4 + lineLen) * (3 + c.Index%40) // every k-th record ends exactly on the segment limit
	}
	key := fmt.Sprintf("c07r%ds%d", c.Index, mon.Seed())
	cmd := fmt.Sprintf("addRoute sendAllMatch %s  %s spool=true flush=%d reconn=%d connbuf=%d iobuf=%d spoolbuf=%d spoolsyncevery=%d spoolsyncperiod=200 spoolsleep=%d unspoolsleep=%d spoolmaxbytesperfile=%d",
		key, ep.Addr, c.Flush, c.Reconn, c.ConnBuf, c.IoBuf, c.SpoolBuf, c.SyncEvery, c.SpoolSleep, c.Unspool, c.MaxBytes)
	w := map[string]interface{}{"case": c, "route_cmd": cmd}
	if err := mon.Apply(t, cmd); err != nil {
		res.Violate("harness-setup", err.Error(), w)
		return
	}
	rt := t.GetRoute(key)
	dest, _ := rt.GetDestination(0)
	dkey := mon.DestKey(key, ep.Addr)
	d := mon.NewDeltas(mon.KeyDestDropSlowConn(dkey), mon.KeyDestDropSlowSpool(dkey), mon.KeyDestDropNoConn(dkey))
	if c.HookDelay {
		atomic.StoreInt32(&hookOn, 1)
	} else {
		atomic.StoreInt32(&hookOn, 0)
	}
	if startUp {
		if !mon.ProbeOnline(rt.Dispatch, ep, fmt.Sprintf("c07.%d", c.Index), 600) {
			res.Inconclusive(fmt.Sprintf("case %d: destination never came online", c.Index))
			t.DelRoute(key)
			return
		}
	}
	// sender
	var seq int64
	prefix := fmt.Sprintf("c07.%d.", c.Index)
	sendN := func(n int) {
		for i := 0; i < n; i++ {
			id := atomic.AddInt64(&seq, 1)
			line := []byte(fmt.Sprintf("%sm%d %d %d", prefix, id, id, 1600000000+id%50000))
			if c.Aligned {
				line = []byte(fmt.Sprintf("%sm%07d %07d %d", prefix, id, id, 1600000000+id%50000))
			}
			rt.Dispatch(line)
			if i%c.PaceEvery == 0 {
				time.Sleep(200 * time.Microsecond)
			}
		}
	}
	// walk the schedule: traffic during every state, transitions in the middle of traffic
	up := startUp
	outages := 0
	for i := 0; i < len(c.Schedule); i++ {
		want := c.Schedule[i] == 'U' || c.Schedule[i] == 'u'
		var wg sync.WaitGroup
		wg.Add(1)
		go func() { defer wg.Done(); sendN(c.PerPhase) }()
		// flip the endpoint while the sender is busy
		if want != up {
			time.Sleep(time.Duration(2+i) * time.Millisecond)
			if want {
				ep.Up()
			} else {
				atomic.StoreInt64(&lastOutage, time.Now().UnixNano())
				ep.Down()
				outages++
			}
			up = want
		}
		wg.Wait()
		if c.Schedule[i] == 'u' {
			// a short recovery: go down again while the spool is being replayed
			time.Sleep(time.Duration(c.Reconn+30) * time.Millisecond)
		} else if up {
			time.Sleep(time.Duration(c.Reconn) * time.Millisecond)
		}
	}
	handed := int(atomic.LoadInt64(&seq))
	// the endpoint now stays up: wait for the backlog to drain (bounded steps)
	want := make(map[string]bool, handed)
	var recvSet map[string]bool
	col := newCollector(prefix)
	stable := 0
	lastRecv, lastBacklog := -1, int64(-2)
	drained := false
	var malformed string
	steps := 0
	for steps = 0; steps < 6000; steps++ {
		if steps%5 == 0 {
			done := make(chan struct{})
			go func() { dest.Flush(); close(done) }()
			select {
			case <-done:
			case <-time.After(3 * time.Second):
			}
		}
		recvSet, malformed = col.collect(ep)
		bl := dest.VerifSpoolBacklog()
		owed := handed - len(recvSet) - int(d.Get(mon.KeyDestDropSlowConn(dkey))+d.Get(mon.KeyDestDropSlowSpool(dkey)))
		if bl == 0 && owed <= 0 {
			drained = true
			break
		}
		if len(recvSet) == lastRecv && bl == lastBacklog {
			stable++
		} else {
			stable = 0
		}
		lastRecv, lastBacklog = len(recvSet), bl
		if stable >= 500 {
			break // nothing moved for 500 consecutive steps: not draining any further
		}
		time.Sleep(10 * time.Millisecond)
	}
	atomic.StoreInt32(&hookOn, 0)
	_ = want
	slowConn := d.Get(mon.KeyDestDropSlowConn(dkey))
	slowSpool := d.Get(mon.KeyDestDropSlowSpool(dkey))
	noConn := d.Get(mon.KeyDestDropNoConn(dkey))
	missing := handed - len(recvSet)
	res.Count("lines_handed", handed)
	res.Count("distinct_lines_received", len(recvSet))
	res.Count("lines_missing_counted", missing)
	res.Count("slow_conn_drops", int(slowConn))
	res.Count("slow_spool_drops", int(slowSpool))
	res.Count("outages", outages)
	res.Count("connections_accepted", ep.Accepted())
	w["handed"], w["distinct_received"], w["slow_conn"], w["slow_spool"], w["conn_down_no_spool"] = handed, len(recvSet), slowConn, slowSpool, noConn
	w["spool_backlog_at_end"], w["incarnations"], w["drain_steps"] = dest.VerifSpoolBacklog(), ep.Accepted(), steps
	if malformed != "" {
		w["line"] = malformed
		res.Violate("torn-or-foreign-line", "an incarnation received a complete line that was never handed off: "+malformed, w)
	} else if int64(missing) > slowConn+slowSpool {
		// which ids are missing (first few)
		var miss []string
		for id := 1; id <= handed && len(miss) < 10; id++ {
			if !recvSet[fmt.Sprintf("m%d", id)] {
				miss = append(miss, fmt.Sprintf("m%d", id))
			}
		}
		w["first_missing_ids"] = miss
		sig := "lost-uncounted"
		if !drained && dest.VerifSpoolBacklog() > 0 {
			sig = "backlog-not-draining"
		}
		res.Violate(sig, fmt.Sprintf("schedule %s: handed %d, %d never received by any incarnation, but slow_conn+slow_spool drops are only %d (backlog at end %d)", c.Schedule, handed, missing, slowConn+slowSpool, dest.VerifSpoolBacklog()), w)
	} else if noConn != 0 {
		res.Violate("conn-down-drop-with-spool", fmt.Sprintf("spooling is on but conn_down_no_spool moved by %d", noConn), w)
	} else if outages > 0 && len(recvSet) > handed/4 {
		res.NonTrivial(fmt.Sprintf("%s/%v/%d/%d/%d/%d/%d", c.Schedule, c.Abortive, c.Reconn, c.ConnBuf, c.IoBuf, c.SpoolBuf, c.SyncEvery))
	}
	done := make(chan struct{})
	go func() { t.DelRoute(key); close(done) }()
	select {
	case <-done:
	case <-time.After(20 * time.Second):
		res.Inconclusive(fmt.Sprintf("case %d: route shutdown did not return within 20s", c.Index))
	}
}

// collector accumulates the set of ids of complete, well-formed lines over all
// incarnations; every connection's stream is parsed only once.
type collector struct {
	prefix    string
	set       map[string]bool
	malformed string
	off       map[*mon.ConnRec]int
	tail      map[*mon.ConnRec][]byte
}

func newCollector(prefix string) *collector {
	return &collector{prefix: prefix, set: map[string]bool{}, off: map[*mon.ConnRec]int{}, tail: map[*mon.ConnRec][]byte{}}
}

func (cl *collector) collect(ep *mon.Endpoint) (map[string]bool, string) {
	pb := []byte(cl.prefix)
	for _, cr := range ep.Conns() {
		nd := cr.DataFrom(cl.off[cr])
		cl.off[cr] += len(nd)
		data := append(cl.tail[cr], nd...)
		for len(data) > 0 {
			nl := bytes.IndexByte(data, '\n')
			if nl < 0 {
				break // cut connection: trailing partial line
			}
			l := data[:nl]
			data = data[nl+1:]
			if bytes.HasPrefix(l, []byte("verifprobe.")) {
				continue
			}
			// must be "<prefix>m<id> <id> <ts>"
			f := strings.Fields(string(l))
			ok := bytes.HasPrefix(l, pb) && len(f) == 3 && bytes.Count(l, []byte(" ")) == 2
			if ok {
				id := strings.TrimPrefix(f[0], cl.prefix)
				var n int64
				var v int64
				_, e2 := fmt.Sscanf(f[1], "%d", &v)
				if _, err := fmt.Sscanf(id, "m%d", &n); err != nil || e2 != nil || v != n || f[2] != fmt.Sprint(1600000000+n%50000) {
					ok = false
				} else {
					cl.set[fmt.Sprintf("m%d", n)] = true
				}
			}
			if !ok && cl.malformed == "" {
				cl.malformed = fmt.Sprintf("%.120q", l)
			}
		}
		cl.tail[cr] = append([]byte(nil), data...)
	}
	return cl.set, cl.malformed
}

func main() {
	res := mon.NewResult("C07")
	res.Rule = "up/down schedules {DU, UDU, UDUDU, DDU, UDuDU (outage during unspooling), UDUU, DUDU, UDDU} x graceful/abortive close x generated reconn/flush/connbuf/iobuf/spoolbuf/syncevery/spoolsleep/unspoolsleep, traffic running across every transition, seeded 0-3ms delays at the destination hook points (4 of 5 cases); non-trivial = at least one outage happened mid-traffic and more than a quarter of the lines were received; distinct = (schedule, close kind, tuning values)"
	res.Assume("duplicates are legal (at-least-once); order is not checked; loopback endpoints detect outages immediately, so the >2x keep-safe-period outage is not reproduced")
	res.Assume("drained = spool backlog (disk queue depth + spool buffers, read through an overlay accessor) is 0 and nothing is owed, or nothing moved for 500 consecutive 10ms steps")
	destination.VerifPoint = hook
	n := mon.N(16, 600)
	ran := 0
	base := mon.Scratch()
	for i := 0; i < n; i++ {
		if !mon.Mine(i) {
			continue
		}
		if o := os.Getenv("VERIF_ONLY"); o != "" && o != fmt.Sprint(i) {
			continue
		}
		c := gen(i)
		res.LogCase("case %+v", c)
		if ran < 3 {
			res.Sample(c)
		}
		ran++
		runCase(res, c, filepath.Join(base, fmt.Sprintf("spool%d", i)))
		res.Eval(1)
	}
	hookMu.Lock()
	res.Set("hook_points_fired", hookFired)
	res.Set("hook_delays_injected", hookSlept)
	hookMu.Unlock()
	res.Floor("cases", ran, n)
	rcv, _ := res.Extra["distinct_lines_received"].(int)
	res.Floor("distinct_lines_received", rcv, n*500)
	res.Write()
}
