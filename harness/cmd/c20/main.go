// C20 — configuration means what the documentation says, in both syntaxes.
//
// Part 1 (option semantics). A generated configuration (blacklist entries, rewriters,
// aggregations, carbon routes with 1-4 destinations, grafanaNet routes) is written twice:
// as structured TOML sections and as the equivalent init/admin commands. Both are built by
// the real code on a table.MockTable (toml.Decode -> cfg.InitTable; imperatives.Apply or an
// [init] cmds array), the resulting entries are read back field by field (exported fields,
// Snapshot()s, unexported fields through read-only overlay accessors, the parameters the
// running spool / disk queue / http client actually received) and compared with the
// expectation: the value written, else the default transcribed from the documentation
// (oracle/configdefaults.go). Every value is unique within its case, so an option that is
// ignored, swapped with another one or applied to the wrong destination shows up as a
// field mismatch. Filters are additionally probed with names built to violate exactly the
// options that were set (reference: oracle.Filter), rewriters with a sample input.
//
// Patterns, prefixes, substrings, keys, templates and instance names are generated over an alphabet
// with upper-case letters, digits, escaped classes (\S \D \W \d \B), upper-case ranges and named
// groups, and every filter / rewriter probe is also tried lower-cased, upper-cased and case-swapped:
// a path that folds or otherwise normalises what was written differs from the other path in the
// fields read back and in what the entry accepts.
//
// Part 1b (concurrent sessions). The admin listener runs one goroutine per connection and each calls
// imperatives.Apply unlocked. Groups of 4 sessions, each with a table of its own, apply generated
// configurations at the same moment (barrier before every round; commands through imperatives.Apply
// directly; in a quarter of the rounds every session loads the TOML form as well); every session's entries go through the same oracle
// as in part 1: no valid command refused, every field as written, same probes. On the unchanged tree
// the race detector reports the re-initialisation of the package-level token table
// (toki.NewScanner writes tokens[i].regexp) for these overlapping calls; the driver records those
// reports as other_races (C20 has no race scope), they are no verdict of this check.
//
// Part 2 (interpolation). The real relay binary is built once with an overlay file that,
// when VERIF_EXPAND_FILE is set, pushes texts through the real readConfigFile and exits.
// Generated '$'-strings are compared byte for byte with oracle.ExpandConfig (only the four
// documented variables are substituted).
package main

import (
	"bytes"
	"fmt"
	"io"
	stdlog "log"
	"net"
	"net/http"
	"net/http/httptest"
	"os"
	"os/exec"
	"path/filepath"
	"regexp"
	"runtime"
	"runtime/debug"
	"sort"
	"strconv"
	"strings"
	"sync"
	"syscall"
	"time"
	"unicode"

	"github.com/BurntSushi/toml"
	"github.com/grafana/carbon-relay-ng/cfg"
	"github.com/grafana/carbon-relay-ng/imperatives"
	"github.com/grafana/carbon-relay-ng/matcher"
	"github.com/grafana/carbon-relay-ng/nsqd"
	"github.com/grafana/carbon-relay-ng/route"
	"github.com/grafana/carbon-relay-ng/table"

	"verifharness/mon"
	"verifharness/oracle"
)

// ---------------------------------------------------------------------------
// case description (what was written; JSON = witness)

type Opt struct {
	N      string `json:"n"`
	V      string `json:"v"`
	Sample string `json:"sample,omitempty"` // regex values: a string the regex matches
}

type DestSpec struct {
	Addr string `json:"addr"` // as written (may carry :instance)
	Opts []Opt  `json:"opts"`
}

type GNSpec struct {
	Addr            string `json:"addr"`
	ApiKey          string `json:"apiKey"`
	ApiKeySpelling  string `json:"apiKeySpelling"` // TOML key: apikey (example) or apiKey (table)
	SchemasFile     string `json:"schemasFile"`
	AggregationFile string `json:"aggregationFile"`
	Opts            []Opt  `json:"opts"`
}

type RouteSpec struct {
	Type  string     `json:"type"`
	Key   string     `json:"key"`
	Match []Opt      `json:"match"` // may contain the TOML-only spelling "substr"
	Dests []DestSpec `json:"dests,omitempty"`
	GN    *GNSpec    `json:"grafanaNet,omitempty"`
}

type AggSpec struct {
	Fun      string `json:"function"`
	Match    []Opt  `json:"match"`
	Format   string `json:"format"`
	Interval int    `json:"interval"`
	Wait     int    `json:"wait"`
	Cache    string `json:"cache"`   // "", "true", "false"
	DropRaw  string `json:"dropRaw"` // "", "true", "false"
}

type RWSpec struct {
	Old    string `json:"old"`
	New    string `json:"new"`
	Max    int    `json:"max"`
	HasNot bool   `json:"hasNot"` // structured syntax only
	Not    string `json:"not"`
	Sample string `json:"sample"`               // an input containing `old` several times
	NotHit string `json:"notHit"`               // an input the `not` pattern matches
	OldLit string `json:"oldLiteral"`           // the literal part of `old` as it occurs in the samples
	NotLit string `json:"notLiteral,omitempty"` // the literal part of `not` as it occurs in notHit
}

type BlackSpec struct {
	Kind   string `json:"kind"`
	Val    string `json:"val"`
	Sample string `json:"sample,omitempty"`
}

type Case struct {
	Index    int         `json:"index"`
	Kind     string      `json:"kind"`
	ViaInit  bool        `json:"commandsViaInitCmds"`
	TOMLOnly bool        `json:"tomlOnly,omitempty"` // contains something the command grammar cannot express
	Black    []BlackSpec `json:"blacklist,omitempty"`
	RW       []RWSpec    `json:"rewriters,omitempty"`
	Agg      []AggSpec   `json:"aggregations,omitempty"`
	Routes   []RouteSpec `json:"routes,omitempty"`
}

func getOpt(opts []Opt, name string) (Opt, bool) {
	for _, o := range opts {
		if o.N == name {
			return o, true
		}
	}
	return Opt{}, false
}

// effective filter: `sub` wins over the old spelling `substr` when both are given.
func effMatch(opts []Opt) map[string]Opt {
	m := map[string]Opt{}
	for _, n := range oracle.CfgMatcherOptions {
		if o, ok := getOpt(opts, n); ok {
			m[n] = o
		}
	}
	if _, ok := m["sub"]; !ok {
		if o, ok := getOpt(opts, "substr"); ok {
			m["sub"] = Opt{N: "sub", V: o.V}
		}
	}
	return m
}

// ---------------------------------------------------------------------------
// generation

var documentedDefaultNumbers = map[int]bool{}

func init() {
	for _, t := range [][]oracle.CfgOption{oracle.CfgCarbonDestination, oracle.CfgGrafanaNet} {
		for _, o := range t {
			if n, err := strconv.Atoi(o.Default); err == nil {
				documentedDefaultNumbers[n] = true
			}
		}
	}
}

type gen struct {
	r    *mon.Rng
	idx  int
	n    int
	used map[int]bool
}

func (g *gen) id() int { g.n++; return g.n }

// tails exercise quoting; none contains a blank, a quote, '#', or starts a keyword of the command grammar.
// Upper-case letters, digits and the escapes \S \D \W \d (plain text here, not classes) are part of the
// alphabet: a path that folds or otherwise normalises what was written yields a different value.
var tails = []string{"", "", "", ".x", "_y", "-z", "=", ".a=b", ":c", "/d", ",e", ";f", "[g]", "(h)", "+", "*k", "{m}", "%", "@n", "\\w", "|p", "^", "~", "é",
	".X", "_Y", "-Z", ".A=B", "Q", "[A-Z]", "\\W", "\\S", "\\D", "\\d7", ".Web01", "É"}

// cs gives a tag one of several letter-case patterns. Metric names, patterns, keys and templates are case
// sensitive, so most generated values carry at least one upper-case letter: any case folding (or
// case-insensitive comparison) on one of the two configuration paths shows in the fields read back and
// in the behaviour of the entry.
func (g *gen) cs(tag string) string {
	switch g.r.Intn(6) {
	case 0:
		return tag
	case 1:
		return strings.ToUpper(tag)
	case 2:
		return strings.ToUpper(tag[:1]) + tag[1:]
	}
	b := []byte(tag)
	up := false
	for i := range b {
		if g.r.Bool() {
			b[i] = byte(unicode.ToUpper(rune(b[i])))
			up = true
		}
	}
	if !up {
		b[len(b)-1] = byte(unicode.ToUpper(rune(b[len(b)-1])))
	}
	return string(b)
}

func (g *gen) lit(tag string) string {
	return fmt.Sprintf("%s%d%s", g.cs(tag), g.id(), g.r.Pick(tails))
}

// num returns a number unique within the case that is no documented default.
func (g *gen) num(lo, hi int) int {
	for {
		v := g.r.Range(lo, hi)
		if !g.used[v] && !documentedDefaultNumbers[v] {
			g.used[v] = true
			return v
		}
	}
}

var regexTails = [][2]string{
	{`\.[a-c]+z`, `.abz`},
	{`_(q|w)x`, `_qx`},
	{`[0-9]+`, `42`},
	{`\.(.*)\.e`, `.mid.e`},
	{`x{2}`, `xx`},
	// upper-case literals and ranges, negated perl classes, a named group, a non-boundary:
	// each means something else (or nothing) once its letters are folded
	{`\.[A-C]+Z`, `.ABZ`},
	{`_(Q|w)X`, `_QX`},
	{`\.\S+\.Temp`, `.rack1.Temp`},
	{`\D\d[A-Z][a-z]+`, `x7Ab`},
	{`\W\w+Q`, `-abQ`},
	{`\.(?P<Nm>[^.]+)\.E`, `.mid.E`},
	{`x\By{2}`, `xyy`},
	{`_[[:upper:]]+[^A-Z]`, `_QRs`},
}

func (g *gen) regex(tag string) Opt {
	lit := fmt.Sprintf("%s%d", g.cs(tag), g.id())
	t := regexTails[g.r.Intn(len(regexTails))]
	return Opt{V: lit + t[0], Sample: lit + t[1]}
}

func (g *gen) matchOpts(allowSubstr bool) []Opt {
	var out []Opt
	density := g.r.PickInt([]int{0, 1, 2, 2, 3, 4}) // x/4
	var prefix string
	for _, n := range oracle.CfgMatcherOptions {
		if g.r.Intn(4) >= density {
			continue
		}
		switch n {
		case "prefix":
			prefix = g.lit("px")
			out = append(out, Opt{N: n, V: prefix})
		case "notPrefix":
			v := g.lit("np")
			if prefix != "" && g.r.Bool() {
				v = prefix + "." + v // an exception inside the prefix
			}
			out = append(out, Opt{N: n, V: v})
		case "sub":
			switch {
			case !allowSubstr || g.r.Intn(4) < 2:
				out = append(out, Opt{N: "sub", V: g.lit("sb")})
			case g.r.Bool():
				out = append(out, Opt{N: "substr", V: g.lit("ss")})
			default:
				out = append(out, Opt{N: "sub", V: g.lit("sb")}, Opt{N: "substr", V: g.lit("ss")})
			}
		case "notSub":
			out = append(out, Opt{N: n, V: g.lit("ns")})
		case "regex":
			o := g.regex("rx")
			o.N = n
			out = append(out, o)
		case "notRegex":
			o := g.regex("nr")
			o.N = n
			out = append(out, o)
		}
	}
	return g.shuffle(out)
}

func (g *gen) shuffle(in []Opt) []Opt {
	out := make([]Opt, len(in))
	for i, p := range g.r.Perm(len(in)) {
		out[i] = in[p]
	}
	return out
}

func (g *gen) tri() string { return g.r.Pick([]string{"", "true", "false"}) }

// low ports nothing listens on (checked at start-up: a connection to each must be refused)
var deadPorts = []int{1, 2, 3, 4, 5, 6, 8, 10, 12, 14, 16}

var destRanges = map[string][2]int{
	"flush": {50, 60000}, "reconn": {300, 600000}, "connbuf": {2, 200000}, "iobuf": {16, 4000000},
	"spoolbuf": {2, 3000}, "spoolmaxbytesperfile": {1000, 500000000}, "spoolsyncevery": {2, 100000},
	"spoolsyncperiod": {50, 60000}, "spoolsleep": {2, 100000}, "unspoolsleep": {2, 100000},
}

func (g *gen) dest(allowMatcher, allowSpoolTrue, instance bool) DestSpec {
	// unique per destination: 127.<case-derived>.<n/250>.<n%250>:<dead port>
	n := g.id()
	d := DestSpec{Addr: fmt.Sprintf("127.%d.%d.%d:%d", 20+g.idx%200, n/250, 1+n%250, g.r.PickInt(deadPorts))}
	if instance {
		d.Addr += ":" + fmt.Sprintf("%s%d", g.cs("inst"), g.id())
	}
	var opts []Opt
	if allowMatcher {
		opts = g.matchOpts(false)
	}
	density := g.r.PickInt([]int{0, 1, 2, 2, 3, 4, 4})
	for _, o := range oracle.CfgCarbonDestination {
		if g.r.Intn(4) >= density {
			continue
		}
		switch {
		case o.Kind == oracle.CfgBool && o.Name == "spool" && !allowSpoolTrue:
			opts = append(opts, Opt{N: o.Name, V: "false"})
		case o.Kind == oracle.CfgBool:
			opts = append(opts, Opt{N: o.Name, V: g.r.Pick([]string{"true", "false"})})
		default:
			rg := destRanges[o.Name]
			opts = append(opts, Opt{N: o.Name, V: strconv.Itoa(g.num(rg[0], rg[1]))})
		}
	}
	d.Opts = g.shuffle(opts)
	return d
}

func (g *gen) carbonRoute(allowSpoolTrue bool) RouteSpec {
	rt := RouteSpec{Type: g.r.Pick(oracle.CfgCarbonRouteTypes), Key: fmt.Sprintf("%s%d-%d%s", g.cs("rt"), g.idx, g.id(), g.r.Pick([]string{"", ".a", "_b", ".A", "_B"}))}
	rt.Match = g.matchOpts(true)
	nd := g.r.Range(1, 4)
	ch := rt.Type == "consistentHashing"
	if ch && nd < 2 {
		nd = 2
	}
	for i := 0; i < nd; i++ {
		rt.Dests = append(rt.Dests, g.dest(!ch, allowSpoolTrue, ch && g.r.Bool()))
	}
	return rt
}

var gnRanges = map[string][2]int{
	"concurrency": {2, 3}, "bufSize": {100, 6000}, "flushMaxNum": {10, 20000}, "flushMaxWait": {150, 5000},
	"timeout": {3000, 60000}, "orgId": {2, 1000}, "errBackoffMin": {10, 5000},
}

// grafanaNet routes are never shut down (see res.Assume), so the two expensive defaults
// (100 workers, 10M queue slots) are only left to the default when allowBigDefaults is set.
func (g *gen) gnRoute(srvURL, schemas, aggs string, allowBigDefaults bool) RouteSpec {
	rt := RouteSpec{Type: "grafanaNet", Key: fmt.Sprintf("%s%d-%d", g.cs("gn"), g.idx, g.id())}
	rt.Match = g.matchOpts(true)
	gn := &GNSpec{
		Addr:            fmt.Sprintf("%s/%s%dn%d/metrics", srvURL, g.cs("c"), g.idx, g.id()),
		ApiKey:          fmt.Sprintf("%s%d%s", g.cs("key"), g.id(), g.r.Pick([]string{"", ".x", "_y", "-z", "=", ":c", ".X", "Z"})),
		ApiKeySpelling:  g.r.Pick([]string{"apikey", "apiKey"}),
		SchemasFile:     schemas,
		AggregationFile: aggs,
	}
	density := g.r.PickInt([]int{0, 1, 2, 2, 3, 4, 4})
	var opts []Opt
	for _, o := range oracle.CfgGrafanaNet {
		set := g.r.Intn(4) < density
		if o.Name == "concurrency" || o.Name == "bufSize" {
			set = !allowBigDefaults
		}
		if !set {
			continue
		}
		switch o.Kind {
		case oracle.CfgBool:
			opts = append(opts, Opt{N: o.Name, V: g.r.Pick([]string{"true", "false"})})
		case oracle.CfgFloat:
			opts = append(opts, Opt{N: o.Name, V: fmt.Sprintf("%d.%d", g.r.Range(1, 4), 5*g.r.Range(1, 19)+1)})
		default:
			rg := gnRanges[o.Name]
			if o.Name == "concurrency" {
				opts = append(opts, Opt{N: o.Name, V: strconv.Itoa(g.r.Range(rg[0], rg[1]))})
			} else {
				opts = append(opts, Opt{N: o.Name, V: strconv.Itoa(g.num(rg[0], rg[1]))})
			}
		}
	}
	gn.Opts = g.shuffle(opts)
	rt.GN = gn
	return rt
}

// two groups each (the format refers to $1 and $2)
var aggRegexTails = [][2]string{
	{`\.(a|b)[0-9]+\.(.*)`, ".a7.tail"},
	{`\.(A|b)\d+\.(\S*)`, ".A7.Tail"},
	{`\.([A-Z]\D)[0-9]+\.(.*)`, ".Qx7.tail"},
}

func (g *gen) agg(tomlOnlyFun bool) AggSpec {
	a := AggSpec{}
	if tomlOnlyFun {
		a.Fun = "percentiles"
	} else {
		a.Fun = g.r.Pick(oracle.CfgAggFunctionsCommand)
	}
	// regex is mandatory and carries the groups the format refers to
	lit := fmt.Sprintf("%s%d", g.cs("ag"), g.id())
	art := aggRegexTails[g.r.Intn(len(aggRegexTails))]
	rx := Opt{N: "regex", V: lit + art[0], Sample: lit + art[1]}
	others := g.matchOpts(true)
	var m []Opt
	for _, o := range others {
		if o.N != "regex" {
			m = append(m, o)
		}
	}
	m = append(m, rx)
	a.Match = g.shuffle(m)
	a.Format = fmt.Sprintf("%s%d.%s.%s", g.cs("out"), g.id(), g.r.Pick([]string{"$1", "${1}", "_sum_$1", "_Sum_$1"}), g.r.Pick([]string{"$2", "${2}x", "$2.sum", "${2}X", "$2.Sum"}))
	a.Interval = g.num(1, 900)
	a.Wait = g.num(1, 900)
	a.Cache = g.tri()
	a.DropRaw = g.tri()
	return a
}

func (g *gen) rw() RWSpec {
	w := RWSpec{}
	old := fmt.Sprintf("%s%d", g.cs("old"), g.id())
	w.OldLit = old
	if g.r.Intn(3) == 0 { // regular expression form
		grp := rwGroups[g.r.Intn(len(rwGroups))]
		w.Old = "/" + old + `\.` + grp[0] + "/"
		w.New = fmt.Sprintf("%s%d.${1}.%s", g.cs("new"), g.id(), g.r.Pick([]string{"c", "C"}))
		w.Max = -1
		w.Sample = "a." + old + "." + grp[1] + ".b." + old + "." + grp[2] + ".c"
	} else {
		w.Old = old + g.r.Pick([]string{"", ".", "_"})
		w.New = g.lit("new")
		w.Max = g.r.PickInt([]int{-1, 1, 2, 3})
		w.Sample = "a." + w.Old + ".b." + w.Old + "." + w.Old + ".c." + w.Old
	}
	if g.r.Bool() {
		w.HasNot = true
		nl := fmt.Sprintf("%s%d", g.cs("not"), g.id())
		w.NotLit = nl
		switch {
		case g.r.Intn(4) == 0:
			w.Not = "/" + nl + `\d+[A-Z]\S/`
			w.NotHit = w.Sample + "." + nl + "77Qx"
		case g.r.Bool():
			w.Not = "/" + nl + `[0-9]+/`
			w.NotHit = w.Sample + "." + nl + "77"
		default:
			w.Not = nl
			w.NotHit = w.Sample + "." + nl
		}
	}
	return w
}

// capture group of a regular-expression rewriter and two words it matches
var rwGroups = [][3]string{
	{`([a-z]+)`, "foo", "bar"},
	{`([A-Z][a-z]+)`, "Foo", "Bar"},
	{`(\D\w*)`, "Foo", "bar"},
	{`([^.\d]+)`, "fOO", "BAR"},
}

func (g *gen) black() BlackSpec {
	k := g.r.Pick(oracle.CfgBlacklistKinds)
	switch k {
	case "regex", "notRegex":
		o := g.regex("bl")
		return BlackSpec{Kind: k, Val: o.V, Sample: o.Sample}
	}
	return BlackSpec{Kind: k, Val: g.lit("bl")}
}

func kindOf(seed uint64, idx int) string {
	x := mon.NewRng(seed, 201, uint64(idx)).Intn(80)
	if !mon.Thorough() {
		switch {
		case x < 10:
			return "blacklist"
		case x < 20:
			return "rewriter"
		case x < 40:
			return "aggregation"
		case x < 70:
			return "carbon"
		}
		return "mixed"
	}
	switch {
	case x < 6:
		return "blacklist"
	case x < 12:
		return "rewriter"
	case x < 16: // every aggregator leaks its ticker goroutine: rationed (see main)
		return "aggregation"
	case x < 18:
		return "mixed"
	}
	return "carbon"
}

func genCase(seed uint64, idx int) Case { return genCaseKind(seed, idx, kindOf(seed, idx)) }

func genCaseKind(seed uint64, idx int, kind string) Case {
	r := mon.NewRng(seed, 20, uint64(idx))
	g := &gen{r: r, idx: idx, used: map[int]bool{}}
	c := Case{Index: idx, Kind: kind, ViaInit: r.Bool()}
	// spooling destinations leak one goroutine each when shut down (NewSlowChan never ends):
	// rationed in the thorough tier so that the race detector's goroutine limit is never near.
	allowSpool := !mon.Thorough() || r.Intn(20) == 0
	switch c.Kind {
	case "blacklist":
		for i, n := 0, r.Range(1, 4); i < n; i++ {
			c.Black = append(c.Black, g.black())
		}
	case "rewriter":
		for i, n := 0, r.Range(1, 3); i < n; i++ {
			c.RW = append(c.RW, g.rw())
		}
	case "aggregation":
		tomlOnly := r.Intn(10) == 0
		for i, n := 0, r.Range(1, 3); i < n; i++ {
			c.Agg = append(c.Agg, g.agg(tomlOnly && i == 0))
		}
		c.TOMLOnly = tomlOnly
	case "carbon":
		for i, n := 0, r.PickInt([]int{1, 1, 2}); i < n; i++ {
			c.Routes = append(c.Routes, g.carbonRoute(allowSpool))
		}
	case "mixed":
		c.Black = append(c.Black, g.black())
		c.RW = append(c.RW, g.rw())
		if r.Bool() {
			c.Agg = append(c.Agg, g.agg(false))
		}
		c.Routes = append(c.Routes, g.carbonRoute(allowSpool))
	}
	return c
}

// the few grafanaNet cases that leave concurrency (100 workers) and bufSize (10M queue slots) to
// their defaults: such a route can never be released again (see res.Assume), so there are few.
func gnBig(idx int) bool { return idx%24 == 5 }

func genGNCase(seed uint64, idx int, srvURL, schemas, aggs string) Case {
	r := mon.NewRng(seed, 21, uint64(idx))
	g := &gen{r: r, idx: 1000000 + idx, used: map[int]bool{}}
	c := Case{Index: 1000000 + idx, Kind: "grafanaNet", ViaInit: r.Bool()}
	big := gnBig(idx)
	n := r.PickInt([]int{1, 1, 2})
	if big {
		n = 1
	}
	for i := 0; i < n; i++ {
		c.Routes = append(c.Routes, g.gnRoute(srvURL, schemas, aggs, big))
	}
	if r.Intn(3) == 0 { // a carbon route in the same file: the boolean lookup must pick the right section
		rt := g.carbonRoute(false)
		if r.Bool() {
			c.Routes = append([]RouteSpec{rt}, c.Routes...)
		} else {
			c.Routes = append(c.Routes, rt)
		}
	}
	// a grafanaNet route whose key is also a string value of an earlier section (its `type`): the
	// lookup that tells "false" from "not given" for the TOML booleans must still find the right section
	if n := len(c.Routes); n >= 2 && c.Routes[n-1].Type == "grafanaNet" && r.Intn(2) == 0 {
		c.Routes[n-1].Key = c.Routes[n-2].Type
	}
	return c
}

// ---------------------------------------------------------------------------
// rendering

func q(s string) string { return "'" + s + "'" } // TOML literal string (values never contain ' or newlines)

func tomlMatch(b *strings.Builder, opts []Opt) {
	for _, o := range opts {
		fmt.Fprintf(b, "%s = %s\n", o.N, q(o.V))
	}
}

func optWords(opts []Opt) string {
	var w []string
	for _, o := range opts {
		w = append(w, o.N+"="+o.V)
	}
	return strings.Join(w, " ")
}

// matcher options as the command grammar spells them (no `substr` there).
func cmdMatch(opts []Opt) string {
	eff := effMatch(opts)
	var w []string
	seen := map[string]bool{}
	for _, o := range opts {
		n := o.N
		if n == "substr" {
			n = "sub"
		}
		if seen[n] {
			continue
		}
		seen[n] = true
		w = append(w, n+"="+eff[n].V)
	}
	return strings.Join(w, " ")
}

func destString(d DestSpec) string {
	if len(d.Opts) == 0 {
		return d.Addr
	}
	return d.Addr + " " + optWords(d.Opts)
}

func tomlOf(c Case) string {
	var b strings.Builder
	if len(c.Black) > 0 {
		b.WriteString("blacklist = [\n")
		for _, e := range c.Black {
			fmt.Fprintf(&b, "  %s,\n", q(e.Kind+" "+e.Val))
		}
		b.WriteString("]\n")
	}
	for _, a := range c.Agg {
		b.WriteString("\n[[aggregation]]\n")
		fmt.Fprintf(&b, "function = %s\n", q(a.Fun))
		tomlMatch(&b, a.Match)
		fmt.Fprintf(&b, "format = %s\ninterval = %d\nwait = %d\n", q(a.Format), a.Interval, a.Wait)
		if a.Cache != "" {
			fmt.Fprintf(&b, "cache = %s\n", a.Cache)
		}
		if a.DropRaw != "" {
			fmt.Fprintf(&b, "dropRaw = %s\n", a.DropRaw)
		}
	}
	for _, w := range c.RW {
		b.WriteString("\n[[rewriter]]\n")
		fmt.Fprintf(&b, "old = %s\nnew = %s\n", q(w.Old), q(w.New))
		if w.HasNot {
			fmt.Fprintf(&b, "not = %s\n", q(w.Not))
		}
		fmt.Fprintf(&b, "max = %d\n", w.Max)
	}
	for _, rt := range c.Routes {
		b.WriteString("\n[[route]]\n")
		fmt.Fprintf(&b, "key = %s\ntype = %s\n", q(rt.Key), q(rt.Type))
		tomlMatch(&b, rt.Match)
		if rt.GN != nil {
			fmt.Fprintf(&b, "addr = %s\n%s = %s\nschemasFile = %s\naggregationFile = %s\n", q(rt.GN.Addr), rt.GN.ApiKeySpelling, q(rt.GN.ApiKey), q(rt.GN.SchemasFile), q(rt.GN.AggregationFile))
			for _, o := range rt.GN.Opts {
				fmt.Fprintf(&b, "%s = %s\n", o.N, o.V)
			}
			continue
		}
		b.WriteString("destinations = [\n")
		for _, d := range rt.Dests {
			fmt.Fprintf(&b, "  %s,\n", q(destString(d)))
		}
		b.WriteString("]\n")
	}
	return b.String()
}

func cmdsOf(c Case) []string {
	var out []string
	for _, e := range c.Black {
		out = append(out, "addBlack "+e.Kind+" "+e.Val)
	}
	for _, a := range c.Agg {
		s := "addAgg " + a.Fun + " " + cmdMatch(a.Match) + " " + a.Format + " " + strconv.Itoa(a.Interval) + " " + strconv.Itoa(a.Wait)
		if a.Cache != "" {
			s += " cache=" + a.Cache
		}
		if a.DropRaw != "" {
			s += " dropRaw=" + a.DropRaw
		}
		out = append(out, s)
	}
	for _, w := range c.RW {
		out = append(out, fmt.Sprintf("addRewriter %s %s %d", w.Old, w.New, w.Max))
	}
	for _, rt := range c.Routes {
		s := "addRoute " + rt.Type + " " + rt.Key
		if m := cmdMatch(rt.Match); m != "" {
			s += " " + m
		}
		if rt.GN != nil {
			s += "  " + rt.GN.Addr + " " + rt.GN.ApiKey + " " + rt.GN.SchemasFile + " " + rt.GN.AggregationFile
			if len(rt.GN.Opts) > 0 {
				s += " " + optWords(rt.GN.Opts)
			}
		} else {
			for _, d := range rt.Dests {
				s += "  " + destString(d)
			}
		}
		out = append(out, s)
	}
	return out
}

func initCmdsTOML(cmds []string) string {
	var b strings.Builder
	b.WriteString("[init]\ncmds = [\n")
	for _, c := range cmds {
		fmt.Fprintf(&b, "  %s,\n", q(c))
	}
	b.WriteString("]\n")
	return b.String()
}

// ---------------------------------------------------------------------------
// building with the real code

type tbl struct {
	table.MockTable
	spool string
}

func (t *tbl) GetSpoolDir() string { return t.spool }

func buildFromTOML(text, spool string) (*tbl, error) {
	t := &tbl{spool: spool}
	config := cfg.NewConfig()
	meta, err := toml.Decode(text, &config)
	if err != nil {
		return t, fmt.Errorf("toml.Decode: %v", err)
	}
	if err := cfg.InitTable(t, config, meta); err != nil {
		return t, fmt.Errorf("cfg.InitTable: %v", err)
	}
	return t, nil
}

func buildFromCmds(cmds []string, spool string) (*tbl, error) {
	t := &tbl{spool: spool}
	for i, c := range cmds {
		// imperatives.Apply itself, not mon.Apply: the admin listener calls it from one goroutine per
		// connection without any lock, and the sessions part of this check does the same
		if err := imperatives.Apply(t, c); err != nil {
			return t, fmt.Errorf("command #%d %q: %v", i+1, c, err)
		}
	}
	return t, nil
}

type pendingShutdown struct {
	t     *tbl
	since time.Time
}

type worker struct {
	pending []pendingShutdown
}

// shutdown stops everything a table started, except grafanaNet routes (Shutdown of those is
// known to hang: DESIGN.md F7). It is delayed a little so that the first connection attempt
// of every destination has finished (a destination shut down earlier leaks that goroutine);
// the delay is hygiene only, no verdict depends on it.
func (t *tbl) shutdown() {
	for _, r := range t.Routes {
		if _, isGN := r.(*route.GrafanaNet); isGN {
			continue
		}
		r.Shutdown()
	}
	for _, a := range t.Aggregators {
		a.Shutdown()
	}
	if t.spool != "" {
		os.RemoveAll(t.spool)
	}
}

func (w *worker) drainPending(all bool) {
	for len(w.pending) > 0 && (all || time.Since(w.pending[0].since) > 25*time.Millisecond) {
		if all {
			if d := 25*time.Millisecond - time.Since(w.pending[0].since); d > 0 {
				time.Sleep(d)
			}
		}
		w.pending[0].t.shutdown()
		w.pending = w.pending[1:]
	}
}

// ---------------------------------------------------------------------------
// observed and expected entries as flat maps: path -> value

type flat map[string]string

func b2s(b bool) string { return strconv.FormatBool(b) }

func putMatcher(f flat, p string, m matcher.Matcher) {
	f[p+".prefix"], f[p+".notPrefix"], f[p+".sub"], f[p+".notSub"], f[p+".regex"], f[p+".notRegex"] = m.Prefix, m.NotPrefix, m.Sub, m.NotSub, m.Regex, m.NotRegex
}

func expMatcher(f flat, p string, opts []Opt) {
	eff := effMatch(opts)
	for _, n := range oracle.CfgMatcherOptions {
		f[p+"."+n] = eff[n].V // documented default ""
	}
}

func observe(t *tbl) flat {
	f := flat{}
	f["blacklist.len"] = strconv.Itoa(len(t.Blacklist))
	for i, m := range t.Blacklist {
		putMatcher(f, fmt.Sprintf("blacklist[%d]", i), *m)
	}
	f["rewriter.len"] = strconv.Itoa(len(t.Rewriters))
	for i, w := range t.Rewriters {
		p := fmt.Sprintf("rewriter[%d]", i)
		f[p+".old"], f[p+".new"], f[p+".not"], f[p+".max"] = w.Old, w.New, w.Not, strconv.Itoa(w.Max)
	}
	f["aggregation.len"] = strconv.Itoa(len(t.Aggregators))
	for i, a := range t.Aggregators {
		p := fmt.Sprintf("aggregation[%d]", i)
		f[p+".function"], f[p+".format"] = a.Fun, a.OutFmt
		f[p+".interval"], f[p+".wait"] = strconv.Itoa(int(a.Interval)), strconv.Itoa(int(a.Wait))
		f[p+".cache"], f[p+".dropRaw"] = b2s(a.Cache), b2s(a.DropRaw)
		putMatcher(f, p+".matcher", a.Matcher)
	}
	f["route.len"] = strconv.Itoa(len(t.Routes))
	for i, r := range t.Routes {
		p := fmt.Sprintf("route[%d]", i)
		snap := r.Snapshot()
		f[p+".key"] = r.Key()
		f[p+".snapshot.key"] = snap.Key
		f[p+".type"] = snap.Type
		putMatcher(f, p+".matcher", snap.Matcher)
		if gv, ok := route.VerifC20GrafanaNetFields(r); ok {
			f[p+".type"] = strings.ToLower(snap.Type)
			g := p + ".grafanaNet"
			c := gv.Cfg
			f[g+".addr"], f[g+".apiKey"], f[g+".schemasFile"], f[g+".aggregationFile"] = c.Addr, c.ApiKey, c.SchemasFile, c.AggregationFile
			f[g+".sslverify"], f[g+".spool"], f[g+".blocking"] = b2s(c.SSLVerify), b2s(c.Spool), b2s(c.Blocking)
			f[g+".concurrency"], f[g+".bufSize"], f[g+".flushMaxNum"], f[g+".orgId"] = strconv.Itoa(c.Concurrency), strconv.Itoa(c.BufSize), strconv.Itoa(c.FlushMaxNum), strconv.Itoa(c.OrgID)
			f[g+".flushMaxWait"], f[g+".timeout"], f[g+".errBackoffMin"] = c.FlushMaxWait.String(), c.Timeout.String(), c.ErrBackoffMin.String()
			f[g+".errBackoffFactor"] = strconv.FormatFloat(c.ErrBackoffFactor, 'g', -1, 64)
			f[g+".snapshot.addr"] = snap.Addr
			// what the running route does with it
			f[g+".running.workers"] = strconv.Itoa(gv.Shards)
			f[g+".running.blocking"] = b2s(gv.BlockingDispatch)
			f[g+".running.httpTimeout"] = gv.ClientTimeout.String()
			f[g+".running.tlsVerify"] = b2s(!gv.InsecureSkipVerify)
			tot := gv.Shards * gv.ShardCap
			if tot <= c.BufSize && tot > c.BufSize-gv.Shards {
				f[g+".running.queueSlots"] = strconv.Itoa(c.BufSize)
			} else {
				f[g+".running.queueSlots"] = fmt.Sprintf("%d (%d queues of %d)", tot, gv.Shards, gv.ShardCap)
			}
			f[g+".running.metricsURL"] = gv.AddrMetrics
			continue
		}
		f[p+".dests.len"] = strconv.Itoa(len(snap.Dests))
		for j := range snap.Dests {
			d, err := r.GetDestination(j)
			if err != nil {
				f[fmt.Sprintf("%s.dest[%d].error", p, j)] = err.Error()
				continue
			}
			dp := fmt.Sprintf("%s.dest[%d]", p, j)
			putMatcher(f, dp+".matcher", d.GetMatcher())
			f[dp+".addr"], f[dp+".instance"], f[dp+".spoolDir"], f[dp+".routeName"] = d.Addr, d.Instance, d.SpoolDir, d.RouteName
			f[dp+".spool"], f[dp+".pickle"] = b2s(d.Spool), b2s(d.Pickle)
			f[dp+".spoolbuf"] = strconv.Itoa(d.SpoolBufSize)
			f[dp+".spoolmaxbytesperfile"] = strconv.FormatInt(d.SpoolMaxBytesPerFile, 10)
			f[dp+".spoolsyncevery"] = strconv.FormatInt(d.SpoolSyncEvery, 10)
			f[dp+".spoolsyncperiod"], f[dp+".spoolsleep"], f[dp+".unspoolsleep"] = d.SpoolSyncPeriod.String(), d.SpoolSleep.String(), d.UnspoolSleep.String()
			u := d.VerifC20()
			f[dp+".flush"], f[dp+".reconn"] = u.PeriodFlush.String(), u.PeriodReConn.String()
			f[dp+".connbuf"], f[dp+".iobuf"] = strconv.Itoa(u.ConnBufSize), strconv.Itoa(u.IoBufSize)
			f[dp+".running.spool"] = b2s(u.HasSpool)
			if u.HasSpool {
				f[dp+".running.spoolsleep"], f[dp+".running.unspoolsleep"] = u.SpoolSpoolSleep.String(), u.SpoolUnspoolSleep.String()
				f[dp+".running.spoolbuf"] = strconv.Itoa(u.SpoolBufCap)
				if _, dir, maxb, every, period, ok := nsqd.VerifC20(d.VerifC20Queue()); ok {
					f[dp+".running.queue.dir"] = dir
					f[dp+".running.queue.maxbytesperfile"] = strconv.FormatInt(maxb, 10)
					f[dp+".running.queue.syncevery"] = strconv.FormatInt(every, 10)
					f[dp+".running.queue.syncperiod"] = period.String()
				}
			}
			sd := snap.Dests[j]
			f[dp+".snapshot.addr"], f[dp+".snapshot.spool"], f[dp+".snapshot.pickle"] = sd.Addr, b2s(sd.Spool), b2s(sd.Pickle)
			putMatcher(f, dp+".snapshot.matcher", sd.Matcher)
		}
	}
	return f
}

// written returns the value of a documented option as it must be read back:
// the written value, else the documented default, with the documented unit applied.
func written(tab []oracle.CfgOption, name string, opts []Opt) string {
	doc, ok := oracle.CfgLookup(tab, name)
	if !ok {
		panic("undocumented option " + name)
	}
	v := doc.Default
	if o, ok := getOpt(opts, name); ok {
		v = o.V
	}
	switch {
	case doc.Unit != 0:
		n, err := strconv.Atoi(v)
		if err != nil {
			panic(err)
		}
		return (time.Duration(n) * doc.Unit).String()
	case doc.Kind == oracle.CfgFloat:
		x, err := strconv.ParseFloat(v, 64)
		if err != nil {
			panic(err)
		}
		return strconv.FormatFloat(x, 'g', -1, 64)
	}
	return v
}

func triDefault(v string, def bool) string {
	if v == "" {
		return b2s(def)
	}
	return v
}

// expect: syntax is "toml" or "command".
func expect(c Case, syntax, spool string) flat {
	f := flat{}
	f["blacklist.len"] = strconv.Itoa(len(c.Black))
	for i, e := range c.Black {
		expMatcher(f, fmt.Sprintf("blacklist[%d]", i), []Opt{{N: e.Kind, V: e.Val}})
	}
	f["rewriter.len"] = strconv.Itoa(len(c.RW))
	for i, w := range c.RW {
		p := fmt.Sprintf("rewriter[%d]", i)
		f[p+".old"], f[p+".new"], f[p+".max"] = w.Old, w.New, strconv.Itoa(w.Max)
		f[p+".not"] = oracle.CfgRewriterNotDefault
		if w.HasNot && syntax == "toml" { // the command has no way to give it
			f[p+".not"] = w.Not
		}
	}
	f["aggregation.len"] = strconv.Itoa(len(c.Agg))
	for i, a := range c.Agg {
		p := fmt.Sprintf("aggregation[%d]", i)
		f[p+".function"], f[p+".format"] = a.Fun, a.Format
		f[p+".interval"], f[p+".wait"] = strconv.Itoa(a.Interval), strconv.Itoa(a.Wait)
		f[p+".cache"] = triDefault(a.Cache, oracle.CfgAggCacheDefault(syntax))
		f[p+".dropRaw"] = triDefault(a.DropRaw, oracle.CfgAggDropRawDefault)
		expMatcher(f, p+".matcher", a.Match)
	}
	f["route.len"] = strconv.Itoa(len(c.Routes))
	for i, rt := range c.Routes {
		p := fmt.Sprintf("route[%d]", i)
		f[p+".key"], f[p+".snapshot.key"] = rt.Key, rt.Key
		f[p+".type"] = rt.Type
		expMatcher(f, p+".matcher", rt.Match)
		if rt.GN != nil {
			f[p+".type"] = strings.ToLower(rt.Type)
			g := p + ".grafanaNet"
			f[g+".addr"], f[g+".apiKey"], f[g+".schemasFile"], f[g+".aggregationFile"] = rt.GN.Addr, rt.GN.ApiKey, rt.GN.SchemasFile, rt.GN.AggregationFile
			for _, o := range oracle.CfgGrafanaNet {
				f[g+"."+o.Name] = written(oracle.CfgGrafanaNet, o.Name, rt.GN.Opts)
			}
			f[g+".snapshot.addr"] = rt.GN.Addr
			f[g+".running.workers"] = f[g+".concurrency"]
			f[g+".running.blocking"] = f[g+".blocking"]
			f[g+".running.httpTimeout"] = f[g+".timeout"]
			f[g+".running.tlsVerify"] = f[g+".sslverify"]
			f[g+".running.queueSlots"] = f[g+".bufSize"]
			f[g+".running.metricsURL"] = rt.GN.Addr
			continue
		}
		f[p+".dests.len"] = strconv.Itoa(len(rt.Dests))
		for j, d := range rt.Dests {
			dp := fmt.Sprintf("%s.dest[%d]", p, j)
			expMatcher(f, dp+".matcher", d.Opts)
			expMatcher(f, dp+".snapshot.matcher", d.Opts)
			addr, inst := d.Addr, ""
			if strings.Count(addr, ":") == 2 { // host:port:instance (tcp-admin-interface.md, <addr>)
				k := strings.LastIndex(addr, ":")
				addr, inst = addr[:k], addr[k+1:]
			}
			f[dp+".addr"], f[dp+".instance"], f[dp+".spoolDir"], f[dp+".routeName"] = addr, inst, spool, rt.Key
			for _, o := range oracle.CfgCarbonDestination {
				f[dp+"."+o.Name] = written(oracle.CfgCarbonDestination, o.Name, d.Opts)
			}
			f[dp+".running.spool"] = f[dp+".spool"]
			if f[dp+".spool"] == "true" {
				f[dp+".running.spoolsleep"], f[dp+".running.unspoolsleep"] = f[dp+".spoolsleep"], f[dp+".unspoolsleep"]
				f[dp+".running.spoolbuf"] = f[dp+".spoolbuf"]
				f[dp+".running.queue.dir"] = spool
				f[dp+".running.queue.maxbytesperfile"] = f[dp+".spoolmaxbytesperfile"]
				f[dp+".running.queue.syncevery"] = f[dp+".spoolsyncevery"]
				f[dp+".running.queue.syncperiod"] = f[dp+".spoolsyncperiod"]
			}
			f[dp+".snapshot.addr"], f[dp+".snapshot.spool"], f[dp+".snapshot.pickle"] = addr, f[dp+".spool"], f[dp+".pickle"]
		}
	}
	return f
}

var idxRe = regexp.MustCompile(`\[\d+\]`)

// ---------------------------------------------------------------------------
// behavioural probes

// probeNames builds names that violate chosen subsets of the filter options that are set, and near
// misses of those in which the text of exactly one option appears with the case of its letters swapped
// (the options are case sensitive: such a name fails a positive option and escapes a negative one).
func probeNames(eff map[string]Opt) []string {
	val := func(n string) string { return eff[n].V }
	smp := func(n string) string {
		if eff[n].Sample != "" {
			return eff[n].Sample
		}
		return eff[n].V
	}
	build := func(viol, swap string) string {
		sw := func(n, text string) string {
			if n == swap {
				return swapCase(text)
			}
			return text
		}
		start := "zz"
		if val("prefix") != "" && viol != "prefix" {
			start = sw("prefix", val("prefix"))
		}
		if viol == "notPrefix" {
			start = sw("notPrefix", val("notPrefix"))
		}
		name := start + ".m"
		if val("sub") != "" && viol != "sub" {
			name += "." + sw("sub", val("sub"))
		}
		if viol == "notSub" {
			name += "." + sw("notSub", val("notSub"))
		}
		if val("regex") != "" && viol != "regex" {
			name += "." + sw("regex", smp("regex"))
		}
		if viol == "notRegex" {
			name += "." + sw("notRegex", smp("notRegex"))
		}
		return name + ".t"
	}
	names := []string{build("", "")}
	for _, n := range oracle.CfgMatcherOptions {
		if val(n) == "" {
			continue
		}
		names = append(names, build(n, ""))
		if strings.HasPrefix(n, "not") {
			names = append(names, build(n, n)) // the excluded text, in another case
		} else {
			names = append(names, build("", n)) // everything as required, this option's text in another case
		}
	}
	return names
}

type prober struct {
	res       *mon.Result
	c         *Case
	texts     map[string]interface{}
	sigPrefix string // "concurrent:" for the cases of the sessions part
	where     string
}

func (p *prober) matcher(syntax, what string, opts []Opt, match func([]byte) bool) {
	eff := effMatch(opts)
	ref, err := oracle.NewFilter(eff["prefix"].V, eff["notPrefix"].V, eff["sub"].V, eff["notSub"].V, eff["regex"].V, eff["notRegex"].V)
	if err != nil {
		panic("generator produced an invalid regex: " + err.Error())
	}
	base := probeNames(eff)
	if !ref.Accept(base[0]) {
		panic(fmt.Sprintf("probe construction: %q should satisfy %v", base[0], ref))
	}
	// every probe also with its letters folded / swapped: the options are case sensitive, so these are
	// near misses of the names above (a filter that folds its pattern, or compares without regard to
	// case, answers them differently from the documented one)
	for _, name := range caseVariants(base) {
		want := ref.Accept(name)
		got := match([]byte(name))
		p.res.Count("filter_probes", 1)
		if hasUpper(name) && hasLower(name) {
			p.res.Count("filter_probes_mixed_case", 1)
		}
		if got != want {
			p.res.Violate(p.sigPrefix+syntax+":filter-behaviour:"+idxRe.ReplaceAllString(what, ""),
				fmt.Sprintf("%s%s built from the %s form: name %q is %s by the entry's filter, the documented filter options %s say %s",
					p.where, what, syntax, name, passWord(got), ref, passWord(want)), p.witness())
		}
	}
}

func hasUpper(s string) bool { return strings.IndexFunc(s, unicode.IsUpper) >= 0 }
func hasLower(s string) bool { return strings.IndexFunc(s, unicode.IsLower) >= 0 }

func swapCase(s string) string {
	return strings.Map(func(r rune) rune {
		switch {
		case unicode.IsUpper(r):
			return unicode.ToLower(r)
		case unicode.IsLower(r):
			return unicode.ToUpper(r)
		}
		return r
	}, s)
}

// caseVariants: each name as it is, lower-cased, upper-cased and with the case of every letter swapped
// (duplicates removed, order kept).
func caseVariants(names []string) []string {
	seen := map[string]bool{}
	var out []string
	for _, n := range names {
		for _, v := range []string{n, strings.ToLower(n), strings.ToUpper(n), swapCase(n)} {
			if !seen[v] {
				seen[v] = true
				out = append(out, v)
			}
		}
	}
	return out
}

func passWord(b bool) string {
	if b {
		return "accepted"
	}
	return "rejected"
}

func (p *prober) witness() interface{} {
	w := map[string]interface{}{"case": p.c, "toml": p.texts["toml"], "commands": p.texts["commands"]}
	if ss, ok := p.texts["concurrentSession"]; ok {
		w["concurrentSession"] = ss
	}
	return w
}

// rewriter: documented meaning on a sample input (docs/rewriting.md).
func rwReference(w RWSpec, syntax, in string) string {
	not := ""
	if w.HasNot && syntax == "toml" {
		not = w.Not
	}
	if not != "" {
		if len(not) > 1 && not[0] == '/' && not[len(not)-1] == '/' {
			if regexp.MustCompile(not[1 : len(not)-1]).MatchString(in) {
				return in
			}
		} else if strings.Contains(in, not) {
			return in
		}
	}
	if len(w.Old) > 1 && w.Old[0] == '/' && w.Old[len(w.Old)-1] == '/' {
		return regexp.MustCompile(w.Old[1:len(w.Old)-1]).ReplaceAllString(in, w.New)
	}
	return strings.Replace(in, w.Old, w.New, w.Max)
}

func (p *prober) table(syntax string, t *tbl) {
	c := p.c
	for i, e := range c.Black {
		if i < len(t.Blacklist) {
			p.matcher(syntax, fmt.Sprintf("blacklist[%d]", i), []Opt{{N: e.Kind, V: e.Val, Sample: e.Sample}}, t.Blacklist[i].Match)
		}
	}
	for i, a := range c.Agg {
		if i < len(t.Aggregators) {
			m := t.Aggregators[i].Matcher
			p.matcher(syntax, fmt.Sprintf("aggregation[%d]", i), a.Match, m.Match)
		}
	}
	for i, w := range c.RW {
		if i >= len(t.Rewriters) {
			continue
		}
		var inputs []string
		for _, in := range []string{w.Sample, w.NotHit} {
			if in != "" {
				inputs = append(inputs, in)
			}
		}
		// near misses: the whole input in another case, and only the text of `old` / of `not` in another case
		inputs = caseVariants(inputs)
		for _, in := range inputs[:len(inputs):len(inputs)] {
			for _, lit := range []string{w.OldLit, w.NotLit} {
				if v := strings.Replace(in, lit, swapCase(lit), -1); lit != "" && v != in {
					inputs = append(inputs, v)
				}
			}
		}
		for _, in := range inputs {
			want := rwReference(w, syntax, in)
			got := string(t.Rewriters[i].Do([]byte(in)))
			p.res.Count("rewriter_probes", 1)
			if got != want {
				p.res.Violate(p.sigPrefix+syntax+":rewriter-behaviour", fmt.Sprintf(p.where+"rewriter[%d] built from the %s form rewrites %q to %q, the documented meaning of old=%q new=%q not=%q max=%d gives %q", i, syntax, in, got, w.Old, w.New, w.Not, w.Max, want), p.witness())
			}
		}
	}
	for i, rt := range c.Routes {
		if i >= len(t.Routes) {
			continue
		}
		r := t.Routes[i]
		p.matcher(syntax, fmt.Sprintf("route[%d]", i), rt.Match, r.Match)
		if rt.GN != nil {
			continue
		}
		for j, d := range rt.Dests {
			if dd, err := r.GetDestination(j); err == nil {
				p.matcher(syntax, fmt.Sprintf("route[%d].dest[%d]", i, j), d.Opts, dd.Match)
			}
		}
	}
}

// ---------------------------------------------------------------------------
// one case

type coverage struct {
	mu      sync.Mutex
	set     map[string]int
	omitted map[string]int
}

var cov = coverage{set: map[string]int{}, omitted: map[string]int{}}

func (cv *coverage) note(prefix string, documented []string, opts []Opt) (nset, nomit int) {
	cv.mu.Lock()
	defer cv.mu.Unlock()
	for _, n := range documented {
		_, ok := getOpt(opts, n)
		if n == "sub" && !ok {
			_, ok = getOpt(opts, "substr")
		}
		if ok {
			cv.set[prefix+n]++
			nset++
		} else {
			cv.omitted[prefix+n]++
			nomit++
		}
	}
	if _, ok := getOpt(opts, "substr"); ok {
		cv.set[prefix+"substr(old spelling)"]++
	}
	return
}

func names(tab []oracle.CfgOption) []string {
	var out []string
	for _, o := range tab {
		out = append(out, o.Name)
	}
	return out
}

// presence signature: which options were given, entry by entry (no values).
func presence(c Case) (sig string, nset, nomit, nentries int) {
	var b strings.Builder
	b.WriteString(c.Kind)
	add := func(prefix string, documented []string, opts []Opt) {
		s, o := cov.note(prefix, documented, opts)
		nset += s
		nomit += o
		nentries++
		var ns []string
		for _, x := range opts {
			if x.V == "true" || x.V == "false" {
				ns = append(ns, x.N+"="+x.V)
			} else {
				ns = append(ns, x.N)
			}
		}
		sort.Strings(ns)
		b.WriteString("|" + prefix + strings.Join(ns, ","))
	}
	for _, e := range c.Black {
		nentries++
		cov.mu.Lock()
		cov.set["blacklist."+e.Kind]++
		cov.mu.Unlock()
		b.WriteString("|bl:" + e.Kind)
	}
	for _, w := range c.RW {
		nentries++
		b.WriteString(fmt.Sprintf("|rw:%v,%d,%v", w.HasNot, w.Max, strings.HasPrefix(w.Old, "/")))
		cov.mu.Lock()
		if w.HasNot {
			cov.set["rewriter.not"]++
			nset++
		} else {
			cov.omitted["rewriter.not"]++
			nomit++
		}
		cov.mu.Unlock()
	}
	for _, a := range c.Agg {
		var o []Opt
		o = append(o, a.Match...)
		if a.Cache != "" {
			o = append(o, Opt{N: "cache", V: a.Cache})
		}
		if a.DropRaw != "" {
			o = append(o, Opt{N: "dropRaw", V: a.DropRaw})
		}
		add("aggregation.", []string{"prefix", "notPrefix", "sub", "notSub", "notRegex", "cache", "dropRaw"}, o) // regex is mandatory
		b.WriteString(":" + a.Fun)
	}
	for _, rt := range c.Routes {
		if rt.GN != nil {
			add("grafanaNet.", append(append([]string{}, oracle.CfgMatcherOptions...), names(oracle.CfgGrafanaNet)...), append(append([]Opt{}, rt.Match...), rt.GN.Opts...))
			continue
		}
		add("route.", oracle.CfgMatcherOptions, rt.Match)
		b.WriteString(":" + rt.Type)
		for _, d := range rt.Dests {
			doc := names(oracle.CfgCarbonDestination)
			if rt.Type != "consistentHashing" {
				doc = append(append([]string{}, oracle.CfgMatcherOptions...), doc...)
			}
			add("destination.", doc, d.Opts)
		}
	}
	return b.String(), nset, nomit, nentries
}

type gnWatch struct {
	mu    sync.Mutex
	posts map[string]int // "<path> <authorization>" -> count
}

func (w *gnWatch) ServeHTTP(rw http.ResponseWriter, req *http.Request) {
	io.Copy(io.Discard, req.Body)
	w.mu.Lock()
	w.posts[req.URL.Path+" "+req.Header.Get("Authorization")]++
	w.mu.Unlock()
	rw.WriteHeader(200)
	rw.Write([]byte("{}"))
}

func (w *gnWatch) count(key string) int {
	w.mu.Lock()
	defer w.mu.Unlock()
	return w.posts[key]
}

// session describes the circumstances of a case of the concurrent-sessions part (nil = a case run alone).
type session struct {
	Group    int      `json:"group"`
	Session  int      `json:"session"`
	Round    int      `json:"round"`
	Syntaxes []string `json:"syntaxes"`
	// what the other sessions of the group apply in the same round (their cases are functions of seed and index)
	Others []sessionPeer `json:"otherSessionsSameRound"`
	fly    *inflight
}

type sessionPeer struct {
	Session  int      `json:"session"`
	Index    int      `json:"index"`
	Syntaxes []string `json:"syntaxes"`
	Commands []string `json:"commands"`
}

// inflight counts the builds of a group that are running right now.
type inflight struct {
	mu  sync.Mutex
	n   int
	gen int // bumped whenever a build starts
}

func (f *inflight) enter() (others, gen int) {
	f.mu.Lock()
	defer f.mu.Unlock()
	f.n++
	f.gen++
	return f.n - 1, f.gen
}

func (f *inflight) leave(genAtEnter int) (overlapped bool) {
	f.mu.Lock()
	defer f.mu.Unlock()
	f.n--
	return f.n > 0 || f.gen != genAtEnter
}

func (w *worker) runCase(res *mon.Result, c Case, scratch string, watch *gnWatch, ss *session) {
	tomlText := tomlOf(c)
	cmds := cmdsOf(c)
	texts := map[string]interface{}{"toml": tomlText, "commands": cmds}
	sigPrefix, where := "", ""
	if ss == nil {
		res.LogCase("case %d kind=%s viaInit=%v commands=%q", c.Index, c.Kind, c.ViaInit, cmds)
	} else {
		res.LogCase("case %d kind=%s viaInit=%v group=%d session=%d round=%d syntaxes=%v commands=%q", c.Index, c.Kind, c.ViaInit, ss.Group, ss.Session, ss.Round, ss.Syntaxes, cmds)
		sigPrefix = "concurrent:"
		where = fmt.Sprintf("session %d of %d concurrent admin/configuration sessions, each with a table of its own (group %d, round %d): ", ss.Session, len(ss.Others)+1, ss.Group, ss.Round)
		texts["concurrentSession"] = ss
	}
	sig, nset, nomit, nentries := presence(c)
	res.Count("options_given", nset)
	res.Count("options_left_to_default", nomit)
	res.Count("entries_described", nentries)
	witness := map[string]interface{}{"case": c, "toml": tomlText, "commands": cmds}
	if ss != nil {
		witness["concurrentSession"] = ss
	}
	pr := &prober{res: res, c: &c, texts: texts, sigPrefix: sigPrefix, where: where}

	type built struct {
		syntax string
		t      *tbl
		obs    flat
		exp    flat
	}
	var bs []built
	syntaxes := []string{"toml", "command"}
	if c.TOMLOnly {
		syntaxes = syntaxes[:1]
	}
	if ss != nil {
		syntaxes = ss.Syntaxes
	}
	for _, syntax := range syntaxes {
		spool := filepath.Join(scratch, "spool", fmt.Sprintf("%d-%s", c.Index, syntax))
		var t *tbl
		var err error
		others, genAtEnter := 0, 0
		if ss != nil {
			others, genAtEnter = ss.fly.enter()
		}
		if syntax == "toml" {
			t, err = buildFromTOML(tomlText, spool)
		} else if c.ViaInit {
			t, err = buildFromTOML(initCmdsTOML(cmds), spool)
		} else {
			t, err = buildFromCmds(cmds, spool)
		}
		if ss != nil {
			res.Count("session_builds", 1)
			if ss.fly.leave(genAtEnter) || others > 0 {
				res.Count("session_builds_overlapping_another_sessions_build", 1)
			}
			if syntax == "command" {
				res.Count("session_commands_applied", len(cmds))
			}
		}
		w.pending = append(w.pending, pendingShutdown{t, time.Now()})
		res.Count("tables_built_"+syntax, 1)
		if err != nil {
			detail := ""
			if syntax == "command" && c.ViaInit {
				detail = fmt.Sprintf(" ([init] cmds = %q)", cmds)
			}
			res.Violate(sigPrefix+syntax+":rejected:"+c.Kind, fmt.Sprintf("%sa configuration that uses documented options with legal values only is rejected in its %s form: %v%s", where, syntax, err, detail), witness)
			continue
		}
		bs = append(bs, built{syntax, t, observe(t), expect(c, syntax, spool)})
	}
	for _, b := range bs {
		other := flat{}
		for _, o := range bs {
			if o.syntax != b.syntax {
				other = o.obs
			}
		}
		keys := make([]string, 0, len(b.exp))
		for k := range b.exp {
			keys = append(keys, k)
		}
		sort.Strings(keys)
		for _, k := range keys {
			want := b.exp[k]
			got, ok := b.obs[k]
			res.Count("fields_compared", 1)
			if ok && got == want {
				continue
			}
			if !ok {
				got = "<entry missing>"
			}
			msg := fmt.Sprintf("%s%s: built from the %s form it is %q, written/documented is %q", where, k, b.syntax, got, want)
			if ov, ok := other[k]; ok {
				msg += fmt.Sprintf(" (the other syntax gives %q)", ov)
			}
			// is it another option's value?
			for k2, v2 := range b.exp {
				if k2 != k && v2 == got && got != "" && got != "true" && got != "false" && !strings.Contains(k2, ".running.") && !strings.Contains(k2, ".snapshot.") {
					msg += fmt.Sprintf("; that is the value of %s", k2)
					break
				}
			}
			if ss != nil { // is it what another session wrote at the same moment?
				if who := ss.whoWrote(got); who != "" {
					msg += "; " + who
				}
			}
			res.Violate(sigPrefix+b.syntax+":"+idxRe.ReplaceAllString(k, ""), msg, witness)
		}
		for k := range b.obs {
			if _, ok := b.exp[k]; !ok {
				res.Violate(sigPrefix+b.syntax+":unexpected:"+idxRe.ReplaceAllString(k, ""), fmt.Sprintf("%s%s=%q exists in the table built from the %s form but nothing was configured there", where, k, b.obs[k], b.syntax), witness)
			}
		}
		pr.table(b.syntax, b.t)
		for _, rt := range c.Routes {
			if rt.GN == nil {
				res.Count("destinations_inspected", len(rt.Dests))
			} else {
				res.Count("grafananet_routes_inspected", 1)
			}
		}
	}
	// grafanaNet: the route announces schemas and aggregations to the address with the api key (bounded wait)
	for _, rt := range c.Routes {
		if rt.GN == nil || len(bs) == 0 {
			continue
		}
		base := strings.TrimSuffix(rt.GN.Addr[strings.Index(rt.GN.Addr[8:], "/")+8:], "/metrics")
		for _, path := range []string{base + "/graphite/config/storageSchema", base + "/graphite/config/storageAggregation"} {
			key := path + " Bearer " + rt.GN.ApiKey
			seen := false
			for step := 0; step < 30000; step++ {
				if watch.count(key) >= len(bs) {
					seen = true
					break
				}
				time.Sleep(time.Millisecond)
			}
			if seen {
				res.Count("grafananet_config_posts_seen", len(bs))
			} else {
				res.Inconclusive(fmt.Sprintf("case %d: grafanaNet route %s did not post %s with its api key %d times within 30000 steps", c.Index, rt.Key, path, len(bs)))
			}
		}
	}
	res.Eval(1)
	if ss != nil {
		// non-trivial here: the entry was built while another session's build was in progress (counted above)
		if len(bs) == len(syntaxes) {
			res.NonTrivial("sessions|" + strings.Join(syntaxes, "+") + "|" + sig)
		}
		w.drainPending(false)
		return
	}
	if nset > 0 && nomit > 0 && len(bs) == len(syntaxes) {
		res.NonTrivial(sig)
	}
	res.Sample(map[string]interface{}{"index": c.Index, "kind": c.Kind, "toml": tomlText, "commands": cmds, "commandsViaInitCmds": c.ViaInit})
	w.drainPending(false)
}

// ---------------------------------------------------------------------------
// part 1b: several admin / configuration sessions at the same moment
//
// The admin listener serves every connection in its own goroutine and each handler calls
// imperatives.Apply without a lock; nothing in the documentation restricts the admin interface to one
// client. What a command means must not depend on what another session is sending at that moment:
// every session here applies its own generated configuration to a table of its OWN (so the entries
// cannot legitimately interact) and the result goes through exactly the same oracle as a case run
// alone: no valid command refused, every field as written / documented default, same probes.
// The sessions of a group pass a barrier before every round, so their builds start together; how many
// builds really ran while another session's build was in progress is counted (and has a floor).

// whoWrote tells whether a value found in this session's entry occurs in the text another session
// of the group applied in the same round.
func (ss *session) whoWrote(v string) string {
	if len(v) < 3 {
		return ""
	}
	for _, o := range ss.Others {
		for _, c := range o.Commands {
			if strings.Contains(c, v) {
				return fmt.Sprintf("that text is part of what session %d applied in the same round: %q", o.Session, c)
			}
		}
	}
	return ""
}

const sessionBase = 2000000 // case indices of the sessions part

func sessionKind(r *mon.Rng) string {
	x := r.Intn(20)
	switch {
	case x < 6:
		return "blacklist"
	case x < 10:
		return "rewriter"
	case x < 12: // every aggregator leaks its ticker goroutine: few
		return "aggregation"
	case x < 18:
		return "carbon"
	}
	return "mixed"
}

func runSessions(res *mon.Result, scratch string, watch *gnWatch, groups, nsess, rounds int) (ran int) {
	for g := 0; g < groups; g++ {
		if !mon.Mine(g) {
			continue
		}
		if n := runtime.NumGoroutine(); n > 7000 {
			res.Inconclusive(fmt.Sprintf("sessions part stopped at group %d: %d goroutines alive, too close to the race detector's limit", g, n))
			break
		}
		// the plan of the whole group is fixed before anything runs: (seed, group, session, round) -> case
		plan := make([][]Case, nsess)
		syn := make([][][]string, nsess)
		for s := 0; s < nsess; s++ {
			for r := 0; r < rounds; r++ {
				idx := sessionBase + (g*nsess+s)*rounds + r
				pr := mon.NewRng(mon.Seed(), 23, uint64(idx))
				c := genCaseKind(mon.Seed(), idx, sessionKind(pr))
				c.TOMLOnly = false
				for i := range c.Agg { // the command grammar has no percentiles
					if c.Agg[i].Fun == "percentiles" {
						c.Agg[i].Fun = "sum"
					}
				}
				// a quarter of the rounds: every session also loads the structured form first (cfg.InitTable,
				// imperatives.ParseDestinations), so that those calls meet each other and, as the sessions
				// get through them at different speeds, the commands of the quicker sessions
				sy := []string{"command"}
				if mon.NewRng(mon.Seed(), 24, uint64(g*rounds+r)).Intn(4) == 0 {
					sy = []string{"toml", "command"}
				}
				plan[s] = append(plan[s], c)
				syn[s] = append(syn[s], sy)
			}
		}
		res.LogCase("sessions group %d: %d sessions x %d rounds, cases %d..%d", g, nsess, rounds, sessionBase+g*nsess*rounds, sessionBase+(g+1)*nsess*rounds-1)
		fly := &inflight{}
		barriers := make([]sync.WaitGroup, rounds)
		for r := range barriers {
			barriers[r].Add(nsess)
		}
		var wg sync.WaitGroup
		var mu sync.Mutex
		for s := 0; s < nsess; s++ {
			wg.Add(1)
			go func(s int) {
				defer wg.Done()
				w := &worker{}
				for r := 0; r < rounds; r++ {
					ss := &session{Group: g, Session: s, Round: r, Syntaxes: syn[s][r], fly: fly}
					for o := 0; o < nsess; o++ {
						if o != s {
							ss.Others = append(ss.Others, sessionPeer{Session: o, Index: plan[o][r].Index, Syntaxes: syn[o][r], Commands: cmdsOf(plan[o][r])})
						}
					}
					barriers[r].Done()
					barriers[r].Wait()
					w.runCase(res, plan[s][r], scratch, watch, ss)
					mu.Lock()
					ran++
					mu.Unlock()
				}
				w.drainPending(true)
			}(s)
		}
		wg.Wait()
	}
	return ran
}

// ---------------------------------------------------------------------------
// part 2: interpolation through the real binary

const delim = "\n#---VERIF-C20-CASE-DELIMITER---#\n"

var atoms = []string{
	"$1", "${1}", "${1}x", "$$", "${}", "$HOSTNAME", "${HOST", "$HOST", "${HOST}", "$GRAFANA_NET_ADDR", "${GRAFANA_NET_ADDR}",
	"$GRAFANA_NET_API_KEY", "${GRAFANA_NET_API_KEY}", "$GRAFANA_NET_USER_ID", "${GRAFANA_NET_USER_ID}",
	"${GRAFANA_NET_USER_ID}:${GRAFANA_NET_API_KEY}", "$", "$ ", "${ HOST }", "$HOST_", "$_HOST", "${HOST}}", "${{HOST}}", "$HOST$HOST",
	"$ {HOST}", "$host", "$Host", "${host}", "${HOST:-x}", "$(HOST)", "$*", "$#", "$@", "$?", "$-", "$!", "$0", "$2", "$9", "$10", "${10}", "${2}",
	"$1$2", "${1}${2}", "$1.$2", "stats.timers._sum_$1.requests.$2", "servers.${1}.collectd", "$HOST.x", "$HOST-x", "x$HOST", "${HOST}x", "${HOSTNAME}",
	"$HOST1", "${HOST1}", "$1HOST", "${1HOST}", "$USER", "${USER}", "$HOME", "${HOME}", "$PATH", "$PWD", "$INSTANCE", "${INSTANCE}", "$GRAFANA_NET", "$GRAFANA_NET_ADDR_",
	"$GRAFANA_NET_ORG_ID", "${GRAFANA_NET_ORG_ID}", "$GRAFANA_NET_URL", "$GRAFANA_NET_KEY", "$GRAFANA_NET_APIKEY", "$GRAFANA_NET_USERID", "${GRAFANA_NET_ADDR",
	"$GRAFANA_NET_ADDR/metrics", "${GRAFANA_NET_ADDR}/metrics", "\\$HOST", "$$HOST", "$${HOST}", "${$HOST}", "${HOST$}", "$\xff", "$\xc3\xa9", "${\xc3\xa9}", "$HOST\xc3\xa9", "${HOST}\xff",
	"$}", "${", "$}{", "${}}", "${_}", "$_", "${HOST }", "${ HOST}", "$\n", "$\t", "$HOST\n", "${HOST\n}", "$'HOST'", "$\"HOST\"", "$[HOST]", "%HOST%", "$%HOST",
}

var nameWords = []string{"GRAFANA", "NET", "ADDR", "API", "KEY", "USER", "ID", "HOST", "NAME", "ORG", "URL", "INSTANCE", "PORT", "TOKEN", "PASSWORD", "HOSTNAME", "FQDN", "DOMAIN", "IP", "RELAY", "CARBON", "GRAPHITE", "SPOOL", "DIR", "LOG", "LEVEL", "ENV", "REGION", "CLUSTER", "POD", "NODE"}

func randName(r *mon.Rng) string {
	switch r.Intn(6) {
	case 0:
		return r.Pick(oracle.ExpandDocumentedVars)
	case 1: // near miss of a documented name
		n := r.Pick(oracle.ExpandDocumentedVars)
		switch r.Intn(5) {
		case 0:
			return n[:len(n)-1]
		case 1:
			return n + r.Pick([]string{"S", "_", "1", "NAME", "_2"})
		case 2:
			return strings.ToLower(n)
		case 3:
			return "_" + n
		}
		return strings.Replace(n, "_", "", 1)
	case 2:
		return strconv.Itoa(r.Intn(12))
	}
	n := r.Range(1, 4)
	var w []string
	for i := 0; i < n; i++ {
		w = append(w, r.Pick(nameWords))
	}
	return strings.Join(w, "_")
}

var fillers = []string{"a", "foo.bar", ".", "_", " ", "\n", "=", "'", "\"", "{", "}", "}}", "x", "1", "stats.", ".sum", "é", "\xff", "\x80\xfe", "日本", "\t", "#", "[[route]]\n", "format = '", "new = 'servers.", "instance = \"", "\"\n", "\\", "/", ":", "%", "(", ")"}

func genDollar(r *mon.Rng) string {
	var b strings.Builder
	n := r.Range(1, 7)
	for i := 0; i < n; i++ {
		switch r.Intn(8) {
		case 0, 1:
			b.WriteString(r.Pick(fillers))
		case 2, 3:
			b.WriteString(r.Pick(atoms))
		case 4:
			b.WriteString("$" + randName(r))
		case 5:
			b.WriteString("${" + randName(r) + "}")
		case 6:
			b.WriteString(r.Pick([]string{"$", "${", "$}", "$$", "$${", "${{"}) + randName(r) + r.Pick([]string{"", "}", "}}", " }", "$"}))
		default:
			b.Write(r.Bytes(r.Range(1, 4)))
			b.WriteString("$")
		}
	}
	s := b.String()
	if strings.Contains(s, strings.TrimSpace(delim)) {
		return "x"
	}
	return s
}

type expander struct {
	bin  string
	env  []string
	vals map[string]string
	dir  string
}

func buildRelay(res *mon.Result, scratch string) (*expander, error) {
	modfile, overlay, vdir := os.Getenv("VERIF_MODFILE"), os.Getenv("VERIF_OVERLAY"), os.Getenv("VERIF_DIR")
	if modfile == "" || overlay == "" || vdir == "" {
		return nil, fmt.Errorf("VERIF_MODFILE / VERIF_OVERLAY / VERIF_DIR not set (run through ./check)")
	}
	sh, _ := mon.Shard()
	bin := filepath.Join(scratch, fmt.Sprintf("relay-%d", sh))
	cmd := exec.Command("go", "build", "-race", "-tags", "verif", "-modfile="+modfile, "-overlay="+overlay, "-o", bin, "github.com/grafana/carbon-relay-ng/cmd/carbon-relay-ng")
	cmd.Dir = filepath.Join(vdir, "harness")
	t0 := time.Now()
	out, err := cmd.CombinedOutput()
	if err != nil {
		return nil, fmt.Errorf("building the relay binary failed: %v\n%s", err, out)
	}
	res.Set("relay_build_s", int(time.Since(t0).Seconds()))
	host, _ := os.Hostname()
	if i := strings.IndexByte(host, '.'); i >= 0 {
		host = host[:i]
	}
	e := &expander{bin: bin, dir: scratch, vals: map[string]string{
		"HOST":                host,
		"GRAFANA_NET_ADDR":    "<ADDR:https://gw.example/metrics>",
		"GRAFANA_NET_API_KEY": "<APIKEY:s3cr3t=>",
		"GRAFANA_NET_USER_ID": "<USERID:4711>",
	}}
	// the process environment: the three documented variables, plus decoys for everything else
	// the generator may mention (a relay that expands arbitrary environment variables shows them)
	env := []string{"GORACE=halt_on_error=0", "HOME=<LEAK:HOME>", "USER=<LEAK:USER>", "PWD=<LEAK:PWD>", "HOST=<LEAK:HOST-from-environment>", "HOSTNAME=<LEAK:HOSTNAME>", "PATH=" + os.Getenv("PATH")}
	for _, n := range []string{"GRAFANA_NET_ADDR", "GRAFANA_NET_API_KEY", "GRAFANA_NET_USER_ID"} {
		env = append(env, n+"="+e.vals[n])
	}
	for _, n := range []string{"INSTANCE", "GRAFANA_NET", "GRAFANA_NET_ORG_ID", "GRAFANA_NET_URL", "GRAFANA_NET_KEY", "GRAFANA_NET_APIKEY", "GRAFANA_NET_USERID", "HOST1", "HOST_", "_HOST", "_", "host", "Host", "1", "2", "10"} {
		env = append(env, n+"=<LEAK:"+n+">")
	}
	for _, w := range nameWords {
		env = append(env, w+"=<LEAK:"+w+">")
	}
	e.env = env
	return e, nil
}

func (e *expander) run(batch int, cases []string) ([]string, error) {
	in := filepath.Join(e.dir, fmt.Sprintf("expand-in-%d", batch))
	out := filepath.Join(e.dir, fmt.Sprintf("expand-out-%d", batch))
	defer os.Remove(in)
	defer os.Remove(out)
	if err := os.WriteFile(in, []byte(strings.Join(cases, delim)), 0644); err != nil {
		return nil, err
	}
	cmd := exec.Command(e.bin, "/nonexistent/verif-c20.ini")
	cmd.Env = append(append([]string{}, e.env...), "VERIF_EXPAND_FILE="+in, "VERIF_EXPAND_OUT="+out, "VERIF_EXPAND_DELIM="+delim)
	msg, err := cmd.CombinedOutput()
	if err != nil {
		return nil, fmt.Errorf("relay binary in expand mode: %v: %s", err, msg)
	}
	data, err := os.ReadFile(out)
	if err != nil {
		return nil, err
	}
	return strings.Split(string(data), delim), nil
}

func sigAtom(a string) string {
	s := strconv.QuoteToASCII(a)
	s = s[1 : len(s)-1]
	return strings.NewReplacer(" ", `\x20`).Replace(s)
}

func runExpand(res *mon.Result, scratch string, nStrings int) (done int) {
	const per = 4000
	nb := (nStrings + per - 1) / per
	mine := false
	for b := 0; b < nb; b++ {
		mine = mine || mon.Mine(b)
	}
	if !mine {
		return 0
	}
	e, err := buildRelay(res, scratch)
	if err != nil {
		fmt.Fprintln(os.Stderr, "C20:", err)
		res.Inconclusive("interpolation part not run: " + strings.SplitN(err.Error(), "\n", 2)[0])
		return 0
	}
	defer os.Remove(e.bin)
	for b := 0; b < nb; b++ {
		if !mon.Mine(b) {
			continue
		}
		var cases []string
		var isAtom []bool
		if b == 0 || b%16 == 0 { // every documented / hostile form on its own
			for _, a := range atoms {
				cases = append(cases, a)
				isAtom = append(isAtom, true)
			}
		}
		for i := 0; i < per && b*per+i < nStrings; i++ {
			cases = append(cases, genDollar(mon.NewRng(mon.Seed(), 22, uint64(b*per+i))))
			isAtom = append(isAtom, false)
		}
		res.LogCase("expand batch %d (%d strings)", b, len(cases))
		got, err := e.run(b, cases)
		if err != nil {
			res.Violate("expand:process", "the relay binary failed while reading configuration texts: "+err.Error(), map[string]interface{}{"batch": b})
			continue
		}
		if len(got) != len(cases) {
			res.Violate("expand:count", fmt.Sprintf("batch %d: %d texts in, %d out", b, len(cases), len(got)), map[string]interface{}{"batch": b})
			continue
		}
		for i, in := range cases {
			want, nd, no := oracle.ExpandConfig(in, e.vals)
			res.Count("expand_strings", 1)
			res.Count("expand_refs_documented", nd)
			res.Count("expand_dollars_to_keep", no)
			done++
			if nd > 0 && no > 0 {
				res.NonTrivial("expand:" + in)
			}
			if got[i] == want {
				continue
			}
			sig := "expand:composite"
			if isAtom[i] {
				sig = "expand:" + sigAtom(in)
			}
			res.Violate(sig, fmt.Sprintf("configuration text %q is read as %q; with only the documented variables substituted it is %q", in, got[i], want),
				map[string]interface{}{"input": in, "inputBytes": []byte(in), "got": got[i], "want": want, "variables": e.vals})
		}
		res.Eval(len(cases))
	}
	return done
}

// ---------------------------------------------------------------------------

func cpuSeconds() float64 {
	var ru syscall.Rusage
	syscall.Getrusage(syscall.RUSAGE_SELF, &ru)
	return float64(ru.Utime.Sec+ru.Stime.Sec) + float64(ru.Utime.Usec+ru.Stime.Usec)/1e6
}

func main() {
	res := mon.NewResult("C20")
	res.Rule = "part 1: configurations generated from (seed,index): blacklist entries (6 kinds), rewriters (plain/regex, max, not), aggregations (9 command functions + percentiles TOML-only, 6 filter options, sub/substr spellings, cache and dropRaw given true/false/omitted), carbon routes (3 types, 6 filter options, 1-4 destinations each with a random subset of the 18 documented destination options) and grafanaNet routes (all 11 options, booleans true/false/omitted, 1-2 routes per file, sometimes next to a carbon route); each option value unique within its case and never equal to a documented default; each configuration is built from its TOML form and from the equivalent commands (directly, or through an [init] cmds array) and every field is compared with written-value-else-documented-default; names, patterns, keys and templates are mixed-case and use \\S \\D \\W \\d \\B, [A-Z] ranges and named groups, and every filter/rewriter probe is repeated lower-cased, upper-cased and case-swapped; part 1b: groups of 4 concurrent sessions (own table each, barrier before each round) apply generated blacklist/rewriter/aggregation/carbon configurations through imperatives.Apply (in a quarter of the rounds also as TOML) and are judged by the same oracle; evaluation = one configuration (both syntaxes) or one '$'-string; non-trivial = at least one option given and one left to its default and both syntaxes built; distinct = distinct given/omitted patterns (values ignored). part 2: '$'-strings from a grammar of documented references, near misses, group references ($1 ${1} ${1}x), $$ ${} unterminated braces, shell specials, non-ASCII bytes, read through the real readConfigFile in the real binary; non-trivial = contains a documented reference and a '$' that must stay. Values are restricted to what the command grammar can express at all: no blanks, no quotes or '#', not all digits, not starting with true/false or a command keyword. kafkaMdm, pubsub and cloudWatch routes cannot be constructed offline (brokers / credentials) and are out of scope."
	res.Assume("the documentation (docs/config.md, docs/tcp-admin-interface.md, docs/aggregation.md, docs/rewriting.md, examples/carbon-relay-ng.ini) is the specification; 2M = 2 000 000, 10k = 10 000, 200MiB = 200*1024*1024")
	res.Assume("${HOST} is the first label of os.Hostname() of the machine running the check")
	res.Assume("table.MockTable (embedded, with GetSpoolDir overridden to a scratch directory) receives exactly what the real table would")
	res.Assume("grafanaNet routes are inspected but never shut down (known defect F7); destinations point at loopback addresses nothing listens on (127.20-219.x.y, ports 1-16, checked at start-up)")
	res.Assume("concurrent admin sessions are within the documented use of the admin interface (one goroutine per connection, no limit on clients); the sessions of part 1b use separate tables, so only the command interpreter is shared between them")
	res.Assume("the read-only accessors under /verif/access/{destination,route,nsqd,cmd/carbon-relay-ng} copy fields and call readConfigFile; they change nothing")

	debug.SetGCPercent(400) // many short-lived tables; memory is not the scarce resource here
	mon.InitRepo()
	stdlog.SetOutput(io.Discard)
	scratch := mon.Scratch()
	watch := &gnWatch{posts: map[string]int{}}
	srv := httptest.NewServer(watch)
	defer srv.Close()
	schemas := filepath.Join(scratch, "storage-schemas.conf")
	aggs := filepath.Join(scratch, "storage-aggregation.conf")
	os.WriteFile(schemas, []byte("[default]\npattern = .*\nretentions = 10s:1d\n"), 0644)
	os.WriteFile(aggs, []byte("[default]\npattern = .*\nxFilesFactor = 0.5\naggregationMethod = average\n"), 0644)

	// part 2 runs next to part 1 (it is an external process per batch)
	var wg sync.WaitGroup
	nStrings := mon.N(2000, 500000)
	expandDone := 0
	wg.Add(1)
	go func() {
		defer wg.Done()
		expandDone = runExpand(res, scratch, nStrings)
	}()

	// the loopback ports the destinations point at must refuse connections
	for _, p := range deadPorts {
		if c, err := net.DialTimeout("tcp", fmt.Sprintf("127.20.0.1:%d", p), 5*time.Second); err == nil {
			c.Close()
			res.Inconclusive(fmt.Sprintf("port %d accepts connections on this machine; destinations pointing there are not inert", p))
		}
	}

	// part 1. One configuration at a time; parallelism comes from the driver's shards. (imperatives.Apply /
	// ParseDestinations re-initialise a package-level token table on every call, which the race detector
	// reports as soon as two calls overlap; part 1b overlaps them on purpose, see there.)
	n := mon.N(200, 5000)
	ngn := mon.N(24, 64)
	if v, err := strconv.Atoi(os.Getenv("C20_N")); err == nil && v > 0 { // development aid only
		n = v
	}
	t0 := time.Now()
	ran := 0
	w0 := &worker{}
	for i := 0; i < n; i++ {
		if !mon.Mine(i) {
			continue
		}
		if g := runtime.NumGoroutine(); g > 7000 {
			res.Inconclusive(fmt.Sprintf("stopped at case %d: %d goroutines alive (leaked by the entries built so far), too close to the race detector's limit", i, g))
			break
		}
		w0.runCase(res, genCase(mon.Seed(), i), scratch, watch, nil)
		ran++
	}
	w0.drainPending(true)
	fmt.Printf("part 1: %d configurations in %.1fs\n", ran, time.Since(t0).Seconds())
	t0 = time.Now()
	// part 1b: concurrent sessions, after the sequential cases (which stay undisturbed) are done
	sGroups, sSess, sRounds := mon.N(6, 24), 4, mon.N(6, 8)
	cpu0 := cpuSeconds()
	ranSess := runSessions(res, scratch, watch, sGroups, sSess, sRounds)
	fmt.Printf("part 1b: %d configurations in concurrent sessions in %.1fs (%.1f cpu-s of this process, part 2 included)\n", ranSess, time.Since(t0).Seconds(), cpuSeconds()-cpu0)
	t0 = time.Now()
	// grafanaNet configurations, one at a time, last (their routes stay alive); the ones that leave
	// concurrency and bufSize to the (large) defaults come at the very end
	rangn := 0
	w := &worker{}
	for pass := 0; pass < 2; pass++ {
		for i := 0; i < ngn; i++ {
			if !mon.Mine(i) || gnBig(i) != (pass == 1) {
				continue
			}
			w.runCase(res, genGNCase(mon.Seed(), i, srv.URL, schemas, aggs), scratch, watch, nil)
			rangn++
		}
	}
	w.drainPending(true)
	fmt.Printf("part 1: %d grafanaNet configurations in %.1fs\n", rangn, time.Since(t0).Seconds())
	t0 = time.Now()
	wg.Wait()
	fmt.Printf("part 2: waited another %.1fs for %d strings\n", time.Since(t0).Seconds(), expandDone)

	// coverage of the documented options: each must have been seen both given and omitted
	both, total := 0, 0
	for k := range cov.set {
		if strings.HasPrefix(k, "blacklist.") || strings.Contains(k, "old spelling") {
			continue
		}
		total++
		if cov.omitted[k] > 0 {
			both++
		}
	}
	for k := range cov.omitted {
		if cov.set[k] == 0 {
			total++
		}
	}
	res.Set("options_given_by_name", cov.set)
	res.Set("options_omitted_by_name", cov.omitted)
	var ru, ruc syscall.Rusage
	syscall.Getrusage(syscall.RUSAGE_SELF, &ru)
	syscall.Getrusage(syscall.RUSAGE_CHILDREN, &ruc)
	res.Set("cpu_s_check_process", int(ru.Utime.Sec+ru.Stime.Sec))
	res.Set("cpu_s_children_relay_build_and_runs", int(ruc.Utime.Sec+ruc.Stime.Sec))
	res.Set("goroutines_at_end", runtime.NumGoroutine())
	buf := make([]byte, 1<<24)
	stack := buf[:runtime.Stack(buf, true)]
	res.Set("leaked_connect_goroutines", bytes.Count(stack, []byte("(*Destination).updateConn")))
	res.Floor("configurations", ran, n)
	res.Floor("grafananet_configurations", rangn, ngn)
	res.Floor("session_configurations", ranSess, sGroups*sSess*sRounds)
	{
		res.Count("session_builds_overlapping_another_sessions_build", 0)
		res.Count("session_commands_applied", 0)
		over, _ := res.Extra["session_builds_overlapping_another_sessions_build"].(int)
		ncmd, _ := res.Extra["session_commands_applied"].(int)
		// a sessions part whose builds never met would have observed nothing about concurrency
		res.Floor("session_builds_overlapping_another_sessions_build", over, sGroups*sSess*sRounds/4)
		res.Floor("session_commands_applied", ncmd, sGroups*sSess*sRounds)
		// the case-folding monitors need names with letters of both cases
		res.Count("filter_probes_mixed_case", 0)
		mixed, _ := res.Extra["filter_probes_mixed_case"].(int)
		res.Floor("filter_probes_mixed_case", mixed, 10*n)
	}
	res.Floor("expand_strings", expandDone, nStrings)
	if _, ns := mon.Shard(); ns == 1 {
		res.Floor("documented_options_seen_given_and_omitted", both, total)
	}
	res.Write()
}
