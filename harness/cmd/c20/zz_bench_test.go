package main

import (
	"fmt"
	"os"
	"testing"
	"time"

	"verifharness/mon"
)

func TestBenchCost(t *testing.T) {
	mon.InitRepo()
	os.Setenv("VERIF_TIER", "quick")
	var tt, tc, ts time.Duration
	var bytesCmd int
	n := 0
	for i := 0; i < 400 && n < 30; i++ {
		c := genCase(1, i)
		if c.Kind != "carbon" {
			continue
		}
		n++
		txt := tomlOf(c)
		cmds := cmdsOf(c)
		t0 := time.Now()
		a, err := buildFromTOML(txt, "/dev/shm/c20-bench/a")
		if err != nil {
			t.Fatal(err)
		}
		tt += time.Since(t0)
		t0 = time.Now()
		b, err := buildFromCmds(cmds, "/dev/shm/c20-bench/b")
		if err != nil {
			t.Fatal(err)
		}
		tc += time.Since(t0)
		for _, x := range cmds {
			bytesCmd += len(x)
		}
		time.Sleep(5 * time.Millisecond)
		t0 = time.Now()
		a.shutdown()
		b.shutdown()
		ts += time.Since(t0)
	}
	fmt.Printf("carbon cases=%d toml=%v cmd=%v shutdown=%v cmdbytes=%d\n", n, tt, tc, ts, bytesCmd)
}
